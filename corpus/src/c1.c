/* plain C: structures, unions, enumerations, typedef / cv chains, bit fields, function pointers,
   static inline functions (abstract origins when optimised), nested lexical blocks, arrays */
#include <stddef.h>
typedef unsigned char u8;
typedef const volatile u8 cvu8;
enum color { RED, GREEN = 5, BLUE = -3 };
enum big { HUGE_E = 0x7fffffff, NEG_E = -0x7fffffff - 1 };
struct point { int x, y; };
struct node { struct node *next; struct point p; unsigned flags : 3; signed sbit : 5; cvu8 tag; enum color c; };
union u { long l; double d; char bytes[8]; };
typedef int (*binop) (int, int);
static inline int add (int a, int b) { return a + b; }
static inline int twice (int a) { int t = add (a, a); { int inner = t * 2; t += inner; } return t; }
const long long big_const = -9223372036854775807LL - 1;
const unsigned long long ubig = 18446744073709551615ULL;
static struct node nodes[4];
int matrix[3][5];
int
apply (binop f, int a, int b)
{
  int r = f (a, b);
  for (int i = 0; i < 3; ++i)
    {
      int sq = i * i;
      r += sq + twice (i);
    }
  return r + nodes[1].p.x + matrix[2][4];
}
int
main (int argc, char **argv)
{
  union u v; v.l = argc;
  enum big e = argc > 1 ? HUGE_E : NEG_E;
  return apply (add, (int) v.l, (int) e) + (int) sizeof (struct node) + (argv[0] != NULL);
}
