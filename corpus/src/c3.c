/* meant for -O2: location lists, inlined subroutines, call sites with entry values, registers */
struct s { long a, b; };
extern int ext (int);
static int helper (int x, struct s *p) { p->a += x; return ext (x) + (int) p->b; }
int
work (int n, struct s *p)
{
  int acc = 0;
  for (int i = 0; i < n; ++i)
    {
      int h = helper (i, p);
      acc += h * (i & 3);
      if (acc > 1000)
	acc = ext (acc);
    }
  return acc + helper (n, p);
}
long
sum (struct s v, long k)
{
  long r = v.a * k;
  r += ext ((int) r);
  return r + v.b;
}
