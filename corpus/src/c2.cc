// C++: namespaces, classes with declarations and out-of-line definitions (DW_AT_specification), templates with
// value parameters (DW_AT_const_value), scoped enumerations with underlying types, static constexpr members,
// inheritance, references, nullptr_t
#include <cstddef>
namespace outer { namespace inner {
  enum class small : signed char { lo = -128, hi = 127 };
  enum class wide : unsigned long { top = 18446744073709551615UL };
  template <int N, bool B, char C> struct tpl { static constexpr int value = N; int arr[N > 0 ? N : 1]; bool b = B; char c = C; };
  struct base { virtual ~base () {} virtual int f (int) const; int bx; };
  struct derived : base { int f (int) const override; static const short sc = -7; static constexpr unsigned char uc = 250; decltype (nullptr) np; };
  int base::f (int a) const { return a + bx; }
  int derived::f (int a) const { return a * 2 + sc + uc; }
} }
template <typename T> static T maxof (T a, T b) { return a > b ? a : b; }
int
use (outer::inner::derived &d, int k)
{
  outer::inner::tpl <3, true, 'x'> t3;
  outer::inner::tpl <-1, false, '\377'> tm;
  outer::inner::small s = outer::inner::small::lo;
  outer::inner::wide w = outer::inner::wide::top;
  return d.f (k) + t3.value + tm.value + (int) s + (int) (unsigned long) w + maxof (k, 2) + (int) maxof (1.5, 2.5);
}
int main () { outer::inner::derived d; d.bx = 1; return use (d, 4); }
