// Correspondence harness for libzwerg/coverage.cc (C16).
// stdin:  <base> <op> <op> ...     op = a:S:L | r:S:L | i:S:L | c:S:L | o:S:L | A:S:L,S:L,.. | R:S:L,..
// stdout: per op, separated by ';':  state after a/r/A/R, result of i, 0/1 for c/o
#include <cinttypes>
#include <cstdio>
#include <iostream>
#include <sstream>
#include <string>
#include <vector>
#include "coverage.hh"

static std::string
show (coverage const &c, uint64_t base)
{
  std::ostringstream o;
  for (size_t i = 0; i < c.size (); ++i)
    {
      if (i) o << ",";
      o << (c.at (i).start - base) << "+" << c.at (i).length;
    }
  return o.str ();
}

static std::vector <std::pair <uint64_t, uint64_t>>
ranges (std::string const &s)
{
  std::vector <std::pair <uint64_t, uint64_t>> ret;
  std::istringstream is (s);
  std::string tok;
  while (std::getline (is, tok, ','))
    {
      uint64_t a, b;
      if (sscanf (tok.c_str (), "%" SCNu64 ":%" SCNu64, &a, &b) == 2)
	ret.push_back ({a, b});
    }
  return ret;
}

int
main ()
{
  std::string line;
  while (std::getline (std::cin, line))
    {
      std::istringstream is (line);
      uint64_t base;
      is >> base;
      coverage cov;
      std::string tok, out, flags;      // flags: what remove / remove_all returned ("something was actually removed")
      bool first = true;
      while (is >> tok)
	{
	  char op = tok[0];
	  auto rs = ranges (tok.substr (2));
	  std::string res;
	  if (op == 'a') { cov.add (base + rs[0].first, rs[0].second); res = show (cov, base); }
	  else if (op == 'r') { flags += cov.remove (base + rs[0].first, rs[0].second) ? '1' : '0'; res = show (cov, base); }
	  else if (op == 'i') res = show (cov.intersect (base + rs[0].first, rs[0].second), base);
	  else if (op == 'c') res = cov.is_covered (base + rs[0].first, rs[0].second) ? "1" : "0";
	  else if (op == 'o') res = cov.is_overlap (base + rs[0].first, rs[0].second) ? "1" : "0";
	  else if (op == 'A' || op == 'R')
	    {
	      coverage other;
	      for (auto &r: rs) other.add (base + r.first, r.second);
	      if (op == 'A') cov.add_all (other); else flags += cov.remove_all (other) ? '1' : '0';
	      res = show (cov, base);
	    }
	  else res = "bad-op";
	  if (! first) out += ";";
	  first = false;
	  out += res;
	}
      puts ((out + " #" + flags).c_str ());
    }
  return 0;
}
