// Correspondence harness for libzwerg/int.cc (C08).
// stdin:  <op> <a.u> <a.sign> <b.u> <b.sign>     (one per line)
// stdout: ok <u> <sign> | err overflow | err div0 | err other | b 0|1
#include <cassert>
#include <cstdio>
#include <cstring>
#include <cinttypes>
#include <stdexcept>
#include <string>
#include "int.hh"

static mpz_class mk (uint64_t u, int s)
{ return mpz_class {u, s ? signedness::sign : signedness::unsign}; }

int
main ()
{
  char op[16];
  uint64_t au, bu;
  int as, bs;
  while (scanf ("%15s %" SCNu64 " %d %" SCNu64 " %d", op, &au, &as, &bu, &bs) == 5)
    {
      mpz_class a = mk (au, as), b = mk (bu, bs);
      std::string o = op;
      try
	{
	  bool isb = false, bv = false;
	  mpz_class r;
	  if (o == "add") r = a + b;
	  else if (o == "sub") r = a - b;
	  else if (o == "mul") r = a * b;
	  else if (o == "div") r = a / b;
	  else if (o == "mod") r = a % b;
	  else if (o == "neg") r = -a;
	  else if (o == "lt") { isb = true; bv = a < b; }
	  else if (o == "le") { isb = true; bv = a <= b; }
	  else if (o == "gt") { isb = true; bv = a > b; }
	  else if (o == "ge") { isb = true; bv = a >= b; }
	  else if (o == "eq") { isb = true; bv = a == b; }
	  else if (o == "ne") { isb = true; bv = a != b; }
	  else { puts ("bad-op"); continue; }
	  if (isb)
	    printf ("b %d\n", bv ? 1 : 0);
	  else
	    printf ("ok %" PRIu64 " %d\n", r.m_u, r.is_signed () ? 1 : 0);
	}
      catch (std::domain_error &e)
	{
	  if (strncmp (e.what (), "overflow", 8) == 0) puts ("err overflow");
	  else if (strncmp (e.what (), "division by zero", 16) == 0) puts ("err div0");
	  else puts ("err other");
	}
      catch (...)
	{
	  puts ("err other");
	}
    }
  return 0;
}
