// General query harness: parse / compile / run Zwerg queries in-process against the
// objects built from /repo's working tree, print canonical results.
//
// stdin lines:
//   Q <flags> <hexquery> [<hex ELF path>]  run on an empty stack (or on the Dwarf value of the file).
//                              flags: '-' plain, 'n' skip tree::simplify, 't' also print the tree
//   T <flags> <hexquery>       parse only, print the tree ('s' = after simplify)
//   X <hexP> <hexQ>            run P on the empty stack; then compile Q once and execute it on every
//                              stack P yielded (API-level input stacks)
//   D                          configuration: type codes and address order of constant domains
// stdout per request: lines  T.. / R <stack> / W <soft error line> / E <phase> <message>, then "."
#include "zwcommon.hh"
#include "libzwerg-dw.h"
#include <algorithm>
#include <cstring>
#include <unistd.h>
#include <csignal>
#include <sys/mman.h>
#include <sys/resource.h>

static void
on_alarm (int)
{
  // a request ran away (e.g. `elem' over a 2^60-address set): say so and stop.
  static char const msg[] = "\nE timeout\n.\n";
  if (write (1, msg, sizeof msg - 1) < 0)
    _exit (4);
  _exit (3);
}

using namespace zwh;

static std::unique_ptr <vocabulary> g_voc;
static long g_budget = 200000;	// pulls per request; exceeding it is reported, not hidden

struct compiled
{
  layout l;
  std::shared_ptr <op_origin> origin;
  std::shared_ptr <op> o;
};

static compiled
compile (std::string const &q, bool simplify, tree *out_tree = nullptr)
{
  tree t = parse_query (q.data (), q.data () + q.size ());
  if (simplify)
    t.simplify ();
  if (out_tree)
    *out_tree = t;
  compiled c;
  c.origin = std::make_shared <op_origin> (c.l);
  c.o = t.build_exec (c.l, c.origin, *g_voc);
  return c;
}

static void
emit_soft (cerr_capture &cap)
{
  for (auto &l: cap.lines ())
    std::cout << "W " << l << "\n";
}

// returns false on run-time error
static bool
run (compiled &c, stack::uptr in, std::vector <stack::uptr> *collect = nullptr)
{
  scon sc {c.l};
  scon_guard sg {sc, *c.o};
  c.origin->set_next (sc, std::move (in));
  long n = 0;
  size_t bytes = 0;
  try
    {
      while (auto stk = c.o->next (sc))
	{
	  if (collect)
	    collect->push_back (std::make_unique <stack> (*stk));
	  else
	    {
	      std::string line = show_stack (*stk);
	      bytes += line.size ();
	      std::cout << "R " << line << "\n";
	    }
	  if (bytes > 400000)
	    {
	      std::cout << "E budget more than 400000 bytes of results\n";
	      return false;
	    }
	  if (++n > g_budget)
	    {
	      std::cout << "E budget more than " << g_budget << " results\n";
	      return false;
	    }
	}
    }
  catch (std::exception const &e)
    {
      std::cout << "E run " << e.what () << "\n";
      return false;
    }
  return true;
}

static stack::uptr
input_stack (std::string const &path)
{
  auto stk = std::make_unique <stack> ();
  if (! path.empty ())
    {
      zw_error *err = nullptr;
      char const *names[] = {path.c_str ()};
      zw_value *dw = zw_value_init_dwarf (path.c_str (), 0, &err);
      if (dw == nullptr)
	{
	  std::string m = zw_error_message (err);
	  zw_error_destroy (err);
	  throw std::runtime_error ("open: " + m);
	}
      (void) names;
      stk->push (std::unique_ptr <value> (dw));
    }
  return stk;
}

int
main (int argc, char **argv)
{
  if (argc > 1)
    g_budget = atol (argv[1]);
  g_voc = full_vocabulary ();
  unsigned request_secs = argc > 2 ? atoi (argv[2]) : 10;
  {
#ifndef __SANITIZE_ADDRESS__
    // (AddressSanitizer reserves terabytes of address space: no limit there)
    struct rlimit rl = {(rlim_t) 6 << 30, (rlim_t) 6 << 30};
    setrlimit (RLIMIT_AS, &rl);
#endif
    signal (SIGALRM, on_alarm);
  }
  std::string line;
  while (std::getline (std::cin, line))
    {
      std::istringstream is (line);
      std::string cmd;
      is >> cmd;
      std::cout.flush ();
      alarm (request_secs);
      if (cmd == "D")
	{
	  std::cout << "types";
	  for (auto &p: value_type::get_names ())
	    std::cout << " " << p.second << "=" << (int) p.first;
	  std::cout << "\n";
	  auto tab = domtab ();
	  std::sort (tab.begin (), tab.end (),
		     [] (auto const &a, auto const &b)
		     { return std::less <constant_dom const *> {} (a.first, b.first); });
	  std::cout << "domorder";
	  for (auto &e: tab)
	    std::cout << " " << e.second;
	  std::cout << "\n.\n";
	  continue;
	}
      if (cmd == "V")
	{
	  std::cout << "words";
	  for (auto const &b: g_voc->get_builtins ())
	    std::cout << " " << hex (b.first);
	  std::cout << "\n.\n";
	  continue;
	}
      if (cmd == "K")
	{
	  // named constants of the vocabulary: every upper-case word that yields exactly one constant
	  std::cout << "consts";
	  for (auto const &b: g_voc->get_builtins ())
	    {
	      std::string const &w = b.first;
	      if (w.size () < 3 || ! isupper ((unsigned char) w[0]) || w.find_first_not_of
		    ("ABCDEFGHIJKLMNOPQRSTUVWXYZ0123456789_abcdefghijklmnopqrstuvwxyz") != std::string::npos)
		continue;
	      try
		{
		  cerr_capture cap;
		  compiled c = compile (w, true);
		  std::vector <stack::uptr> out;
		  if (run (c, std::make_unique <stack> (), &out) && out.size () == 1 && out[0]->size () == 1)
		    if (auto cst = value::as <value_cst> (&out[0]->get (0)))
		      std::cout << " " << hex (w) << "=" << hex (domlabel (cst->get_constant ().dom ())) << "="
				<< den (cst->get_constant ().value ());
		}
	      catch (...)
		{}
	    }
	  std::cout << "\n.\n";
	  continue;
	}
      if (cmd == "Q" || cmd == "T")
	{
	  std::string flags, hq, hpath;
	  is >> flags >> hq >> hpath;
	  std::string q = unhex (hq);
	  cerr_capture cap;
	  try
	    {
	      if (cmd == "T")
		{
		  tree t = parse_query (q.data (), q.data () + q.size ());
		  if (flags.find ('s') != std::string::npos)
		    t.simplify ();
		  std::ostringstream ts;
		  ts << t;
		  std::cout << "T " << hex (ts.str ()) << "\n";
		}
	      else
		{
		  tree t;
		  compiled c = compile (q, flags.find ('n') == std::string::npos, &t);
		  if (flags.find ('t') != std::string::npos)
		    {
		      std::ostringstream ts;
		      ts << t;
		      std::cout << "T " << hex (ts.str ()) << "\n";
		    }
		  stack::uptr in;
		  try
		    {
		      in = input_stack (unhex (hpath));
		    }
		  catch (std::exception const &e)
		    {
		      std::cout << "E open " << e.what () << "\n";
		    }
		  if (in)
		    run (c, std::move (in));
		}
	    }
	  catch (std::exception const &e)
	    {
	      std::cout << "E compile " << e.what () << "\n";
	    }
	  catch (...)
	    {
	      std::cout << "E compile unknown\n";
	    }
	  emit_soft (cap);
	  std::cout << "." << std::endl;
	  continue;
	}
      if (cmd == "A")
	{
	  // C API contract: the query is handed over with an explicit length, no terminator, and
	  // sits right before an inaccessible page.
	  std::string hq;
	  is >> hq;
	  std::string q = unhex (hq);
	  static char *page = nullptr;
	  static size_t const PG = 1 << 16;
	  if (page == nullptr)
	    {
	      page = (char *) mmap (nullptr, 2 * PG, PROT_READ | PROT_WRITE, MAP_PRIVATE | MAP_ANONYMOUS, -1, 0);
	      mprotect (page + PG, PG, PROT_NONE);
	    }
	  cerr_capture cap;
	  if (q.size () > PG)
	    std::cout << "A skip\n";
	  else
	    {
	      char *buf = page + PG - q.size ();
	      memcpy (buf, q.data (), q.size ());
	      static zw_vocabulary *voc = nullptr;
	      zw_error *err = nullptr;
	      if (voc == nullptr)
		{
		  voc = zw_vocabulary_init (&err);
		  zw_vocabulary_add (voc, zw_vocabulary_core (&err), &err);
		  zw_vocabulary_add (voc, zw_vocabulary_dwarf (&err), &err);
		}
	      err = nullptr;
	      zw_query *zq = zw_query_parse_len (voc, buf, q.size (), &err);
	      if ((zq == nullptr) != (err != nullptr))
		std::cout << "A CONTRACT query=" << (zq != nullptr) << " err=" << (err != nullptr) << "\n";
	      else if (zq == nullptr)
		{
		  char const *m = zw_error_message (err);
		  if (m == nullptr || *m == 0)
		    std::cout << "A CONTRACT empty-message\n";
		  else
		    {
		      // the message speaks about the input alone: rejecting the same bytes again gives the same message
		      std::string m1 = m;
		      zw_error *err2 = nullptr;
		      zw_query *zq2 = zw_query_parse_len (voc, buf, q.size (), &err2);
		      char const *m2 = err2 != nullptr ? zw_error_message (err2) : nullptr;
		      if (zq2 != nullptr || m2 == nullptr || m1 != m2)
			std::cout << "A CONTRACT unstable-message " << hex (m1) << " " << hex (m2 ? m2 : "") << "\n";
		      else
			std::cout << "A err " << hex (m) << "\n";
		      if (zq2 != nullptr)
			zw_query_destroy (zq2);
		      if (err2 != nullptr)
			zw_error_destroy (err2);
		    }
		  zw_error_destroy (err);
		}
	      else
		{
		  // run it: failures must surface through zw_result_next returning false with an error
		  zw_stack *in = zw_stack_init (&err);
		  zw_result *res = zw_query_execute (zq, in, &err);
		  long n = 0;
		  std::string verdict = "A ok";
		  while (res != nullptr)
		    {
		      zw_stack *out = nullptr;
		      err = nullptr;
		      bool ok = zw_result_next (res, &out, &err);
		      if (ok != (err == nullptr))
			{
			  verdict = "A CONTRACT next";
			  break;
			}
		      if (! ok)
			{
			  char const *m = zw_error_message (err);
			  verdict = (m == nullptr || *m == 0) ? "A CONTRACT empty-message" : "A runerr";
			  zw_error_destroy (err);
			  break;
			}
		      if (out == nullptr)
			break;
		      zw_stack_destroy (out);
		      if (++n > 200)
			break;
		    }
		  std::cout << verdict << " " << n << "\n";
		  if (res)
		    zw_result_destroy (res);
		  zw_stack_destroy (in);
		  zw_query_destroy (zq);
		}
	    }
	  std::cout << "." << std::endl;
	  continue;
	}
      if (cmd == "H")
	{
	  // histories over one compiled query: H <seed> <hexquery> <hexP> [<hex other query>|- [<hex ELF path>]]
	  // P yields the input stacks (at most three are used); with a path, P runs on the Dwarf value
	  // of that file, so all executions share one Dwarf (and its caches).  Every pull of every
	  // execution is compared with a fresh parse-and-run on that input — with a path, on the
	  // input rebuilt over a freshly opened Dwarf.
	  unsigned seed;
	  std::string hq, hp, hother, hpath;
	  is >> seed >> hq >> hp >> hother >> hpath;
	  if (hother == "-")
	    hother.clear ();
	  std::string q = unhex (hq), p = unhex (hp), other = unhex (hother), path = unhex (hpath);
	  cerr_capture cap;
	  try
	    {
	      compiled cp = compile (p, true);
	      auto make_inputs = [&] ()
		{
		  std::vector <stack::uptr> ret;
		  if (! run (cp, input_stack (path), &ret))
		    throw std::runtime_error ("input program failed");
		  if (ret.size () > 3)
		    ret.resize (3);
		  if (ret.empty ())
		    ret.push_back (input_stack (path));
		  return ret;
		};
	      std::vector <stack::uptr> ins = make_inputs ();
	      auto fresh = [&] (stack const &in, std::string const &text)
		{
		  std::vector <std::string> ret;
		  compiled c = compile (text, true);
		  scon sc {c.l};
		  scon_guard sg {sc, *c.o};
		  c.origin->set_next (sc, std::make_unique <stack> (in));
		  try
		    {
		      for (int n = 0; n < 300; ++n)
			{
			  auto stk = c.o->next (sc);
			  if (stk == nullptr) { ret.push_back ("END"); break; }
			  ret.push_back (show_stack (*stk));
			}
		    }
		  catch (std::exception const &e)
		    {
		      ret.push_back (std::string ("E ") + e.what ());
		    }
		  return ret;
		};
	      std::vector <std::vector <std::string>> ref;
	      std::vector <std::string> in_before;
	      for (size_t k = 0; k < ins.size (); ++k)
		{
		  if (path.empty ())
		    ref.push_back (fresh (*ins[k], q));
		  else
		    {
		      // a Dwarf nobody has looked at yet
		      auto again = make_inputs ();
		      if (again.size () != ins.size ())
			throw std::runtime_error ("input program is not deterministic");
		      ref.push_back (fresh (*again[k], q));
		    }
		  in_before.push_back (show_stack (*ins[k]));
		}
	      // the shared compiled query; optionally another query text is compiled before / after it
	      std::unique_ptr <compiled> pre;
	      if (! other.empty () && (seed & 1))
		pre = std::make_unique <compiled> (compile (other, true));
	      compiled c = compile (q, true);
	      std::unique_ptr <compiled> post;
	      if (! other.empty () && ! (seed & 1))
		post = std::make_unique <compiled> (compile (other, true));
	      // the state buffer and its guard live and die together (guard first)
	      struct exec_t
	      {
		scon sc;
		scon_guard sg;
		exec_t (layout const &l, op &o) : sc {l}, sg {sc, o} {}
	      };
	      struct live_t
	      {
		std::unique_ptr <exec_t> ex;
		size_t k, i;
		bool dead;
	      };
	      std::vector <live_t> live;
	      uint64_t rs = seed * 2654435761u + 12345;
	      auto rnd = [&] () { rs = rs * 6364136223846793005ULL + 1442695040888963407ULL; return (unsigned) (rs >> 33); };
	      long pulls = 0;
	      std::string verdict;
	      for (int step = 0; step < 60 && verdict.empty (); ++step)
		{
		  unsigned op = rnd () % 5;
		  if ((op == 0 || live.empty ()) && live.size () < 3)
		    {
		      size_t k = rnd () % ins.size ();
		      live_t l;
		      l.ex = std::make_unique <exec_t> (c.l, *c.o);
		      c.origin->set_next (l.ex->sc, std::make_unique <stack> (*ins[k]));
		      l.k = k; l.i = 0; l.dead = false;
		      live.push_back (std::move (l));
		    }
		  else if (op == 4 && ! live.empty ())
		    live.erase (live.begin () + rnd () % live.size ());	// abandon a result set
		  else if (! live.empty ())
		    {
		      live_t &l = live[rnd () % live.size ()];
		      if (l.dead || l.i >= ref[l.k].size ())
			continue;
		      std::string got;
		      try
			{
			  auto stk = c.o->next (l.ex->sc);
			  got = stk == nullptr ? "END" : show_stack (*stk);
			}
		      catch (std::exception const &e)
			{
			  got = std::string ("E ") + e.what ();
			}
		      ++pulls;
		      if (got != ref[l.k][l.i])
			verdict = "MISMATCH input " + std::to_string (l.k) + " pull " + std::to_string (l.i)
			  + " got " + got + " want " + ref[l.k][l.i];
		      if (got == "END" || got[0] == 'E')
			l.dead = true;
		      ++l.i;
		    }
		}
	      live.clear ();
	      for (size_t k = 0; k < ins.size () && verdict.empty (); ++k)
		if (show_stack (*ins[k]) != in_before[k])
		  verdict = "INPUT-MODIFIED " + std::to_string (k);
	      // the same text compiled again behaves the same
	      for (size_t k = 0; k < ins.size () && verdict.empty (); ++k)
		if (fresh (*ins[k], q) != ref[k])
		  verdict = "RECOMPILE-DIFFERS input " + std::to_string (k);
	      if (verdict.empty ())
		std::cout << "H ok pulls=" << pulls << " inputs=" << ins.size () << "\n";
	      else
		std::cout << "H " << verdict << "\n";
	    }
	  catch (std::exception const &e)
	    {
	      std::cout << "E compile " << e.what () << "\n";
	    }
	  std::cout << "." << std::endl;
	  continue;
	}
      if (cmd == "X")
	{
	  std::string hp, hq;
	  is >> hp >> hq;
	  cerr_capture cap;
	  try
	    {
	      compiled p = compile (unhex (hp), true);
	      std::vector <stack::uptr> ins;
	      if (run (p, std::make_unique <stack> (), &ins))
		{
		  compiled c = compile (unhex (hq), true);
		  for (auto &in: ins)
		    {
		      std::cout << "I " << show_stack (*in) << "\n";
		      if (! run (c, std::make_unique <stack> (*in)))
			break;
		    }
		}
	    }
	  catch (std::exception const &e)
	    {
	      std::cout << "E compile " << e.what () << "\n";
	    }
	  emit_soft (cap);
	  std::cout << "." << std::endl;
	  continue;
	}
      std::cout << "bad-op\n." << std::endl;
    }
  return 0;
}
