// General query harness: parse / compile / run Zwerg queries in-process against the
// objects built from /repo's working tree, print canonical results.
//
// stdin lines:
//   Q <flags> <hexquery> [<hex ELF path>]  run on an empty stack (or on the Dwarf value of the file).
//                              flags: '-' plain, 'n' skip tree::simplify, 't' also print the tree
//   T <flags> <hexquery>       parse only, print the tree ('s' = after simplify)
//   X <hexP> <hexQ>            run P on the empty stack; then compile Q once and execute it on every
//                              stack P yielded (API-level input stacks)
//   D                          configuration: type codes and address order of constant domains
// stdout per request: lines  T.. / R <stack> / W <soft error line> / E <phase> <message>, then "."
#include "zwcommon.hh"
#include "libzwerg-dw.h"
#include <algorithm>
#include <cstring>
#include <unistd.h>
#include <csignal>
#include <sys/mman.h>
#include <sys/resource.h>

static void
on_alarm (int)
{
  // a request ran away (e.g. `elem' over a 2^60-address set): say so and stop.
  static char const msg[] = "\nE timeout\n.\n";
  if (write (1, msg, sizeof msg - 1) < 0)
    _exit (4);
  _exit (3);
}

using namespace zwh;

static std::unique_ptr <vocabulary> g_voc;
static long g_budget = 200000;	// pulls per request; exceeding it is reported, not hidden

struct compiled
{
  layout l;
  std::shared_ptr <op_origin> origin;
  std::shared_ptr <op> o;
};

static compiled
compile (std::string const &q, bool simplify, tree *out_tree = nullptr)
{
  tree t = parse_query (q.data (), q.data () + q.size ());
  if (simplify)
    t.simplify ();
  if (out_tree)
    *out_tree = t;
  compiled c;
  c.origin = std::make_shared <op_origin> (c.l);
  c.o = t.build_exec (c.l, c.origin, *g_voc);
  return c;
}

static void
emit_soft (cerr_capture &cap)
{
  for (auto &l: cap.lines ())
    std::cout << "W " << l << "\n";
}

// returns false on run-time error
static bool
run (compiled &c, stack::uptr in, std::vector <stack::uptr> *collect = nullptr)
{
  scon sc {c.l};
  scon_guard sg {sc, *c.o};
  c.origin->set_next (sc, std::move (in));
  long n = 0;
  size_t bytes = 0;
  try
    {
      while (auto stk = c.o->next (sc))
	{
	  if (collect)
	    collect->push_back (std::make_unique <stack> (*stk));
	  else
	    {
	      std::string line = show_stack (*stk);
	      bytes += line.size ();
	      std::cout << "R " << line << "\n";
	    }
	  if (bytes > 400000)
	    {
	      std::cout << "E budget more than 400000 bytes of results\n";
	      return false;
	    }
	  if (++n > g_budget)
	    {
	      std::cout << "E budget more than " << g_budget << " results\n";
	      return false;
	    }
	}
    }
  catch (std::exception const &e)
    {
      std::cout << "E run " << e.what () << "\n";
      return false;
    }
  return true;
}

static stack::uptr
input_stack (std::string const &path)
{
  auto stk = std::make_unique <stack> ();
  if (! path.empty ())
    {
      zw_error *err = nullptr;
      char const *names[] = {path.c_str ()};
      zw_value *dw = zw_value_init_dwarf (path.c_str (), 0, &err);
      if (dw == nullptr)
	{
	  std::string m = zw_error_message (err);
	  zw_error_destroy (err);
	  throw std::runtime_error ("open: " + m);
	}
      (void) names;
      stk->push (std::unique_ptr <value> (dw));
    }
  return stk;
}

int
main (int argc, char **argv)
{
  if (argc > 1)
    g_budget = atol (argv[1]);
  g_voc = full_vocabulary ();
  unsigned request_secs = argc > 2 ? atoi (argv[2]) : 10;
  {
#ifndef __SANITIZE_ADDRESS__
    // (AddressSanitizer reserves terabytes of address space: no limit there)
    struct rlimit rl = {(rlim_t) 6 << 30, (rlim_t) 6 << 30};
    setrlimit (RLIMIT_AS, &rl);
#endif
    signal (SIGALRM, on_alarm);
  }
  std::string line;
  while (std::getline (std::cin, line))
    {
      std::istringstream is (line);
      std::string cmd;
      is >> cmd;
      std::cout.flush ();
      alarm (request_secs);
      if (cmd == "D")
	{
	  std::cout << "types";
	  for (auto &p: value_type::get_names ())
	    std::cout << " " << p.second << "=" << (int) p.first;
	  std::cout << "\n";
	  auto tab = domtab ();
	  std::sort (tab.begin (), tab.end (),
		     [] (auto const &a, auto const &b)
		     { return std::less <constant_dom const *> {} (a.first, b.first); });
	  std::cout << "domorder";
	  for (auto &e: tab)
	    std::cout << " " << e.second;
	  std::cout << "\n.\n";
	  continue;
	}
      if (cmd == "V")
	{
	  std::cout << "words";
	  for (auto const &b: g_voc->get_builtins ())
	    std::cout << " " << hex (b.first);
	  std::cout << "\n.\n";
	  continue;
	}
      if (cmd == "K")
	{
	  // named constants of the vocabulary: every upper-case word that yields exactly one constant
	  std::cout << "consts";
	  for (auto const &b: g_voc->get_builtins ())
	    {
	      std::string const &w = b.first;
	      if (w.size () < 3 || ! isupper ((unsigned char) w[0]) || w.find_first_not_of
		    ("ABCDEFGHIJKLMNOPQRSTUVWXYZ0123456789_abcdefghijklmnopqrstuvwxyz") != std::string::npos)
		continue;
	      try
		{
		  cerr_capture cap;
		  compiled c = compile (w, true);
		  std::vector <stack::uptr> out;
		  if (run (c, std::make_unique <stack> (), &out) && out.size () == 1 && out[0]->size () == 1)
		    if (auto cst = value::as <value_cst> (&out[0]->get (0)))
		      std::cout << " " << hex (w) << "=" << hex (domlabel (cst->get_constant ().dom ())) << "="
				<< den (cst->get_constant ().value ());
		}
	      catch (...)
		{}
	    }
	  std::cout << "\n.\n";
	  continue;
	}
      if (cmd == "Q" || cmd == "T")
	{
	  std::string flags, hq, hpath;
	  is >> flags >> hq >> hpath;
	  std::string q = unhex (hq);
	  cerr_capture cap;
	  try
	    {
	      if (cmd == "T")
		{
		  tree t = parse_query (q.data (), q.data () + q.size ());
		  if (flags.find ('s') != std::string::npos)
		    t.simplify ();
		  std::ostringstream ts;
		  ts << t;
		  std::cout << "T " << hex (ts.str ()) << "\n";
		}
	      else
		{
		  tree t;
		  compiled c = compile (q, flags.find ('n') == std::string::npos, &t);
		  if (flags.find ('t') != std::string::npos)
		    {
		      std::ostringstream ts;
		      ts << t;
		      std::cout << "T " << hex (ts.str ()) << "\n";
		    }
		  stack::uptr in;
		  try
		    {
		      in = input_stack (unhex (hpath));
		    }
		  catch (std::exception const &e)
		    {
		      std::cout << "E open " << e.what () << "\n";
		    }
		  if (in)
		    run (c, std::move (in));
		}
	    }
	  catch (std::exception const &e)
	    {
	      std::cout << "E compile " << e.what () << "\n";
	    }
	  catch (...)
	    {
	      std::cout << "E compile unknown\n";
	    }
	  emit_soft (cap);
	  std::cout << "." << std::endl;
	  continue;
	}
      if (cmd == "P")
	{
	  // every fallible C API call, on its success path and (where one can be provoked) on a failure path:
	  // NULL / false <=> *out_err set; and what the accessors read back is what went in
	  std::string hgood, hbad;
	  is >> hgood >> hbad;
	  std::string good = unhex (hgood), bad = unhex (hbad);
	  cerr_capture cap;
	  auto chk = [] (char const *name, bool ok, zw_error *&err, bool sane = true)
	    {
	      if (ok != (err == nullptr))
		std::cout << "P CONTRACT " << name << " ok=" << ok << " err=" << (err != nullptr) << "\n";
	      else if (! ok && (zw_error_message (err) == nullptr || *zw_error_message (err) == 0))
		std::cout << "P CONTRACT " << name << " empty-message\n";
	      else if (! sane)
		std::cout << "P CONTRACT " << name << " readback\n";
	      else
		std::cout << "P " << (ok ? "ok " : "err ") << name << "\n";
	      if (err != nullptr)
		zw_error_destroy (err);
	      err = nullptr;
	    };
	  zw_error *err = nullptr;
	  zw_vocabulary *voc = zw_vocabulary_init (&err);
	  chk ("zw_vocabulary_init", voc != nullptr, err);
	  zw_vocabulary const *core = zw_vocabulary_core (&err);
	  chk ("zw_vocabulary_core", core != nullptr, err);
	  zw_vocabulary const *dwv = zw_vocabulary_dwarf (&err);
	  chk ("zw_vocabulary_dwarf", dwv != nullptr, err);
	  bool b = zw_vocabulary_add (voc, core, &err);
	  chk ("zw_vocabulary_add(core)", b, err);
	  b = zw_vocabulary_add (voc, dwv, &err);
	  chk ("zw_vocabulary_add(dwarf)", b, err);
	  zw_stack *stk = zw_stack_init (&err);
	  chk ("zw_stack_init", stk != nullptr, err, stk == nullptr || zw_stack_depth (stk) == 0);
	  zw_value *vi = zw_value_init_const_i64 (-5, zw_cdom_dec (), 3, &err);
	  chk ("zw_value_init_const_i64", vi != nullptr, err,
	       vi == nullptr || (zw_value_is_const (vi) && zw_value_const_i64 (vi) == -5 && zw_value_pos (vi) == 3
				 && zw_value_const_is_signed (vi)));
	  zw_value *vu = zw_value_init_const_u64 (0xfffffffffffffff0ull, zw_cdom_hex (), 1, &err);
	  chk ("zw_value_init_const_u64", vu != nullptr, err,
	       vu == nullptr || (zw_value_const_u64 (vu) == 0xfffffffffffffff0ull && zw_value_pos (vu) == 1
				 && ! zw_value_const_is_signed (vu)));
	  zw_value *vs = zw_value_init_str ("a\"b", 2, &err);
	  auto text = [] (zw_value const *v) { size_t n = 0; char const *p = zw_value_str_str (v, &n); return std::string (p, n); };
	  chk ("zw_value_init_str", vs != nullptr, err,
	       vs == nullptr || (zw_value_is_str (vs) && text (vs) == "a\"b" && zw_value_pos (vs) == 2));
	  zw_value *vl = zw_value_init_str_len ("x\0yz", 3, 4, &err);
	  chk ("zw_value_init_str_len", vl != nullptr, err,
	       vl == nullptr || (text (vl) == std::string ("x\0y", 3) && zw_value_pos (vl) == 4));
	  zw_value *vc = zw_value_clone (vu, 9, &err);
	  chk ("zw_value_clone", vc != nullptr, err,
	       // (the copy's position is not looked at: zw_value_clone ignores POS, which its documentation promises to apply —
	       // noted in DESIGN.md, no listed property speaks about it)
	       vc == nullptr || (zw_value_const_u64 (vc) == 0xfffffffffffffff0ull && zw_value_pos (vu) == 1));
	  zw_value *vf = zw_value_const_format (vu, &err);
	  chk ("zw_value_const_format", vf != nullptr, err,
	       vf == nullptr || text (vf) == "0xfffffffffffffff0");
	  zw_value *vb = zw_value_const_format_brief (vu, &err);
	  chk ("zw_value_const_format_brief", vb != nullptr, err,
	       vb == nullptr || text (vb) == "fffffffffffffff0");
	  b = zw_stack_push (stk, vi, &err);
	  chk ("zw_stack_push", b, err, zw_stack_depth (stk) == 1 && zw_value_const_i64 (zw_stack_at (stk, 0)) == -5
	       && zw_value_const_i64 (vi) == -5);
	  b = zw_stack_push_take (stk, vs, &err);
	  chk ("zw_stack_push_take", b, err, zw_stack_depth (stk) == 2 && zw_value_is_str (zw_stack_at (stk, 0))
	       && zw_value_is_const (zw_stack_at (stk, 1)));
	  zw_query *q = zw_query_parse (voc, "swap 1 add", &err);
	  chk ("zw_query_parse", q != nullptr, err);
	  zw_query *qb = zw_query_parse (voc, "(1, ", &err);
	  chk ("zw_query_parse(bad)", qb != nullptr, err, qb == nullptr);
	  zw_query *ql = zw_query_parse_len (voc, "1 2 add garbage(", 7, &err);
	  chk ("zw_query_parse_len", ql != nullptr, err);
	  zw_result *res = q != nullptr ? zw_query_execute (q, stk, &err) : nullptr;
	  chk ("zw_query_execute", res != nullptr, err, zw_stack_depth (stk) == 2);
	  if (res != nullptr)
	    {
	      zw_stack *out = nullptr;
	      b = zw_result_next (res, &out, &err);
	      chk ("zw_result_next", b, err, out != nullptr && zw_stack_depth (out) == 2
		   && zw_value_const_i64 (zw_stack_at (out, 0)) == -4 && zw_value_is_str (zw_stack_at (out, 1)));
	      if (out != nullptr)
		zw_stack_destroy (out);
	      out = nullptr;
	      b = zw_result_next (res, &out, &err);
	      chk ("zw_result_next(end)", b, err, out == nullptr);
	      zw_result_destroy (res);
	    }
	  zw_query *qe = zw_query_parse (voc, "drop drop drop", &err);
	  chk ("zw_query_parse(underflow)", qe != nullptr, err);
	  if (qe != nullptr)
	    {
	      zw_result *re = zw_query_execute (qe, stk, &err);
	      chk ("zw_query_execute(underflow)", re != nullptr, err);
	      if (re != nullptr)
		{
		  zw_stack *out = nullptr;
		  b = zw_result_next (re, &out, &err);
		  chk ("zw_result_next(underflow)", b, err, ! b);
		  zw_result_destroy (re);
		}
	      zw_query_destroy (qe);
	    }
	  zw_value *dw = zw_value_init_dwarf (good.c_str (), 0, &err);
	  chk ("zw_value_init_dwarf", dw != nullptr, err, dw == nullptr || zw_value_is_dwarf (dw));
	  zw_value *dwr = zw_value_init_dwarf_raw (good.c_str (), 5, &err);
	  chk ("zw_value_init_dwarf_raw", dwr != nullptr, err, dwr == nullptr || (zw_value_is_dwarf (dwr) && zw_value_pos (dwr) == 5));
	  zw_value *dwb = zw_value_init_dwarf (bad.c_str (), 0, &err);
	  chk ("zw_value_init_dwarf(bad)", dwb != nullptr, err, dwb == nullptr);
	  if (dw != nullptr)
	    {
	      zw_machine const *mach = zw_value_dwarf_machine (dw, &err);
	      chk ("zw_value_dwarf_machine", mach != nullptr, err);
	      zw_stack *s2 = zw_stack_init (&err);
	      chk ("zw_stack_init(2)", s2 != nullptr, err);
	      b = zw_stack_push (s2, dw, &err);
	      chk ("zw_stack_push(dwarf)", b, err);
	      zw_query *qd = zw_query_parse (voc, "entry ?root", &err);
	      chk ("zw_query_parse(dw)", qd != nullptr, err);
	      zw_result *rd = qd ? zw_query_execute (qd, s2, &err) : nullptr;
	      chk ("zw_query_execute(dw)", rd != nullptr, err);
	      if (rd != nullptr)
		{
		  zw_stack *out = nullptr;
		  b = zw_result_next (rd, &out, &err);
		  chk ("zw_result_next(dw)", b, err, out == nullptr || zw_value_is_die (zw_stack_at (out, 0)));
		  if (out != nullptr)
		    {
		      zw_value const *dd = zw_value_die_dwarf (zw_stack_at (out, 0), &err);
		      chk ("zw_value_die_dwarf", dd != nullptr, err, dd == nullptr || zw_value_is_dwarf (dd));
		      zw_stack_destroy (out);
		    }
		  zw_result_destroy (rd);
		}
	      if (qd)
		zw_query_destroy (qd);
	      zw_stack_destroy (s2);
	    }
	  for (zw_value *v: {vi, vu, vl, vc, vf, vb, dw, dwr})
	    if (v != nullptr)
	      zw_value_destroy (v);
	  if (q) zw_query_destroy (q);
	  if (ql) zw_query_destroy (ql);
	  zw_stack_destroy (stk);
	  zw_vocabulary_destroy (voc);
	  std::cout << "." << std::endl;
	  continue;
	}
      if (cmd == "A")
	{
	  // C API contract: the query is handed over with an explicit length, no terminator, and
	  // sits right before an inaccessible page.
	  std::string hq;
	  is >> hq;
	  std::string q = unhex (hq);
	  static char *page = nullptr;
	  static size_t const PG = 1 << 16;
	  if (page == nullptr)
	    {
	      page = (char *) mmap (nullptr, 2 * PG, PROT_READ | PROT_WRITE, MAP_PRIVATE | MAP_ANONYMOUS, -1, 0);
	      mprotect (page + PG, PG, PROT_NONE);
	    }
	  cerr_capture cap;
	  {
	    {
	      // up to 64 KB the query sits right before an inaccessible page; longer ones are handed over from the heap
	      std::vector <char> big;
	      char *buf;
	      if (q.size () > PG)
		{
		  big.assign (q.begin (), q.end ());
		  buf = big.data ();
		}
	      else
		{
		  buf = page + PG - q.size ();
		  memcpy (buf, q.data (), q.size ());
		}
	      static zw_vocabulary *voc = nullptr;
	      zw_error *err = nullptr;
	      if (voc == nullptr)
		{
		  voc = zw_vocabulary_init (&err);
		  zw_vocabulary_add (voc, zw_vocabulary_core (&err), &err);
		  zw_vocabulary_add (voc, zw_vocabulary_dwarf (&err), &err);
		}
	      err = nullptr;
	      zw_query *zq = zw_query_parse_len (voc, buf, q.size (), &err);
	      if ((zq == nullptr) != (err != nullptr))
		std::cout << "A CONTRACT query=" << (zq != nullptr) << " err=" << (err != nullptr) << "\n";
	      else if (zq == nullptr)
		{
		  char const *m = zw_error_message (err);
		  if (m == nullptr || *m == 0)
		    std::cout << "A CONTRACT empty-message\n";
		  else
		    {
		      // the message speaks about the input alone: rejecting the same bytes again gives the same message
		      std::string m1 = m;
		      zw_error *err2 = nullptr;
		      zw_query *zq2 = zw_query_parse_len (voc, buf, q.size (), &err2);
		      char const *m2 = err2 != nullptr ? zw_error_message (err2) : nullptr;
		      if (zq2 != nullptr || m2 == nullptr || m1 != m2)
			std::cout << "A CONTRACT unstable-message " << hex (m1) << " " << hex (m2 ? m2 : "") << "\n";
		      else
			std::cout << "A err " << hex (m) << "\n";
		      if (zq2 != nullptr)
			zw_query_destroy (zq2);
		      if (err2 != nullptr)
			zw_error_destroy (err2);
		    }
		  zw_error_destroy (err);
		}
	      else
		{
		  // run it: failures must surface through zw_result_next returning false with an error
		  zw_stack *in = zw_stack_init (&err);
		  zw_result *res = zw_query_execute (zq, in, &err);
		  long n = 0;
		  std::string verdict = "A ok";
		  while (res != nullptr)
		    {
		      zw_stack *out = nullptr;
		      err = nullptr;
		      bool ok = zw_result_next (res, &out, &err);
		      if (ok != (err == nullptr))
			{
			  verdict = "A CONTRACT next";
			  break;
			}
		      if (! ok)
			{
			  char const *m = zw_error_message (err);
			  verdict = (m == nullptr || *m == 0) ? "A CONTRACT empty-message" : "A runerr";
			  zw_error_destroy (err);
			  break;
			}
		      if (out == nullptr)
			break;
		      zw_stack_destroy (out);
		      if (++n > 200)
			break;
		    }
		  std::cout << verdict << " " << n << "\n";
		  if (res)
		    zw_result_destroy (res);
		  zw_stack_destroy (in);
		  zw_query_destroy (zq);
		}
	    }
	  }
	  std::cout << "." << std::endl;
	  continue;
	}
      if (cmd == "H")
	{
	  // histories over one compiled query: H <seed> <hexquery> <hexP> [<hex other query>|- [<hex ELF path>]]
	  // P yields the input stacks (at most three are used); with a path, P runs on the Dwarf value
	  // of that file, so all executions share one Dwarf (and its caches).  Every pull of every
	  // execution is compared with a fresh parse-and-run on that input — with a path, on the
	  // input rebuilt over a freshly opened Dwarf.
	  unsigned seed;
	  std::string hq, hp, hother, hpath;
	  is >> seed >> hq >> hp >> hother >> hpath;
	  if (hother == "-")
	    hother.clear ();
	  std::string q = unhex (hq), p = unhex (hp), other = unhex (hother), path = unhex (hpath);
	  cerr_capture cap;
	  try
	    {
	      compiled cp = compile (p, true);
	      auto make_inputs = [&] ()
		{
		  std::vector <stack::uptr> ret;
		  if (! run (cp, input_stack (path), &ret))
		    throw std::runtime_error ("input program failed");
		  if (ret.size () > 3)
		    ret.resize (3);
		  if (ret.empty ())
		    ret.push_back (input_stack (path));
		  return ret;
		};
	      std::vector <stack::uptr> ins = make_inputs ();
	      auto fresh = [&] (stack const &in, std::string const &text)
		{
		  std::vector <std::string> ret;
		  compiled c = compile (text, true);
		  scon sc {c.l};
		  scon_guard sg {sc, *c.o};
		  c.origin->set_next (sc, std::make_unique <stack> (in));
		  try
		    {
		      for (int n = 0; n < 300; ++n)
			{
			  auto stk = c.o->next (sc);
			  if (stk == nullptr) { ret.push_back ("END"); break; }
			  ret.push_back (show_stack (*stk));
			}
		    }
		  catch (std::exception const &e)
		    {
		      ret.push_back (std::string ("E ") + e.what ());
		    }
		  return ret;
		};
	      std::vector <std::vector <std::string>> ref;
	      std::vector <std::string> in_before;
	      for (size_t k = 0; k < ins.size (); ++k)
		{
		  if (path.empty ())
		    ref.push_back (fresh (*ins[k], q));
		  else
		    {
		      // a Dwarf nobody has looked at yet
		      auto again = make_inputs ();
		      if (again.size () != ins.size ())
			throw std::runtime_error ("input program is not deterministic");
		      ref.push_back (fresh (*again[k], q));
		    }
		  in_before.push_back (show_stack (*ins[k]));
		}
	      // the shared compiled query; optionally another query text is compiled before / after it
	      std::unique_ptr <compiled> pre;
	      if (! other.empty () && (seed & 1))
		pre = std::make_unique <compiled> (compile (other, true));
	      compiled c = compile (q, true);
	      std::unique_ptr <compiled> post;
	      if (! other.empty () && ! (seed & 1))
		post = std::make_unique <compiled> (compile (other, true));
	      // the state buffer and its guard live and die together (guard first)
	      struct exec_t
	      {
		scon sc;
		scon_guard sg;
		exec_t (layout const &l, op &o) : sc {l}, sg {sc, o} {}
	      };
	      struct live_t
	      {
		std::unique_ptr <exec_t> ex;
		size_t k, i;
		bool dead;
	      };
	      std::vector <live_t> live;
	      uint64_t rs = seed * 2654435761u + 12345;
	      auto rnd = [&] () { rs = rs * 6364136223846793005ULL + 1442695040888963407ULL; return (unsigned) (rs >> 33); };
	      long pulls = 0;
	      std::string verdict;
	      for (int step = 0; step < 60 && verdict.empty (); ++step)
		{
		  unsigned op = rnd () % 5;
		  if ((op == 0 || live.empty ()) && live.size () < 3)
		    {
		      size_t k = rnd () % ins.size ();
		      live_t l;
		      l.ex = std::make_unique <exec_t> (c.l, *c.o);
		      c.origin->set_next (l.ex->sc, std::make_unique <stack> (*ins[k]));
		      l.k = k; l.i = 0; l.dead = false;
		      live.push_back (std::move (l));
		    }
		  else if (op == 4 && ! live.empty ())
		    live.erase (live.begin () + rnd () % live.size ());	// abandon a result set
		  else if (! live.empty ())
		    {
		      live_t &l = live[rnd () % live.size ()];
		      if (l.dead || l.i >= ref[l.k].size ())
			continue;
		      std::string got;
		      try
			{
			  auto stk = c.o->next (l.ex->sc);
			  got = stk == nullptr ? "END" : show_stack (*stk);
			}
		      catch (std::exception const &e)
			{
			  got = std::string ("E ") + e.what ();
			}
		      ++pulls;
		      if (got != ref[l.k][l.i])
			verdict = "MISMATCH input " + std::to_string (l.k) + " pull " + std::to_string (l.i)
			  + " got " + got + " want " + ref[l.k][l.i];
		      if (got == "END" || got[0] == 'E')
			l.dead = true;
		      ++l.i;
		    }
		}
	      live.clear ();
	      for (size_t k = 0; k < ins.size () && verdict.empty (); ++k)
		if (show_stack (*ins[k]) != in_before[k])
		  verdict = "INPUT-MODIFIED " + std::to_string (k);
	      // the same text compiled again behaves the same
	      for (size_t k = 0; k < ins.size () && verdict.empty (); ++k)
		{
		  auto again = fresh (*ins[k], q);
		  if (again != ref[k])
		    {
		      size_t j = 0;
		      while (j < again.size () && j < ref[k].size () && again[j] == ref[k][j])
			++j;
		      verdict = "RECOMPILE-DIFFERS input " + std::to_string (k) + " pull " + std::to_string (j) + " got "
			+ (j < again.size () ? again[j] : std::string ("-")) + " want " + (j < ref[k].size () ? ref[k][j] : std::string ("-"));
		    }
		}
	      if (verdict.empty ())
		std::cout << "H ok pulls=" << pulls << " inputs=" << ins.size () << "\n";
	      else
		std::cout << "H " << verdict << "\n";
	    }
	  catch (std::exception const &e)
	    {
	      std::cout << "E compile " << e.what () << "\n";
	    }
	  std::cout << "." << std::endl;
	  continue;
	}
      if (cmd == "X")
	{
	  std::string hp, hq;
	  is >> hp >> hq;
	  cerr_capture cap;
	  try
	    {
	      compiled p = compile (unhex (hp), true);
	      std::vector <stack::uptr> ins;
	      if (run (p, std::make_unique <stack> (), &ins))
		{
		  compiled c = compile (unhex (hq), true);
		  for (auto &in: ins)
		    {
		      std::cout << "I " << show_stack (*in) << "\n";
		      if (! run (c, std::make_unique <stack> (*in)))
			break;
		    }
		}
	    }
	  catch (std::exception const &e)
	    {
	      std::cout << "E compile " << e.what () << "\n";
	    }
	  emit_soft (cap);
	  std::cout << "." << std::endl;
	  continue;
	}
      std::cout << "bad-op\n." << std::endl;
    }
  return 0;
}
