// Shared helpers of the query harnesses: canonical value printing, hex coding, domain labels.
#pragma once
#include <elf.h>
#include <iomanip>
#include <iostream>
#include <map>
#include <memory>
#include <sstream>
#include <string>
#include <vector>

#include "libzwergP.hh"
#include "builtin.hh"
#include "init.hh"
#include "op.hh"
#include "parser.hh"
#include "stack.hh"
#include "tree.hh"
#include "value-cst.hh"
#include "value-str.hh"
#include "value-seq.hh"
#include "value-closure.hh"
#include "value-aset.hh"
#include "value-dw.hh"
#include "value-symbol.hh"
#include "dwcst.hh"
#include "builtin-dw.hh"
#include "builtin-symbol.hh"
#include "builtin-dw-abbrev.hh"

namespace zwh
{
  inline std::string
  hex (std::string const &s)
  {
    static char const *d = "0123456789abcdef";
    std::string r;
    for (unsigned char c: s)
      {
	r += d[c >> 4];
	r += d[c & 15];
      }
    return r;
  }

  inline std::string
  unhex (std::string const &s)
  {
    std::string r;
    if (s == "e")		// the empty string
      return r;
    for (size_t i = 0; i + 1 < s.size (); i += 2)
      r += (char) std::stoi (s.substr (i, 2), nullptr, 16);
    return r;
  }

  inline std::vector <std::pair <constant_dom const *, std::string>> &
  domtab ()
  {
    static std::vector <std::pair <constant_dom const *, std::string>> tab;
    if (tab.empty ())
      {
	auto add = [&] (constant_dom const &d, std::string n) { tab.push_back ({&d, n}); };
	add (dec_constant_dom, "dec");
	add (hex_constant_dom, "hex");
	add (oct_constant_dom, "oct");
	add (bin_constant_dom, "bin");
	add (bool_constant_dom, "bool");
	add (slot_type_dom, "T_");
	add (column_number_dom, "column_number");
	add (line_number_dom, "line_number");
	add (dw_tag_dom (), "DW_TAG_");
	add (dw_attr_dom (), "DW_AT_");
	add (dw_form_dom (), "DW_FORM_");
	add (dw_access_dom (), "DW_ACCESS_");
	add (dw_address_class_dom (), "DW_ADDR_");
	add (dw_calling_convention_dom (), "DW_CC_");
	add (dw_decimal_sign_dom (), "DW_DS_");
	add (dw_discr_list_dom (), "DW_DSC_");
	add (dw_encoding_dom (), "DW_ATE_");
	add (dw_endianity_dom (), "DW_END_");
	add (dw_defaulted_dom (), "DW_DEFAULTED_");
	add (dw_identifier_case_dom (), "DW_ID_");
	add (dw_inline_dom (), "DW_INL_");
	add (dw_lang_dom (), "DW_LANG_");
	add (dw_locexpr_opcode_dom (), "DW_OP_");
	add (dw_macinfo_dom (), "DW_MACINFO_");
	add (dw_macro_dom (), "DW_MACRO_");
	add (dw_ordering_dom (), "DW_ORD_");
	add (dw_virtuality_dom (), "DW_VIRTUALITY_");
	add (dw_visibility_dom (), "DW_VIS_");
	add (dw_address_dom (), "Dwarf_Address");
	add (dw_offset_dom (), "Dwarf_Off");
	add (dw_abbrevcode_dom (), "Dwarf_Abbrev_code");
	add (elfsym_stv_dom (), "STV_");
	static int const machines[] = {EM_NONE, EM_ARM, EM_SPARC, EM_MIPS, EM_PARISC, EM_PPC64,
				       EM_IA_64, EM_ALPHA, EM_PPC, EM_X86_64, EM_386, EM_AARCH64};
	for (int m: machines)
	  {
	    auto lab = [&] (char const *p) { return std::string (p) + "@" + std::to_string (m); };
	    auto *stt = &elfsym_stt_dom (m);
	    auto *stb = &elfsym_stb_dom (m);
	    bool seen_t = false, seen_b = false;
	    for (auto &e: tab)
	      {
		if (e.first == stt) seen_t = true;
		if (e.first == stb) seen_b = true;
	      }
	    if (! seen_t) tab.push_back ({stt, lab ("STT_")});
	    if (! seen_b) tab.push_back ({stb, lab ("STB_")});
	  }
      }
    return tab;
  }

  inline std::string
  domlabel (constant_dom const *d)
  {
    if (d == nullptr)
      return "null";
    for (auto &e: domtab ())
      if (e.first == d)
	return e.second;
    std::string n = d->name ();
    for (auto &c: n)
      if (c == ' ')
	c = '_';
    return n;
  }

  inline std::string
  den (mpz_class v)
  {
    std::ostringstream o;
    o << v;
    return o.str ();
  }

  inline std::string show (value const &v, bool withpos = true);

  inline std::string
  show_nopos (value const &v)
  {
    std::ostringstream o;
    if (auto c = value::as <value_cst> (&v))
      o << "c(" << domlabel (c->get_constant ().dom ()) << "|"
	<< den (c->get_constant ().value ()) << ")";
    else if (auto s = value::as <value_str> (&v))
      o << "s(" << hex (s->get_string ()) << ")";
    else if (auto q = value::as <value_seq> (&v))
      {
	o << "[";
	bool first = true;
	for (auto const &e: *q->get_seq ())
	  {
	    if (! first)
	      o << " ";
	    first = false;
	    o << show (*e);
	  }
	o << "]";
      }
    else if (v.is <value_closure> ())
      o << "f()";
    else if (auto a = value::as <value_aset> (&v))
      {
	o << "a(";
	auto &cov = const_cast <value_aset *> (a)->get_coverage ();
	for (size_t i = 0; i < cov.size (); ++i)
	  o << (i ? "," : "") << cov.at (i).start << "+" << cov.at (i).length;
	o << ")";
      }
    else
      {
	std::ostringstream t;
	v.show (t);
	o << "x(" << v.get_type ().name () << "|" << hex (t.str ()) << ")";
      }
    return o.str ();
  }

  inline std::string
  show (value const &v, bool withpos)
  {
    std::string r = show_nopos (v);
    if (withpos)
      r += "@" + std::to_string (v.get_pos ());
    return r;
  }

  // bottom first, TOS last
  inline std::string
  show_stack (stack const &stk)
  {
    std::string r;
    for (size_t i = stk.size (); i-- > 0; )
      {
	if (! r.empty ())
	  r += " ";
	r += show (stk.get (i));
      }
    return r;
  }

  // Capture std::cerr while alive.
  struct cerr_capture
  {
    std::ostringstream buf;
    std::streambuf *old;
    cerr_capture () : old (std::cerr.rdbuf (buf.rdbuf ())) {}
    ~cerr_capture () { std::cerr.rdbuf (old); }
    std::vector <std::string>
    lines ()
    {
      std::vector <std::string> r;
      std::istringstream is (buf.str ());
      std::string l;
      while (std::getline (is, l))
	r.push_back (l);
      return r;
    }
  };

  inline std::unique_ptr <vocabulary>
  full_vocabulary ()
  {
    auto core = dwgrep_vocabulary_core ();
    auto dw = dwgrep_vocabulary_dw ();
    return std::make_unique <vocabulary> (*core, *dw);
  }
}
