/-
  Model of libzwerg/coverage.cc as used by the address-set words of
  builtin-aset.cc and by value_aset::cmp.

  A coverage is a list of (start, length) ranges.  The C++ keeps the vector
  sorted, coalesced and free of empty ranges and edits it in place through
  iterators; the model states each operation as a structural recursion over the
  sorted list that produces the same vector (checked by the correspondence run,
  exhaustively over small universes).  Addresses are natural numbers: the
  property's universe is addresses below 2^64-1, where no `start + length`
  wraps; the harness never leaves it.

  Core Lean only.
-/
namespace ZwVerif

abbrev Range := Nat × Nat          -- (start, length)
abbrev Cov := List Range

namespace Cov

/-- `coverage::add` for a non-empty range. -/
def addPos (s l : Nat) : Cov → Cov
  | [] => [(s, l)]
  | (a, n) :: rest =>
    if s + l < a then (s, l) :: (a, n) :: rest            -- strictly before, not adjacent
    else if a + n < s then (a, n) :: addPos s l rest      -- strictly after, not adjacent
    else addPos (min s a) (max (s + l) (a + n) - min s a) rest   -- coalesce, keep going

/-- `coverage::add`. -/
def add (s l : Nat) (c : Cov) : Cov := if l = 0 then c else addPos s l c

/-- `coverage::remove` for a non-empty range. -/
def removePos (s l : Nat) : Cov → Cov
  | [] => []
  | (a, n) :: rest =>
    if a + n ≤ s then (a, n) :: removePos s l rest        -- entirely below the cut
    else if s + l ≤ a then (a, n) :: rest                 -- entirely above (and so is the rest)
    else
      (if a < s then [(a, s - a)] else []) ++
      (if s + l < a + n then [(s + l, a + n - (s + l))] else []) ++
      removePos s l rest

/-- `coverage::remove`. -/
def remove (s l : Nat) (c : Cov) : Cov := if l = 0 then c else removePos s l c

/-- `coverage::intersect`. -/
def intersect (s l : Nat) (c : Cov) : Cov :=
  c.filterMap fun (a, n) =>
    let lo := max a s
    let hi := min (a + n) (s + l)
    if lo < hi then some (lo, hi - lo) else none

/-- `coverage::is_covered` for `l ≥ 1` (all the words ever ask). -/
def isCovered (s l : Nat) (c : Cov) : Bool :=
  c.any fun (a, n) => decide (a ≤ s) && decide (s + l ≤ a + n)

/-- `coverage::is_overlap` for `l ≥ 1`. -/
def isOverlap (s l : Nat) (c : Cov) : Bool :=
  c.any fun (a, n) => decide (max a s < min (a + n) (s + l))

def addAll (c other : Cov) : Cov := other.foldl (fun acc r => add r.1 r.2 acc) c
def removeAll (c other : Cov) : Cov := other.foldl (fun acc r => remove r.1 r.2 acc) c

/-! ### the Zwerg words of builtin-aset.cc -/

/-- `aset`: the two operands in either order. -/
def wAset (a b : Nat) : Cov := add (min a b) (max a b - min a b) []
def wAddCst (c : Cov) (x : Nat) : Cov := add x 1 c
def wAddAset (a b : Cov) : Cov := addAll a b
def wSubCst (c : Cov) (x : Nat) : Cov := remove x 1 c
def wSubAset (a b : Cov) : Cov := removeAll a b
/-- `overlap`: intersect `a` with every range of `b`, accumulate. -/
def wOverlap (a b : Cov) : Cov := b.foldl (fun acc r => addAll acc (intersect r.1 r.2 a)) []
def wLength (c : Cov) : Nat := (c.map (·.2)).sum
def wLow (c : Cov) : Option Nat := c.head?.map (·.1)
def wHigh (c : Cov) : Option Nat := c.getLast?.map (fun r => r.1 + r.2)
def wRange (c : Cov) : List Cov := c.map fun r => add r.1 r.2 []
def wElem (c : Cov) : List Nat := c.flatMap fun r => (List.range r.2).map (r.1 + ·)
def wRelem (c : Cov) : List Nat := (wElem c).reverse
def wContainsCst (c : Cov) (x : Nat) : Bool := isCovered x 1 c
def wContainsAset (a b : Cov) : Bool := b.all fun r => isCovered r.1 r.2 a
def wOverlaps (a b : Cov) : Bool := b.any fun r => isOverlap r.1 r.2 a
def wEmpty (c : Cov) : Bool := c.isEmpty

/-- `value_aset::cmp`: size, then (start, length) pairwise.  -1 / 0 / 1. -/
def cmpRanges : Cov → Cov → Int
  | [], [] => 0
  | (a, n) :: r1, (b, m) :: r2 =>
    if a < b then -1 else if b < a then 1
    else if n < m then -1 else if m < n then 1
    else cmpRanges r1 r2
  | _, _ => 0        -- unequal lengths are decided before (see `cmp`)

def cmp (c1 c2 : Cov) : Int :=
  if c1.length < c2.length then -1 else if c2.length < c1.length then 1 else cmpRanges c1 c2

end Cov
end ZwVerif
