/-
  The ALT mechanism of the pull engine as a machine (op.cc: op_merge::next, op_tine::next, and the
  pull loop of a branch), relationally — one constructor per path through the C++ — so that no
  fuel is needed.  A branch is abstracted to what it yields for one incoming stack (`fs i s`);
  what is modelled exactly is the shared state: the file of per-branch copies (`m_file`), the
  round-robin index (`m_idx`), the `m_done` flag with its reset (the F1 repair), and who pulls
  the upstream when.

  Core Lean only.
-/
namespace ZwVerif.Merge

def upd {β : Type} (f : Nat → β) (i : Nat) (v : β) : Nat → β := fun j => if j = i then v else f j

@[simp] theorem upd_same {β : Type} (f : Nat → β) (i : Nat) (v : β) : upd f i v i = v := by simp [upd]
theorem upd_other {β : Type} (f : Nat → β) (i j : Nat) (v : β) (h : j ≠ i) : upd f i v j = f j := by simp [upd, h]

/-- the state of one `op_merge` (in the state buffer) plus what its branches have computed but not
    yet yielded and what the upstream will still yield -/
structure St (α : Type) where
  up : List α                 -- the upstream, as the list of stacks it will yield
  file : Nat → Option α       -- m_file: one copy of the current upstream stack per branch
  idx : Nat                   -- m_idx
  done : Bool                 -- m_done
  pend : Nat → List α         -- per branch: results for the stack it took that are still to come

/-- `n` branches; branch `i` yields `fs i s` for the incoming stack `s` -/
structure Cfg (α : Type) where
  n : Nat
  fs : Nat → α → List α

variable {α : Type}

def AllNone (n : Nat) (file : Nat → Option α) : Prop := ∀ i, i < n → file i = none

/-- `op_tine::next` of branch `i` -/
inductive Tine (c : Cfg α) (i : Nat) : St α → Option α → St α → Prop
  /-- `if (mst.m_done) return nullptr;` -/
  | isDone {st : St α} : st.done = true → Tine c i st none st
  /-- all copies taken and the upstream has another stack: copy it for every branch, hand out ours -/
  | fill {st : St α} {s : α} {rest : List α} : st.done = false → AllNone c.n st.file → st.up = s :: rest →
      Tine c i st (some s) { st with up := rest, file := upd (fun _ => some s) i none }
  /-- all copies taken and the upstream is dry: `m_done = true` -/
  | dry {st : St α} : st.done = false → AllNone c.n st.file → st.up = [] →
      Tine c i st none { st with done := true }
  /-- some copy is still there: `std::move (m_file[m_branch_id])` — ours, or nothing if we had it -/
  | take {st : St α} : st.done = false → ¬ AllNone c.n st.file →
      Tine c i st (st.file i) { st with file := upd st.file i none }

/-- `next` of branch `i`: yield what is pending, else pull the tine and go on with what it gives -/
inductive Branch (c : Cfg α) (i : Nat) : St α → Option α → St α → Prop
  | yield {st : St α} {x : α} {xs : List α} : st.pend i = x :: xs →
      Branch c i st (some x) { st with pend := upd st.pend i xs }
  | dry {st st' : St α} : st.pend i = [] → Tine c i st none st' → Branch c i st none st'
  | pull {st st' st'' : St α} {s : α} {r : Option α} : st.pend i = [] → Tine c i st (some s) st' →
      Branch c i { st' with pend := upd st'.pend i (c.fs i s) } r st'' → Branch c i st r st''

/-- `op_merge::next` -/
inductive Merge (c : Cfg α) : St α → Option α → St α → Prop
  /-- `if (st.m_done) return nullptr;` -/
  | wasDone {st : St α} : st.done = true → Merge c st none st
  /-- the current branch yields -/
  | got {st st' : St α} {x : α} : st.done = false → Branch c st.idx st (some x) st' → Merge c st (some x) st'
  /-- the current branch is dry: `if (++m_idx == size) m_idx = 0;` and round again -/
  | advance {st st' st'' : St α} {r : Option α} : st.done = false → Branch c st.idx st none st' → st'.done = false →
      Merge c { st' with idx := (st.idx + 1) % c.n } r st'' → Merge c st r st''
  /-- … and the upstream is drained: report it, and start from a clean slate next time -/
  | drained {st st' : St α} : st.done = false → Branch c st.idx st none st' → st'.done = true →
      Merge c st none { st' with done := false, idx := 0 }

/-- pull until the merge reports exhaustion -/
inductive Drain (c : Cfg α) : St α → List α → St α → Prop
  | nil {st st' : St α} : Merge c st none st' → Drain c st [] st'
  | cons {st st' st'' : St α} {x : α} {xs : List α} : Merge c st (some x) st' → Drain c st' xs st'' → Drain c st (x :: xs) st''

/-! ### what it should compute -/

/-- one upstream stack through all branches, starting at branch `k`, round the table -/
def round (c : Cfg α) (k : Nat) (s : α) : Nat → List α        -- branches still to serve
  | 0 => []
  | m + 1 => c.fs (k % c.n) s ++ round c (k + 1) s m

/-- the whole stream: the branch that served last pulls the next stack and serves it first -/
def spec (c : Cfg α) : Nat → List α → List α
  | _, [] => []
  | k, s :: rest => round c k s c.n ++ spec c ((k + c.n - 1) % c.n) rest

/-- a fresh (or reset) merge in front of the upstream `up` -/
def init (up : List α) : St α := { up := up, file := fun _ => none, idx := 0, done := false, pend := fun _ => [] }

end ZwVerif.Merge
