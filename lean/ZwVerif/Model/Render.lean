import ZwVerif.Model.Parser
/-
  Rendering: `operator<<` of mpz_class and of constants per domain (constant.cc,
  value.cc, dwcst.cc), `show` of values (value-*.cc), the tree printer (tree.cc),
  and the CLI's brief string dumper (dwgrep.cc: dumper::dump_charp).

  Core Lean only.
-/
namespace ZwVerif

def digitChar (d : Nat) : Char := if d < 10 then Char.ofNat (48 + d) else Char.ofNat (87 + d)

def natToBaseAux (base : Nat) : Nat → Nat → List Char → List Char
  | 0, _, acc => acc
  | fuel + 1, n, acc =>
    if n < base then digitChar n :: acc
    else natToBaseAux base fuel (n / base) (digitChar (n % base) :: acc)

/-- digits of `n` in `base` (2..16), no prefix; "0" for 0 -/
def natToBase (base n : Nat) : String := String.ofList (natToBaseAux base 70 n [])

/-- `o << v` for an mpz_class with the stream in the given base; `showbase` as in iostreams:
    prefix 0x / 0 for non-zero values only. -/
def showInt (base : Nat) (showbase : Bool) (v : ZInt) : String :=
  let d := v.den
  let mag := d.natAbs
  let pfx := if showbase ∧ mag ≠ 0 then (if base = 16 then "0x" else if base = 8 then "0" else "") else ""
  (if d < 0 then "-" else "") ++ pfx ++ natToBase base mag

/-- the literal-domain renderings (hex, oct): zero keeps its radix prefix in full form -/
def showIntLit (base : Nat) (full : Bool) (v : ZInt) : String :=
  if full ∧ v.den = 0 then (if base = 16 then "0x0" else "00") else showInt base full v

/-- names of the value types (`T_*`), by tag -/
def vtName : VT → String
  | .closure => "T_CLOSURE" | .const => "T_CONST" | .seq => "T_SEQ" | .str => "T_STR"
  | .aset => "T_ASET" | .ext c => s!"T_#{c}"

/-- `constant::operator<<`: the domain's `show`.  `brief` is brevity::brief.
    Named DWARF/ELF constants are rendered from the generated tables (Props/C20); the core
    model renders them as `<domain>#<value>`. -/
def showConst (typeName : Nat → Option String) (v : ZInt) (d : Dom) (brief : Bool := false) : String :=
  match d with
  | .dec | .pos | .lineno | .colno => showInt 10 false v
  | .abbrevcode => showInt 10 true v
  | .hex => showIntLit 16 (!brief) v
  | .oct => showIntLit 8 (!brief) v
  | .addr | .off => showInt 16 true v
  | .bin =>
    let dd := v.den
    if dd = 0 then (if brief then "0" else "0b0")
    else (if dd < 0 then "-" else "") ++ (if brief then "" else "0b") ++ natToBase 2 dd.natAbs
  | .bool => if v.den ≠ 0 then "true" else "false"
  | .slot =>
    match (if v.den < 0 ∨ v.den > 255 then none else typeName v.den.toNat) with
    | some t => if brief then (t.drop 2).toString else t
    | none => (if brief then "" else "T_") ++ s!"??? ({v.den})"
  | .named n => s!"{n}#{v.den}"
  | .elfsym k m => s!"{(Dom.elfsym k m).label}#{v.den}"

def hexByte (b : UInt8) : String :=
  String.ofList [digitChar (b.toNat / 16), digitChar (b.toNat % 16)]

def hexBytes (b : Bytes) : String := String.join (b.map hexByte)

/-- `[start, end)` of coverage.cc's `pri::range` -/
def showRange (r : Range) : String :=
  "[" ++ showInt 16 true ⟨r.1, false⟩ ++ ", " ++ showInt 16 true ⟨r.1 + r.2, false⟩ ++ ")"

mutual
/-- `value::show`: what `%s` splices and the CLI print (as bytes). -/
def Val.showB (typeName : Nat → Option String) : Val → Bytes
  | .cst _ v d => s2b (showConst typeName v d)
  | .str _ s => s
  | .seq _ es => s2b "[" ++ Val.showListB typeName es true ++ s2b "]"
  | .aset _ c => if c.isEmpty then s2b "[)" else s2b (", ".intercalate (c.map showRange))
  | .clo .. => s2b "closure"
  | .ext _ _ _ l => s2b l
def Val.showListB (typeName : Nat → Option String) : List Val → Bool → Bytes
  | [], _ => []
  | v :: vs, first => (if first then [] else s2b ", ") ++ Val.showB typeName v ++ Val.showListB typeName vs false
end

/-! ### canonical protocol rendering (what harness/zwcommon.hh prints) -/

mutual
def Val.canon : Val → String
  | .cst p v d => s!"c({d.label}|{v.den})@{p}"
  | .str p s => s!"s({hexBytes s})@{p}"
  | .seq p es => "[" ++ Val.canonList es true ++ s!"]@{p}"
  | .aset p c => "a(" ++ ",".intercalate (c.map fun r => s!"{r.1}+{r.2}") ++ s!")@{p}"
  | .clo p .. => s!"f()@{p}"
  | .ext p _ _ l => s!"x({l})@{p}"
def Val.canonList : List Val → Bool → String
  | [], _ => ""
  | v :: vs, first => (if first then "" else " ") ++ Val.canon v ++ Val.canonList vs false
end

/-- bottom first, TOS last -/
def Stack.canon (s : Stack) : String := " ".intercalate (s.reverse.map Val.canon)

/-! ### the tree printer (`operator<< (std::ostream &, tree const &)`) -/

def ttName : TT → String
  | .CAT => "CAT" | .ALT => "ALT" | .OR => "OR" | .CAPTURE => "CAPTURE" | .SUBX_EVAL => "SUBX_EVAL"
  | .IFELSE => "IFELSE" | .SCOPE => "SCOPE" | .BLOCK => "BLOCK" | .BIND => "BIND" | .READ => "READ"
  | .NOP => "NOP" | .CLOSE_STAR => "CLOSE_STAR" | .CLOSE_PLUS => "CLOSE_PLUS" | .ASSERT => "ASSERT"
  | .EMPTY_LIST => "EMPTY_LIST" | .PRED_AND => "PRED_AND" | .PRED_OR => "PRED_OR"
  | .PRED_NOT => "PRED_NOT" | .PRED_SUBX_ANY => "PRED_SUBX_ANY" | .CONST => "CONST" | .STR => "STR"
  | .FORMAT => "FORMAT" | .F_DEBUG => "F_DEBUG" | .F_BUILTIN => "F_BUILTIN"

mutual
/-- as bytes: STR payloads are arbitrary byte strings -/
def Tree.showB : Tree → Bytes
  | .node tt p cs =>
    let pl : Bytes := match p with
      | .none => []
      | .str s => s2b "<" ++ s ++ s2b ">"
      | .cst v d => s2b ("<" ++ showConst (fun _ => none) v d ++ ">")
      | .bi (.predPos _ _) => s2b "<pred_pos>"
      | .bi (.dropBelow _) => s2b "<drop below>"
    s2b "(" ++ s2b (ttName tt) ++ pl ++ Tree.showListB cs ++ s2b ")"
def Tree.showListB : List Tree → Bytes
  | [] => []
  | c :: cs => s2b " " ++ Tree.showB c ++ Tree.showListB cs
end

/-! ### the CLI's brief string dumper (`dumper::dump_charp`, after the F5 repair) -/

def hexDigit (n : Nat) : UInt8 := if n < 10 then (48 + n).toUInt8 else (87 + n).toUInt8

/-- one byte of a string in brief (quoted) form: the escape table of `dump_charp`
    (92 = backslash, 34 = double quote, 37 = percent, 120 = 'x') -/
def dumpByte (c : UInt8) : Bytes :=
  if c = 0 then [92, 120, 48, 48]
  else if c = 34 then [92, 34]
  else if c = 37 then [37, 37]
  else if c = 92 then [92, 92]
  else if c = 7 then [92, 97]
  else if c = 8 then [92, 98]
  else if c = 9 then [92, 116]
  else if c = 10 then [92, 110]
  else if c = 11 then [92, 118]
  else if c = 12 then [92, 102]
  else if c = 13 then [92, 114]
  else if c ≥ 32 ∧ c < 127 then [c]
  else [92, 120, hexDigit (c.toNat / 16), hexDigit (c.toNat % 16)]

def dumpCharp (s : Bytes) : Bytes := [34] ++ s.flatMap dumpByte ++ [34]

def hexVal (c : UInt8) : Nat :=
  if c ≥ 48 ∧ c ≤ 57 then c.toNat - 48 else if c ≥ 97 ∧ c ≤ 102 then c.toNat - 87 else c.toNat - 55

/-- reading the body of a brief string back: the escapes of the STRING start condition that
    `dump_charp` uses (`\\"`, `\\\\`, `\\a` … `\\r`, `\\xHH`, `%%`) -/
def undump : Bytes → Bytes
  | [] => []
  | 92 :: 120 :: h1 :: h2 :: rest => (hexVal h1 * 16 + hexVal h2).toUInt8 :: undump rest
  | 92 :: c :: rest => ((escChar c).getD c) :: undump rest
  | 37 :: 37 :: rest => 37 :: undump rest
  | c :: rest => c :: undump rest

end ZwVerif
