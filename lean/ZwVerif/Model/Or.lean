/-
  The OR operator (`A || B || …`) of the pull engine as a machine (op.cc: op_or::next): for every
  upstream stack the branches are tried in order, each on its own copy; the first that yields
  anything is drained, then the state is reset and the next upstream stack is taken.  A branch is
  abstracted to what it yields for one stack (`fs i s`).

  Core Lean only.
-/
namespace ZwVerif.OrOp

structure Cfg (α : Type) where
  n : Nat
  fs : Nat → α → List α

structure St (α : Type) where
  up : List α
  it : Option Nat        -- m_branch_it (none = end ())
  pend : List α          -- what the selected branch will still yield

variable {α : Type}

/-- the `for` loop over the branches: the first branch, from `i` on, that yields for `s` -/
def firstFrom (c : Cfg α) (s : α) : Nat → Nat → Option (Nat × α × List α)
  | 0, _ => none
  | k + 1, i =>
    match c.fs i s with
    | x :: xs => some (i, x, xs)
    | [] => firstFrom c s k (i + 1)

inductive Next (c : Cfg α) : St α → Option α → St α → Prop
  /-- `m_branch_it == end`, upstream has a stack, some branch yields for it -/
  | pullHit {st : St α} {s : α} {rest : List α} {i : Nat} {x : α} {xs : List α} : st.it = none → st.up = s :: rest →
      firstFrom c s c.n 0 = some (i, x, xs) → Next c st (some x) { up := rest, it := some i, pend := xs }
  /-- … no branch yields for it: the iterator ends at `end` again, take the next stack -/
  | pullMiss {st st' : St α} {s : α} {rest : List α} {r : Option α} : st.it = none → st.up = s :: rest →
      firstFrom c s c.n 0 = none → Next c { st with up := rest } r st' → Next c st r st'
  | upstreamDry {st : St α} : st.it = none → st.up = [] → Next c st none st
  /-- the selected branch yields -/
  | yield {st : St α} {i : Nat} {x : α} {xs : List α} : st.it = some i → st.pend = x :: xs →
      Next c st (some x) { st with pend := xs }
  /-- the selected branch is dry: `sc.reset`, round again -/
  | reset {st st' : St α} {i : Nat} {r : Option α} : st.it = some i → st.pend = [] →
      Next c { st with it := none } r st' → Next c st r st'

inductive Drain (c : Cfg α) : St α → List α → St α → Prop
  | nil {st st' : St α} : Next c st none st' → Drain c st [] st'
  | cons {st st' st'' : St α} {x : α} {xs : List α} : Next c st (some x) st' → Drain c st' xs st'' → Drain c st (x :: xs) st''

/-- the results of the first branch that yields anything for `s` -/
def firstResults (c : Cfg α) (s : α) : List α :=
  match firstFrom c s c.n 0 with
  | some (_, x, xs) => x :: xs
  | none => []

def spec (c : Cfg α) (up : List α) : List α := up.flatMap (firstResults c)

def init (up : List α) : St α := { up := up, it := none, pend := [] }

end ZwVerif.OrOp
