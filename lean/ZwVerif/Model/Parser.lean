import ZwVerif.Model.Lexer
/-
  Model of libzwerg/parser.yy: a recursive-descent reading of the LALR grammar
  (bison resolves its seven shift/reduce conflicts by shifting: `[ ]` is the empty
  list, and postfix `* + ?` after `else S` and after `word: S` bind to the
  innermost statement — the descent does the same), with the grammar actions
  (tree constructors of tree_cr.hh, parse_op, parse_let, parse_subx, parse_int)
  transcribed; then `tree::simplify` (tree.cc).

  Core Lean only.
-/
namespace ZwVerif

namespace Tree

/-- `tree::create_cat <TT>` on optional trees (nullptr = none). -/
def createCat (tt : TT) (t1 t2 : Option Tree) : Option Tree :=
  match t1, t2 with
  | none, t2 => t2
  | t1, none => t1
  | some a, some b =>
    if a.tt = tt ∧ b.tt = tt then some (node tt a.payload (a.children ++ b.children))
    else if a.tt = tt then some (node tt a.payload (a.children ++ [b]))
    else if b.tt = tt then some (node tt b.payload (a :: b.children))
    else some (node tt .none [a, b])

def nop : Tree := mk0 .NOP
def maybeNop (t : Option Tree) : Tree := t.getD nop
def scope (t : Tree) : Tree := mk1 .SCOPE t
def assert_ (t : Tree) : Tree := mk1 .ASSERT t
def neg (t : Tree) : Tree := mk1 .PRED_NOT t

/-- `wrap_in_scope_unless` -/
def wrapInScopeUnless (tt : TT) (t : Option Tree) : Tree :=
  let r := maybeNop t
  if r.tt = tt then r else scope r

/-- `tree_for_id_block`: a BIND per identifier, concatenated -/
def idBlock (ids : List Bytes) : Option Tree :=
  ids.foldl (fun acc s => createCat .CAT acc (some (mkStr .BIND s))) none

def cstNode (tt : TT) (n : Nat) : Tree := node tt (.cst ⟨n, false⟩ .dec) []

/-- `parse_op_tmplet` -/
def opTmplet (name : Bytes) (t : Option Tree) : Tree :=
  let tt := node .SUBX_EVAL (.cst ⟨1, true⟩ .dec) [scope (maybeNop t)]
  (createCat .CAT (some tt) (idBlock [name])).getD nop

/-- `parse_op`: `A op B` ⇒ `?(let ~a~ := A; let ~b~ := B; ~a~ ~b~ op)` -/
def parseOp (a b : Option Tree) (word : Bytes) : Tree :=
  let ta := opTmplet (s2b "~a~") a
  let tb := opTmplet (s2b "~b~") b
  -- take_child appends a node as a child, even a CAT
  let ta := node ta.tt ta.payload (ta.children ++ [tb, mkStr .READ (s2b "~a~"),
                                                  mkStr .READ (s2b "~b~"), mkStr .READ word])
  assert_ (mk1 .PRED_SUBX_ANY (scope ta))

/-- `parse_let` -/
def parseLet (ids : List Bytes) (subx : Tree) : Tree :=
  let tt := node .SUBX_EVAL (.cst ⟨ids.length, false⟩ .dec) [scope subx]
  (createCat .CAT (some tt) (idBlock ids)).getD nop

/-- `parse_subx` -/
def parseSubx (ids : List Bytes) (subx : Tree) (forceScope : Bool := false) : Tree :=
  let r := (createCat .CAT (idBlock ids) (some subx)).getD nop
  if forceScope ∨ ids.length > 0 then scope r else r

def appendDropBelow (t : Tree) (drop : Nat) : Tree :=
  (createCat .CAT (some t) (some (node .F_BUILTIN (.bi (.dropBelow drop)) []))).getD nop

end Tree

/-! ### integer literals (`parse_int`) -/

def digitVal (c : UInt8) : Option Nat :=
  if c ≥ 48 ∧ c ≤ 57 then some (c.toNat - 48)
  else if c ≥ 97 ∧ c ≤ 122 then some (c.toNat - 87)
  else if c ≥ 65 ∧ c ≤ 90 then some (c.toNat - 55)
  else none

/-- `std::stoull (s, &pos, base)` on a string without sign or prefix (the callers strip
    them, except that strtoull itself would accept a second `0x` for base 16 — see below):
    returns (value, chars consumed), `none` for "no conversion". -/
def stoullDigits (base : Nat) : Bytes → Nat → Nat → Nat × Nat
  | [], acc, n => (acc, n)
  | c :: cs, acc, n =>
    match digitVal c with
    | some d => if d < base then stoullDigits base cs (acc * base + d) (n + 1) else (acc, n)
    | none => (acc, n)

def isHexDigit (c : UInt8) : Bool :=
  match digitVal c with
  | some d => decide (d < 16)
  | none => false

inductive IntLit where
  | ok (v : ZInt) (d : Dom)
  | invalid | outOfRange | stoullNoConv
deriving Repr, Inhabited

/-- `parse_int`.  `s` is the token text: optional '-', then [0-9][_a-zA-Z0-9]*. -/
def parseInt (s : Bytes) : IntLit :=
  let sign := s.head? = some 45
  let s := if sign then s.drop 1 else s
  let c0 := s.getD 0 0
  let c1 := s.getD 1 0
  let (base, dom, body) : Nat × Dom × Bytes :=
    if s.length > 2 ∧ c0 = 48 ∧ (c1 = 120 ∨ c1 = 88) then (16, .hex, s.drop 2)
    else if s.length > 2 ∧ c0 = 48 ∧ (c1 = 98 ∨ c1 = 66) then (2, .bin, s.drop 2)
    else if s.length > 2 ∧ c0 = 48 ∧ (c1 = 111 ∨ c1 = 79) then (8, .oct, s.drop 2)
    else if s.length > 1 ∧ c0 = 48 then (8, .oct, s.drop 1)
    else (10, .dec, s)
  -- strtoull with base 16 skips one more "0x"/"0X" prefix when a hex digit follows
  let body' :=
    if base = 16 ∧ body.length > 2 ∧ body.getD 0 0 = 48 ∧ (body.getD 1 0 = 120 ∨ body.getD 1 0 = 88)
       ∧ isHexDigit (body.getD 2 0) = true then body.drop 2 else body
  let skipped := body.length - body'.length
  let (v, n) := stoullDigits base body' 0 0
  if n = 0 then .stoullNoConv     -- std::invalid_argument
  else if v ≥ 2^64 then .outOfRange
  else if n + skipped < body.length then .invalid
  else
    let z : ZInt := ⟨v, false⟩
    if sign then
      match ZInt.neg z with
      | .ok r => .ok r dom
      | .error _ => .outOfRange       -- std::domain_error from unary minus: an error as well
    else .ok z dom

/-! ### the grammar -/

def startsStatement : Tok → Bool
  | .lparen | .qlparen | .blparen | .lbracket _ | .lbrace | .qlbrace | .blbrace
  | .klet | .kif | .litInt _ | .word _ | .numword _ | .litStr _ | .debug => true
  | _ => false

abbrev P := Except CErr

def synErr : P α := .error "syntax error"

/-- `IdList`: one or more WORD tokens.  The grammar is right recursive and pushes each name
    after the ones that follow it, so the list comes out reversed: the LAST written
    identifier is first. -/
def parseIdList : List Tok → List Bytes → (List Bytes × List Tok)
  | .word s :: ts, acc => parseIdList ts (s :: acc)
  | ts, acc => (acc, ts)

/-- `IdBlockOpt` -/
def parseIdBlockOpt (ts : List Tok) : P (List Bytes × List Tok) :=
  match ts with
  | .vbar :: rest =>
    let (ids, rest') := parseIdList rest []
    if ids.isEmpty then synErr
    else match rest' with
      | .vbar :: r => .ok (ids, r)
      | _ => synErr
  | _ => .ok ([], ts)

/-- `parse_numword` -/
def parseNumword (s : Bytes) : P Tree :=
  let positive := s.head? = some 63
  match parseInt (s.drop 1) with
  | .ok v _ => .ok (Tree.node .F_BUILTIN (.bi (.predPos positive v.u)) [])
  | _ => .error "invalid position assertion"

mutual
/-- `Program`: AltList, never null (maybe_nop) -/
def parseProgram : Nat → List Tok → P (Tree × List Tok)
  | 0, _ => .error "fuel"
  | f + 1, ts => do
    let (t, rest) ← parseAltList f ts
    pure (Tree.maybeNop t, rest)

def parseAltList : Nat → List Tok → P (Option Tree × List Tok)
  | 0, _ => .error "fuel"
  | f + 1, ts => do
    let (t1, rest) ← parseOrList f ts
    match rest with
    | .comma :: rest' =>
      let (t3, rest'') ← parseAltList f rest'
      let u1 := Tree.wrapInScopeUnless .ALT t1
      let u3 := Tree.wrapInScopeUnless .ALT t3
      pure (Tree.createCat .ALT (some u1) (some u3), rest'')
    | _ => pure (t1, rest)

def parseOrList : Nat → List Tok → P (Option Tree × List Tok)
  | 0, _ => .error "fuel"
  | f + 1, ts => do
    let (t1, rest) ← parseOpList f ts
    match rest with
    | .dvbar :: rest' =>
      let (t3, rest'') ← parseOrList f rest'
      let u1 := Tree.wrapInScopeUnless .OR t1
      let u3 := Tree.wrapInScopeUnless .OR t3
      pure (Tree.createCat .OR (some u1) (some u3), rest'')
    | _ => pure (t1, rest)

def parseOpList : Nat → List Tok → P (Option Tree × List Tok)
  | 0, _ => .error "fuel"
  | f + 1, ts => do
    let (t1, rest) ← parseStatementList f ts
    match rest with
    | .op w :: rest' =>
      let (t3, rest'') ← parseStatementList f rest'
      pure (some (Tree.parseOp t1 t3 w), rest'')
    | _ => pure (t1, rest)

def parseStatementList : Nat → List Tok → P (Option Tree × List Tok)
  | 0, _ => .error "fuel"
  | f + 1, ts =>
    match ts with
    | t :: _ =>
      if startsStatement t then do
        let (t1, rest) ← parseStatement f ts
        let (t2, rest') ← parseStatementList f rest
        pure (Tree.createCat .CAT (some t1) t2, rest')
      else pure (none, ts)
    | [] => pure (none, ts)

/-- a bracketed `IdBlockOpt Program` up to the closing token -/
def parseBracketed : Nat → List Tok → P (List Bytes × Tree × List Tok)
  | 0, _ => .error "fuel"
  | f + 1, ts => do
    let (ids, rest) ← parseIdBlockOpt ts
    let (t, rest') ← parseProgram f rest
    pure (ids, t, rest')

def parseStatement : Nat → List Tok → P (Tree × List Tok)
  | 0, _ => .error "fuel"
  | f + 1, ts => do
    let (t, rest) ← parsePrimary f ts
    parsePostfix f t rest

/-- postfix `*`, `+`, `?` (left recursive in the grammar: applied innermost first) -/
def parsePostfix : Nat → Tree → List Tok → P (Tree × List Tok)
  | 0, _, _ => .error "fuel"
  | f + 1, t, ts =>
    match ts with
    | .asterisk :: rest =>
      let t' := match t.tt with
        | .CLOSE_STAR => t
        | .CLOSE_PLUS => Tree.node .CLOSE_STAR t.payload t.children
        | _ => Tree.mk1 .CLOSE_STAR (Tree.scope t)
      parsePostfix f t' rest
    | .plus :: rest =>
      let t' := if t.tt = .CLOSE_STAR ∨ t.tt = .CLOSE_PLUS then t
                else Tree.mk1 .CLOSE_PLUS (Tree.scope t)
      parsePostfix f t' rest
    | .qmark :: rest =>
      parsePostfix f ((Tree.createCat .ALT (some t) (some Tree.nop)).getD Tree.nop) rest
    | _ => .ok (t, ts)

def parsePrimary : Nat → List Tok → P (Tree × List Tok)
  | 0, _ => .error "fuel"
  | f + 1, ts =>
    match ts with
    | .lparen :: rest => do
      let (ids, t, rest') ← parseBracketed f rest
      match rest' with
      | .rparen :: r => pure (Tree.parseSubx ids t, r)
      | _ => synErr
    | .qlparen :: rest => do
      let (ids, t, rest') ← parseBracketed f rest
      match rest' with
      | .rparen :: r =>
        pure (Tree.assert_ (Tree.mk1 .PRED_SUBX_ANY (Tree.parseSubx ids t)), r)
      | _ => synErr
    | .blparen :: rest => do
      let (ids, t, rest') ← parseBracketed f rest
      match rest' with
      | .rparen :: r =>
        pure (Tree.assert_ (Tree.neg (Tree.mk1 .PRED_SUBX_ANY (Tree.parseSubx ids t))), r)
      | _ => synErr
    | .lbracket drop :: .rbracket :: r =>
      let t := Tree.mk0 .EMPTY_LIST
      pure (if drop > 0 then Tree.appendDropBelow t drop else t, r)
    | .lbracket drop :: rest => do
      let (ids, t, rest') ← parseBracketed f rest
      match rest' with
      | .rbracket :: r =>
        let inner := (Tree.createCat .CAT (Tree.idBlock ids)
                        (some (Tree.mk1 .CAPTURE (Tree.scope t)))).getD Tree.nop
        let ret := Tree.scope inner
        pure (if drop > 0 then Tree.appendDropBelow ret drop else ret, r)
      | _ => synErr
    | .lbrace :: rest => do
      let (ids, t, rest') ← parseBracketed f rest
      match rest' with
      | .rbrace :: r => pure (Tree.mk1 .BLOCK (Tree.parseSubx ids t true), r)
      | _ => synErr
    | .qlbrace :: rest => do
      let (ids, t, rest') ← parseBracketed f rest
      match rest' with
      | .rbrace :: r =>
        pure (Tree.mk1 .BLOCK (Tree.assert_ (Tree.mk1 .PRED_SUBX_ANY (Tree.parseSubx ids t true))), r)
      | _ => synErr
    | .blbrace :: rest => do
      let (ids, t, rest') ← parseBracketed f rest
      match rest' with
      | .rbrace :: r =>
        pure (Tree.mk1 .BLOCK (Tree.assert_ (Tree.neg
                (Tree.mk1 .PRED_SUBX_ANY (Tree.parseSubx ids t true)))), r)
      | _ => synErr
    | .klet :: .litStr s :: .assign :: rest => do
      match s with
      | .node .FORMAT _ [.node .STR (.str name) _] =>
        let (t, rest') ← parseProgram f rest
        match rest' with
        | .semicolon :: r => pure (Tree.parseLet [name] t, r)
        | _ => synErr
      | _ =>
        -- the action runs (and throws) only after `Program ;` has been parsed
        let (_, rest') ← parseProgram f rest
        match rest' with
        | .semicolon :: _ => .error "String let requires a simple string"
        | _ => synErr
    | .klet :: rest =>
      let (ids, rest') := parseIdList rest []
      if ids.isEmpty then synErr
      else match rest' with
        | .assign :: rest'' => do
          let (t, r) ← parseProgram f rest''
          match r with
          | .semicolon :: r' => pure (Tree.parseLet ids t, r')
          | _ => synErr
        | _ => synErr
    | .kif :: rest => do
      let (c, r1) ← parseStatement f rest
      match r1 with
      | .kthen :: r2 =>
        let (a, r3) ← parseStatement f r2
        match r3 with
        | .kelse :: r4 =>
          let (b, r5) ← parseStatement f r4
          pure (Tree.node .IFELSE .none [Tree.scope c, Tree.scope a, Tree.scope b], r5)
        | _ => synErr
      | _ => synErr
    | .litInt s :: r =>
      match parseInt s with
      | .ok v d => pure (Tree.node .CONST (.cst v d) [], r)
      | .invalid => .error "Invalid integer literal"
      | .outOfRange => .error "Integer literal out of range"
      | .stoullNoConv => .error "stoull"
    | .word s :: .colon :: rest => do
      let (t3, r) ← parseStatement f rest
      pure ((Tree.createCat .CAT (some t3) (some (Tree.mkStr .READ s))).getD Tree.nop, r)
    | .word s :: r => pure (Tree.mkStr .READ s, r)
    | .numword s :: .colon :: rest => do
      let w ← parseNumword s
      let (t3, r) ← parseStatement f rest
      pure ((Tree.createCat .CAT (some t3) (some w)).getD Tree.nop, r)
    | .numword s :: r => do
      let w ← parseNumword s
      pure (w, r)
    | .litStr t :: r => pure (t, r)
    | .debug :: r => pure (Tree.mk0 .F_DEBUG, r)
    | _ => synErr
end

/-- `parse_query` / `parse_subquery` (the lexer's splices call back into it). -/
def parseQuery : Nat → Bytes → P Tree
  | 0, _ => .error "fuel"
  | f + 1, s => do
    let toks ← lexInitial (parseQuery f) (s.length + 2) s
    let (t, rest) ← parseProgram (toks.length * 4 + 8) toks
    match rest with
    | [.eof] => pure t
    | _ => synErr

/-! ### `tree::simplify` -/

namespace Tree

/-- splice the children of same-typed children in place (one full pass of the promotion
    loop; the loop repeats until nothing changes, which one pass over already simplified
    children plus re-flattening achieves — see `flattenFix`). -/
def flattenOnce (tt : TT) (cs : List Tree) : List Tree :=
  cs.flatMap fun c => if c.tt = tt then c.children else [c]

def flattenFix (tt : TT) : Nat → List Tree → List Tree
  | 0, cs => cs
  | n + 1, cs => if cs.any (·.tt = tt) then flattenFix tt n (flattenOnce tt cs) else cs

mutual
def size : Tree → Nat
  | node _ _ cs => 1 + sizeList cs
def sizeList : List Tree → Nat
  | [] => 0
  | c :: cs => size c + sizeList cs
end

/-- the part of `simplify` that runs after the children have been simplified; the C++
    re-enters `simplify ()` after each rewrite, `fuel` bounds that. -/
def simplifyTop : Nat → Tree → Tree
  | 0, t => t
  | fuel + 1, t =>
    match t with
    | node tt p cs =>
      -- promote CAT in CAT, ALT in ALT
      let cs := if tt = .CAT ∨ tt = .ALT then flattenFix tt (sizeList cs + 1) cs else cs
      -- promote CAT's only child
      if tt = .CAT ∧ cs.length = 1 then simplifyTop fuel (cs.headD nop)
      else
        match tt, cs with
        | .FORMAT, [c] =>
          if c.tt = .STR then simplifyTop fuel c
          else node tt p cs
        | .CAT, _ =>
          let cs' := cs.filter (·.tt ≠ .NOP)
          if cs'.length ≠ cs.length then simplifyTop fuel (node tt p cs') else node tt p cs
        | _, _ => node tt p cs

mutual
def simplifyF : Nat → Tree → Tree
  | 0, t => t
  | fuel + 1, node tt p cs => simplifyTop (fuel + 1) (node tt p (simplifyListF fuel cs))
def simplifyListF : Nat → List Tree → List Tree
  | _, [] => []
  | fuel, c :: cs => simplifyF fuel c :: simplifyListF fuel cs
end

def simplify (t : Tree) : Tree := simplifyF (size t + 2) t

end Tree

end ZwVerif
