/-
  Model of the command-line driver (dwgrep/dwgrep.cc `main`): option effects,
  the cartesian iteration over argument values (the `arg_its` bump loop), header
  rule, match / error bookkeeping, exit status.  The library is a parameter: for
  every combination of argument values it says which results come and whether an
  error is raised after them.

  Core Lean only.
-/
namespace ZwVerif.Cli

structure Opts where
  count : Bool := false      -- -c
  quiet : Bool := false      -- -q
  silent : Bool := false     -- -s
  withHeader : Bool := false -- -H
  noHeader : Bool := false   -- -h
deriving Repr, DecidableEq

/-- what one execution does: the printed lines of each result stack (top of stack first), then
    possibly an exception with its message -/
structure Run where
  results : List (List String)
  err : Option String
deriving Repr

structure Out where
  stdout : List String := []
  stderr : List String := []
  status : Nat
deriving Repr, DecidableEq

/-- an argument position: the values it ranges over, each with its rendering in a header -/
structure Arg where
  headers : List String      -- one per value
deriving Repr

/-- `++arg_its[i]` from the last position with carry; `none` when all wrapped around -/
def bump : List Nat → List Nat → Option (List Nat)       -- sizes, current indices
  | sizes, idx =>
    let rec go : List Nat → List Nat → Option (List Nat)   -- both reversed: last position first
      | [], [] => none
      | s :: ss, i :: is =>
        if i + 1 = s then (go ss is).map (0 :: ·)
        else some ((i + 1) :: is)
      | _, _ => none
    (go sizes.reverse idx.reverse).map List.reverse

/-- all combinations in the order the loop visits them -/
def combos (sizes : List Nat) : Nat → List Nat → List (List Nat)
  | 0, _ => []
  | fuel + 1, idx =>
    idx :: (match bump sizes idx with
            | some idx' => combos sizes fuel idx'
            | none => [])

/-- the header of one combination -/
def header (haveFiles : Bool) (args : List Arg) (idx : List Nat) : String :=
  let parts := (args.zip idx).zipIdx.filterMap fun ((a, i), pos) =>
    if (pos = 0 ∧ haveFiles) ∨ a.headers.length > 1 then some (a.headers.getD i "?") else none
  if parts.isEmpty then "<no-file>" else ",".intercalate parts

structure St where
  out : List String := []
  err : List String := []
  errors : Bool := false
  isMatch : Bool := false
  quitZero : Bool := false     -- -q: exit 0 at the first result

/-- one iteration of the main loop -/
def iteration (o : Opts) (withHeader : Bool) (hdr : String) (r : Run) (st : St) : St :=
  if st.quitZero then st else
  if o.quiet ∧ ¬ r.results.isEmpty then { st with quitZero := true } else
  let printed : List String :=
    if o.count then []
    else r.results.flatMap fun lines =>
      (if withHeader then [hdr ++ ":"] else []) ++ (if lines.length > 1 then ["---"] else []) ++ lines
  let st := { st with out := st.out ++ printed, isMatch := st.isMatch || !r.results.isEmpty }
  let st := match r.err with
    | none => st
    | some m =>
      { st with err := st.err ++ (if o.silent then [] else ["dwgrep: " ++ hdr ++ ": " ++ m]),
                errors := st.errors || !o.quiet }
  -- the count of what would otherwise have been printed, also after an error; never with -q
  if o.count ∧ ¬ o.quiet then
    { st with out := st.out ++ [(if withHeader then hdr ++ ":" else "") ++ toString r.results.length] }
  else st

/-- `main` after option parsing.  `compileErr`: the query (or an argument) failed to compile.
    `files`: names with whether they could be opened.  `extra`: the -a / --a arguments. -/
def main (o : Opts) (compileErr : Option String) (files : List (String × Bool)) (extra : List Arg)
    (exec : List Nat → Run) : Out :=
  match compileErr with
  | some m => { stderr := ["dwgrep: " ++ m], status := 2 }
  | none =>
    let openErrs := if o.silent then [] else
      (files.filter (!·.2)).map fun f => "dwgrep: " ++ f.1 ++ ": cannot open"
    let opened := files.filter (·.2)
    if ¬ files.isEmpty ∧ opened.isEmpty then { stderr := openErrs, status := 1 }
    else
      let args : List Arg := (if files.isEmpty then [] else [{ headers := opened.map (·.1) }]) ++ extra
      let sizes := args.map (·.headers.length)
      let iterations := sizes.foldl (· * ·) 1
      if iterations = 0 then { stderr := openErrs, status := 1 }
      else
        let withHeader := if o.noHeader then false else (o.withHeader || iterations > 1)
        let cs := combos sizes iterations (sizes.map fun _ => 0)
        let st := cs.foldl (fun st idx =>
          iteration o withHeader (header (!files.isEmpty) args idx) (exec idx) st) {}
        if st.quitZero then { stdout := [], stderr := openErrs ++ st.err, status := 0 }
        else { stdout := st.out, stderr := openErrs ++ st.err,
               status := if st.errors then 2 else if st.isMatch then 0 else 1 }

end ZwVerif.Cli
