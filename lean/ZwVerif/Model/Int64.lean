/-
  Model of libzwerg/int.cc (struct mpz_class): a 64-bit word together with a
  signedness tag, covering the union of the signed and unsigned 64-bit ranges.

  Every operator is transcribed branch for branch from int.cc, wrap-around of
  the C++ unsigned arithmetic made explicit with `% 2^64`.  `operator+` and
  `operator-` are mutually recursive in the C++; here they share a fuel
  argument, and the exactness theorems show fuel 4 is never exhausted.

  Core Lean only (the model driver links this file).
-/
namespace ZwVerif

/-- `signedness::sign` is `true`, `signedness::unsign` is `false`. -/
structure ZInt where
  u : Nat
  sign : Bool
deriving DecidableEq, Repr, Inhabited

inductive IntErr where
  | overflow
  | div0
  | fuel      -- model artefact: recursion budget exhausted (proved unreachable)
deriving DecidableEq, Repr, Inhabited

namespace ZInt

/-- The representation invariant: `m_u` is a 64-bit word. -/
def WF (z : ZInt) : Prop := z.u < 2^64

instance (z : ZInt) : Decidable z.WF := by unfold WF; infer_instance

/-- `m_sign == signedness::sign && m_i < 0`. -/
def isNeg (z : ZInt) : Bool := z.sign && decide (2^63 ≤ z.u)

/-- `m_i`: the word read as two's complement. -/
def ival (z : ZInt) : Int := if 2^63 ≤ z.u then (z.u : Int) - 2^64 else z.u

/-- The integer denoted. -/
def den (z : ZInt) : Int := if z.isNeg then (z.u : Int) - 2^64 else z.u

def ofU (n : Nat) : ZInt := ⟨n % 2^64, false⟩
/-- `mpz_class {int64_t}`: store the two's complement word, tag signed. -/
def ofI (i : Int) : ZInt := ⟨(i % 2^64).toNat, true⟩

/-- Canonical representation of an integer in [-2^63, 2^64-1] (negative: signed;
    otherwise unsigned). -/
def ofInt (i : Int) : ZInt := if i < 0 then ofI i else ⟨i.toNat, false⟩

/-- `operator<`. -/
def lt (v1 v2 : ZInt) : Bool :=
  if v1.sign = v2.sign then
    if v1.sign then decide (v1.ival < v2.ival) else decide (v1.u < v2.u)
  else if v1.isNeg then true
  else if v2.isNeg then false
  else decide (v1.u < v2.u)

def beq' (v1 v2 : ZInt) : Bool := !(lt v1 v2) && !(lt v2 v1)     -- operator==
def le (v1 v2 : ZInt) : Bool := lt v1 v2 || !(lt v2 v1)          -- operator<=
def gt (v1 v2 : ZInt) : Bool := !(le v1 v2)                      -- operator>
def ge (v1 v2 : ZInt) : Bool := !(lt v1 v2)                      -- operator>=
def ne (v1 v2 : ZInt) : Bool := !(beq' v1 v2)                    -- operator!=

/-- unary `operator-`. -/
def neg (v : ZInt) : Except IntErr ZInt :=
  if v.sign then
    if v.u = 2^63 then .ok ⟨2^63, false⟩                 -- m_i == INT64_MIN
    else if 0 < v.u ∧ v.u < 2^63 then .ok ⟨2^64 - v.u, true⟩   -- m_i > 0
    else .ok ⟨(2^64 - v.u) % 2^64, false⟩                -- m_i <= 0: magnitude, unsigned
  else
    if v.u > 2^63 then .error .overflow
    else .ok ⟨(2^64 - v.u) % 2^64, true⟩

/-- `v1 >= 0` as tested in `operator-` and `operator*`:
    `m_sign == unsign || m_i >= 0`. -/
def nonneg (v : ZInt) : Bool := !v.sign || decide (v.u < 2^63)

mutual
/-- `operator+`. -/
def addF : Nat → ZInt → ZInt → Except IntErr ZInt
  | 0, _, _ => .error .fuel
  | fuel+1, v1, v2 =>
    let uns : Except IntErr ZInt :=
      let result := (v1.u + v2.u) % 2^64
      if result < v1.u then .error .overflow else .ok ⟨result, false⟩
    if v1.sign = v2.sign then
      if !v1.sign then uns
      else
        let a := v1.ival
        let b := v2.ival
        if (a ≤ 0 ∧ b ≥ 0) ∨ (b ≤ 0 ∧ a ≥ 0) then .ok (ofI (a + b))
        else if a ≥ 0 ∧ b ≥ 0 then uns
        else if a = -2^63 ∨ b = -2^63 then .error .overflow
        else
          let ua := (-a).toNat
          let ub := (-b).toNat
          let ur := (ua + ub) % 2^64
          if ur < ua ∨ ur > 2^63 then .error .overflow
          else .ok ⟨(2^64 - ur) % 2^64, true⟩
    else if v1.isNeg then
      match neg v1 with
      | .error e => .error e
      | .ok nv1 => subF fuel v2 nv1
    else if v2.isNeg then
      match neg v2 with
      | .error e => .error e
      | .ok nv2 => subF fuel v1 nv2
    else uns

/-- binary `operator-`. -/
def subF : Nat → ZInt → ZInt → Except IntErr ZInt
  | 0, _, _ => .error .fuel
  | fuel+1, v1, v2 =>
    if v1.nonneg ∧ v2.nonneg then
      if v1.u > v2.u then .ok ⟨v1.u - v2.u, false⟩
      else
        let r := v2.u - v1.u
        if r > 2^63 then .error .overflow
        else .ok ⟨(2^64 - r) % 2^64, true⟩
    else if v2.isNeg then
      match neg v2 with
      | .error e => .error e
      | .ok nv2 => addF fuel v1 nv2
    else
      -- v1 < 0, v2 >= 0
      if v2.u > (v1.u + 2^63) % 2^64 then .error .overflow     -- v1.m_u - INT64_MIN wraps
      else .ok (ofI (v1.ival - v2.ival))
end

def add (a b : ZInt) : Except IntErr ZInt := addF 4 a b
def sub (a b : ZInt) : Except IntErr ZInt := subF 4 a b

/-- the unsigned product with its overflow test (`r / a != b`) -/
def mulU (a b : Nat) : Except IntErr ZInt :=
  if a ≠ 0 ∧ (a * b) % 2^64 / a ≠ b then .error .overflow
  else .ok ⟨(a * b) % 2^64, false⟩

/-- the negated product: both overflow tests of the last arm of `operator*` -/
def mulN (a b : Nat) : Except IntErr ZInt :=
  if a ≠ 0 ∧ (a * b) % 2^64 / a ≠ b then .error .overflow
  else if (a * b) % 2^64 > 2^63 then .error .overflow
  else .ok ⟨(2^64 - (a * b) % 2^64) % 2^64, true⟩

/-- `operator*`. -/
def mul (v1 v2 : ZInt) : Except IntErr ZInt :=
  -- both negative: negate both
  let step1 : Except IntErr (ZInt × ZInt) :=
    if v1.isNeg ∧ v2.isNeg then
      match neg v1, neg v2 with
      | .ok a, .ok b => .ok (a, b)
      | .error e, _ => .error e
      | _, .error e => .error e
    else .ok (v1, v2)
  match step1 with
  | .error e => .error e
  | .ok (v1, v2) =>
    if v1.nonneg ∧ v2.nonneg then mulU v1.u v2.u
    else
      -- `if (v1 < 0) v1.swap (v2)`: make v2 the negative one
      let p : ZInt × ZInt := if v1.isNeg then (v2, v1) else (v1, v2)
      match neg p.2 with
      | .error e => .error e
      | .ok nv2 => mulN nv2.u p.1.u

/-- `v < 0` with the literal `0` (an `int`, hence signed). -/
def ltZero (v : ZInt) : Bool := lt v ⟨0, true⟩

/-- tail of `operator/` once both operands are magnitudes `a`, `b` and `ng`
    says whether the quotient is negative -/
def divCore (a b : Nat) (ng : Bool) : Except IntErr ZInt :=
  let q0 := a / b
  let q := if ng ∧ a % b ≠ 0 then (q0 + 1) % 2^64 else q0     -- `++q`
  let ret : ZInt := ⟨q, false⟩
  if ng then neg ret else .ok ret

/-- `operator/` (floor division). -/
def div (v1 v2 : ZInt) : Except IntErr ZInt :=
  if v2.u = 0 then .error .div0
  else
    let s1 : Except IntErr (ZInt × Bool) :=
      if ltZero v1 then (neg v1).map (fun x => (x, true)) else .ok (v1, false)
    match s1 with
    | .error e => .error e
    | .ok (v1, neg1) =>
      let s2 : Except IntErr (ZInt × Bool) :=
        if ltZero v2 then (neg v2).map (fun x => (x, !neg1)) else .ok (v2, neg1)
      match s2 with
      | .error e => .error e
      | .ok (v2, ng) => divCore v1.u v2.u ng

/-- tail of `operator%` on magnitudes -/
def modCore (a b : Nat) (neg1 neg2 : Bool) : Except IntErr ZInt :=
  let m0 := a % b
  let m := if m0 ≠ 0 ∧ neg1 ≠ neg2 then b - m0 else m0
  let ret : ZInt := ⟨m, false⟩
  if neg2 then neg ret else .ok ret

/-- `operator%` (remainder with the sign of the divisor). -/
def mod (v1 v2 : ZInt) : Except IntErr ZInt :=
  if v2.u = 0 then .error .div0
  else
    let neg1 := ltZero v1
    let neg2 := ltZero v2
    let ea : Except IntErr Nat := if neg1 then (neg v1).map (·.u) else .ok v1.u
    let eb : Except IntErr Nat := if neg2 then (neg v2).map (·.u) else .ok v2.u
    match ea, eb with
    | .error e, _ => .error e
    | _, .error e => .error e
    | .ok a, .ok b => modCore a b neg1 neg2

end ZInt
end ZwVerif
