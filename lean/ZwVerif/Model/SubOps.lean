/-
  The operators that run a sub-expression per incoming stack (op.cc: op_capture, op_subx, op_ifelse,
  op_assert with pred_subx_any) as state machines.  A sub-expression's operator chain is seen the
  way its `op_origin` sees it: it holds at most one stack to start from (`m_stk`) and may still
  have results of an earlier start to come (`pend`); it is abstracted to what it yields for one
  stack (`f s`).  What is modelled exactly: when the chain's state is created, destroyed and
  re-created (`state_con` / `state_des` / `scon_guard`), who feeds the origin when, and which of
  the chain's results are taken.

  `next` of every operator is a function (the `while (true)` loops terminate because every turn
  either consumes an upstream stack or leaves the "have a current stack" state); pulling until
  exhaustion is the relation `Drain`.

  Core Lean only.
-/
namespace ZwVerif.SubOps

/-- the state of a sub-expression's chain -/
structure Body (α β : Type) where
  org : Option α        -- op_origin::state::m_stk
  pend : List β         -- results of the last start that are still to come
deriving Repr

variable {α β γ : Type}

/-- `state_con`: nothing to start from, nothing pending -/
def Body.fresh : Body α β := ⟨none, []⟩

/-- `op_origin::set_next` -/
def Body.setNext (b : Body α β) (s : α) : Body α β := { b with org := some s }

/-- `next` of the chain: what is pending first; else start from the origin's stack; else dry -/
def Body.next (f : α → List β) (b : Body α β) : Option β × Body α β :=
  match b.pend with
  | x :: xs => (some x, { b with pend := xs })
  | [] =>
    match b.org with
    | some s =>
      match f s with
      | x :: xs => (some x, ⟨none, xs⟩)
      | [] => (none, ⟨none, []⟩)
    | none => (none, b)

/-- pulling something until it reports exhaustion (`next` a function) -/
inductive Drain {σ ρ : Type} (next : σ → Option ρ × σ) : σ → List ρ → σ → Prop
  | nil {st : σ} : (next st).1 = none → Drain next st [] (next st).2
  | cons {st st' : σ} {x : ρ} {xs : List ρ} : (next st).1 = some x → Drain next (next st).2 xs st' → Drain next st (x :: xs) st'

/-- … (`next` a relation) -/
inductive DrainR {σ ρ : Type} (next : σ → Option ρ → σ → Prop) : σ → List ρ → σ → Prop
  | nil {st st' : σ} : next st none st' → DrainR next st [] st'
  | cons {st st' st'' : σ} {x : ρ} {xs : List ρ} : next st (some x) st' → DrainR next st' xs st'' → DrainR next st (x :: xs) st''

/-! ### op_capture -/

structure CapSt (α β : Type) where
  up : List α
  body : Body α β

/-- `op_capture::next`: one upstream stack; the chain is started on a copy and pulled dry
    (`while (auto stk2 = m_op->next (sc))`); its state is destroyed and created anew
    (`m_op->state_des (sc); m_op->state_con (sc);`) -/
inductive CapNext (f : α → List β) (mk : α → List β → γ) : CapSt α β → Option γ → CapSt α β → Prop
  | input {st : CapSt α β} {s : α} {rest : List α} {vs : List β} {b' : Body α β} : st.up = s :: rest →
      Drain (Body.next f) (st.body.setNext s) vs b' → CapNext f mk st (some (mk s vs)) { up := rest, body := Body.fresh }
  | done {st : CapSt α β} : st.up = [] → CapNext f mk st none st

/-! ### op_subx -/

/-- the state of `op_subx`: the upstream, `m_stk`, the chain -/
abbrev SubxSt (α β : Type) := List α × Option α × Body α β

/-- `op_subx::next` -/
def subxNext (f : α → List β) (comb : α → β → γ) : List α → Option α → Body α β → Option γ × SubxSt α β
  | [], none, b => (none, ([], none, b))
  | s :: rest, none, b => subxNext f comb rest (some s) (b.setNext s)
  | up, some s, b =>
    match Body.next f b with
    | (some y, b') => (some (comb s y), (up, some s, b'))
    | (none, b') => subxNext f comb up none b'
termination_by up cur _ => 2 * up.length + (if cur.isSome then 1 else 0)
decreasing_by all_goals simp <;> omega

def subxStep (f : α → List β) (comb : α → β → γ) (st : SubxSt α β) : Option γ × SubxSt α β :=
  subxNext f comb st.1 st.2.1 st.2.2

/-! ### op_ifelse -/

/-- the state of `op_ifelse`: the upstream and `m_sg` — the branch that runs (true = then) with its chain's
    state, created for this input -/
abbrev IfSt (α β : Type) := List α × Option (Bool × Body α β)

/-- `op_ifelse::next`: the condition runs under a guard of its own (state created, first result taken,
    state destroyed); then the chosen branch's state is created, fed, pulled dry and destroyed -/
def ifNext (c : α → List β) (t e : α → List β) : List α → Option (Bool × Body α β) → Option β × IfSt α β
  | [], none => (none, ([], none))
  | s :: rest, none =>
    let condStk := (Body.next c ((Body.fresh : Body α β).setNext s)).1
    ifNext c t e rest (some (condStk.isSome, (Body.fresh : Body α β).setNext s))
  | up, some (w, b) =>
    match Body.next (if w then t else e) b with
    | (some y, b') => (some y, (up, some (w, b')))
    | (none, _) => ifNext c t e up none
termination_by up sg => 2 * up.length + (if sg.isSome then 1 else 0)
decreasing_by all_goals simp <;> omega

def ifStep (c : α → List β) (t e : α → List β) (st : IfSt α β) : Option β × IfSt α β := ifNext c t e st.1 st.2

/-! ### op_assert with pred_subx_any -/

/-- `pred_subx_any::result`: under a guard of its own, is there a first result? -/
def subxAny (c : α → List β) (s : α) : Bool := (Body.next c ((Body.fresh : Body α β).setNext s)).1.isSome

/-- `op_assert::next`: the next upstream stack the predicate holds on -/
def assertNext (p : α → Bool) : List α → Option α × List α
  | [] => (none, [])
  | s :: rest => if p s then (some s, rest) else assertNext p rest

end ZwVerif.SubOps
