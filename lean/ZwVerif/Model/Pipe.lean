/-
  The pull engine's way of composing operators, once and for all.  An operator is a machine that is
  pulled (`next`: a result, or exhaustion, and a new state).  The one way operators are put
  together (op.cc: every `inner_op` with an upstream; op_subx, stringer_op, op_format and the
  closure / capture family with an `op_origin` they feed) is

      for every item the upstream yields: feed it to a chain, pull the chain dry, combine
      what it yields with the item

  (`nest`).  A chain is any machine with an idle state that, fed an item, yields a list depending
  on that item alone and comes back to idle (`Chain`).  `nest` of an upstream and a chain is again
  something that can be fed — so chains compose (`Chain.comp`), which is what CAT is.

  `next` is a relation (an upstream may yield for ever; no fuel).  Core Lean only.
-/
namespace ZwVerif.Pipe

/-- a machine that is pulled -/
structure Mach (ρ : Type) where
  σ : Type
  next : σ → Option ρ → σ → Prop

variable {α β γ : Type}

/-- pulling until exhaustion is reported -/
inductive Mach.Drain (M : Mach ρ) : M.σ → List ρ → M.σ → Prop
  | nil {st st' : M.σ} : M.next st none st' → Mach.Drain M st [] st'
  | cons {st st' st'' : M.σ} {x : ρ} {xs : List ρ} : M.next st (some x) st' → Mach.Drain M st' xs st'' →
      Mach.Drain M st (x :: xs) st''

def Mach.Det (M : Mach ρ) : Prop := ∀ st r1 s1 r2 s2, M.next st r1 s1 → M.next st r2 s2 → r1 = r2 ∧ s1 = s2

/-- a list as an upstream (`op_origin` holding the stacks still to come) -/
def listSrc (α : Type) : Mach α where
  σ := List α
  next := fun st r st' => match st with
    | [] => r = none ∧ st' = []
    | a :: rest => r = some a ∧ st' = rest

/-- something that can be fed an item and then yields `f item`, coming back to `idle` -/
structure Chain (α β : Type) where
  M : Mach β
  idle : M.σ
  feed : M.σ → α → M.σ
  f : α → List β
  ok : ∀ a, M.Drain (feed idle a) (f a) idle
  det : M.Det

/-- the state of `nest U C`: the upstream's, the item being worked on (`m_stk`), the chain's -/
abbrev NestSt (U : Mach α) (C : Chain α β) := U.σ × Option α × C.M.σ

/-- `next` of an operator that feeds every upstream item to a chain and combines -/
inductive NestNext (U : Mach α) (C : Chain α β) (comb : α → β → γ) : NestSt U C → Option γ → NestSt U C → Prop
  /-- no current item: take the next one from upstream, feed the chain, go on -/
  | pull {u u' : U.σ} {c : C.M.σ} {a : α} {r : Option γ} {st' : NestSt U C} : U.next u (some a) u' →
      NestNext U C comb (u', some a, C.feed c a) r st' → NestNext U C comb (u, none, c) r st'
  /-- … the upstream is exhausted -/
  | endUp {u u' : U.σ} {c : C.M.σ} : U.next u none u' → NestNext U C comb (u, none, c) none (u', none, c)
  /-- the chain yields for the current item -/
  | yield {u : U.σ} {c c' : C.M.σ} {a : α} {y : β} : C.M.next c (some y) c' →
      NestNext U C comb (u, some a, c) (some (comb a y)) (u, some a, c')
  /-- the chain is dry: forget the item, go on -/
  | dry {u : U.σ} {c c' : C.M.σ} {a : α} {r : Option γ} {st' : NestSt U C} : C.M.next c none c' →
      NestNext U C comb (u, none, c') r st' → NestNext U C comb (u, some a, c) r st'

def nest (U : Mach α) (C : Chain α β) (comb : α → β → γ) : Mach γ where
  σ := NestSt U C
  next := NestNext U C comb

/-- what `nest` should yield -/
def nestSpec (f : α → List β) (comb : α → β → γ) (l : List α) : List γ := l.flatMap fun a => (f a).map (comb a)

/-- … with the operator numbering what it yields per item (`op_format::state::m_pos`, reset when the next item is taken:
    `sc.reset <state> (m_ll)`) -/
abbrev NumSt (U : Mach α) (C : Chain α β) := U.σ × Option α × C.M.σ × Nat

inductive NumNext (U : Mach α) (C : Chain α β) (comb : α → β → Nat → γ) : NumSt U C → Option γ → NumSt U C → Prop
  | pull {u u' : U.σ} {c : C.M.σ} {a : α} {n : Nat} {r : Option γ} {st' : NumSt U C} : U.next u (some a) u' →
      NumNext U C comb (u', some a, C.feed c a, 0) r st' → NumNext U C comb (u, none, c, n) r st'
  | endUp {u u' : U.σ} {c : C.M.σ} {n : Nat} : U.next u none u' → NumNext U C comb (u, none, c, n) none (u', none, c, n)
  | yield {u : U.σ} {c c' : C.M.σ} {a : α} {y : β} {n : Nat} : C.M.next c (some y) c' →
      NumNext U C comb (u, some a, c, n) (some (comb a y n)) (u, some a, c', n + 1)
  | dry {u : U.σ} {c c' : C.M.σ} {a : α} {n : Nat} {r : Option γ} {st' : NumSt U C} : C.M.next c none c' →
      NumNext U C comb (u, none, c', n) r st' → NumNext U C comb (u, some a, c, n) r st'

def nestNum (U : Mach α) (C : Chain α β) (comb : α → β → Nat → γ) : Mach γ where
  σ := NumSt U C
  next := NumNext U C comb

/-- number the elements of a list from `n` -/
def numFrom (g : β → Nat → γ) : Nat → List β → List γ
  | _, [] => []
  | n, y :: ys => g y n :: numFrom g (n + 1) ys

def numSpec (f : α → List β) (comb : α → β → Nat → γ) (l : List α) : List γ := l.flatMap fun a => numFrom (comb a) 0 (f a)

/-- a one-shot upstream: the origin of a chain, holding the item it was fed -/
def originSrc (α : Type) : Mach α where
  σ := Option α
  next := fun st r st' => r = st ∧ st' = none

end ZwVerif.Pipe
