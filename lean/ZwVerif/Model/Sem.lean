import ZwVerif.Model.Render
/-
  The documented meaning of a Zwerg program (doc/syntax.rst, doc/tutorial.rst,
  and the docstrings of the core words), as an executable function: the
  *stream* semantics `sem : Tree → List Ev → List Ev`.

  A stream is a list of events in the order the pull engine would produce
  them: result frames (environment of lexically bound names + stack), soft
  errors (a diagnostic on stderr, nothing yielded), and at most one hard error
  (an exception), always last.  Every sub-expression context (capture, let,
  assertion, closure body, splice, `if`, `||` branch, ALT branch, block
  application) evaluates its body on a fresh one-element stream.

  The one scheduling fact that is visible in results is reproduced: `op_merge`
  serves its branches round-robin and the branch that drains last pulls the next
  input, so within one segment the branch order for the k-th input is rotated
  (`rot`); a merge fed through an origin or a tine starts afresh for every input.

  Core Lean only.
-/
namespace ZwVerif

structure Frame where
  env : List (Bytes × Val)     -- innermost binding first
  stk : Stack
deriving Repr, Inhabited

inductive Ev where
  | frame (f : Frame)
  | soft (cls : String)        -- diagnostic class: overload, arith, cast, cmp, apply, warn, regex
  | hard (msg : String)        -- exception: underflow, unsupported:<word>, fuel
  /-- model bookkeeping: boundary between the inputs of a two-input segment (see `semAlt`) -/
  | mark
deriving Repr, Inhabited

abbrev Evs := List Ev

/-- cut a stream after its first hard error -/
def cutHard : Evs → Evs
  | [] => []
  | .hard m :: _ => [.hard m]
  | e :: es => e :: cutHard es

def Evs.frames (es : Evs) : List Frame := es.filterMap fun | .frame f => some f | _ => none
def Evs.hardMsg (es : Evs) : Option String := es.findSome? fun | .hard m => some m | _ => none
def Evs.softs (es : Evs) : List String := es.filterMap fun | .soft c => some c | _ => none

/-- what an `any`-consumer (assertion, `if` condition) sees: it pulls until the first result.
    Returns the events consumed before it (soft errors, or a hard error) and whether a result
    came. -/
def firstResult : Evs → Evs × Option Frame
  | [] => ([], none)
  | .frame f :: _ => ([], some f)
  | .hard m :: _ => ([.hard m], none)
  | e :: es => let (pre, r) := firstResult es; (e :: pre, r)

def underflow : Ev := .hard "underflow"

structure Ctx where
  cfg : Cfg
  typeName : Nat → Option String
  /-- names the vocabulary under test knows but the model gives no meaning to -/
  otherWords : List String
  /-- named constants of the vocabulary under test: word, domain, value (read from the implementation) -/
  consts : List (String × Dom × Nat) := []

/-! ### helpers on stacks -/

def cstV (v : ZInt) (d : Dom) : Val := .cst 0 v d
def natV (n : Nat) (d : Dom := .dec) : Val := .cst 0 ⟨n, false⟩ d

/-- map one frame to events -/
abbrev Word := Frame → Evs

def withStk (f : Frame) (s : Stack) : Ev := .frame { f with stk := s }

/-! ### core words -/

def wDrop : Word := fun f => match f.stk with
  | _ :: r => [withStk f r] | _ => [underflow]
def wSwap : Word := fun f => match f.stk with
  | a :: b :: r => [withStk f (b :: a :: r)] | _ => [underflow]
def wDup : Word := fun f => match f.stk with
  | a :: r => [withStk f (a :: a :: r)] | _ => [underflow]
def wOver : Word := fun f => match f.stk with
  | a :: b :: r => [withStk f (b :: a :: b :: r)] | _ => [underflow]
def wRot : Word := fun f => match f.stk with
  | a :: b :: c :: r => [withStk f (c :: a :: b :: r)] | _ => [underflow]

def wType (ctx : Ctx) : Word := fun f => match f.stk with
  | a :: r => [withStk f (cstV ⟨ctx.cfg.typeCode a.vt, false⟩ .slot :: r)] | _ => [underflow]
def wPos : Word := fun f => match f.stk with
  | a :: r => [withStk f (natV a.pos .pos :: r)] | _ => [underflow]

def wCast (d : Dom) : Word := fun f => match f.stk with
  | .cst _ v _ :: r => [withStk f (cstV v d :: r)]
  | _ :: _ => [.soft "cast"]
  | [] => [underflow]

def wPush (v : Val) : Word := fun f => [withStk f (v :: f.stk)]

/-- the selector test of overload.cc: the top `k` types, or a diagnostic -/
def noOverload : Evs := [.soft "overload"]

/-- `simple_arith_op` -/
def arith (op : ZInt → ZInt → Except IntErr ZInt) : Word := fun f => match f.stk with
  | .cst _ vb db :: .cst _ va da :: r =>
    let warn : Evs := if !da.safeArith || !db.safeArith then [.soft "warn"] else []
    let d := if da.plain then db else da
    match op va vb with
    | .ok v => warn ++ [withStk f (cstV v d :: r)]
    | .error _ => warn ++ [.soft "arith"]
  | _ => noOverload

def addressify (v : ZInt) (d : Dom) : Evs × Nat :=
  let w1 : Evs := if !d.safeArith then [.soft "warn"] else []
  if ZInt.ltZero v then (w1 ++ [.soft "warn"], 0)
  -- the address 2^64-1 (where start + length wraps) is outside the property's universe
  else if v.u ≥ 2^64 - 1 then (w1 ++ [.hard "unsupported:address-2^64-1"], v.u)
  else (w1, v.u)

def posMap (f : Nat → α → Val) (l : List α) : List Val := (l.zipIdx).map fun (x, i) => f i x

def wAdd : Word := fun f => match f.stk with
  | .cst _ _ _ :: .cst _ _ _ :: _ => arith ZInt.add f
  | .str _ b :: .str _ a :: r => [withStk f (.str 0 (a ++ b) :: r)]
  | .seq _ b :: .seq _ a :: r => [withStk f (.seq 0 (a ++ b) :: r)]
  | .cst _ v d :: .aset _ a :: r =>
    let (w, x) := addressify v d; cutHard (w ++ [withStk f (.aset 0 (Cov.wAddCst a x) :: r)])
  | .aset _ b :: .aset _ a :: r => [withStk f (.aset 0 (Cov.wAddAset a b) :: r)]
  | _ => noOverload

def wSub : Word := fun f => match f.stk with
  | .cst _ _ _ :: .cst _ _ _ :: _ => arith ZInt.sub f
  | .cst _ v d :: .aset _ a :: r =>
    let (w, x) := addressify v d; cutHard (w ++ [withStk f (.aset 0 (Cov.wSubCst a x) :: r)])
  | .aset _ b :: .aset _ a :: r => [withStk f (.aset 0 (Cov.wSubAset a b) :: r)]
  | _ => noOverload

def wArith1 (op : ZInt → ZInt → Except IntErr ZInt) : Word := fun f => match f.stk with
  | .cst _ _ _ :: .cst _ _ _ :: _ => arith op f
  | _ => noOverload

def wLength : Word := fun f => match f.stk with
  | .str _ s :: r => [withStk f (natV s.length :: r)]
  | .seq _ e :: r => [withStk f (natV e.length :: r)]
  | .aset _ c :: r => [withStk f (natV (Cov.wLength c) :: r)]
  | _ => noOverload

def wValue : Word := fun f => match f.stk with
  | .cst _ v _ :: r => [withStk f (cstV v .dec :: r)]
  | _ => noOverload

/-- `elem` / `relem`: every result numbered afresh from 0 -/
def wElem (rev : Bool) : Word := fun f =>
  let out (r : Stack) (vs : List Val) : Evs :=
    let vs := if rev then vs.reverse else vs
    (posMap (fun i v => v.setPos i) vs).map fun v => withStk f (v :: r)
  match f.stk with
  | .str _ s :: r => out r (s.map fun c => .str 0 [c])
  | .seq _ e :: r => out r e
  | .aset _ c :: r =>
    if Cov.wLength c > 100000 then [.hard "unsupported:huge-aset"]
    else out r ((Cov.wElem c).map fun a => natV a .addr)
  | _ => noOverload

/-! list-model predicates -/
def isPrefixBy (eq : α → α → Bool) : List α → List α → Bool      -- needle, haystack
  | [], _ => true
  | _ :: _, [] => false
  | a :: as, b :: bs => eq a b && isPrefixBy eq as bs

def isInfixBy (eq : α → α → Bool) (needle : List α) : List α → Bool
  | [] => needle.isEmpty
  | h :: hs => isPrefixBy eq needle (h :: hs) || isInfixBy eq needle hs

def isSuffixBy (eq : α → α → Bool) (needle hay : List α) : Bool :=
  isPrefixBy eq needle.reverse hay.reverse

mutual
/-- does a value contain a closure (closures compare by object identity: outside the model)? -/
def Val.hasClo : Val → Bool
  | .clo .. => true
  | .seq _ es => Val.hasCloList es
  | _ => false
def Val.hasCloList : List Val → Bool
  | [] => false
  | v :: vs => Val.hasClo v || Val.hasCloList vs
end

def unsupportedClo : Ev := .hard "unsupported:closure-compare"

def valEq (cfg : Cfg) (a b : Val) : Bool := Val.cmpAnySame cfg a b
where Val.cmpAnySame (cfg : Cfg) (a b : Val) : Bool :=
  -- `a->cmp (*b) == cmp_result::equal`: values of different types are not equal
  if cfg.typeCode a.vt = cfg.typeCode b.vt then Val.cmp cfg a b = some .eq else false

/-- three-valued predicate result: some true / some false / none = fail (diagnostic given) -/
abbrev PredR := Option Bool × Evs

def pFail : PredR := (none, [.soft "overload"])

def pEmpty : Stack → PredR
  | .str _ s :: _ => (some s.isEmpty, [])
  | .seq _ e :: _ => (some e.isEmpty, [])
  | .aset _ c :: _ => (some c.isEmpty, [])
  | _ => pFail

def pListPred (cfg : Cfg) (k : {α : Type} → (α → α → Bool) → List α → List α → Bool) : Stack → PredR
  | .str _ needle :: .str _ hay :: _ => (some (k (· == ·) needle hay), [])
  | .seq _ needle :: .seq _ hay :: _ =>
    if Val.hasCloList needle || Val.hasCloList hay then (none, [unsupportedClo])
    else (some (k (valEq cfg) needle hay), [])
  | _ => pFail

def pContains : Stack → PredR
  | .cst _ v d :: .aset _ a :: _ =>
    let (w, x) := addressify v d; (some (Cov.wContainsCst a x), w)
  | .aset _ b :: .aset _ a :: _ => (some (Cov.wContainsAset a b), [])
  | _ => pFail

def pOverlaps : Stack → PredR
  | .aset _ b :: .aset _ a :: _ => (some (Cov.wOverlaps a b), [])
  | _ => pFail

/-- `comparison_result`: `A B ?lt` asks A < B (A below B).  Hard error below two slots. -/
def pCmp (cfg : Cfg) (want : Ord3) : Stack → Option PredR      -- none = underflow
  | b :: a :: _ =>
    match Val.cmpAny cfg a b with
    | some r => some (some (r == want), [])
    | none => some (none, [unsupportedClo])
  | _ => none

/-- an assertion word: keeps the frame iff the predicate says `positive` -/
def assertWord (positive : Bool) (p : Stack → PredR) : Word := fun f =>
  let (r, evs) := p f.stk
  match r with
  | some b => cutHard (evs ++ (if b == positive then [.frame f] else []))
  | none => evs

def cmpWord (cfg : Cfg) (positive : Bool) (want : Ord3) : Word := fun f =>
  match pCmp cfg want f.stk with
  | none => [underflow]
  | some (r, evs) =>
    match r with
    | some b => evs ++ (if b == positive then [.frame f] else [])
    | none => evs

/-! address-set words of the DWARF vocabulary -/
def wAsetW : Word := fun f => match f.stk with
  | .cst _ vb db :: .cst _ va da :: r =>
    let (w1, a) := addressify va da
    let (w2, b) := addressify vb db
    cutHard (w1 ++ w2 ++ [withStk f (.aset 0 (Cov.wAset a b) :: r)])
  | _ => noOverload
def wLow : Word := fun f => match f.stk with
  | .aset _ c :: r => (match Cov.wLow c with | some x => [withStk f (natV x .addr :: r)] | none => [])
  | _ => noOverload
def wHigh : Word := fun f => match f.stk with
  | .aset _ c :: r => (match Cov.wHigh c with | some x => [withStk f (natV x .addr :: r)] | none => [])
  | _ => noOverload
def wRange : Word := fun f => match f.stk with
  | .aset _ c :: r => (posMap (fun i x => Val.aset i x) (Cov.wRange c)).map fun v => withStk f (v :: r)
  | _ => noOverload
def wOverlapW : Word := fun f => match f.stk with
  | .aset _ b :: .aset _ a :: r => [withStk f (.aset 0 (Cov.wOverlap a b) :: r)]
  | _ => noOverload

inductive WordKind where
  | simple (w : Word)
  | apply
  | unsupported
  | unknown

def opBytes (s : String) : Bytes := s2b s

/-- the vocabulary the model gives meaning to (core words of init.cc + address-set words) -/
def lookupWord (ctx : Ctx) (name : String) : WordKind :=
  let cfg := ctx.cfg
  let cmpW (pos : Bool) (o : Ord3) := WordKind.simple (cmpWord cfg pos o)
  match name with
  | "drop" => .simple wDrop | "swap" => .simple wSwap | "dup" => .simple wDup
  | "over" => .simple wOver | "rot" => .simple wRot
  | "type" => .simple (wType ctx) | "pos" => .simple wPos
  | "hex" => .simple (wCast .hex) | "dec" => .simple (wCast .dec)
  | "oct" => .simple (wCast .oct) | "bin" => .simple (wCast .bin)
  | "true" => .simple (wPush (natV 1 .bool)) | "false" => .simple (wPush (natV 0 .bool))
  | "T_CONST" => .simple (wPush (natV (cfg.typeCode .const) .slot))
  | "T_STR" => .simple (wPush (natV (cfg.typeCode .str) .slot))
  | "T_SEQ" => .simple (wPush (natV (cfg.typeCode .seq) .slot))
  | "T_CLOSURE" => .simple (wPush (natV (cfg.typeCode .closure) .slot))
  | "T_ASET" => .simple (wPush (natV (cfg.typeCode .aset) .slot))
  | "add" => .simple wAdd | "sub" => .simple wSub
  | "mul" => .simple (wArith1 ZInt.mul) | "div" => .simple (wArith1 ZInt.div)
  | "mod" => .simple (wArith1 ZInt.mod)
  | "length" => .simple wLength | "value" => .simple wValue
  | "elem" => .simple (wElem false) | "relem" => .simple (wElem true)
  | "?eq" | "==" | "!ne" => cmpW true .eq
  | "!eq" | "!=" | "?ne" => cmpW false .eq
  | "?lt" | "<" | "!ge" => cmpW true .lt
  | "!lt" | ">=" | "?ge" => cmpW false .lt
  | "?gt" | ">" | "!le" => cmpW true .gt
  | "!gt" | "<=" | "?le" => cmpW false .gt
  | "?empty" => .simple (assertWord true pEmpty) | "!empty" => .simple (assertWord false pEmpty)
  | "?find" => .simple (assertWord true (pListPred cfg isInfixBy))
  | "!find" => .simple (assertWord false (pListPred cfg isInfixBy))
  | "?starts" => .simple (assertWord true (pListPred cfg isPrefixBy))
  | "!starts" => .simple (assertWord false (pListPred cfg isPrefixBy))
  | "?ends" => .simple (assertWord true (pListPred cfg isSuffixBy))
  | "!ends" => .simple (assertWord false (pListPred cfg isSuffixBy))
  | "?contains" => .simple (assertWord true pContains) | "!contains" => .simple (assertWord false pContains)
  | "?overlaps" => .simple (assertWord true pOverlaps) | "!overlaps" => .simple (assertWord false pOverlaps)
  | "aset" => .simple wAsetW | "low" => .simple wLow | "high" => .simple wHigh
  | "range" => .simple wRange | "overlap" => .simple wOverlapW
  | "apply" => .apply
  | _ =>
    match ctx.consts.lookup name with
    | some (d, v) => .simple (wPush (natV v d))
    | none => if ctx.otherWords.contains name then .unsupported else .unknown

/-! ### the stream semantics -/

/-- rotation of `op_merge`: first branch served for the `j`-th input (0-based) of a segment -/
def rot (n j : Nat) : Nat := (n - j % n) % n

def rotate (l : List α) (k : Nat) : List α := l.drop k ++ l.take k

/-- apply a per-frame function to every frame of a stream, in place -/
def mapFrames (g : Frame → Evs) (es : Evs) : Evs := cutHard (es.flatMap fun
  | .frame f => g f
  | e => [e])

def restoreEnv (env : List (Bytes × Val)) (es : Evs) : Evs := es.map fun
  | .frame f => .frame { f with env := env }
  | e => e

/-- as `restoreEnv`, for a two-input segment: frames after the mark belong to the second input -/
def restoreEnv2 (env1 env2 : List (Bytes × Val)) : Evs → Evs
  | [] => []
  | .mark :: es => .mark :: restoreEnv env2 es
  | .frame f :: es => .frame { f with env := env1 } :: restoreEnv2 env1 env2 es
  | e :: es => e :: restoreEnv2 env1 env2 es

/-- leave a scope: forget the bindings made since it was entered with `depth` names -/
def dropInner (depth : Nat) (es : Evs) : Evs := es.map fun
  | .frame f => .frame { f with env := f.env.drop (f.env.length - depth) }
  | e => e

def stackEq (cfg : Cfg) (a b : Stack) : Bool := stackCmp cfg a b = some .eq

def popK : Nat → Stack → Option (List Val × Stack)
  | 0, s => some ([], s)
  | k + 1, v :: s => (popK k s).map fun (vs, r) => (v :: vs, r)
  | _ + 1, [] => none

def lookupEnv (name : Bytes) : List (Bytes × Val) → Option Val
  | [] => none
  | (n, v) :: r => if n = name then some v else lookupEnv name r

/-- consume the events of one expansion of a closure body: unseen results are yielded and
    queued (`yield_and_cache`) -/
def closeStep (ctx : Ctx) (f : Frame) : Evs → List Stack → List Stack → Evs × List Stack × List Stack
  | [], seen, work => ([], seen, work)
  | .frame g :: es, seen, work =>
    if Val.hasCloList g.stk then
      let r := closeStep ctx f es seen work
      (unsupportedClo :: r.1, r.2.1, r.2.2)
    else if seen.any (stackEq ctx.cfg g.stk) then closeStep ctx f es seen work
    else
      let r := closeStep ctx f es (seen ++ [g.stk]) (work ++ [g.stk])
      (.frame { g with env := f.env } :: r.1, r.2.1, r.2.2)
  | e :: es, seen, work =>
    let r := closeStep ctx f es seen work
    (e :: r.1, r.2.1, r.2.2)

/-- FORMAT numbers the strings of one input afresh -/
def numberItems (env : List (Bytes × Val)) : List (Ev × Bytes) → Nat → Evs
  | [], _ => []
  | (.frame g, s) :: r, i =>
    .frame { g with env := env, stk := .str i s :: g.stk } :: numberItems env r (i + 1)
  | (e, _) :: r, i => e :: numberItems env r i

mutual
/-- meaning of `t` on a whole segment -/
def sem (ctx : Ctx) : Nat → Tree → Evs → Evs
  | 0, _, _ => [.hard "fuel"]
  | fuel + 1, t, es =>
    match t with
    | .node .CAT _ cs => semCat ctx fuel cs es
    | .node .ALT _ cs => semAlt ctx fuel cs cs.length 0 es
    | .node .NOP _ _ => es
    | .node .F_DEBUG _ _ => es
    | .node .SCOPE _ [c] =>
      -- a scope is transparent for the stream (no origin of its own); names bound inside
      -- disappear at its end.  All frames at one program point bind the same names.
      match es.frames.head? with
      | some f0 => dropInner f0.env.length (sem ctx fuel c es)
      | none => es
    | t => mapFrames (sem1 ctx fuel t) es

def semCat (ctx : Ctx) : Nat → List Tree → Evs → Evs
  | 0, _, _ => [.hard "fuel"]
  | _ + 1, [], es => es
  | fuel + 1, c :: cs, es => semCat ctx fuel cs (sem ctx fuel c es)

/-- ALT over a segment.  The `j`-th frame is served to the branches in rotated order.  The
    branch served last pulls the next input itself and goes on with it at once (it is the
    first branch for that input), so for that branch the two inputs are ONE segment; every
    other branch sees the frame as a segment of its own.  `carry` holds what the boundary
    branch already produced for the current frame. -/
def semAlt (ctx : Ctx) : Nat → List Tree → Nat → Nat → Evs → Evs
  | fuel, cs, n, j, es => semAltGo ctx fuel cs n j none es

def semAltGo (ctx : Ctx) : Nat → List Tree → Nat → Nat → Option Evs → Evs → Evs
  | 0, _, _, _, _, _ => [.hard "fuel"]
  | _ + 1, _, _, _, _, [] => []
  | fuel + 1, cs, n, j, carry, .frame f :: es =>
    if n ≤ 1 then
      -- a single branch: one continuous segment
      match cs with
      | [b] => sem ctx fuel b (.frame f :: es)
      | _ => []
    else
      let order := rotate cs (rot n j)
      let first := order.take 1
      let middle := (order.drop 1).take (n - 2)
      let last := order.drop (n - 1)
      let outFirst : Evs := match carry with
        | some c => c
        | none => semBranches ctx fuel first f
      let outMiddle := semBranches ctx fuel middle f
      -- the last branch continues into the next input frame, if there is one
      let next := es.findSome? fun | .frame g => some g | _ => none
      let cutBefore := es.any fun | .hard _ => true | _ => false
      let nextOk : Option Frame :=
        if cutBefore then
          -- is the next frame before the hard error?
          (es.takeWhile fun | .hard _ => false | _ => true).findSome? fun | .frame g => some g | _ => none
        else next
      match last, nextOk with
      | [b], some g =>
        let r := restoreEnv2 f.env g.env (sem ctx fuel b [.frame f, .mark, .frame g])
        let a := r.takeWhile fun | .mark => false | _ => true
        let bpart := (r.dropWhile fun | .mark => false | _ => true).drop 1
        let head := cutHard (outFirst ++ outMiddle ++ a)
        if head.any (fun | .hard _ => true | _ => false) then head
        else head ++ semAltGo ctx fuel cs n (j + 1) (some bpart) es
      | _, _ =>
        let head := cutHard (outFirst ++ outMiddle ++ semBranches ctx fuel last f)
        if head.any (fun | .hard _ => true | _ => false) then head
        else head ++ semAltGo ctx fuel cs n (j + 1) none es
  | _ + 1, _, _, _, _, .hard m :: _ => [.hard m]
  | fuel + 1, cs, n, j, carry, e :: es => e :: semAltGo ctx fuel cs n j carry es

def semBranches (ctx : Ctx) : Nat → List Tree → Frame → Evs
  | 0, _, _ => [.hard "fuel"]
  | _ + 1, [], _ => []
  | fuel + 1, b :: bs, f =>
    cutHard (restoreEnv f.env (sem ctx fuel b [.frame f]) ++ semBranches ctx fuel bs f)

/-- OR: the first branch that yields anything -/
def semOr (ctx : Ctx) : Nat → List Tree → Frame → Evs
  | 0, _, _ => [.hard "fuel"]
  | _ + 1, [], _ => []
  | fuel + 1, b :: bs, f =>
    let r := restoreEnv f.env (sem ctx fuel b [.frame f])
    if r.hardMsg.isSome ∧ r.frames.isEmpty then r
    else if r.frames.isEmpty then cutHard (r ++ semOr ctx fuel bs f)
    else r

/-- transitive closure: LIFO work-list, seen-set under stack equality -/
def semClose (ctx : Ctx) : Nat → Tree → Frame → List Stack → List Stack → Evs
  | 0, _, _, _, _ => [.hard "fuel"]
  | _ + 1, _, _, _, [] => []
  | fuel + 1, body, f, seen, work =>
    match work.reverse with
    | [] => []
    | w :: restRev =>
      let work' := restRev.reverse
      let r := sem ctx fuel body [.frame { f with stk := w }]
      -- walk the events of this expansion: unseen results are yielded and queued
      let (out, seen', work'') := closeStep ctx f r seen work'
      if out.any (fun | .hard _ => true | _ => false) then cutHard out
      else out ++ semClose ctx fuel body f seen' work''

/-- meaning of a non-CAT, non-ALT node on one frame -/
def sem1 (ctx : Ctx) : Nat → Tree → Frame → Evs
  | 0, _, _ => [.hard "fuel"]
  | fuel + 1, t, f =>
    match t with
    | .node .OR _ cs => semOr ctx fuel cs f
    | .node .CONST (.cst v d) _ => [withStk f (cstV v d :: f.stk)]
    | .node .STR (.str s) _ => [withStk f (.str 0 s :: f.stk)]
    | .node .EMPTY_LIST _ _ => [withStk f (.seq 0 [] :: f.stk)]
    | .node .CAPTURE _ [c] =>
      let r := sem ctx fuel c [.frame f]
      let nonFrames := r.filter fun | .frame _ => false | .hard _ => false | _ => true
      match r.hardMsg with
      | some m => nonFrames ++ [.hard m]
      | none =>
        let tops := r.frames.map fun g => g.stk.head?
        if tops.any Option.isNone then nonFrames ++ [underflow]
        else nonFrames ++ [withStk f (.seq 0 (tops.filterMap id) :: f.stk)]
    | .node .SUBX_EVAL (.cst k _) [c] =>
      mapFrames (fun g =>
        match popK k.u g.stk with
        | some (vs, _) => [withStk f (vs ++ f.stk)]
        | none => [underflow]) (sem ctx fuel c [.frame f])
    | .node .IFELSE _ [c, a, b] =>
      let (pre, r) := firstResult (sem ctx fuel c [.frame f])
      if pre.hardMsg.isSome then pre
      else match r with
        | some _ => pre ++ restoreEnv f.env (sem ctx fuel a [.frame f])
        | none => pre ++ restoreEnv f.env (sem ctx fuel b [.frame f])
    | .node .ASSERT _ [p] =>
      let (r, evs) := semPred ctx fuel p f
      if evs.hardMsg.isSome then cutHard evs
      else match r with
        | some true => evs ++ [.frame f]
        | _ => evs
    | .node .CLOSE_STAR _ [c] =>
      if Val.hasCloList f.stk then [unsupportedClo] else
      cutHard (.frame f :: restoreEnv f.env (semClose ctx fuel c f [f.stk] [f.stk]))
    | .node .CLOSE_PLUS _ [c] =>
      if Val.hasCloList f.stk then [unsupportedClo] else
      let r := sem ctx fuel c [.frame f]
      let (out, seen, work) := closeStep ctx f r [] []
      if out.any (fun | .hard _ => true | _ => false) then cutHard (restoreEnv f.env out)
      else restoreEnv f.env (out ++ semClose ctx fuel c f seen work)
    | .node .FORMAT _ cs =>
      let items := semFormat ctx fuel cs.reverse [(.frame f, [])]
      cutHard (numberItems f.env items 0)
    | .node .BIND (.str n) _ =>
      match f.stk with
      | v :: r => [.frame { env := (n, v) :: f.env, stk := r }]
      | [] => [underflow]
    | .node .BLOCK _ [c] =>
      [withStk f (.clo 0 c (f.env.map (·.1)) (f.env.map (·.2)) :: f.stk)]
    | .node .READ (.str n) _ =>
      match lookupEnv n f.env with
      | some v => applyIfClosure ctx fuel { f with stk := v :: f.stk }
      | none =>
        match lookupWord ctx (b2s n) with
        | .simple w => w f
        | .apply =>
          match f.stk with
          | [] => [underflow]
          | .clo .. :: _ => applyIfClosure ctx fuel f
          | _ => [.soft "apply"]
        | .unsupported => [.hard ("unsupported:" ++ b2s n)]
        | .unknown => [.hard ("unbound:" ++ b2s n)]
    | .node .F_BUILTIN (.bi (.predPos positive n)) _ =>
      match f.stk with
      | v :: _ => if (v.pos == n) == positive then [.frame f] else []
      | [] => [underflow]
    | .node .F_BUILTIN (.bi (.dropBelow n)) _ =>
      match f.stk with
      | v :: r => if r.length < n then [underflow] else [withStk f (v :: r.drop n)]
      | [] => [underflow]
    | _ => [.hard "malformed-tree"]

/-- `op_apply` with skip_non_closures: a closure on TOS is popped and its body run on the
    rest of the stack, with the values its free names had at creation. -/
def applyIfClosure (ctx : Ctx) : Nat → Frame → Evs
  | 0, _ => [.hard "fuel"]
  | fuel + 1, f =>
    match f.stk with
    | .clo _ body names vals :: r =>
      let env := names.zip vals
      restoreEnv f.env (sem ctx fuel body [.frame { env := env, stk := r }])
    | _ => [.frame f]

/-- predicates: (some b | none = fail, events consumed while deciding) -/
def semPred (ctx : Ctx) : Nat → Tree → Frame → Option Bool × Evs
  | 0, _, _ => (none, [.hard "fuel"])
  | fuel + 1, p, f =>
    match p with
    | .node .PRED_NOT _ [a] =>
      let (r, e) := semPred ctx fuel a f
      (r.map (!·), e)
    | .node .PRED_AND _ [a, b] =>
      let (r1, e1) := semPred ctx fuel a f
      let (r2, e2) := semPred ctx fuel b f
      ((do let x ← r1; let y ← r2; pure (x && y)), cutHard (e1 ++ e2))
    | .node .PRED_OR _ [a, b] =>
      let (r1, e1) := semPred ctx fuel a f
      let (r2, e2) := semPred ctx fuel b f
      ((do let x ← r1; let y ← r2; pure (x || y)), cutHard (e1 ++ e2))
    | .node .PRED_SUBX_ANY _ [c] =>
      let (pre, r) := firstResult (sem ctx fuel c [.frame f])
      (some r.isSome, pre)
    | _ => (none, [.hard "malformed-tree"])

/-- FORMAT: children are visited right to left; each splice pops its top value and prepends
    its rendering.  Items carry the string built so far. -/
def semFormat (ctx : Ctx) : Nat → List Tree → List (Ev × Bytes) → List (Ev × Bytes)
  | 0, _, _ => [(.hard "fuel", [])]
  | _ + 1, [], items => items
  | fuel + 1, c :: cs, items =>
    let items' : List (Ev × Bytes) := items.flatMap fun
      | (.frame g, s) =>
        match c with
        | .node .STR (.str l) _ => [(.frame g, l ++ s)]
        | c =>
          (restoreEnv g.env (sem ctx fuel c [.frame g])).map fun
            | .frame h =>
              match h.stk with
              | v :: r => (.frame { h with stk := r }, Val.showB ctx.typeName v ++ s)
              | [] => (underflow, [])
            | e => (e, [])
      | (e, s) => [(e, s)]
    semFormat ctx fuel cs items'
end


/-- run a whole query on the empty stack -/
def runQuery (ctx : Ctx) (fuel : Nat) (t : Tree) (input : Stack := []) : Evs :=
  cutHard (sem ctx fuel t [.frame { env := [], stk := input }])

end ZwVerif
