/-
  Regular expressions over bytes with Brzozowski derivatives: the matching
  engine of the lexer model (flex patterns of lexer.ll are written as `RE`
  values in `Lexer.lean`).  `longest r s` is flex's "longest match of this rule
  at the start of `s`".

  Core Lean only.
-/
namespace ZwVerif

inductive RE where
  | empty                                   -- matches nothing
  | eps                                     -- matches ""
  | cls (neg : Bool) (rs : List (UInt8 × UInt8))   -- character class of ranges
  | cat (a b : RE)
  | alt (a b : RE)
  | star (a : RE)
deriving Repr, Inhabited, DecidableEq

namespace RE

def inClass (neg : Bool) (rs : List (UInt8 × UInt8)) (c : UInt8) : Bool :=
  (rs.any fun r => decide (r.1 ≤ c) && decide (c ≤ r.2)) != neg

def nullable : RE → Bool
  | empty => false
  | eps => true
  | cls .. => false
  | cat a b => a.nullable && b.nullable
  | alt a b => a.nullable || b.nullable
  | star _ => true

/-- smart constructors keep derivatives small and make dead regexes literally `empty` -/
def mkCat (a b : RE) : RE :=
  match a, b with
  | empty, _ => empty
  | _, empty => empty
  | eps, b => b
  | a, eps => a
  | a, b => cat a b

def mkAlt (a b : RE) : RE :=
  match a, b with
  | empty, b => b
  | a, empty => a
  | a, b => if a = b then a else alt a b

def deriv (c : UInt8) : RE → RE
  | empty => empty
  | eps => empty
  | cls neg rs => if inClass neg rs c then eps else empty
  | cat a b =>
    let d := mkCat (deriv c a) b
    if a.nullable then mkAlt d (deriv c b) else d
  | alt a b => mkAlt (deriv c a) (deriv c b)
  | star a => mkCat (deriv c a) (star a)

/-- does the whole string match? -/
def accepts (r : RE) : List UInt8 → Bool
  | [] => r.nullable
  | c :: cs => accepts (deriv c r) cs

/-- length of the longest prefix of `s` matched by `r` (`none`: no prefix, not even ""). -/
def longestAux (r : RE) (s : List UInt8) (n : Nat) (best : Option Nat) : Option Nat :=
  let best := if r.nullable then some n else best
  match s with
  | [] => best
  | c :: cs =>
    let d := deriv c r
    if d = empty then best else longestAux d cs (n + 1) best

def longest (r : RE) (s : List UInt8) : Option Nat := longestAux r s 0 none

/-! convenience constructors for writing flex patterns -/
def chr (c : Char) : RE := cls false [(c.toNat.toUInt8, c.toNat.toUInt8)]
def lit (s : String) : RE := s.toList.foldr (fun c acc => mkCat (chr c) acc) eps
def range (a b : Char) : (UInt8 × UInt8) := (a.toNat.toUInt8, b.toNat.toUInt8)
def one (c : Char) : (UInt8 × UInt8) := range c c
def anyOf (rs : List (UInt8 × UInt8)) : RE := cls false rs
def noneOf (rs : List (UInt8 × UInt8)) : RE := cls true rs
def opt (a : RE) : RE := alt a eps
def plus (a : RE) : RE := cat a (star a)
/-- flex `.`: any byte except newline -/
def dot : RE := cls true [(10, 10)]
/-- `(.|[\n])`: any byte -/
def any : RE := cls true []

end RE
end ZwVerif
