/-
  Model of the state-buffer layout (layout.cc: reserve / add_union) and of the
  construct / use / destroy protocol of op states in `scon` (scon.hh).

  Core Lean only.
-/
namespace ZwVerif.Lifecycle

/-- `::align (top, align)` = `(top + (align - 1)) & -align` for a power-of-two alignment -/
def alignUp (top a : Nat) : Nat := (top + (a - 1)) / a * a

/-- `layout::reserve (size, align)`: returns (location, new layout size) -/
def reserve (sz size a : Nat) : Nat × Nat :=
  let loc := alignUp sz a
  (loc, loc + size)

/-- `layout::add_union`: the maximum of the sub-layout sizes -/
def addUnion (sz : Nat) (subs : List Nat) : Nat := subs.foldl max sz

/-- events on a state buffer -/
inductive Ev where
  | con (loc size : Nat)
  | get (loc size : Nat)
  | des (loc size : Nat)
deriving Repr, DecidableEq

/-- the discipline the hook in scon.cc enforces: the set of live (loc, size) slots, or a breach -/
def step (live : List (Nat × Nat)) : Ev → Option (List (Nat × Nat))
  | .con loc size =>
    if live.any (fun s => decide (s.1 < loc + size) && decide (loc < s.1 + s.2)) then none
    else some ((loc, size) :: live)
  | .get loc size => if live.contains (loc, size) then some live else none
  | .des loc size => if live.contains (loc, size) then some (live.erase (loc, size)) else none

def run : List (Nat × Nat) → List Ev → Option (List (Nat × Nat))
  | live, [] => some live
  | live, e :: es => (step live e).bind fun l => run l es

/-- a guarded use of one state: construct, use any number of times, destroy -/
def guarded (loc size : Nat) (uses : Nat) : List Ev :=
  [.con loc size] ++ List.replicate uses (.get loc size) ++ [.des loc size]

end ZwVerif.Lifecycle
