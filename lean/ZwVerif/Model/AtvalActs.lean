/-
  Action alphabets of atval.cc's dispatch tables.  The tables themselves are regenerated from
  the source on every run (Generated/AtvalTables.lean).
-/
namespace ZwVerif.Atval

/-- what handle_at_dependent_value does with an attribute in a data / block form -/
inductive AtAct where
  | udom (d : String)      -- unsigned, in the named constant domain
  | signed                 -- atval_signed: decimal, signed per form width
  | unsigned               -- atval_unsigned: decimal
  | loc                    -- location expression / list
  | ranges                 -- address set of the DIE's ranges
  | macinfo
  | file                   -- index into the line table's file list, yields the name
  | constValue             -- signedness from the DIE's type
  | niy (d : String)       -- diagnostic "NIY", then unsigned in the domain
  | err                    -- refused: "Signedness of attribute … not handled"
deriving Repr, DecidableEq

/-- what at_value does with a form -/
inductive FormAct where
  | str | ref | signed | unsigned | addr | flag | dependent | ranges | loc | sig8 | indirect
deriving Repr, DecidableEq

inductive Operand where
  | hexU | decU | decS
deriving Repr, DecidableEq

/-- operand classes of a location operation -/
inductive OpAct where
  | one (a : Operand)
  | two (a b : Operand)
  | dieSigned              -- implicit_pointer: referenced DIE, signed offset
  | dieBlock               -- const_type: type DIE, block
  | block                  -- implicit_value
  | expr                   -- entry_value: a nested expression
deriving Repr, DecidableEq

end ZwVerif.Atval
