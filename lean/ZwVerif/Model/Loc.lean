import ZwVerif.Model.Atval
/-
  Model of location list elements and their operations (builtin-dw.cc: elem_loclist_producer,
  op_length_loclist_elem, pred_op_loclist_elem; atval.cc: locexpr_op_values) and of
  abbreviations (builtin-dw-abbrev.cc).  libdw (dwarf_getlocations, dwarf_getabbrev) is the
  parameter: an element is its address range with the decoded operations, a table is its
  entries.  The operand classes come from the table regenerated from atval.cc.

  Core Lean only.
-/
namespace ZwVerif.Loc
open ZwVerif.Atval ZwVerif.Generated

/-- one operation as libdw hands it out (`Dwarf_Op`): numbers are unsigned 64-bit words -/
structure Op where
  offset : Nat
  atom : Nat
  number : Nat := 0
  number2 : Nat := 0
deriving Repr, DecidableEq

/-- one element of a location list: `[lo, hi)` and the expression -/
structure Elem where
  lo : Nat
  hi : Nat
  ops : List Op
deriving Repr, DecidableEq

/-- `elem`: the operations in stored order, with their positions -/
def elem (e : Elem) : List (Nat × Op) := (List.range e.ops.length).zip e.ops

/-- `relem`: the producer counts 0..n-1 and hands out operation n-1-i (with that index as position) -/
def relem (e : Elem) : List (Nat × Op) :=
  (List.range e.ops.length).filterMap fun i =>
    let idx := e.ops.length - 1 - i
    e.ops[idx]?.map fun o => (idx, o)

def length (e : Elem) : Nat := e.ops.length

/-- `?OP_x` on an element -/
def hasOp (e : Elem) (x : Nat) : Bool := e.ops.any fun o => o.atom == x

/-- `address` of an element: the one range (empty when lo = hi) -/
def address (e : Elem) : List (Nat × Nat) := if e.hi > e.lo then [(e.lo, e.hi - e.lo)] else []

/-- an operand as a constant -/
def operand (c : Operand) (w : Nat) : String × Int :=
  match c with
  | .hexU => ("hex", w)
  | .decU => ("dec", w)
  | .decS => ("dec", signExtend 8 w)

/-- what `value` yields for an operation, as far as constants go; the other classes are
    named -/
inductive OpVal where
  | cst (dom : String) (v : Int)
  | die | block | expr
deriving Repr, DecidableEq

def opValues (o : Op) : List OpVal :=
  match opActs.lookup o.atom with
  | none => []
  | some (.one a) => let (d, v) := operand a o.number; [.cst d v]
  | some (.two a b) =>
    let (d1, v1) := operand a o.number
    let (d2, v2) := operand b o.number2
    [.cst d1 v1, .cst d2 v2]
  | some .dieSigned => [.die, .cst "dec" (signExtend 8 o.number2)]
  | some .dieBlock => [.die, .block]
  | some .block => [.block]
  | some .expr => [.expr]

/-! ### abbreviations -/

structure Abbrev where
  code : Nat
  tag : Nat
  children : Bool
  attrs : List (Nat × Nat)
  offset : Nat
deriving Repr, DecidableEq

structure Table where
  offset : Nat
  entries : List Abbrev
deriving Repr, DecidableEq

/-- `abbrev` on a Dwarf: the abbreviation units of the units in order, each table (by its offset)
    the first time it is met (`m_seen`) -/
def abbrevUnits : List Nat → List Nat → List Nat      -- table offsets of the units, seen so far
  | [], _ => []
  | o :: rest, seen => if seen.contains o then abbrevUnits rest seen else o :: abbrevUnits rest (seen ++ [o])

/-- `abbrev` on a DIE: the entry of the unit's table with the DIE's code -/
def findAbbrev (t : Table) (code : Nat) : Option Abbrev := t.entries.find? fun a => a.code == code

end ZwVerif.Loc
