import ZwVerif.Generated.ElfSymTables
/-
  Model of the `symbol` producer and the symbol accessors (builtin-symbol.cc, value-symbol.cc):
  the symbol tables of the modules in order, numbered from zero; fields of the ELF symbol;
  type and binding in the constant family of the file's machine.  libdwfl
  (dwfl_module_getsymtab / dwfl_module_getsym_info) is the parameter: a module is the list of
  its symbol table entries.

  Core Lean only.
-/
namespace ZwVerif.Symbol
open ZwVerif.Generated

structure Sym where
  name : List Nat
  value : Nat
  size : Nat
  info : Nat        -- st_info
  other : Nat       -- st_other
deriving Repr, DecidableEq

def Sym.type (s : Sym) : Nat := s.info % 16          -- GELF_ST_TYPE
def Sym.bind (s : Sym) : Nat := s.info / 16          -- GELF_ST_BIND
def Sym.vis (s : Sym) : Nat := s.other % 4           -- GELF_ST_VISIBILITY

/-- one value per entry of every module's table, in table order -/
def symbols (mods : List (List Sym)) : List Sym := mods.flatten

/-- `pos` of the i-th value yielded -/
def positions (mods : List (List Sym)) : List Nat := List.range (symbols mods).length

/-- the constant family (domain) of type codes in a file of `machine`: its own if the machine has
    one, else the generic family (0) -/
def sttFamily (machine : Nat) : Nat := if sttArches.contains machine then machine else 0
def stbFamily (machine : Nat) : Nat := if stbArches.contains machine then machine else 0

def STT_LOOS : Nat := 10

/-- equality of two type (or binding) constants: equal codes, and either generic codes (below
    LOOS: `most_enclosing` maps them to the common family) or the same family -/
def cstEq (fam1 c1 fam2 c2 : Nat) : Bool := c1 == c2 && (decide (c1 < STT_LOOS) || fam1 == fam2)

/-- name of a code in a family: the family's own table first, then the generic one, then the
    OS / processor ranges -/
def codeName (names : List (Nat × Nat × String)) (fam code : Nat) : String :=
  match names.find? fun e => e.1 == fam && fam != 0 && e.2.1 == code with
  | some e => e.2.2
  | none =>
    match names.find? fun e => e.1 == 0 && e.2.1 == code with
    | some e => e.2.2
    | none =>
      if 10 ≤ code ∧ code ≤ 12 then s!"LOOS+{code - 10}"
      else if 13 ≤ code ∧ code ≤ 15 then s!"LOPROC+{code - 13}"
      else "???"

end ZwVerif.Symbol
