import ZwVerif.Model.Int64
import ZwVerif.Model.Coverage
/-
  Values of the Zwerg engine: constants with domains (constant.hh/.cc, dwcst.cc,
  value-symbol.cc), strings, sequences, address sets, closures and opaque DWARF
  values; the parse tree type (tree.hh); comparison (`cmp` of every value class,
  `constant::operator<`, `comparison_result`, `compare_stack`).

  Two things the C++ leaves to the build are parameters here (`Cfg`): the numeric
  codes of the value types (static-initialisation order) and the relative
  address order of the constant-domain objects.  The harness reads both from the
  implementation under test; theorems quantify over all injective choices.

  Core Lean only.
-/
namespace ZwVerif

abbrev Bytes := List UInt8

/-- constant domains -/
inductive Dom where
  | dec | hex | oct | bin | bool | slot | pos | addr | off | lineno | colno | abbrevcode
  | named (name : String)                 -- DW_TAG_, DW_AT_, ..., STV_
  | elfsym (stt : Bool) (machine : Nat)   -- STT_/STB_ per machine (0 = generic)
deriving DecidableEq, Repr, Inhabited

namespace Dom

def label : Dom → String
  | dec => "dec" | hex => "hex" | oct => "oct" | bin => "bin" | bool => "bool"
  | slot => "T_" | pos => "pos" | addr => "Dwarf_Address" | off => "Dwarf_Off"
  | lineno => "line_number" | colno => "column_number" | abbrevcode => "Dwarf_Abbrev_code"
  | named n => n
  | elfsym true m => s!"STT_@{m}"
  | elfsym false m => s!"STB_@{m}"

/-- the domain a protocol label names -/
def ofLabel (s : String) : Dom :=
  if s = "dec" then dec else if s = "hex" then hex else if s = "oct" then oct else if s = "bin" then bin
  else if s = "bool" then bool else if s = "T_" then slot else if s = "pos" then pos
  else if s = "Dwarf_Address" then addr else if s = "Dwarf_Off" then off else if s = "line_number" then lineno
  else if s = "column_number" then colno else if s = "Dwarf_Abbrev_code" then abbrevcode
  else if s.startsWith "STT_@" then elfsym true ((s.drop 5).toString.toNat?.getD 0)
  else if s.startsWith "STB_@" then elfsym false ((s.drop 5).toString.toNat?.getD 0)
  else named s

/-- `safe_arith ()` -/
def safeArith : Dom → Bool
  | dec | hex | oct | bin | pos | addr | off | lineno | colno | abbrevcode => true
  | _ => false

/-- `plain ()`: numeric_constant_dom_t and its subclasses -/
def plain : Dom → Bool
  | dec | pos | addr | off | lineno | colno | abbrevcode => true
  | _ => false

/-- `most_enclosing (v)`: machine-specific ELF symbol domains cover the generic codes -/
def mostEnclosing (d : Dom) (v : ZInt) : Dom :=
  match d with
  | elfsym k m => if m ≠ 0 ∧ ZInt.lt v ⟨10, true⟩ then elfsym k 0 else d   -- v < STT_LOOS
  | _ => d

/-- the class a constant is ordered by (`constant::operator<`): all arithmetic
    domains are one class -/
def cls (d : Dom) (v : ZInt) : Dom := if d.safeArith then dec else d.mostEnclosing v

end Dom

/-- tags of the value types -/
inductive VT where
  | closure | const | seq | str | aset | ext (code : Nat)
deriving DecidableEq, Repr, Inhabited

/-- what the build decides -/
structure Cfg where
  typeCode : VT → Nat
  domRank : Dom → Nat        -- address order of the domain objects

/-! ### parse trees (tree.hh) -/

inductive TT where
  | CAT | ALT | OR | CAPTURE | SUBX_EVAL | IFELSE | SCOPE | BLOCK | BIND | READ | NOP
  | CLOSE_STAR | CLOSE_PLUS | ASSERT | EMPTY_LIST | PRED_AND | PRED_OR | PRED_NOT
  | PRED_SUBX_ANY | CONST | STR | FORMAT | F_DEBUG | F_BUILTIN
deriving DecidableEq, Repr, Inhabited

/-- builtins that the parser itself plants into the tree -/
inductive PBuiltin where
  | predPos (positive : Bool) (n : Nat)
  | dropBelow (n : Nat)
deriving DecidableEq, Repr, Inhabited

inductive Payload where
  | none
  | str (s : Bytes)
  | cst (v : ZInt) (d : Dom)
  | bi (b : PBuiltin)
deriving DecidableEq, Repr, Inhabited

inductive Tree where
  | node (tt : TT) (p : Payload) (cs : List Tree)
deriving Repr, Inhabited

namespace Tree
def tt : Tree → TT | node t _ _ => t
def payload : Tree → Payload | node _ p _ => p
def children : Tree → List Tree | node _ _ cs => cs
def mk0 (t : TT) : Tree := node t .none []
def mk1 (t : TT) (a : Tree) : Tree := node t .none [a]
def mkStr (t : TT) (s : Bytes) : Tree := node t (.str s) []
end Tree

/-! ### values -/

inductive Val where
  | cst (pos : Nat) (v : ZInt) (d : Dom)
  | str (pos : Nat) (s : Bytes)
  | seq (pos : Nat) (elems : List Val)
  | aset (pos : Nat) (c : Cov)
  /-- a block with the values its free names had when it was created -/
  | clo (pos : Nat) (body : Tree) (names : List Bytes) (vals : List Val)
  /-- DWARF / ELF values are opaque to the core model: type code and a comparison key -/
  | ext (pos : Nat) (code : Nat) (key : List Nat) (label : String)
deriving Repr, Inhabited

namespace Val

def pos : Val → Nat
  | cst p .. | str p .. | seq p .. | aset p .. | clo p .. | ext p .. => p

def setPos (p : Nat) : Val → Val
  | cst _ v d => cst p v d
  | str _ s => str p s
  | seq _ e => seq p e
  | aset _ c => aset p c
  | clo _ b n v => clo p b n v
  | ext _ c k l => ext p c k l

def vt : Val → VT
  | cst .. => .const | str .. => .str | seq .. => .seq | aset .. => .aset
  | clo .. => .closure | ext _ c _ _ => .ext c

end Val

/-- three-way result: -1, 0, 1 -/
inductive Ord3 where | lt | eq | gt
deriving DecidableEq, Repr, Inhabited

def Ord3.cmpNat (a b : Nat) : Ord3 := if a < b then .lt else if b < a then .gt else .eq

/-! ### constants -/

/-- `constant::operator<` (non-null domains). -/
def cstLt (cfg : Cfg) (v1 : ZInt) (d1 : Dom) (v2 : ZInt) (d2 : Dom) : Bool :=
  let c1 := d1.cls v1
  let c2 := d2.cls v2
  if c1 = c2 then ZInt.lt v1 v2
  else decide (cfg.domRank c1 < cfg.domRank c2)

/-- `compare (a, b)` of value.hh on constants -/
def cstCmp (cfg : Cfg) (v1 : ZInt) (d1 : Dom) (v2 : ZInt) (d2 : Dom) : Ord3 :=
  if cstLt cfg v1 d1 v2 d2 then .lt else if cstLt cfg v2 d2 v1 d1 then .gt else .eq

/-- bytewise order of `std::string` -/
def bytesCmp : Bytes → Bytes → Ord3
  | [], [] => .eq
  | [], _ :: _ => .lt
  | _ :: _, [] => .gt
  | a :: as, b :: bs => if a < b then .lt else if b < a then .gt else bytesCmp as bs

def listNatCmp : List Nat → List Nat → Ord3
  | [], [] => .eq
  | [], _ :: _ => .lt
  | _ :: _, [] => .gt
  | a :: as, b :: bs => if a < b then .lt else if b < a then .gt else listNatCmp as bs

def covCmp (c1 c2 : Cov) : Ord3 :=
  let r := Cov.cmp c1 c2
  if r < 0 then .lt else if r > 0 then .gt else .eq

/-- first non-equal type comparison along two equally long lists (`compare_sequences`
    with the type comparator) -/
def typesCmp (cfg : Cfg) : List Val → List Val → Ord3
  | a :: as, b :: bs =>
    match Ord3.cmpNat (cfg.typeCode a.vt) (cfg.typeCode b.vt) with
    | .eq => typesCmp cfg as bs
    | r => r
  | _, _ => .eq

mutual
/-- `a.cmp (b)` for two values of the *same* type (`none` = cmp_result::fail). -/
def Val.cmp (cfg : Cfg) : Val → Val → Option Ord3
  | .cst _ v1 d1, .cst _ v2 d2 => some (cstCmp cfg v1 d1 v2 d2)
  | .str _ s1, .str _ s2 => some (bytesCmp s1 s2)
  | .seq _ e1, .seq _ e2 =>
    match Ord3.cmpNat e1.length e2.length with
    | .eq =>
      match typesCmp cfg e1 e2 with
      | .eq => Val.cmpList cfg e1 e2
      | r => some r
    | r => some r
  | .aset _ c1, .aset _ c2 => some (covCmp c1 c2)
  | .ext _ c1 k1 _, .ext _ c2 k2 _ => if c1 = c2 then some (listNatCmp k1 k2) else none
  | .clo .., .clo .. => none        -- closures compare by object identity: outside the model
  | _, _ => none
/-- `compare_sequences` with the value comparator -/
def Val.cmpList (cfg : Cfg) : List Val → List Val → Option Ord3
  | a :: as, b :: bs =>
    match Val.cmp cfg a b with
    | some .eq => Val.cmpList cfg as bs
    | r => r
  | _, _ => some .eq
end

/-- order on values used by the comparison words (`comparison_result`): type first -/
def Val.cmpAny (cfg : Cfg) (a b : Val) : Option Ord3 :=
  match Ord3.cmpNat (cfg.typeCode a.vt) (cfg.typeCode b.vt) with
  | .eq => Val.cmp cfg a b
  | r => some r

/-- a stack: top of stack first -/
abbrev Stack := List Val

/-- `compare_stack` (stack.cc): size, then types bottom-up, then values bottom-up.
    (Stacks here never hold null slots.) -/
def stackCmp (cfg : Cfg) (a b : Stack) : Option Ord3 :=
  match Ord3.cmpNat a.length b.length with
  | .eq =>
    match typesCmp cfg a.reverse b.reverse with
    | .eq => Val.cmpList cfg a.reverse b.reverse
    | r => some r
  | r => some r

end ZwVerif
