import ZwVerif.Model.Dwarf
/-
  The DIE producer of the cooked view as a machine (builtin-dw.cc: die_it_producer::next with
  drop_finished_imports and import_partial_units): a stack of iterator ranges — the remaining DIEs
  of the unit (or child list) being walked and of every imported unit being inlined — and the
  chain of DW_TAG_imported_unit DIEs through which the current range was reached.  `range root`
  is what an iterator over an imported unit yields after its root is skipped: all DIEs below the
  root in section order for `entry` (all_dies_iterator), the root's children for `child`
  (child_iterator).

  Core Lean only.
-/
namespace ZwVerif.DieIt
open ZwVerif.Dwarf

structure St where
  stack : List (List Die)     -- m_stack, back first: what each iterator range still has to yield
  chain : List Nat            -- m_import, innermost first

inductive Next (f : Forest) (range : Die → List Die) : St → Option CDie → St → Prop
  /-- `if (m_stack.empty ()) return nullptr;` -/
  | empty {st : St} : st.stack = [] → Next f range st none st
  /-- drop_finished_imports: the range on top is exhausted: pop it, and one link of the chain -/
  | dropFinished {st st' : St} {rest : List (List Die)} {r : Option CDie} : st.stack = [] :: rest →
      Next f range { stack := rest, chain := st.chain.tail } r st' → Next f range st r st'
  /-- import_partial_units: the next DIE is an import that resolves: remember it on the chain, step
      over it, and walk the imported unit (its root skipped) first -/
  | importUnit {st st' : St} {d root : Die} {ds : List Die} {rest : List (List Die)} {r : Option CDie} :
      st.stack = (d :: ds) :: rest → importTarget f d = some root →
      Next f range { stack := range root :: ds :: rest, chain := d.off :: st.chain } r st' → Next f range st r st'
  /-- any other DIE is yielded with the chain it was reached along -/
  | yield {st : St} {d : Die} {ds : List Die} {rest : List (List Die)} : st.stack = (d :: ds) :: rest →
      importTarget f d = none → Next f range st (some ⟨d, st.chain⟩) { st with stack := ds :: rest }

inductive Drain (f : Forest) (range : Die → List Die) : St → List CDie → St → Prop
  | nil {st st' : St} : Next f range st none st' → Drain f range st [] st'
  | cons {st st' st'' : St} {x : CDie} {xs : List CDie} : Next f range st (some x) st' → Drain f range st' xs st'' →
      Drain f range st (x :: xs) st''

/-- the cooked view of a list of DIEs: every resolvable import replaced, in place and recursively,
    by the cooked view of what it imports -/
inductive Cooked (f : Forest) (range : Die → List Die) : List Die → List Nat → List CDie → Prop
  | nil {chain : List Nat} : Cooked f range [] chain []
  | plain {d : Die} {ds : List Die} {chain : List Nat} {out : List CDie} : importTarget f d = none →
      Cooked f range ds chain out → Cooked f range (d :: ds) chain (⟨d, chain⟩ :: out)
  | imp {d root : Die} {ds : List Die} {chain : List Nat} {out1 out2 : List CDie} : importTarget f d = some root →
      Cooked f range (range root) (d.off :: chain) out1 → Cooked f range ds chain out2 →
      Cooked f range (d :: ds) chain (out1 ++ out2)

end ZwVerif.DieIt
