import ZwVerif.Model.Sem
/-
  Compile-time name resolution (bindings.cc and the SCOPE / BLOCK / BIND / READ /
  ALT / PRED_SUBX_ANY / FORMAT cases of build.cc): which programs are rejected
  ("Name `x' rebound.", "Attempt to read an unbound name `x'"), and which binder
  each read refers to.

  Core Lean only.
-/
namespace ZwVerif

inductive BindErr where
  | rebound (n : Bytes)
  | unbound (n : Bytes)
  | malformed
deriving Repr, Inhabited, DecidableEq

/-- scope chain: innermost `bindings` object first; `outer` are the names reachable through
    up-value references of enclosing blocks. -/
structure Scopes where
  chain : List (List Bytes)
  outer : List Bytes
deriving Repr, Inhabited

namespace Scopes
def push (s : Scopes) : Scopes := { s with chain := [] :: s.chain }
def visible (s : Scopes) (n : Bytes) : Bool := s.chain.any (·.contains n) || s.outer.contains n
def bind (s : Scopes) (n : Bytes) : Except BindErr Scopes :=
  match s.chain with
  | [] => .error .malformed
  | c :: cs => if c.contains n then .error (.rebound n) else .ok { s with chain := (n :: c) :: cs }
def allNames (s : Scopes) : List Bytes := s.chain.flatten ++ s.outer
end Scopes

mutual
/-- walk the tree as `build_exec` does; returns the scope chain after the node (a BIND in a
    CAT is visible to its later siblings). -/
def check (known : Bytes → Bool) : Tree → Scopes → Except BindErr Scopes
  | .node .CAT _ cs, s => checkSeq known cs s
  | .node .ALT _ cs, s => do checkEach known cs s true; pure s
  | .node .OR _ cs, s => do checkEach known cs s false; pure s
  | .node .SCOPE _ [c], s => do let _ ← check known c s.push; pure s
  | .node .BLOCK _ [c], s => do
    let _ ← check known c { chain := [[]], outer := s.allNames }
    pure s
  | .node .BIND (.str n) _, s => s.bind n
  | .node .READ (.str n) _, s =>
    if s.visible n || known n then pure s else .error (.unbound n)
  | .node .FORMAT _ cs, s => do checkEach known cs s true; pure s
  | .node .PRED_SUBX_ANY _ [c], s => do let _ ← check known c s.push; pure s
  | .node .IFELSE _ [c, a, b], s => do
    -- the three sub-expressions are built in the same bindings object, one after another
    let s1 ← check known c s
    let s2 ← check known a s1
    check known b s2
  | .node _ _ cs, s => checkSeq known cs s
/-- children built one after another in the same scope -/
def checkSeq (known : Bytes → Bool) : List Tree → Scopes → Except BindErr Scopes
  | [], s => pure s
  | c :: cs, s => do let s' ← check known c s; checkSeq known cs s'
/-- children each built in `s` (`own` = in a scope of their own); bindings of one are visible
    to the next only when they share the scope object -/
def checkEach (known : Bytes → Bool) : List Tree → Scopes → Bool → Except BindErr Unit
  | [], _, _ => pure ()
  | c :: cs, s, own => do
    let s' ← check known c (if own then s.push else s)
    checkEach known cs (if own then s else s') own
end

def checkQuery (known : Bytes → Bool) (t : Tree) : Except BindErr Unit := do
  -- root bindings hold the builtins; the query gets a scope of its own
  let _ ← check known t { chain := [[]], outer := [] }
  pure ()

end ZwVerif
