import ZwVerif.Model.Dwarf
import ZwVerif.Generated.AtvalTables
/-
  Model of attribute value decoding (atval.cc: at_value, handle_at_dependent_value,
  handle_encoding, fix_dwarf_formsdata) over the forest model.  The dispatch tables are the
  ones regenerated from the source (Generated/AtvalTables.lean); the signedness logic for
  DW_AT_const_value is transcribed by hand and tied by the correspondence check.

  libdw's readers are parameters: `formudata` / `formsdata` below say what dwarf_formudata and
  dwarf_formsdata return for each form (elfutils ≥ 0.171), `dwIntegrate` is
  dwarf_attr_integrate.

  Core Lean only.
-/
namespace ZwVerif.Atval
open ZwVerif.Dwarf ZwVerif.Generated

/-! ### forms, tags, encodings used by the logic -/
def DW_FORM_block2 : Nat := 0x03
def DW_FORM_block4 : Nat := 0x04
def DW_FORM_data2 : Nat := 0x05
def DW_FORM_data4 : Nat := 0x06
def DW_FORM_data8 : Nat := 0x07
def DW_FORM_block : Nat := 0x09
def DW_FORM_block1 : Nat := 0x0a
def DW_FORM_data1 : Nat := 0x0b
def DW_FORM_sdata : Nat := 0x0d
def DW_FORM_udata : Nat := 0x0f
def DW_FORM_sec_offset : Nat := 0x17
def DW_FORM_implicit_const : Nat := 0x21

def DW_TAG_enumeration_type : Nat := 0x04
def DW_TAG_pointer_type : Nat := 0x0f
def DW_TAG_typedef : Nat := 0x16
def DW_TAG_ptr_to_member_type : Nat := 0x1f
def DW_TAG_subrange_type : Nat := 0x21
def DW_TAG_base_type : Nat := 0x24
def DW_TAG_const_type : Nat := 0x26
def DW_TAG_enumerator : Nat := 0x28
def DW_TAG_packed_type : Nat := 0x2d
def DW_TAG_volatile_type : Nat := 0x35
def DW_TAG_restrict_type : Nat := 0x37

def DW_AT_name : Nat := 0x03
def DW_AT_const_value : Nat := 0x1c
def DW_AT_encoding : Nat := 0x3e
def DW_AT_type : Nat := 0x49
def DW_AT_lo_user : Nat := 0x2000
def DW_AT_hi_user : Nat := 0x3fff

/-- what a `value` yields, as far as this model tells values apart -/
inductive Out where
  | cst (dom : String) (v : Int)
  | str
  | die (off : Nat)
  | loc
  | ranges
  | macinfo
  | file
  | block (bytes : List Nat)
  | sig8                       -- the string "(form unhandled)" plus a diagnostic
  | err (msg : String)         -- std::runtime_error with this message
  | libdw                      -- a libdw error (throw_libdw)
  | abort                      -- assert / abort
deriving Repr, DecidableEq

/-- result with the diagnostic written to stderr, if any -/
structure Res where
  out : Out
  diag : Bool := false
deriving Repr, DecidableEq

/-! ### integer payloads -/

def two64 : Int := 18446744073709551616

/-- width in bytes of the fixed-size data forms -/
def dataWidth (form : Nat) : Option Nat :=
  if form = DW_FORM_data1 then some 1 else if form = DW_FORM_data2 then some 2
  else if form = DW_FORM_data4 then some 4 else if form = DW_FORM_data8 then some 8 else none

/-- two's-complement reading of the low `k` bytes -/
def signExtend (k : Nat) (bits : Int) : Int :=
  let m := bits % (2 : Int) ^ (8 * k)
  if m < (2 : Int) ^ (8 * k - 1) then m else m - (2 : Int) ^ (8 * k)

/-- `dwarf_formudata`: `none` = the form is not a constant -/
def formudata (form : Nat) (num : Int) : Option Int :=
  if (dataWidth form).isSome ∨ form = DW_FORM_udata ∨ form = DW_FORM_sec_offset then some num
  else if form = DW_FORM_sdata ∨ form = DW_FORM_implicit_const then some (num % two64)
  else none

/-- `dwarf_formsdata` followed by fix_dwarf_formsdata's cast for the fixed-size forms -/
def formsdata (form : Nat) (num : Int) : Option Int :=
  match dataWidth form with
  | some k => some (signExtend k num)
  | none =>
    if form = DW_FORM_sdata ∨ form = DW_FORM_implicit_const then some num
    else if form = DW_FORM_udata then some (signExtend 8 num)
    else none

def isBlock (form : Nat) : Bool :=
  form == DW_FORM_block1 || form == DW_FORM_block2 || form == DW_FORM_block4 || form == DW_FORM_block

def atvalSigned (form : Nat) (num : Int) : Out :=
  match formsdata form num with | some v => .cst "dec" v | none => .libdw

def atvalUnsignedDom (dom : String) (form : Nat) (num : Int) : Out :=
  match formudata form num with | some v => .cst dom v | none => .libdw

/-! ### libdw's own integration and the type walk -/

def ownAttr (d : Die) (name : Nat) : Option DAttr := d.attrs.find? fun a => a.name == name

/-- `dwarf_attr_integrate`: the attribute on the DIE, else on what DW_AT_abstract_origin refers to,
    else DW_AT_specification, along one path, at most 17 DIEs -/
def dwIntegrate (f : Forest) : Nat → Die → Nat → Option DAttr
  | 0, _, _ => none
  | fuel + 1, d, name =>
    match ownAttr d name with
    | some a => some a
    | none =>
      let via := match ownAttr d DW_AT_abstract_origin with
        | some r => some r
        | none => ownAttr d DW_AT_specification
      match via with
      | some r => (r.ref.bind (findDie f)).bind fun t => dwIntegrate f fuel t name
      | none => none

def libdwChain : Nat := 17

def keepPeeling (tag : Nat) : Bool :=
  tag == DW_TAG_const_type || tag == DW_TAG_volatile_type || tag == DW_TAG_restrict_type ||
  tag == DW_TAG_typedef || tag == DW_TAG_subrange_type || tag == DW_TAG_packed_type

/-- `get_type_die`: follow DW_AT_type while the DIE reached is a cv-qualifier, typedef, subrange
    or packed type.  `none` = libdw failed to resolve a reference. -/
def getTypeDie (f : Forest) : Nat → Die → Option Die
  | 0, d => some d
  | fuel + 1, d =>
    match dwIntegrate f libdwChain d DW_AT_type with
    | none => some d                                  -- no type: stay
    | some a =>
      match a.ref.bind (findDie f) with
      | none => none
      | some t => if keepPeeling t.tag then getTypeDie f fuel t else some t

def encodingOf (f : Forest) (d : Die) : Option Int :=
  (dwIntegrate f libdwChain d DW_AT_encoding).bind fun a => a.num.bind fun n => formudata a.form n

/-- bytes (little endian) as a number -/
def leBytes : List Nat → Int
  | [] => 0
  | b :: bs => b + 256 * leBytes bs

/-- `handle_encoding_data`; `none` = no interpretation (caller goes on) -/
def handleEncodingData (form : Nat) (num : Int) (enc : Int) : Option Out :=
  if enc = 5 ∨ enc = 6 then some (atvalSigned form num)
  else if enc = 7 ∨ enc = 8 ∨ enc = 1 ∨ enc = 0x10 then some (atvalUnsignedDom "dec" form num)
  else if enc = 2 then some (atvalUnsignedDom "bool" form num)
  else if enc = 4 ∨ enc = 9 ∨ enc = 3 ∨ enc = 0xd ∨ enc = 0xe ∨ enc = 0xa ∨ enc = 0xf then none
  else some (.err "Unhandled enumerator encoding")

/-- `handle_encoding`: blocks of 1, 2, 4, 8 bytes are read as the data form of that width -/
def handleEncoding (a : DAttr) (enc : Int) : Option Out :=
  if isBlock a.form then
    match a.blk with
    | some bs =>
      if bs.length = 1 then handleEncodingData DW_FORM_data1 (leBytes bs) enc
      else if bs.length = 2 then handleEncodingData DW_FORM_data2 (leBytes bs) enc
      else if bs.length = 4 then handleEncodingData DW_FORM_data4 (leBytes bs) enc
      else if bs.length = 8 then handleEncodingData DW_FORM_data8 (leBytes bs) enc
      else none
    | none => some .libdw
  else handleEncodingData a.form (a.num.getD 0) enc

/-- the tail of handle_at_dependent_value: blocks as byte sequences, vendor attributes as
    unsigned, everything else refused -/
def dependentTail (a : DAttr) : Res :=
  let user := atUserRangeUnsigned && decide (DW_AT_lo_user ≤ a.name ∧ a.name ≤ DW_AT_hi_user)
  if isBlock a.form && (atBlockBeforeUser || !user) then ⟨match a.blk with | some bs => .block bs | none => .libdw, false⟩
  else if user then ⟨atvalUnsignedDom "dec" a.form (a.num.getD 0), false⟩
  else if atFinalThrow then ⟨.err "Signedness of attribute not handled", false⟩
  else ⟨.abort, false⟩

/-- an enumeration without a usable encoding: try the underlying type, then the forms of the
    enumerators' own values, then the value itself -/
def constValueEnum (f : Forest) (a : DAttr) (t : Die) : Res :=
  let num := a.num.getD 0
  let viaUnderlying : Option Out :=
    if (dwIntegrate f libdwChain t DW_AT_type).isSome then
      match getTypeDie f 64 t with
      | some tt =>
        match (if (dwIntegrate f libdwChain tt DW_AT_encoding).isSome then encodingOf f tt else none) with
        | some enc => handleEncoding a enc
        | none => none
      | none => some .libdw
    else none
  match viaUnderlying with
  | some o => ⟨o, false⟩
  | none =>
    let forms := t.children.filterMap fun c =>
      if c.tag == DW_TAG_enumerator then (ownAttr c DW_AT_const_value).map (·.form) else none
    let seenS := forms.any (· == DW_FORM_sdata)
    let seenU := forms.any (· == DW_FORM_udata)
    if seenS && !seenU then ⟨atvalSigned a.form num, false⟩
    else if seenU && !seenS then ⟨atvalUnsignedDom "dec" a.form num, false⟩
    else
      match formudata a.form num with
      | none => ⟨.libdw, false⟩
      | some u =>
        if signExtend 8 u ≥ 0 then ⟨.cst "dec" u, false⟩
        else ⟨atvalSigned a.form num, true⟩

/-- the decision once the type DIE `t` is known -/
def constValueTyped (f : Forest) (a : DAttr) (t : Die) : Res :=
  let num := a.num.getD 0
  if t.tag == DW_TAG_pointer_type || t.tag == DW_TAG_ptr_to_member_type then
    ⟨atvalUnsignedDom "Dwarf_Address" a.form num, false⟩
  else
    let hasEnc := (dwIntegrate f libdwChain t DW_AT_encoding).isSome
    if t.tag != DW_TAG_enumeration_type && (t.tag != DW_TAG_base_type || !hasEnc) then
      match (dwIntegrate f libdwChain t DW_AT_name).bind (·.str) with
      | some nm =>
        if nm = "decltype(nullptr)".toUTF8.toList.map (·.toNat) then ⟨atvalUnsignedDom "Dwarf_Address" a.form num, false⟩
        else dependentTail a
      | none => dependentTail a
    else if hasEnc then
      match encodingOf f t with
      | some enc =>
        match handleEncoding a enc with
        | some o => ⟨o, false⟩
        | none => dependentTail a
      | none => ⟨.libdw, false⟩
    else if t.tag == DW_TAG_enumeration_type then constValueEnum f a t
    else dependentTail a

def constValueFrom (f : Forest) (a : DAttr) (s : Die) : Res :=
  match getTypeDie f 64 s with
  | none => ⟨.libdw, false⟩
  | some t => constValueTyped f a t

/-- DW_AT_const_value: signedness from the type of the DIE (of the parent enumeration for an
    enumerator) -/
def constValue (f : Forest) (d : Die) (parent : Option Die) (a : DAttr) : Res :=
  let num := a.num.getD 0
  if d.tag == DW_TAG_enumerator then
    match parent with
    | none => ⟨.libdw, false⟩
    | some p =>
      if p.tag != DW_TAG_enumeration_type then ⟨atvalUnsignedDom "dec" a.form num, true⟩
      else if (dwIntegrate f libdwChain p DW_AT_type).isNone then ⟨atvalUnsignedDom "dec" a.form num, true⟩
      else constValueFrom f a p
  else constValueFrom f a d

/-- `handle_at_dependent_value` -/
def dependent (f : Forest) (d : Die) (parent : Option Die) (a : DAttr) : Res :=
  let num := a.num.getD 0
  match atActs.lookup a.name with
  | some (.udom dom) => ⟨atvalUnsignedDom dom a.form num, false⟩
  | some .signed => ⟨atvalSigned a.form num, false⟩
  | some .unsigned => ⟨atvalUnsignedDom "dec" a.form num, false⟩
  | some .loc => ⟨.loc, false⟩
  | some .ranges => ⟨.ranges, false⟩
  | some .macinfo => ⟨.macinfo, false⟩
  | some .file => ⟨.file, false⟩
  | some .constValue => constValue f d parent a
  | some (.niy dom) => ⟨atvalUnsignedDom dom a.form num, true⟩
  | some .err => ⟨.err "Signedness of attribute not handled", false⟩
  | none => dependentTail a

/-- `at_value` -/
def atValue (f : Forest) (d : Die) (parent : Option Die) (a : DAttr) : Res :=
  let num := a.num.getD 0
  match formActs.lookup a.form with
  | some .str => ⟨.str, false⟩
  | some .ref => ⟨match a.ref with | some t => .die t | none => .libdw, false⟩
  | some .signed => ⟨atvalSigned a.form num, false⟩
  | some .unsigned => ⟨atvalUnsignedDom "dec" a.form num, false⟩
  | some .addr => ⟨.cst "Dwarf_Address" num, false⟩
  | some .flag => ⟨.cst "bool" (if num = 0 then 0 else 1), false⟩
  | some .dependent => dependent f d parent a
  | some .ranges => ⟨.ranges, false⟩
  | some .loc => ⟨.loc, false⟩
  | some .sig8 => ⟨.sig8, true⟩
  | some .indirect => ⟨.abort, false⟩
  | none => if formDefaultThrows then ⟨.err "Unhandled DWARF form", false⟩ else ⟨.abort, false⟩

end ZwVerif.Atval
