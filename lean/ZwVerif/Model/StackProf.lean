/-
  Model of the cached type profile of `stack` (stack.hh: push / pop / drop keep a
  32-bit `m_profile` holding the type codes of the top four slots, top in the low
  byte) and of `selector::matches` (selector.hh), which overload dispatch uses.

  The C++ shifts and ors bytes; since every code is below 256 and the byte being
  or-ed into is zero, `(p << 8) | c` is `p * 256 % 2^32 + c` and `(p >> 8) | c << 24`
  is `p / 256 + c * 2^24` — the model is written in that arithmetic form.

  Core Lean only.
-/
namespace ZwVerif

structure PStack where
  codes : List Nat      -- type codes, top of stack first
  profile : Nat
deriving Repr, DecidableEq

namespace PStack

def empty : PStack := ⟨[], 0⟩

/-- `stack::push` -/
def push (s : PStack) (c : Nat) : PStack :=
  ⟨c :: s.codes, (s.profile * 256) % 2^32 + c⟩

/-- `stack::pop` (`none`: underflow exception) -/
def pop (s : PStack) : Option PStack :=
  match s.codes with
  | [] => none
  | _ :: r =>
    let p := s.profile / 256
    let p := if r.length ≥ 4 then p + r.getD 3 0 * 2^24 else p
    some ⟨r, p⟩

/-- the profile recomputed from scratch, as `stack::drop` does -/
def enc : List Nat → Nat
  | [] => 0
  | c :: r => c + 256 * enc r

/-- `stack::drop (n)` (`none`: underflow) -/
def drop (s : PStack) (n : Nat) : Option PStack :=
  if n > s.codes.length then none
  else some ⟨s.codes.drop n, enc ((s.codes.drop n).take 4)⟩

/-- the invariant: the cached profile is the encoding of the top four type codes -/
def Inv (s : PStack) : Prop := s.profile = enc (s.codes.take 4) ∧ ∀ c ∈ s.codes, 0 < c ∧ c < 256

/-- a selector: the expected type codes, top of stack first (1 to 4 of them) -/
def selMatches (sel : List Nat) (profile : Nat) : Bool :=
  profile % 256 ^ sel.length == enc sel

end PStack
end ZwVerif
