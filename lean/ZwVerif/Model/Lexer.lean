import ZwVerif.Model.Regex
import ZwVerif.Model.Value
import ZwVerif.Generated.LexerRules
/-
  Model of libzwerg/lexer.ll: three start conditions (INITIAL, STRING,
  STRING_EMBEDDED), each a table of (pattern, action) scanned by longest match,
  first rule on ties — flex's rule.  The patterns are the ones in lexer.ll,
  written as `RE` values; `translate.py` compares the pattern texts extracted
  from lexer.ll with `ruleTexts` below on every run.

  Embedded expressions (`%( … %)`, `%s`, `%d` …) are parsed by a recursive call of
  the parser (`parse_subquery`), which is a parameter here.

  Core Lean only.
-/
namespace ZwVerif
open RE

inductive Tok where
  | lparen | rparen | qlparen | blparen | lbracket (ticks : Nat) | rbracket
  | lbrace | rbrace | qlbrace | blbrace
  | asterisk | plus | qmark | comma | colon | semicolon | vbar | dvbar | assign
  | kif | kthen | kelse | klet
  | word (s : Bytes) | numword (s : Bytes) | op (s : Bytes)
  | litStr (t : Tree) | litInt (s : Bytes) | debug | eof
deriving Repr, Inhabited

/-- compile errors are compared by class, the message is informational -/
abbrev CErr := String

/-! ### character classes of lexer.ll -/
def cAlnum : List (UInt8 × UInt8) := [one '_', range 'a' 'z', range 'A' 'Z', range '0' '9']
def reALNUM : RE := star (anyOf cAlnum)                                   -- ALNUM [_a-zA-Z0-9]*
def reID : RE := cat (anyOf [one '_', range 'a' 'z', range 'A' 'Z']) reALNUM   -- ID
def reINT : RE := cat (anyOf [range '0' '9']) reALNUM                     -- INT [0-9]{ALNUM}
def reHEX : RE := anyOf [range 'a' 'f', range 'A' 'F', range '0' '9']
def reOCT : RE := anyOf [range '0' '7']
def cWs : List (UInt8 × UInt8) := [one ' ', one '\t', one '\n']
/-- the operator class of lexer.ll: the three characters dot, minus, slash in it form a RANGE
    (dot to slash), so minus is not an operator character -/
def cOp : List (UInt8 × UInt8) :=
  [one '$', one '%', one '&', range '.' '/', one ':', one '<', one '=', one '>', one '@',
   one '^', one '_', one '~', one '\\']

inductive IAct where
  | tok (t : Tok) | lbracket | word | numword | strBegin (raw : Bool) | litInt | skip | op | bad
deriving Repr, Inhabited

/-- actions of the initialRules rules, in the file order of lexer.ll -/
def initialRulesActs : List IAct := [
  .tok .lparen,
  .tok .rparen,
  .tok .qlparen,
  .tok .blparen,
  .lbracket,
  .tok .rbracket,
  .tok .lbrace,
  .tok .rbrace,
  .tok .qlbrace,
  .tok .blbrace,
  .tok .asterisk,
  .tok .plus,
  .tok .qmark,
  .tok .comma,
  .tok .dvbar,
  .tok .vbar,
  .tok .colon,
  .tok .semicolon,
  .tok .assign,
  .tok .kif,
  .tok .kthen,
  .tok .kelse,
  .tok .klet,
  .tok .debug,
  .word,
  .numword,
  .strBegin false,
  .strBegin true,
  .litInt,
  .skip,
  .skip,
  .skip,
  .op,
  .bad
]

/-- pattern texts the actions above were written for (the tie theorem of C15 compares them with lexer.ll's) -/
def initialRulesTexts : List String := [
  "\"(\"",
  "\")\"",
  "\"?(\"",
  "\"!(\"",
  "\"`\"*\"[\"",
  "\"]\"",
  "\"{\"",
  "\"}\"",
  "\"?{\"",
  "\"!{\"",
  "\"*\"",
  "\"+\"",
  "\"?\"",
  "\",\"",
  "\"||\"",
  "\"|\"",
  "\":\"",
  "\";\"",
  "\":=\"",
  "\"if\"",
  "\"then\"",
  "\"else\"",
  "\"let\"",
  "\"\\\\dbg\"",
  "[?!@.\\\\]?{ID}",
  "[?!]{INT}",
  "\"\\\"\"",
  "\"r\\\"\"",
  "\"-\"?{INT}",
  "[ \\t\\n]+",
  "(#|[/][/])[^\\n]*",
  "[/][*]([^*]|[*]+[^*/])*[*]+[/]",
  "[?!]?[$%&.-/:<=>@^_~\\\\]+",
  "."
]

/-- the patterns are the ones regenerated from lexer.ll on every run -/
def initialRules : List (RE × IAct × String) :=
  (Generated.lex_INITIAL.zip initialRulesActs).map fun (r, a) => (r.1, a, r.2.1)

inductive SAct where
  | escOct | escHex | esc | contPlain | contRaw | strEnd | pct | splice
  | fmt (sub : String) | char
deriving Repr, Inhabited

/-- actions of the stringRules rules, in the file order of lexer.ll -/
def stringRulesActs : List SAct := [
  .escOct,
  .escHex,
  .esc,
  .contPlain,
  .contRaw,
  .strEnd,
  .pct,
  .splice,
  .fmt "",
  .fmt "value hex",
  .fmt "value oct",
  .fmt "value bin",
  .fmt "value",
  .char
]

/-- pattern texts the actions above were written for (the tie theorem of C15 compares them with lexer.ll's) -/
def stringRulesTexts : List String := [
  "\"\\\\\"[0-3]{OCT}?{OCT}?",
  "\"\\\\x\"{HEX}{HEX}",
  "\"\\\\\"(.|[\\n])",
  "\"\\\"\\\\\"[ \\t\\n]*\"\\\"\"",
  "\"\\\"\\\\\"[ \\t\\n]*\"r\\\"\"",
  "\"\\\"\"",
  "\"%%\"",
  "\"%(\"",
  "\"%s\"",
  "\"%x\"",
  "\"%o\"",
  "\"%b\"",
  "\"%d\"",
  "(.|[\\n])"
]

/-- the patterns are the ones regenerated from lexer.ll on every run -/
def stringRules : List (RE × SAct × String) :=
  (Generated.lex_STRING.zip stringRulesActs).map fun (r, a) => (r.1, a, r.2.1)

inductive EAct where
  | open_ | close | escQuote | quote | spliceOpen | spliceClose | char
deriving Repr, Inhabited

/-- actions of the embeddedRules rules, in the file order of lexer.ll -/
def embeddedRulesActs : List EAct := [
  .open_,
  .close,
  .escQuote,
  .quote,
  .spliceOpen,
  .spliceClose,
  .char
]

/-- pattern texts the actions above were written for (the tie theorem of C15 compares them with lexer.ll's) -/
def embeddedRulesTexts : List String := [
  "[\\(\\[\\{]",
  "[\\)\\]\\}]",
  "\"\\\\\\\"\"",
  "\"\\\"\"",
  "\"%(\"",
  "\"%)\"",
  "(.|[\\n])"
]

/-- the patterns are the ones regenerated from lexer.ll on every run -/
def embeddedRules : List (RE × EAct × String) :=
  (Generated.lex_STRING_EMBEDDED.zip embeddedRulesActs).map fun (r, a) => (r.1, a, r.2.1)

/-- pattern texts in file order, for the tie with lexer.ll (checked by translate.py) -/
def ruleTexts : List String :=
  (initialRules.map (·.2.2)) ++ (stringRules.map (·.2.2)) ++ (embeddedRules.map (·.2.2))

/-- flex: the rule with the longest match wins, the first one on ties; `none` when no rule
    matches (flex would then apply its default rule: echo the byte). -/
def pick {α : Type} (rules : List (RE × α × String)) (s : Bytes) : Option (Nat × α) :=
  rules.foldl (fun best r =>
    match longest r.1 s with
    | some n =>
      if n = 0 then best
      else match best with
        | some (m, _) => if n > m then some (n, r.2.1) else best
        | none => some (n, r.2.1)
    | none => best) none

def s2b (s : String) : Bytes := s.toUTF8.toList
def b2s (b : Bytes) : String := String.fromUTF8! (ByteArray.mk b.toArray)

/-- `parse_esc_num` -/
def parseEscNum (digits : Bytes) (base : Nat) : UInt8 :=
  let v := digits.foldl (fun acc c =>
    let d := if c ≥ 48 ∧ c ≤ 57 then c.toNat - 48
             else if c ≥ 97 ∧ c ≤ 102 then c.toNat - 87
             else c.toNat - 55
    acc * base + d) 0
  v.toUInt8

/-- the lexer's helper structure for string literals -/
structure FmtLit where
  str : Bytes := []
  children : List Tree := []      -- children of the FORMAT node, in order
  level : Nat := 0
  inString : Bool := false
  raw : Bool
deriving Repr, Inhabited

def FmtLit.flush (f : FmtLit) : FmtLit :=
  { f with children := f.children ++ [Tree.mkStr .STR f.str], str := [] }

def escChar (c : UInt8) : Option UInt8 :=
  if c = 'a'.toNat.toUInt8 then some 7
  else if c = 'b'.toNat.toUInt8 then some 8
  else if c = 'e'.toNat.toUInt8 then some 27
  else if c = 't'.toNat.toUInt8 then some 9
  else if c = 'n'.toNat.toUInt8 then some 10
  else if c = 'v'.toNat.toUInt8 then some 11
  else if c = 'f'.toNat.toUInt8 then some 12
  else if c = 'r'.toNat.toUInt8 then some 13
  else none

section
variable (parseSub : Bytes → Except CErr Tree)

/-- STRING_EMBEDDED: returns the fmtlit after the closing `%)` and the rest of the input. -/
def lexEmbedded : Nat → FmtLit → Bytes → Except CErr (FmtLit × Bytes)
  | 0, _, _ => .error "fuel"
  | fuel + 1, f, s =>
    if s.isEmpty then .error "too few closing parentheses in embedded expression"
    else match pick embeddedRules s with
    | none => lexEmbedded fuel f (s.drop 1)          -- flex default rule: echo and skip
    | some (n, act) =>
      let txt := s.take n
      let rest := s.drop n
      match act with
      | .open_ => lexEmbedded fuel { f with str := f.str ++ txt,
                                            level := if f.inString then f.level else f.level + 1 } rest
      | .close =>
        if !f.inString ∧ f.level = 0 then .error "too many closing parentheses in embedded expression"
        else lexEmbedded fuel { f with str := f.str ++ txt,
                                       level := if f.inString then f.level else f.level - 1 } rest
      | .escQuote => lexEmbedded fuel { f with str := f.str ++ txt } rest
      | .quote => lexEmbedded fuel { f with str := f.str ++ txt, inString := !f.inString } rest
      | .spliceOpen => lexEmbedded fuel { f with str := f.str ++ txt, inString := false,
                                                 level := f.level + 1 } rest
      | .spliceClose =>
        if f.level = 0 then
          match parseSub f.str with
          | .error e => .error e
          | .ok t => .ok ({ f with children := f.children ++ [t], str := [] }, rest)
        else lexEmbedded fuel { f with inString := true, level := f.level - 1,
                                       str := f.str ++ txt } rest
      | .char => lexEmbedded fuel { f with str := f.str ++ txt } rest

/-- STRING: returns the FORMAT tree and the rest of the input. -/
def lexString : Nat → FmtLit → Bytes → Except CErr (Tree × Bytes)
  | 0, _, _ => .error "fuel"
  | fuel + 1, f, s =>
    if s.isEmpty then .error "string literal not terminated"
    else match pick stringRules s with
    | none => lexString fuel f (s.drop 1)
    | some (n, act) =>
      let txt := s.take n
      let rest := s.drop n
      match act with
      | .escOct =>
        if f.raw then lexString fuel { f with str := f.str ++ txt } rest
        else lexString fuel { f with str := f.str ++ [parseEscNum (txt.drop 1) 8] } rest
      | .escHex =>
        if f.raw then lexString fuel { f with str := f.str ++ txt } rest
        else lexString fuel { f with str := f.str ++ [parseEscNum (txt.drop 2) 16] } rest
      | .esc =>
        let c := txt.getD 1 0
        if f.raw then lexString fuel { f with str := f.str ++ txt } rest
        else if c = 10 then lexString fuel f rest
        else lexString fuel { f with str := f.str ++ [(escChar c).getD c] } rest
      | .contPlain => lexString fuel { f with raw := false } rest
      | .contRaw => lexString fuel { f with raw := true } rest
      | .strEnd => .ok (Tree.node .FORMAT .none f.flush.children, rest)
      | .pct => lexString fuel { f with str := f.str ++ [37] } rest
      | .splice =>
        match lexEmbedded parseSub fuel f.flush rest with
        | .error e => .error e
        | .ok (f', rest') => lexString fuel f' rest'
      | .fmt sub =>
        match parseSub (s2b sub) with
        | .error e => .error e
        | .ok t => lexString fuel { f.flush with children := f.flush.children ++ [t] } rest
      | .char => lexString fuel { f with str := f.str ++ txt } rest

/-- INITIAL: the whole input to a token list (ending in `eof`). -/
def lexInitial : Nat → Bytes → Except CErr (List Tok)
  | 0, _ => .error "fuel"
  | fuel + 1, s =>
    if s.isEmpty then .ok [.eof]
    else match pick initialRules s with
    | none => lexInitial fuel (s.drop 1)
    | some (n, act) =>
      let txt := s.take n
      let rest := s.drop n
      let cont (t : Tok) : Except CErr (List Tok) :=
        match lexInitial fuel rest with
        | .error e => .error e
        | .ok ts => .ok (t :: ts)
      match act with
      | .tok t => cont t
      | .lbracket => cont (.lbracket (n - 1))
      | .word => cont (.word txt)
      | .numword => cont (.numword txt)
      | .litInt => cont (.litInt txt)
      | .op => cont (.op txt)
      | .skip => lexInitial fuel rest
      | .bad => .error "Invalid character in input stream"
      | .strBegin raw =>
        match lexString parseSub fuel { raw := raw } rest with
        | .error e => .error e
        | .ok (t, rest') =>
          match lexInitial fuel rest' with
          | .error e => .error e
          | .ok ts => .ok (.litStr t :: ts)
end

end ZwVerif
