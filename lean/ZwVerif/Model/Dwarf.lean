/-
  Model of the DWARF side of dwgrep over an abstract DIE forest (what libdw
  presents): unit and DIE iteration (dwit.cc), the parent table (cache.cc), the
  cooked view — inlining of imported partial units and integration of attributes
  reachable through DW_AT_specification / DW_AT_abstract_origin
  (builtin-dw.cc: die_it_producer, attribute_producer, find_attribute), and
  navigation with import chains (value-dw.cc: fetch_parent_die).

  libdw itself (dwarf_child, dwarf_siblingof, dwarf_offdie, dwarf_getattrs …) is
  the parameter: the forest is what those calls report.

  Core Lean only.
-/
namespace ZwVerif.Dwarf

def DW_TAG_imported_unit : Nat := 0x3d
def DW_TAG_partial_unit : Nat := 0x3c
def DW_AT_sibling : Nat := 0x01
def DW_AT_import : Nat := 0x18
def DW_AT_declaration : Nat := 0x3c
def DW_AT_abstract_origin : Nat := 0x31
def DW_AT_specification : Nat := 0x47

structure DAttr where
  name : Nat
  form : Nat
  ref : Option Nat        -- for reference forms: section offset of the target DIE
  num : Option Int := none        -- integer payload: fixed-size data as the unsigned bit pattern, sdata /
                                  -- implicit_const signed, udata / sec_offset / addr / flag unsigned
  blk : Option (List Nat) := none -- block forms: the bytes
  str : Option (List Nat) := none -- string forms: the bytes
deriving Repr, DecidableEq, Inhabited

inductive Die where
  | mk (off tag : Nat) (hasChildren : Bool) (attrs : List DAttr) (children : List Die)
deriving Repr, Inhabited

namespace Die
def off : Die → Nat | mk o .. => o
def tag : Die → Nat | mk _ t .. => t
def hasChildren : Die → Bool | mk _ _ h .. => h
def attrs : Die → List DAttr | mk _ _ _ a _ => a
def children : Die → List Die | mk _ _ _ _ c => c
end Die

structure DUnit where
  off : Nat
  version : Nat
  root : Die
deriving Repr, Inhabited

abbrev Forest := List DUnit

mutual
/-- section pre-order of a DIE tree -/
def preorder : Die → List Die
  | .mk o t h a cs => .mk o t h a cs :: preorderList cs
def preorderList : List Die → List Die
  | [] => []
  | c :: cs => preorder c ++ preorderList cs
end

/-- `raw entry`: every DIE of every unit, in section order -/
def rawEntries (f : Forest) : List Die := f.flatMap fun u => preorder u.root

/-! ### all_dies_iterator, as a machine -/

/-- iterator state: the current DIE and, innermost first, the later siblings still to visit at
    every ancestor level (what dwarf_siblingof after a pop of `m_stack` will find) -/
structure ItState where
  cur : Die
  conts : List (List Die)
deriving Repr, Inhabited

/-- the next non-empty continuation after dropping exhausted levels (the do-while of
    `operator++`: no sibling → go a level up and retry) -/
def popConts : List (List Die) → Option ItState
  | [] => none
  | [] :: rest => popConts rest
  | (s :: ss) :: rest => some ⟨s, ss :: rest⟩

/-- `all_dies_iterator::operator++` within one unit; `none` = move on to the next unit -/
def itNext (s : ItState) : Option ItState :=
  match s.cur.children with
  | c :: cs => some ⟨c, cs :: s.conts⟩          -- dwpp_child succeeded: push, descend
  | [] => popConts s.conts

/-- run the iterator `fuel` steps, collecting the DIEs visited -/
def itRun : Nat → Option ItState → List Die
  | 0, _ => []
  | _, none => []
  | fuel + 1, some s => s.cur :: itRun fuel (itNext s)

mutual
def dieSize : Die → Nat
  | .mk _ _ _ _ cs => 1 + dieSizeList cs
def dieSizeList : List Die → Nat
  | [] => 0
  | c :: cs => dieSize c + dieSizeList cs
end

/-- what the iterator machine has left to visit -/
def pending (s : ItState) : List Die := preorder s.cur ++ s.conts.flatMap preorderList

/-! ### parent table (parent_cache) -/

mutual
/-- `recursively_populate_unit`: (offset, parent offset) in pre-order -/
def parentTable (par : Option Nat) : Die → List (Nat × Option Nat)
  | .mk o _ _ _ cs => (o, par) :: parentTableList (some o) cs
def parentTableList (par : Option Nat) : List Die → List (Nat × Option Nat)
  | [] => []
  | c :: cs => parentTable par c ++ parentTableList par cs
end

/-- `std::lower_bound` by offset on the table, then the assertion `jt->first == dieoff` -/
def lowerBound (tab : List (Nat × Option Nat)) (off : Nat) : Option (Nat × Option Nat) :=
  tab.find? fun e => decide (off ≤ e.1)

def findParent (u : DUnit) (off : Nat) : Option (Option Nat) :=
  match lowerBound (parentTable none u.root) off with
  | some (o, p) => if o = off then some p else none
  | none => none

/-! ### looking DIEs up -/

def findDie (f : Forest) (off : Nat) : Option Die := (rawEntries f).find? fun d => d.off == off
def unitOf (f : Forest) (off : Nat) : Option DUnit :=
  f.find? fun u => (preorder u.root).any fun d => d.off == off
def isPartial (u : DUnit) : Bool := u.root.tag == DW_TAG_partial_unit

def attrRef (d : Die) (name : Nat) : Option Nat :=
  (d.attrs.find? fun a => a.name == name).bind (·.ref)

/-- the root of the unit an imported_unit DIE imports -/
def importTarget (f : Forest) (d : Die) : Option Die :=
  if d.tag == DW_TAG_imported_unit then (attrRef d DW_AT_import).bind (findDie f) else none

/-! ### cooked view: children with imports inlined -/

/-- a cooked DIE value: the DIE and the chain of imported_unit DIE offsets through which its
    unit was reached (innermost first) -/
structure CDie where
  die : Die
  chain : List Nat
deriving Repr, Inhabited

/-- `child` in cooked mode: raw children, each DW_TAG_imported_unit replaced in place by the
    (cooked) children of the imported unit's root -/
def cookedChildren (f : Forest) : Nat → CDie → List CDie
  | 0, _ => []
  | fuel + 1, ⟨d, chain⟩ =>
    d.children.flatMap fun c =>
      match importTarget f c with
      | some root => cookedChildren f fuel ⟨root, c.off :: chain⟩
      | none => [⟨c, chain⟩]

/-- cooked `entry` of one unit: all DIEs in pre-order, every imported_unit replaced by all the
    DIEs below the imported unit's root -/
def cookedBelow (f : Forest) : Nat → List Die → List Nat → List CDie
  | 0, _, _ => []
  | _ + 1, [], _ => []
  | fuel + 1, d :: rest, chain =>
    (match importTarget f d with
     | some root => cookedBelow f fuel (preorderList root.children) (d.off :: chain)
     | none => [⟨d, chain⟩]) ++ cookedBelow f fuel rest chain

def cookedUnitEntries (f : Forest) (fuel : Nat) (u : DUnit) : List CDie :=
  ⟨u.root, []⟩ :: cookedBelow f fuel (preorderList u.root.children) []

/-- cooked `entry`: partial units are not listed as units -/
def cookedEntries (f : Forest) (fuel : Nat) : List CDie :=
  (f.filter fun u => !isPartial u).flatMap (cookedUnitEntries f fuel)

/-! ### parent / root with import chains (fetch_parent_die after the F6 repair) -/

def rawParent (f : Forest) (d : Die) : Option Die :=
  match unitOf f d.off with
  | some u => (match findParent u d.off with
               | some (some p) => findDie f p
               | _ => none)
  | none => none

/-- is this DIE the root of its unit? -/
def isUnitRoot (f : Forest) (d : Die) : Bool :=
  match unitOf f d.off with
  | some u => u.root.off == d.off
  | none => false

/-- cooked `parent`: when the parent is the root of an imported unit (partial or normal: the DIE
    has an import chain), continue from the importing DIE; the parent keeps the import chain of
    the DIE it is the parent of -/
def cookedParent (f : Forest) : Nat → CDie → Option CDie
  | 0, _ => none
  | fuel + 1, ⟨d, chain⟩ =>
    match rawParent f d with
    | none => none
    | some p =>
      if isUnitRoot f p then
        match chain with
        | imp :: rest =>
          match findDie f imp with
          | some impDie => cookedParent f fuel ⟨impDie, rest⟩
          | none => none
        | [] => some ⟨p, []⟩
      else some ⟨p, chain⟩

def cookedRoot (f : Forest) : Nat → CDie → CDie
  | 0, c => c
  | fuel + 1, c =>
    match cookedParent f (fuel + 1) c with
    | some p => cookedRoot f fuel p
    | none => c

/-! ### attributes: integration through specification / abstract_origin -/

def attrShouldBeIntegrated (name : Nat) : Bool := name != DW_AT_sibling && name != DW_AT_declaration

/-- `attribute_producer::schedule`: a specification goes on top of the stack (the end of `next`),
    an abstract origin underneath everything the current DIE has scheduled (position `base`), so
    that the specification is looked through first whatever the stored order -/
def schedule (next : List Nat) (base : Nat) (a : DAttr) : List Nat :=
  match a.ref with
  | none => next
  | some t =>
    if a.name == DW_AT_specification then next ++ [t]
    else if a.name == DW_AT_abstract_origin then next.take base ++ [t] ++ next.drop base
    else next

/-- `attribute_producer` in cooked mode.  `next` is the stack of DIEs scheduled (`m_next`, top
    last), `base` its size when the current DIE was taken (`m_base`), `seen` the attribute names
    yielded so far; `secondary` is set once the first DIE is done.  Yields (DIE offset the
    attribute sits on, attribute). -/
def attrsCookedGo (f : Forest) : Nat → List DAttr → Nat → Bool → List Nat → Nat → List Nat → List (Nat × DAttr)
  | 0, _, _, _, _, _, _ => []
  | fuel + 1, [], _, _, next, _, seen =>
    -- current DIE exhausted: take the most recently scheduled one
    match next.reverse with
    | [] => []
    | n :: restRev =>
      match findDie f n with
      | some d => attrsCookedGo f fuel d.attrs d.off true restRev.reverse restRev.length seen
      | none => []
  | fuel + 1, a :: as, cur, secondary, next, base, seen =>
    let next := schedule next base a
    if secondary && !attrShouldBeIntegrated a.name then attrsCookedGo f fuel as cur secondary next base seen
    else if seen.contains a.name then attrsCookedGo f fuel as cur secondary next base seen
    else (cur, a) :: attrsCookedGo f fuel as cur secondary next base (seen ++ [a.name])

def attrsCooked (f : Forest) (fuel : Nat) (d : Die) : List (Nat × DAttr) :=
  attrsCookedGo f fuel d.attrs d.off false [] 0 []

/-- `find_attribute` in cooked mode: own attribute, else through specification, else through
    abstract_origin, recursively.  Returns the DIE offset it was found on and the attribute. -/
def findAttr (f : Forest) : Nat → Die → Nat → Option (Nat × DAttr)
  | 0, _, _ => none
  | fuel + 1, d, name =>
    match d.attrs.find? fun a => a.name == name with
    | some a => some (d.off, a)
    | none =>
      if !attrShouldBeIntegrated name then none else
      let via (ref : Nat) : Option (Nat × DAttr) :=
        match (d.attrs.find? fun a => a.name == ref) with
        | some r => (r.ref.bind (findDie f)).bind fun t => findAttr f fuel t name
        | none => none
      match via DW_AT_specification with
      | some r => some r
      | none => via DW_AT_abstract_origin

end ZwVerif.Dwarf
