/-
  The transitive-closure operator of the pull engine as a machine (op.cc: op_tr_closure::next
  with next_from_op, send_to_op, next_from_upstream, yield_and_cache), relationally — one
  constructor per path through the C++.  The body is abstracted to what it yields for one stack
  (`f y`); what is modelled exactly is the state: the seen-set `m_seen` (cleared whenever a stack
  is taken from upstream), the LIFO work list `m_stks`, the `m_op_drained` flag, and the order
  in which stacks are sent to the body.

  Core Lean only.
-/
namespace ZwVerif.Closure

structure St (α : Type) where
  up : List α            -- the upstream, as the stacks it will still yield
  seen : List α          -- m_seen (as a list; membership is what matters)
  stks : List α          -- m_stks, back of the vector first
  cur : Option α         -- the stack the body is working on (held by the origin)
  pend : List α          -- what the body will still yield for it
  drained : Bool         -- m_op_drained

variable {α : Type}

def init (up : List α) : St α := { up := up, seen := [], stks := [], cur := none, pend := [], drained := true }

/-- `next_from_op` finds nothing: the body was drained already, or is found dry now -/
inductive OpDry : St α → St α → Prop
  | was {st : St α} : st.drained = true → OpDry st st
  | now {st : St α} : st.drained = false → st.pend = [] → OpDry st { st with drained := true }

/-- `op_tr_closure::next`; `plus` = the `+` form -/
inductive Next (f : α → List α) (plus : Bool) : St α → Option α → St α → Prop
  /-- the body yields a stack not seen for this input: `yield_and_cache` caches and yields it -/
  | opYield {st : St α} {x : α} {xs : List α} : st.drained = false → st.pend = x :: xs → x ∉ st.seen →
      Next f plus st (some x) { st with pend := xs, seen := x :: st.seen, stks := x :: st.stks }
  /-- … a stack seen before: dropped, ask the body again -/
  | opSkip {st st' : St α} {x : α} {xs : List α} {r : Option α} : st.drained = false → st.pend = x :: xs → x ∈ st.seen →
      Next f plus { st with pend := xs } r st' → Next f plus st r st'
  /-- the body is dry and a cached stack waits: send the most recent one to the body -/
  | sendCached {st st1 st' : St α} {y : α} {ys : List α} {r : Option α} : OpDry st st1 → st1.stks = y :: ys →
      Next f plus { st1 with stks := ys, cur := some y, pend := f y, drained := false } r st' → Next f plus st r st'
  /-- `+`, nothing cached: the next upstream stack goes straight to the body (seen-set cleared) -/
  | plusFeed {st st1 st' : St α} {s : α} {rest : List α} {r : Option α} : plus = true → OpDry st st1 → st1.stks = [] →
      st1.up = s :: rest →
      Next f plus { st1 with up := rest, seen := [], cur := some s, pend := f s, drained := false } r st' → Next f plus st r st'
  | plusEnd {st st1 : St α} : plus = true → OpDry st st1 → st1.stks = [] → st1.up = [] →
      Next f plus st none { st1 with seen := [] }
  /-- `*`, nothing cached: the next upstream stack is yielded itself (seen-set cleared first) -/
  | starInput {st st1 : St α} {s : α} {rest : List α} : plus = false → OpDry st st1 → st1.stks = [] → st1.up = s :: rest →
      Next f plus st (some s) { st1 with up := rest, seen := [s], stks := [s] }
  | starEnd {st st1 : St α} : plus = false → OpDry st st1 → st1.stks = [] → st1.up = [] →
      Next f plus st none { st1 with seen := [] }

/-- pull until the operator reports exhaustion -/
inductive Drain (f : α → List α) (plus : Bool) : St α → List α → St α → Prop
  | nil {st st' : St α} : Next f plus st none st' → Drain f plus st [] st'
  | cons {st st' st'' : St α} {x : α} {xs : List α} : Next f plus st (some x) st' → Drain f plus st' xs st'' →
      Drain f plus st (x :: xs) st''

/-- reachable from `s` by zero or more steps of the body -/
inductive Reach (f : α → List α) (s : α) : α → Prop
  | refl : Reach f s s
  | step {y z : α} : Reach f s y → z ∈ f y → Reach f s z

end ZwVerif.Closure
