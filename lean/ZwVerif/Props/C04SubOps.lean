import ZwVerif.Model.SubOps
set_option linter.unusedSimpArgs false
set_option linter.unusedVariables false
/-!
# C04 / C01 — the operators that run a sub-expression per incoming stack compute the per-input rule

For every upstream and every behaviour of the sub-expressions (`f`, `c`, `t`, `e` : what a chain yields
for one stack, any finite list), pulling the operator until exhaustion yields exactly

* `op_capture`:  one result per input — the input with the list of what the body yields for it;
* `op_subx`:     for each input, one result per result of the body — built from THAT input;
* `op_ifelse`:   for each input, what `then` yields for it if the condition yields anything for it, else
                  what `else` yields for it;
* `op_assert` with `pred_subx_any`: the inputs the condition yields anything for, in order, each once;

and nothing else (`next` is a function; `Drain` is deterministic).  No result of one input depends on
what an earlier input left behind: the chain's state is fresh whenever it is fed.
-/
namespace ZwVerif.SubOps
variable {α β γ : Type}

/-! ### draining is deterministic -/

theorem drain_det {σ ρ : Type} (next : σ → Option ρ × σ) (st : σ) (o1 : List ρ) (s1 : σ) (h1 : Drain next st o1 s1) :
    ∀ (o2 : List ρ) (s2 : σ), Drain next st o2 s2 → o1 = o2 ∧ s1 = s2 := by
  induction h1 with
  | nil h =>
    intro o2 s2 h2
    cases h2 with
    | nil _ => exact ⟨rfl, rfl⟩
    | cons h' _ => rw [h] at h'; cases h'
  | cons h _ ih =>
    intro o2 s2 h2
    cases h2 with
    | nil h' => rw [h] at h'; cases h'
    | cons h' hd =>
      rw [h] at h'; cases h'
      obtain ⟨e1, e2⟩ := ih _ _ hd
      exact ⟨by rw [e1], e2⟩

/-- draining looks at the state only through `next` -/
theorem drain_congr {σ ρ : Type} {next : σ → Option ρ × σ} {st st2 : σ} {o : List ρ} {s : σ} (e : next st = next st2)
    (h : Drain next st2 o s) : Drain next st o s := by
  cases h with
  | nil h' => rw [← e] at h' ⊢; exact Drain.nil h'
  | cons h' hd => rw [← e] at h' hd; exact Drain.cons h' hd

/-! ### the chain -/

/-- what a chain still yields: what is pending, then what it yields for the stack at its origin -/
def Body.rest (f : α → List β) (b : Body α β) : List β :=
  b.pend ++ (match b.org with | some s => f s | none => [])

theorem body_drain_none (f : α → List β) (p : List β) :
    Drain (Body.next f) (⟨none, p⟩ : Body α β) p ⟨none, []⟩ := by
  induction p with
  | nil => exact Drain.nil (st := (⟨none, []⟩ : Body α β)) rfl
  | cons x xs ih => exact Drain.cons (st := (⟨none, x :: xs⟩ : Body α β)) rfl ih

/-- a chain pulled dry yields `rest` and ends with a state equal to a fresh one -/
theorem body_drain (f : α → List β) (b : Body α β) : Drain (Body.next f) b (b.rest f) Body.fresh := by
  obtain ⟨org, pend⟩ := b
  induction pend with
  | nil =>
    cases org with
    | none => exact Drain.nil (st := (⟨none, []⟩ : Body α β)) rfl
    | some s =>
      simp only [Body.rest, List.nil_append]
      cases hf : f s with
      | nil =>
        have : Body.next f (⟨some s, []⟩ : Body α β) = (none, ⟨none, []⟩) := by simp [Body.next, hf]
        have d : Drain (Body.next f) (⟨some s, []⟩ : Body α β) [] (Body.next f ⟨some s, []⟩).2 := Drain.nil (by rw [this])
        rw [this] at d
        exact d
      | cons x xs =>
        have e : Body.next f (⟨some s, []⟩ : Body α β) = (some x, ⟨none, xs⟩) := by simp [Body.next, hf]
        refine Drain.cons (x := x) (by rw [e]) ?_
        rw [e]
        exact body_drain_none f xs
  | cons x xs ih =>
    have e : Body.next f (⟨org, x :: xs⟩ : Body α β) = (some x, ⟨org, xs⟩) := by simp [Body.next]
    refine Drain.cons (x := x) (by rw [e]) ?_
    rw [e]
    exact ih

/-! ### op_capture -/

def capSpec (f : α → List β) (mk : α → List β → γ) (ups : List α) : List γ := ups.map fun s => mk s (f s)

theorem capNext_det (f : α → List β) (mk : α → List β → γ) (st : CapSt α β) (r1 : Option γ) (s1 : CapSt α β)
    (h1 : CapNext f mk st r1 s1) (r2 : Option γ) (s2 : CapSt α β) (h2 : CapNext f mk st r2 s2) : r1 = r2 ∧ s1 = s2 := by
  cases h1 with
  | input hu hd =>
    cases h2 with
    | input hu2 hd2 =>
      rw [hu] at hu2; cases hu2
      obtain ⟨e, _⟩ := drain_det _ _ _ _ hd _ _ hd2
      subst e; exact ⟨rfl, rfl⟩
    | done hu2 => rw [hu] at hu2; cases hu2
  | done hu =>
    cases h2 with
    | input hu2 _ => rw [hu] at hu2; cases hu2
    | done _ => exact ⟨rfl, rfl⟩

theorem drainR_det {σ ρ : Type} (next : σ → Option ρ → σ → Prop)
    (det : ∀ st r1 s1 r2 s2, next st r1 s1 → next st r2 s2 → r1 = r2 ∧ s1 = s2)
    (st : σ) (o1 : List ρ) (s1 : σ) (h1 : DrainR next st o1 s1) :
    ∀ (o2 : List ρ) (s2 : σ), DrainR next st o2 s2 → o1 = o2 ∧ s1 = s2 := by
  induction h1 with
  | nil h =>
    intro o2 s2 h2
    cases h2 with
    | nil h' => exact ⟨rfl, (det _ _ _ _ _ h h').2⟩
    | cons h' _ => have := (det _ _ _ _ _ h h').1; cases this
  | cons h _ ih =>
    intro o2 s2 h2
    cases h2 with
    | nil h' => have := (det _ _ _ _ _ h h').1; cases this
    | cons h' hd =>
      obtain ⟨e1, e2⟩ := det _ _ _ _ _ h h'
      cases e1; subst e2
      obtain ⟨e1, e2⟩ := ih _ _ hd
      exact ⟨by rw [e1], e2⟩

/-- **op_capture**: one result per input, holding exactly what the body yields for THAT input -/
theorem capture_refines (f : α → List β) (mk : α → List β → γ) (ups : List α) :
    DrainR (CapNext f mk) ⟨ups, Body.fresh⟩ (capSpec f mk ups) ⟨[], Body.fresh⟩ := by
  induction ups with
  | nil => exact DrainR.nil (CapNext.done rfl)
  | cons s rest ih =>
    have d := body_drain f ((Body.fresh : Body α β).setNext s)
    have : ((Body.fresh : Body α β).setNext s).rest f = f s := by simp [Body.rest, Body.setNext, Body.fresh]
    rw [this] at d
    exact DrainR.cons (CapNext.input (st := ⟨s :: rest, Body.fresh⟩) rfl d) ih

theorem capture_only_behaviour (f : α → List β) (mk : α → List β → γ) (ups : List α) (out : List γ) (st' : CapSt α β)
    (h : DrainR (CapNext f mk) ⟨ups, Body.fresh⟩ out st') : out = capSpec f mk ups :=
  (drainR_det _ (fun st r1 s1 r2 s2 a b => capNext_det f mk st r1 s1 a r2 s2 b) _ _ _ h _ _ (capture_refines f mk ups)).1

/-! ### op_subx -/

def subxSpec (f : α → List β) (comb : α → β → γ) (ups : List α) : List γ := ups.flatMap fun s => (f s).map (comb s)

theorem subx_feed_empty (f : α → List β) (comb : α → β → γ) (s : α) (rest : List α) (hf : f s = []) :
    subxStep f comb (s :: rest, none, Body.fresh) = subxStep f comb (rest, none, Body.fresh) := by
  simp only [subxStep]
  rw [subxNext]
  rw [subxNext]
  simp [Body.next, Body.setNext, Body.fresh, hf]

theorem subx_feed_cons (f : α → List β) (comb : α → β → γ) (s : α) (rest : List α) (y : β) (ys : List β) (hf : f s = y :: ys) :
    subxStep f comb (s :: rest, none, Body.fresh) = (some (comb s y), (rest, some s, ⟨none, ys⟩)) := by
  simp only [subxStep]
  rw [subxNext]
  rw [subxNext]
  simp [Body.next, Body.setNext, Body.fresh, hf]

theorem subx_pend_cons (f : α → List β) (comb : α → β → γ) (up : List α) (s : α) (y : β) (ys : List β) :
    subxStep f comb (up, some s, ⟨none, y :: ys⟩) = (some (comb s y), (up, some s, ⟨none, ys⟩)) := by
  simp only [subxStep]
  rw [subxNext]
  simp [Body.next]

theorem subx_pend_nil (f : α → List β) (comb : α → β → γ) (up : List α) (s : α) :
    subxStep f comb (up, some s, ⟨none, []⟩) = subxStep f comb (up, none, Body.fresh) := by
  simp only [subxStep]
  rw [subxNext]
  simp [Body.next, Body.fresh]

theorem subx_refines_aux (f : α → List β) (comb : α → β → γ) (ups : List α) :
    Drain (subxStep f comb) (ups, none, Body.fresh) (subxSpec f comb ups) ([], none, Body.fresh) ∧
    ∀ (s : α) (p : List β), Drain (subxStep f comb) (ups, some s, ⟨none, p⟩) (p.map (comb s) ++ subxSpec f comb ups) ([], none, Body.fresh) := by
  induction ups with
  | nil =>
    have d0 : Drain (subxStep f comb) (([] : List α), none, (Body.fresh : Body α β)) [] ([], none, Body.fresh) := by
      have e : subxStep f comb (([] : List α), none, (Body.fresh : Body α β)) = (none, ([], none, Body.fresh)) := by
        simp only [subxStep]; rw [subxNext]
      have := Drain.nil (next := subxStep f comb) (st := (([] : List α), none, (Body.fresh : Body α β))) (by rw [e])
      rw [e] at this; exact this
    refine ⟨d0, ?_⟩
    intro s p
    induction p with
    | nil => exact drain_congr (subx_pend_nil f comb [] s) d0
    | cons y ys ih =>
      have e := subx_pend_cons f comb [] s y ys
      refine Drain.cons (x := comb s y) (by rw [e]) ?_
      rw [e]; exact ih
  | cons s' rest ih =>
    have d0 : Drain (subxStep f comb) (s' :: rest, none, Body.fresh) (subxSpec f comb (s' :: rest)) ([], none, Body.fresh) := by
      cases hf : f s' with
      | nil =>
        have : subxSpec f comb (s' :: rest) = subxSpec f comb rest := by simp [subxSpec, hf]
        rw [this]
        exact drain_congr (subx_feed_empty f comb s' rest hf) ih.1
      | cons y ys =>
        have : subxSpec f comb (s' :: rest) = comb s' y :: (ys.map (comb s') ++ subxSpec f comb rest) := by
          simp [subxSpec, hf]
        rw [this]
        have e := subx_feed_cons f comb s' rest y ys hf
        refine Drain.cons (x := comb s' y) (by rw [e]) ?_
        rw [e]; exact ih.2 s' ys
    refine ⟨d0, ?_⟩
    intro s p
    induction p with
    | nil => exact drain_congr (subx_pend_nil f comb (s' :: rest) s) d0
    | cons y ys ihp =>
      have e := subx_pend_cons f comb (s' :: rest) s y ys
      refine Drain.cons (x := comb s y) (by rw [e]) ?_
      rw [e]; exact ihp

/-- **op_subx**: for each input, one result per result of the body, built from THAT input -/
theorem subx_refines (f : α → List β) (comb : α → β → γ) (ups : List α) :
    Drain (subxStep f comb) (ups, none, Body.fresh) (subxSpec f comb ups) ([], none, Body.fresh) :=
  (subx_refines_aux f comb ups).1

theorem subx_only_behaviour (f : α → List β) (comb : α → β → γ) (ups : List α) (out : List γ) (st' : SubxSt α β)
    (h : Drain (subxStep f comb) (ups, none, Body.fresh) out st') : out = subxSpec f comb ups :=
  (drain_det _ _ _ _ h _ _ (subx_refines f comb ups)).1

/-! ### op_ifelse -/

def ifSpec (c t e : α → List β) (ups : List α) : List β :=
  ups.flatMap fun s => if (c s).isEmpty then e s else t s

theorem cond_isSome (c : α → List β) (s : α) :
    (Body.next c ((Body.fresh : Body α β).setNext s)).1.isSome = !(c s).isEmpty := by
  cases h : c s <;> simp [Body.next, Body.setNext, Body.fresh, h]

theorem if_feed (c t e : α → List β) (s : α) (rest : List α) :
    ifStep c t e (s :: rest, none) = ifStep c t e (rest, some (!(c s).isEmpty, ⟨some s, []⟩)) := by
  simp only [ifStep]
  rw [ifNext]
  simp only [cond_isSome]
  rfl

theorem if_run_pend (c t e : α → List β) (up : List α) (w : Bool) (o : Option α) (y : β) (ys : List β) :
    ifStep c t e (up, some (w, ⟨o, y :: ys⟩)) = (some y, (up, some (w, ⟨o, ys⟩))) := by
  simp only [ifStep]
  rw [ifNext]
  simp [Body.next]

theorem if_run_dry (c t e : α → List β) (up : List α) (w : Bool) :
    ifStep c t e (up, some (w, ⟨none, []⟩)) = ifStep c t e (up, none) := by
  simp only [ifStep]
  rw [ifNext]
  simp [Body.next]

theorem if_run_start (c t e : α → List β) (up : List α) (w : Bool) (s : α) :
    ifStep c t e (up, some (w, ⟨some s, []⟩)) =
      (match (if w then t else e) s with
       | y :: ys => (some y, (up, some (w, ⟨none, ys⟩)))
       | [] => ifStep c t e (up, none)) := by
  simp only [ifStep]
  rw [ifNext]
  cases h : (if w then t else e) s <;> simp [Body.next, h]

theorem if_refines_aux (c t e : α → List β) (ups : List α) :
    Drain (ifStep c t e) (ups, none) (ifSpec c t e ups) ([], none) ∧
    ∀ (w : Bool) (p : List β), Drain (ifStep c t e) (ups, some (w, ⟨none, p⟩)) (p ++ ifSpec c t e ups) ([], none) := by
  induction ups with
  | nil =>
    have d0 : Drain (ifStep c t e) (([] : List α), (none : Option (Bool × Body α β))) [] ([], none) := by
      have e0 : ifStep c t e (([] : List α), (none : Option (Bool × Body α β))) = (none, ([], none)) := by
        simp only [ifStep]; rw [ifNext]
      have := Drain.nil (next := ifStep c t e) (st := (([] : List α), (none : Option (Bool × Body α β)))) (by rw [e0])
      rw [e0] at this; exact this
    refine ⟨d0, ?_⟩
    intro w p
    induction p with
    | nil => exact drain_congr (if_run_dry c t e [] w) d0
    | cons y ys ih =>
      have e0 := if_run_pend c t e [] w none y ys
      refine Drain.cons (x := y) (by rw [e0]) ?_
      rw [e0]; exact ih
  | cons s rest ih =>
    have d0 : Drain (ifStep c t e) (s :: rest, none) (ifSpec c t e (s :: rest)) ([], none) := by
      apply drain_congr (if_feed c t e s rest)
      have hs : ifSpec c t e (s :: rest) = (if (!(c s).isEmpty) = true then t else e) s ++ ifSpec c t e rest := by
        cases hc : (c s).isEmpty <;> simp only [ifSpec, List.flatMap_cons, hc] <;> simp
      rw [hs]
      have st := if_run_start c t e rest (!(c s).isEmpty) s
      cases hb : (if (!(c s).isEmpty) = true then t else e) s with
      | nil =>
        rw [hb] at st
        simp only [List.nil_append]
        exact drain_congr st ih.1
      | cons y ys =>
        rw [hb] at st
        refine Drain.cons (x := y) (by rw [st]) ?_
        rw [st]; exact ih.2 _ ys
    refine ⟨d0, ?_⟩
    intro w p
    induction p with
    | nil => exact drain_congr (if_run_dry c t e (s :: rest) w) d0
    | cons y ys ihp =>
      have e0 := if_run_pend c t e (s :: rest) w none y ys
      refine Drain.cons (x := y) (by rw [e0]) ?_
      rw [e0]; exact ihp

/-- **op_ifelse**: each input goes to exactly one branch, chosen by whether the condition yields anything
    for THAT input; what the condition would yield beyond its first result is never seen -/
theorem ifelse_refines (c t e : α → List β) (ups : List α) :
    Drain (ifStep c t e) (ups, none) (ifSpec c t e ups) ([], none) := (if_refines_aux c t e ups).1

theorem ifelse_only_behaviour (c t e : α → List β) (ups : List α) (out : List β) (st' : IfSt α β)
    (h : Drain (ifStep c t e) (ups, none) out st') : out = ifSpec c t e ups :=
  (drain_det _ _ _ _ h _ _ (ifelse_refines c t e ups)).1

/-! ### op_assert with pred_subx_any -/

theorem subxAny_iff (c : α → List β) (s : α) : subxAny c s = !(c s).isEmpty := cond_isSome c s

/-- **op_assert**: the inputs the predicate holds on, in order, each once, unchanged -/
theorem assert_refines (p : α → Bool) (ups : List α) : Drain (assertNext p) ups (ups.filter p) [] := by
  induction ups with
  | nil => exact Drain.nil (st := ([] : List α)) rfl
  | cons s rest ih =>
    by_cases h : p s
    · have e : assertNext p (s :: rest) = (some s, rest) := by simp [assertNext, h]
      simp only [List.filter, h]
      refine Drain.cons (x := s) (by rw [e]) ?_
      rw [e]; exact ih
    · have e : assertNext p (s :: rest) = assertNext p rest := by simp [assertNext, h]
      simp only [List.filter, h]
      exact drain_congr e ih

theorem assert_only_behaviour (p : α → Bool) (ups out : List α) (st' : List α)
    (h : Drain (assertNext p) ups out st') : out = ups.filter p :=
  (drain_det _ _ _ _ h _ _ (assert_refines p ups)).1

/-- `?(E)`: the inputs `E` yields anything for -/
theorem assert_subx_any (c : α → List β) (ups : List α) :
    Drain (assertNext (subxAny c)) ups (ups.filter fun s => !(c s).isEmpty) [] := by
  have := assert_refines (subxAny c) ups
  have e : ups.filter (subxAny c) = ups.filter (fun s => !(c s).isEmpty) := by
    congr 1; exact funext (subxAny_iff c)
  rw [e] at this; exact this

/-! ### non-vacuity: concrete runs -/

example : subxSpec (fun n : Nat => List.range n) (fun a b => (a, b)) [2, 0, 1] = [(2, 0), (2, 1), (1, 0)] := by decide
example : ifSpec (fun n : Nat => List.range n) (fun n => [n, n]) (fun _ => [7]) [2, 0] = [2, 2, 7] := by decide
example : capSpec (fun n : Nat => List.range n) (fun a vs => (a, vs)) [2, 0] = [(2, [0, 1]), (0, [])] := by decide

end ZwVerif.SubOps
