import ZwVerif.Model.Merge
set_option linter.unusedSimpArgs false
set_option linter.unusedVariables false
/-!
# C01 (mechanism) — the op_merge / op_tine machine computes the ALT rule

`merge_refines`: draining the machine in front of ANY upstream, with ANY number of branches
(≥ 1) yielding ANY number of results each (none included), produces exactly `spec`: the
upstream stacks in order, each through all branches round the table, the branch that served
last pulling the next stack and serving it first — and leaves the machine in a state that is
again a fresh one (`Boundary 0 []`), so the same holds for the next drain (the F1 repair:
without the reset the second drain yields nothing).
-/
namespace ZwVerif.Merge
variable {α : Type}

/-! ### arithmetic round the table -/

theorem table_distinct (n k t1 t2 : Nat) (h1 : t1 < t2) (h2 : t2 < n) : (k + t1) % n ≠ (k + t2) % n := by
  intro h
  have h3 : (k + t2 - (k + t1)) % n = 0 := Nat.sub_mod_eq_zero_of_mod_eq h.symm
  have h4 : k + t2 - (k + t1) = t2 - t1 := by omega
  rw [h4, Nat.mod_eq_of_lt (by omega)] at h3
  omega

theorem table_surj (n k i : Nat) (hi : i < n) : ∃ t, t < n ∧ (k + t) % n = i := by
  refine ⟨(i + n - k % n) % n, Nat.mod_lt _ (by omega), ?_⟩
  have hk : k % n < n := Nat.mod_lt _ (by omega)
  have : k % n + (i + n - k % n) = i + n := by omega
  rw [Nat.add_mod_mod, ← Nat.mod_add_mod, this, Nat.add_mod_right, Nat.mod_eq_of_lt hi]

theorem table_next (n a : Nat) : (a % n + 1) % n = (a + 1) % n := Nat.mod_add_mod a n 1

/-! ### invariants -/

/-- between two upstream stacks: every copy taken, nothing pending, branch `k` pulls next -/
structure Boundary (c : Cfg α) (k : Nat) (up : List α) (st : St α) : Prop where
  hup : st.up = up
  hfile : AllNone c.n st.file
  hidx : st.idx = k
  hdone : st.done = false
  hpend : ∀ i, st.pend i = []

/-- inside the round of stack `s` that started at branch `k`: `m` branches are through, branch
    `(k+m) % n` is being served and has `p` still to yield -/
structure InRound (c : Cfg α) (k m : Nat) (p : List α) (s : α) (rest : List α) (st : St α) : Prop where
  hup : st.up = rest
  hidx : st.idx = (k + m) % c.n
  hdone : st.done = false
  hp : st.pend ((k + m) % c.n) = p
  hpend : ∀ j, j ≠ (k + m) % c.n → st.pend j = []
  hnone : ∀ t, t ≤ m → st.file ((k + t) % c.n) = none
  hsome : ∀ t, m < t → t < c.n → st.file ((k + t) % c.n) = some s

theorem init_boundary (c : Cfg α) (up : List α) : Boundary c 0 up (init up) :=
  ⟨rfl, fun _ _ => rfl, rfl, rfl, fun _ => rfl⟩

/-! ### a pull seen from outside: the merge goes on as if the branch already had its results -/

theorem tine_keeps_done (c : Cfg α) (i : Nat) (st st1 : St α) (r : Option α) (h : Tine c i st r st1) (hr : r ≠ none) :
    st1.done = st.done := by
  cases h with
  | isDone _ => rfl
  | fill _ _ _ => rfl
  | dry _ _ _ => exact absurd rfl hr
  | take _ _ => rfl

theorem merge_of_pull (c : Cfg α) (st st1 st'' : St α) (s : α) (r : Option α)
    (hp : st.pend st.idx = []) (ht : Tine c st.idx st (some s) st1)
    (hi : st1.idx = st.idx) (hd : st.done = false)
    (h : Merge c { st1 with pend := upd st1.pend st.idx (c.fs st.idx s) } r st'') : Merge c st r st'' := by
  have hd1 : st1.done = false := by rw [tine_keeps_done c _ _ _ _ ht (by simp)]; exact hd
  generalize hst3 : ({ st1 with pend := upd st1.pend st.idx (c.fs st.idx s) } : St α) = st3 at h
  have hidx3 : st3.idx = st.idx := by rw [← hst3]; exact hi
  have hdone3 : st3.done = false := by rw [← hst3]; exact hd1
  cases h with
  | wasDone hd3 => rw [hdone3] at hd3; cases hd3
  | got hd3 hb =>
    rw [hidx3] at hb
    exact Merge.got hd (Branch.pull hp ht (hst3 ▸ hb))
  | advance hd3 hb hd' hm =>
    rw [hidx3] at hb hm
    exact Merge.advance hd (Branch.pull hp ht (hst3 ▸ hb)) hd' hm
  | drained hd3 hb hd' =>
    rw [hidx3] at hb
    exact Merge.drained hd (Branch.pull hp ht (hst3 ▸ hb)) hd'

theorem drain_of_merge (c : Cfg α) (st st3 : St α)
    (h : ∀ r st'', Merge c st3 r st'' → Merge c st r st'') (out : List α) (st'' : St α)
    (hd : Drain c st3 out st'') : Drain c st out st'' := by
  cases hd with
  | nil hm => exact Drain.nil (h _ _ hm)
  | cons hm hrest => exact Drain.cons (h _ _ hm) hrest

/-! ### one round -/

theorem inround_drain (c : Cfg α) (hn : 0 < c.n) (k : Nat) (s : α) (rest : List α)
    (ih : ∀ st, Boundary c ((k + c.n - 1) % c.n) rest st →
      ∃ st', Drain c st (spec c ((k + c.n - 1) % c.n) rest) st' ∧ Boundary c 0 [] st') :
    ∀ (d m : Nat) (p : List α) (st : St α), d + m + 1 = c.n → InRound c k m p s rest st →
      ∃ st', Drain c st (p ++ round c (k + m + 1) s d ++ spec c ((k + c.n - 1) % c.n) rest) st' ∧ Boundary c 0 [] st' := by
  intro d
  induction d with
  | zero =>
    intro m p
    induction p with
    | nil =>
      intro st hdm hr
      -- the last branch of the round is through: this is the boundary before `rest`
      have hb : Boundary c ((k + c.n - 1) % c.n) rest st := by
        refine ⟨hr.hup, ?_, ?_, hr.hdone, ?_⟩
        · intro i hi
          obtain ⟨t, ht, he⟩ := table_surj c.n k i hi
          rw [← he]; exact hr.hnone t (by omega)
        · rw [hr.hidx]; congr 1; omega
        · intro i
          by_cases h : i = (k + m) % c.n
          · rw [h]; exact hr.hp
          · exact hr.hpend i h
      simpa [round] using ih st hb
    | cons x xs ihp =>
      intro st hdm hr
      have hstep : Merge c st (some x) { st with pend := upd st.pend st.idx xs } :=
        Merge.got hr.hdone (Branch.yield (c := c) (i := st.idx) (st := st) (x := x) (xs := xs) (by rw [hr.hidx]; exact hr.hp))
      have hr' : InRound c k m xs s rest { st with pend := upd st.pend st.idx xs } := by
        refine ⟨hr.hup, hr.hidx, hr.hdone, ?_, ?_, hr.hnone, hr.hsome⟩
        · show upd st.pend st.idx xs ((k + m) % c.n) = xs
          rw [hr.hidx]; simp
        · intro j hj
          show upd st.pend st.idx xs j = []
          rw [hr.hidx, upd_other _ _ _ _ hj]; exact hr.hpend j hj
      obtain ⟨st', hd, hb⟩ := ihp _ hdm hr'
      exact ⟨st', by simpa using Drain.cons hstep hd, hb⟩
  | succ d ihd =>
    intro m p
    induction p with
    | nil =>
      intro st hdm hr
      -- branch i = (k+m) % n is dry; the tine has nothing more for it (its copy is gone, others remain)
      let i := (k + m) % c.n
      let i' := (k + (m + 1)) % c.n
      have hi'lt : i' < c.n := Nat.mod_lt _ hn
      have hne : i' ≠ i := fun h => table_distinct c.n k m (m + 1) (by omega) (by omega) h.symm
      have hnot : ¬ AllNone c.n st.file := by
        intro ha
        have := ha i' hi'lt
        rw [hr.hsome (m + 1) (by omega) (by omega)] at this
        simp at this
      let st1 : St α := { st with file := upd st.file i none }
      have ht1 : Tine c i st none st1 := by
        have := Tine.take (c := c) (i := i) hr.hdone hnot
        rw [hr.hnone m (Nat.le_refl _)] at this; exact this
      have hb1 : Branch c st.idx st none st1 := by
        rw [hr.hidx]; exact Branch.dry hr.hp ht1
      -- round again with the next branch, which finds its copy
      let st2 : St α := { st1 with idx := (st.idx + 1) % c.n }
      have hidx2 : st2.idx = i' := by
        show (st.idx + 1) % c.n = (k + (m + 1)) % c.n
        rw [hr.hidx, table_next]; congr 1
      have hfile2 : st2.file i' = some s := by
        show upd st.file i none i' = some s
        rw [upd_other _ _ _ _ hne]; exact hr.hsome (m + 1) (by omega) (by omega)
      have hnot2 : ¬ AllNone c.n st2.file := by
        intro ha; have := ha i' hi'lt; rw [hfile2] at this; simp at this
      let st2' : St α := { st2 with file := upd st2.file i' none }
      have ht2 : Tine c st2.idx st2 (some s) st2' := by
        have := Tine.take (c := c) (i := i') (st := st2) hr.hdone hnot2
        rw [hfile2] at this; rw [hidx2]; exact this
      have hpend2 : st2.pend st2.idx = [] := by
        rw [hidx2]; show st.pend i' = []; exact hr.hpend i' hne
      let st3 : St α := { st2' with pend := upd st2'.pend st2.idx (c.fs st2.idx s) }
      have hr3 : InRound c k (m + 1) (c.fs i' s) s rest st3 := by
        refine ⟨hr.hup, hidx2, hr.hdone, ?_, ?_, ?_, ?_⟩
        · show upd st.pend st2.idx (c.fs st2.idx s) i' = c.fs i' s
          rw [hidx2]; simp
        · intro j hj
          show upd st.pend st2.idx (c.fs st2.idx s) j = []
          rw [hidx2, upd_other _ _ _ _ hj]
          by_cases h : j = i
          · rw [h]; exact hr.hp
          · exact hr.hpend j h
        · intro t ht
          show upd (upd st.file i none) i' none ((k + t) % c.n) = none
          by_cases h1 : (k + t) % c.n = i'
          · rw [h1]; simp
          · rw [upd_other _ _ _ _ h1]
            by_cases h2 : (k + t) % c.n = i
            · rw [h2]; simp
            · rw [upd_other _ _ _ _ h2]
              apply hr.hnone t
              by_cases h3 : t = m + 1
              · exact absurd (by rw [h3]) h1
              · omega
        · intro t ht1 ht2
          show upd (upd st.file i none) i' none ((k + t) % c.n) = some s
          have h1 : (k + t) % c.n ≠ i' := fun h => table_distinct c.n k (m + 1) t ht1 ht2 h.symm
          have h2 : (k + t) % c.n ≠ i := fun h => table_distinct c.n k m t (by omega) ht2 h.symm
          rw [upd_other _ _ _ _ h1, upd_other _ _ _ _ h2]
          exact hr.hsome t (by omega) ht2
      obtain ⟨st', hd, hb⟩ := ihd (m + 1) (c.fs i' s) st3 (by omega) hr3
      refine ⟨st', ?_, hb⟩
      have hlift : ∀ r st'', Merge c st3 r st'' → Merge c st r st'' := by
        intro r st'' hm
        have hm2 : Merge c st2 r st'' := merge_of_pull c st2 st2' st'' s r hpend2 ht2 rfl hr.hdone hm
        exact Merge.advance hr.hdone hb1 hr.hdone hm2
      have hd' := drain_of_merge c st st3 hlift _ _ hd
      have hround : round c (k + m + 1) s (d + 1) = c.fs i' s ++ round c (k + (m + 1) + 1) s d := by
        simp only [round]; rfl
      rw [hround]
      simpa [List.append_assoc] using hd'
    | cons x xs ihp =>
      intro st hdm hr
      have hstep : Merge c st (some x) { st with pend := upd st.pend st.idx xs } :=
        Merge.got hr.hdone (Branch.yield (c := c) (i := st.idx) (st := st) (x := x) (xs := xs) (by rw [hr.hidx]; exact hr.hp))
      have hr' : InRound c k m xs s rest { st with pend := upd st.pend st.idx xs } := by
        refine ⟨hr.hup, hr.hidx, hr.hdone, ?_, ?_, hr.hnone, hr.hsome⟩
        · show upd st.pend st.idx xs ((k + m) % c.n) = xs
          rw [hr.hidx]; simp
        · intro j hj
          show upd st.pend st.idx xs j = []
          rw [hr.hidx, upd_other _ _ _ _ hj]; exact hr.hpend j hj
      obtain ⟨st', hd, hb⟩ := ihp _ hdm hr'
      exact ⟨st', by simpa using Drain.cons hstep hd, hb⟩

/-! ### the whole stream -/

theorem boundary_drain (c : Cfg α) (hn : 0 < c.n) (up : List α) :
    ∀ (k : Nat) (st : St α), k < c.n → Boundary c k up st →
      ∃ st', Drain c st (spec c k up) st' ∧ Boundary c 0 [] st' := by
  induction up with
  | nil =>
    intro k st hk hb
    -- the branch in turn finds everything taken and the upstream dry
    have ht : Tine c st.idx st none { st with done := true } := Tine.dry hb.hdone hb.hfile hb.hup
    have hbr : Branch c st.idx st none { st with done := true } := Branch.dry (hb.hpend _) ht
    refine ⟨_, Drain.nil (Merge.drained hb.hdone hbr rfl), ?_⟩
    exact ⟨hb.hup, hb.hfile, rfl, rfl, hb.hpend⟩
  | cons s rest ih =>
    intro k st hk hb
    -- branch k pulls: every branch gets its copy of s
    let st1 : St α := { st with up := rest, file := upd (fun _ => some s) k none }
    have ht : Tine c st.idx st (some s) st1 := by
      rw [hb.hidx]; exact Tine.fill hb.hdone hb.hfile hb.hup
    let st3 : St α := { st1 with pend := upd st1.pend st.idx (c.fs st.idx s) }
    have hk0 : (k + 0) % c.n = k := by simp [Nat.mod_eq_of_lt hk]
    have hr3 : InRound c k 0 (c.fs k s) s rest st3 := by
      refine ⟨rfl, by rw [hk0]; exact hb.hidx, hb.hdone, ?_, ?_, ?_, ?_⟩
      · show upd st.pend st.idx (c.fs st.idx s) ((k + 0) % c.n) = c.fs k s
        rw [hk0, hb.hidx]; simp
      · intro j hj
        show upd st.pend st.idx (c.fs st.idx s) j = []
        rw [hk0] at hj
        rw [hb.hidx, upd_other _ _ _ _ hj]; exact hb.hpend j
      · intro t ht0
        have : t = 0 := by omega
        subst this
        show upd (fun _ => some s) k none ((k + 0) % c.n) = none
        rw [hk0]; simp
      · intro t ht1 ht2
        show upd (fun _ => some s) k none ((k + t) % c.n) = some s
        have h1 : (k + t) % c.n ≠ k := by
          have := table_distinct c.n k 0 t ht1 ht2
          rw [hk0] at this; exact fun h => this h.symm
        rw [upd_other _ _ _ _ h1]
    have ihb : ∀ st, Boundary c ((k + c.n - 1) % c.n) rest st →
        ∃ st', Drain c st (spec c ((k + c.n - 1) % c.n) rest) st' ∧ Boundary c 0 [] st' :=
      fun st hb' => ih _ st (Nat.mod_lt _ hn) hb'
    obtain ⟨st', hd, hbd⟩ := inround_drain c hn k s rest ihb (c.n - 1) 0 (c.fs k s) st3 (by omega) hr3
    refine ⟨st', ?_, hbd⟩
    have hlift : ∀ r st'', Merge c st3 r st'' → Merge c st r st'' :=
      fun r st'' hm => merge_of_pull c st st1 st'' s r (hb.hpend _) ht rfl hb.hdone hm
    have hd' := drain_of_merge c st st3 hlift _ _ hd
    have hspec : spec c k (s :: rest) = c.fs k s ++ round c (k + 0 + 1) s (c.n - 1) ++ spec c ((k + c.n - 1) % c.n) rest := by
      have hn1 : c.n = (c.n - 1) + 1 := by omega
      simp only [spec]
      conv => lhs; rw [hn1]
      simp only [round, Nat.mod_eq_of_lt hk]
      have : c.n - 1 + 1 = c.n := by omega
      simp [this, List.append_assoc]
    rw [hspec]; exact hd'

/-- **the machine computes the ALT rule, for every upstream, every number of branches and every
    branch behaviour, and ends fresh** -/
theorem merge_refines (c : Cfg α) (hn : 0 < c.n) (up : List α) :
    ∃ st', Drain c (init up) (spec c 0 up) st' ∧ Boundary c 0 [] st' :=
  boundary_drain c hn up 0 (init up) hn (init_boundary c up)

/-- … and therefore also the second time it is drained (the F1 repair): from the state a drain
    leaves behind, with the upstream fed again, the same holds -/
theorem merge_reusable (c : Cfg α) (hn : 0 < c.n) (up2 : List α) (st : St α) (hb : Boundary c 0 [] st) :
    ∃ st', Drain c { st with up := up2 } (spec c 0 up2) st' ∧ Boundary c 0 [] st' :=
  boundary_drain c hn up2 0 _ hn ⟨rfl, hb.hfile, hb.hidx, hb.hdone, hb.hpend⟩

/-! ### the pull relations are functions: the machine has one behaviour -/

theorem tine_det (c : Cfg α) (i : Nat) (st : St α) (r1 r2 : Option α) (s1 s2 : St α)
    (h1 : Tine c i st r1 s1) (h2 : Tine c i st r2 s2) : r1 = r2 ∧ s1 = s2 := by
  cases h1 with
  | isDone hd => cases h2 with
    | isDone _ => exact ⟨rfl, rfl⟩
    | fill h _ _ => simp [hd] at h
    | dry h _ _ => simp [hd] at h
    | take h _ => simp [hd] at h
  | fill hd ha hu => cases h2 with
    | isDone h => simp [hd] at h
    | fill _ _ hu2 => rw [hu] at hu2; cases hu2; exact ⟨rfl, rfl⟩
    | dry _ _ hu2 => rw [hu] at hu2; cases hu2
    | take _ hna => exact absurd ha hna
  | dry hd ha hu => cases h2 with
    | isDone h => simp [hd] at h
    | fill _ _ hu2 => rw [hu] at hu2; cases hu2
    | dry _ _ _ => exact ⟨rfl, rfl⟩
    | take _ hna => exact absurd ha hna
  | take hd hna => cases h2 with
    | isDone h => simp [hd] at h
    | fill _ ha _ => exact absurd ha hna
    | dry _ ha _ => exact absurd ha hna
    | take _ _ => exact ⟨rfl, rfl⟩

theorem branch_det (c : Cfg α) (i : Nat) (st : St α) (r1 : Option α) (s1 : St α) (h1 : Branch c i st r1 s1) :
    ∀ (r2 : Option α) (s2 : St α), Branch c i st r2 s2 → r1 = r2 ∧ s1 = s2 := by
  induction h1 with
  | yield hp =>
    intro r2 s2 h2
    cases h2 with
    | yield hp2 => rw [hp] at hp2; cases hp2; exact ⟨rfl, rfl⟩
    | dry hp2 _ => rw [hp] at hp2; cases hp2
    | pull hp2 _ _ => rw [hp] at hp2; cases hp2
  | dry hp ht =>
    intro r2 s2 h2
    cases h2 with
    | yield hp2 => rw [hp] at hp2; cases hp2
    | dry _ ht2 => exact ⟨rfl, (tine_det c i _ _ _ _ _ ht ht2).2⟩
    | pull _ ht2 _ => have := (tine_det c i _ _ _ _ _ ht ht2).1; cases this
  | pull hp ht hb ih =>
    intro r2 s2 h2
    cases h2 with
    | yield hp2 => rw [hp] at hp2; cases hp2
    | dry _ ht2 => have := (tine_det c i _ _ _ _ _ ht ht2).1; cases this
    | pull _ ht2 hb2 =>
      obtain ⟨he, hs⟩ := tine_det c i _ _ _ _ _ ht ht2
      cases he; subst hs
      exact ih _ _ hb2

theorem merge_det (c : Cfg α) (st : St α) (r1 : Option α) (s1 : St α) (h1 : Merge c st r1 s1) :
    ∀ (r2 : Option α) (s2 : St α), Merge c st r2 s2 → r1 = r2 ∧ s1 = s2 := by
  induction h1 with
  | wasDone hd =>
    intro r2 s2 h2
    cases h2 with
    | wasDone _ => exact ⟨rfl, rfl⟩
    | got h _ => simp [hd] at h
    | advance h _ _ _ => simp [hd] at h
    | drained h _ _ => simp [hd] at h
  | got hd hb =>
    intro r2 s2 h2
    cases h2 with
    | wasDone h => simp [hd] at h
    | got _ hb2 => obtain ⟨he, hs⟩ := branch_det c _ _ _ _ hb _ _ hb2; cases he; exact ⟨rfl, hs⟩
    | advance _ hb2 _ _ => have := (branch_det c _ _ _ _ hb _ _ hb2).1; cases this
    | drained _ hb2 _ => have := (branch_det c _ _ _ _ hb _ _ hb2).1; cases this
  | advance hd hb hd' hm ih =>
    intro r2 s2 h2
    cases h2 with
    | wasDone h => simp [hd] at h
    | got _ hb2 => have := (branch_det c _ _ _ _ hb _ _ hb2).1; cases this
    | advance _ hb2 _ hm2 =>
      have hs := (branch_det c _ _ _ _ hb _ _ hb2).2
      subst hs
      exact ih _ _ hm2
    | drained _ hb2 hd2 =>
      have hs := (branch_det c _ _ _ _ hb _ _ hb2).2
      subst hs
      simp [hd'] at hd2
  | drained hd hb hd' =>
    intro r2 s2 h2
    cases h2 with
    | wasDone h => simp [hd] at h
    | got _ hb2 => have := (branch_det c _ _ _ _ hb _ _ hb2).1; cases this
    | advance _ hb2 hd2 _ =>
      have hs := (branch_det c _ _ _ _ hb _ _ hb2).2
      subst hs
      simp [hd'] at hd2
    | drained _ hb2 _ =>
      have hs := (branch_det c _ _ _ _ hb _ _ hb2).2
      subst hs
      exact ⟨rfl, rfl⟩

/-- whatever a drain yields, it is `spec`: the machine has no other behaviour -/
theorem drain_det (c : Cfg α) (st : St α) (o1 : List α) (s1 : St α) (h1 : Drain c st o1 s1) :
    ∀ (o2 : List α) (s2 : St α), Drain c st o2 s2 → o1 = o2 ∧ s1 = s2 := by
  induction h1 with
  | nil hm =>
    intro o2 s2 h2
    cases h2 with
    | nil hm2 => exact ⟨rfl, (merge_det c _ _ _ hm _ _ hm2).2⟩
    | cons hm2 _ => have := (merge_det c _ _ _ hm _ _ hm2).1; cases this
  | cons hm hd ih =>
    intro o2 s2 h2
    cases h2 with
    | nil hm2 => have := (merge_det c _ _ _ hm _ _ hm2).1; cases this
    | cons hm2 hd2 =>
      obtain ⟨he, hs⟩ := merge_det c _ _ _ hm _ _ hm2
      cases he; subst hs
      obtain ⟨ho, hs2⟩ := ih _ _ hd2
      exact ⟨by rw [ho], hs2⟩

theorem merge_only_behaviour (c : Cfg α) (hn : 0 < c.n) (up out : List α) (st' : St α)
    (h : Drain c (init up) out st') : out = spec c 0 up := by
  obtain ⟨st2, hd, _⟩ := merge_refines c hn up
  exact (drain_det c _ _ _ h _ _ hd).1

/-! ### `spec` is the documented order -/

/-- a single upstream stack is served by the branches left to right -/
theorem spec_single (c : Cfg α) (s : α) : spec c 0 [s] = round c 0 s c.n := by simp [spec]

theorem round_two (c : Cfg α) (h : c.n = 2) (s : α) : round c 0 s c.n = c.fs 0 s ++ c.fs 1 s := by
  rw [h]; simp [round, h]

/-- the first branch served for the j-th stack is `(n − j mod n) mod n` (what Sem.rot says) -/
def firstBranch (n : Nat) : Nat → Nat
  | 0 => 0
  | j + 1 => (firstBranch n j + n - 1) % n

theorem firstBranch_eq (n j : Nat) (hn : 0 < n) : firstBranch n j = (n - j % n) % n := by
  induction j with
  | zero => simp [firstBranch]
  | succ j ih =>
    simp only [firstBranch, ih]
    by_cases hn1 : n = 1
    · subst hn1; simp [Nat.mod_one]
    · have h1 : j % n < n := Nat.mod_lt _ hn
      have hs : (j + 1) % n = (j % n + 1) % n := by rw [Nat.add_mod, Nat.mod_eq_of_lt (by omega : 1 < n)]
      rw [hs]
      generalize j % n = a at h1
      by_cases h0 : a = 0
      · subst h0
        rw [Nat.sub_zero, Nat.mod_self, Nat.zero_add, Nat.zero_add, Nat.mod_eq_of_lt (by omega : 1 < n)]
      · rw [Nat.mod_eq_of_lt (by omega : n - a < n)]
        by_cases hw : a + 1 = n
        · rw [hw, Nat.mod_self, Nat.sub_zero, Nat.mod_self]
          have : n - a + n - 1 = n := by omega
          rw [this, Nat.mod_self]
        · rw [Nat.mod_eq_of_lt (by omega : a + 1 < n)]
          have : n - a + n - 1 = (n - (a + 1)) + n := by omega
          rw [this, Nat.add_mod_right]

/-- the stream, input by input: the j-th upstream stack goes round the table starting at
    `firstBranch n j` -/
theorem spec_by_index (c : Cfg α) (up : List α) (j0 : Nat) :
    spec c (firstBranch c.n j0) up = (up.zipIdx j0).flatMap fun (s, j) => round c (firstBranch c.n j) s c.n := by
  induction up generalizing j0 with
  | nil => simp [spec]
  | cons s rest ih =>
    simp only [spec, List.zipIdx_cons, List.flatMap_cons]
    congr 1
    exact ih (j0 + 1)

/-- non-vacuity: three branches, the middle one yields nothing, two inputs -/
example :
    let c : Cfg Nat := ⟨3, fun i s => if i = 1 then [] else [10 * s + i]⟩
    spec c 0 [1, 2] = [10, 12, 22, 20] := by decide

end ZwVerif.Merge
