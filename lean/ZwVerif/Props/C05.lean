import ZwVerif.Props.C02
set_option linter.unusedSimpArgs false
set_option linter.unusedVariables false
/-!
# C05 — navigation words agree on every DIE

Over the forest model: the parent table built by one walk of a unit (cache.cc)
answers `parent` correctly for every DIE — every child's recorded parent is the
DIE it is a child of, and the binary search finds exactly that record — provided
offsets increase in section order (they do: it is the order of the bytes).  Cooked
children carry the chain of imports they were reached through, and `parent` of a
cooked DIE keeps that chain (the F6 repair), so `root` is the end of the `parent`
chain.
-/
namespace ZwVerif.C05
open ZwVerif.Dwarf ZwVerif.C02

/-- offsets strictly increase along the section (a decidable well-formedness condition every
    real file satisfies: it is the byte order) -/
def OffsetsIncreasing (d : Die) : Prop := ((preorder d).map Die.off).Pairwise (· < ·)

mutual
theorem root_entry (par : Option Nat) (d : Die) : (d.off, par) ∈ parentTable par d := by
  match d with
  | .mk o t h a cs => simp [parentTable, Die.off]
theorem child_entry_list (par : Option Nat) (cs : List Die) (c : Die) (hc : c ∈ cs) :
    (c.off, par) ∈ parentTableList par cs := by
  match cs with
  | [] => simp at hc
  | x :: xs =>
    simp only [parentTableList, List.mem_append]
    simp at hc
    rcases hc with rfl | hc
    · exact Or.inl (root_entry par c)
    · exact Or.inr (child_entry_list par xs c hc)
end

/-- the table records, for every child, the DIE it is a child of -/
theorem child_entry (par : Option Nat) (d c : Die) (hc : c ∈ d.children) :
    (c.off, some d.off) ∈ parentTable par d := by
  obtain ⟨o, t, h, a, cs⟩ := d
  simp only [parentTable, Die.off, List.mem_cons]
  right
  exact child_entry_list (some o) cs c hc

/-- binary search on keys that strictly increase finds the record of a key that is present -/
theorem lowerBound_finds (tab : List (Nat × Option Nat)) (k : Nat) (v : Option Nat)
    (hs : (tab.map (·.1)).Pairwise (· < ·)) (hm : (k, v) ∈ tab) :
    lowerBound tab k = some (k, v) := by
  unfold lowerBound
  induction tab with
  | nil => simp at hm
  | cons e es ih =>
    simp only [List.map_cons, List.pairwise_cons] at hs
    obtain ⟨hlt, hs'⟩ := hs
    simp only [List.mem_cons] at hm
    rcases hm with rfl | hm
    · simp [List.find?]
    · have hk : e.1 < k := hlt k (List.mem_map.mpr ⟨(k, v), hm, rfl⟩)
      have : ¬ (k ≤ e.1) := by omega
      simp [List.find?, this]
      exact ih hs' hm

mutual
theorem child_entry_deep (par : Option Nat) (r d c : Die) (hd : d ∈ preorder r) (hc : c ∈ d.children) :
    (c.off, some d.off) ∈ parentTable par r := by
  match r with
  | .mk o t h a cs =>
    simp only [preorder, List.mem_cons] at hd
    rcases hd with rfl | hd
    · exact child_entry par _ c hc
    · simp only [parentTable, List.mem_cons]
      right
      exact child_entry_deep_list (some o) cs d c hd hc
theorem child_entry_deep_list (par : Option Nat) (rs : List Die) (d c : Die) (hd : d ∈ preorderList rs)
    (hc : c ∈ d.children) : (c.off, some d.off) ∈ parentTableList par rs := by
  match rs with
  | [] => simp [preorderList] at hd
  | x :: xs =>
    simp only [preorderList, List.mem_append] at hd
    simp only [parentTableList, List.mem_append]
    rcases hd with hd | hd
    · exact Or.inl (child_entry_deep par x d c hd hc)
    · exact Or.inr (child_entry_deep_list par xs d c hd hc)
end

/-- **every DIE yielded by `child` of D has D as `parent`** (raw view), for every DIE D of every
    unit: the parent table of the unit, searched the way cache.cc searches it, returns D for
    each child of D -/
theorem child_parent (u : DUnit) (d c : Die) (hinc : OffsetsIncreasing u.root)
    (hd : d ∈ preorder u.root) (hc : c ∈ d.children) :
    findParent u c.off = some (some d.off) := by
  unfold findParent
  have hs : ((parentTable none u.root).map (·.1)).Pairwise (· < ·) := by
    rw [parentTable_offsets]; exact hinc
  rw [lowerBound_finds _ _ _ hs (child_entry_deep none u.root d c hd hc)]
  simp

/-- the hypotheses are satisfiable: a three-DIE unit -/
example : OffsetsIncreasing (.mk 11 0x11 true [] [.mk 20 0x2e true [] [.mk 30 0x34 false [] []]]) := by
  simp [OffsetsIncreasing, preorder, preorderList, Die.off]

/-- the root of a unit has no parent -/
theorem root_has_no_parent (u : DUnit) (hinc : OffsetsIncreasing u.root) :
    findParent u u.root.off = some none := by
  unfold findParent
  have hs : ((parentTable none u.root).map (·.1)).Pairwise (· < ·) := by
    rw [parentTable_offsets]; exact hinc
  rw [lowerBound_finds _ _ _ hs (root_entry none u.root)]
  simp

/-- cooked children keep the chain of imports they were reached through: it extends the
    parent's chain -/
theorem cookedChildren_chain (f : Forest) (fuel : Nat) (d : CDie) :
    ∀ c ∈ cookedChildren f fuel d, ∃ pre, c.chain = pre ++ d.chain := by
  induction fuel generalizing d with
  | zero => simp [cookedChildren]
  | succ n ih =>
    obtain ⟨dd, chain⟩ := d
    intro c hc
    simp only [cookedChildren, List.mem_flatMap] at hc
    obtain ⟨x, _, hx⟩ := hc
    split at hx
    · obtain ⟨pre, hp⟩ := ih _ c hx
      exact ⟨pre ++ [x.off], by simp [hp]⟩
    · simp at hx; subst hx; exact ⟨[], by simp⟩

/-- `parent` of a cooked DIE that is not directly below a unit's root keeps the DIE's
    import chain: a later `parent` can still leave the partial unit through it (F6) -/
theorem cookedParent_keeps_chain (f : Forest) (fuel : Nat) (d p : Die) (chain : List Nat)
    (hp : rawParent f d = some p) (ht : isUnitRoot f p = false) :
    cookedParent f (fuel + 1) ⟨d, chain⟩ = some ⟨p, chain⟩ := by
  simp [cookedParent, hp, ht]

/-- at the root of an imported unit the walk continues from the importing DIE with the rest of the chain -/
theorem cookedParent_leaves_partial_unit (f : Forest) (fuel : Nat) (d p imp : Die) (i : Nat) (rest : List Nat)
    (hp : rawParent f d = some p) (ht : isUnitRoot f p = true)
    (hi : findDie f i = some imp) :
    cookedParent f (fuel + 1) ⟨d, i :: rest⟩ = cookedParent f fuel ⟨imp, rest⟩ := by
  simp [cookedParent, hp, ht, hi]

/-- `root` is the end of the `parent` chain: it has no parent (when the walk ends in the budget) -/
theorem cookedRoot_is_fixpoint (f : Forest) (fuel : Nat) (c : CDie)
    (h : cookedParent f (fuel + 1) c = none) : cookedRoot f (fuel + 1) c = c := by
  simp [cookedRoot, h]

/-- `d` is the DIE `r` or below it -/
inductive Below (r : Die) : Die → Prop
  | self : Below r r
  | child {p c : Die} : Below r p → c ∈ p.children → Below r c

mutual
theorem children_mem (r p c : Die) (hp : p ∈ preorder r) (hc : c ∈ p.children) : c ∈ preorder r := by
  match r with
  | .mk o t h a cs =>
    simp only [preorder, List.mem_cons] at hp ⊢
    rcases hp with rfl | hp
    · right
      simp only [Die.children] at hc
      exact head_mem_list cs c hc
    · right; exact children_mem_list cs p c hp hc
theorem children_mem_list (rs : List Die) (p c : Die) (hp : p ∈ preorderList rs) (hc : c ∈ p.children) :
    c ∈ preorderList rs := by
  match rs with
  | [] => simp [preorderList] at hp
  | x :: xs =>
    simp only [preorderList, List.mem_append] at hp ⊢
    rcases hp with hp | hp
    · exact Or.inl (children_mem x p c hp hc)
    · exact Or.inr (children_mem_list xs p c hp hc)
theorem head_mem_list (rs : List Die) (c : Die) (hc : c ∈ rs) : c ∈ preorderList rs := by
  match rs with
  | [] => simp at hc
  | x :: xs =>
    simp only [preorderList, List.mem_append]
    simp only [List.mem_cons] at hc
    rcases hc with rfl | hc
    · left
      match c with
      | .mk o t h a cs => simp [preorder]
    · exact Or.inr (head_mem_list xs c hc)
end

theorem below_mem (r d : Die) (h : Below r d) : d ∈ preorder r := by
  induction h with
  | self => match r with | .mk o t h a cs => simp [preorder]
  | child _ hc ih => exact children_mem r _ _ ih hc

mutual
theorem mem_below (r d : Die) (h : d ∈ preorder r) : Below r d := by
  match r with
  | .mk o t hh a cs =>
    simp only [preorder, List.mem_cons] at h
    rcases h with rfl | h
    · exact Below.self
    · exact mem_below_list (.mk o t hh a cs) cs d (fun c hc => Below.child Below.self (by simpa [Die.children] using hc)) h
theorem mem_below_list (r : Die) (rs : List Die) (d : Die) (hr : ∀ c ∈ rs, Below r c) (h : d ∈ preorderList rs) : Below r d := by
  match rs with
  | [] => simp [preorderList] at h
  | x :: xs =>
    simp only [preorderList, List.mem_append] at h
    rcases h with h | h
    · have hx : Below r x := hr x (by simp)
      exact below_trans r x d hx (mem_below x d h)
    · exact mem_below_list r xs d (fun c hc => hr c (by simp [hc])) h
theorem below_trans (r x d : Die) (h1 : Below r x) (h2 : Below x d) : Below r d := by
  induction h2 with
  | self => exact h1
  | child _ hc ih => exact Below.child ih hc
end

/-- following `parent` from an offset leads to the unit's root -/
inductive Climbs (u : DUnit) : Nat → Prop
  | root : Climbs u u.root.off
  | step {o p : Nat} : findParent u o = some (some p) → Climbs u p → Climbs u o

/-- **every DIE a unit lists reaches the unit's root by following `parent`, and the root has no
    parent: `root` is the end of the `parent` chain** (raw view, any tree shape) -/
theorem parent_chain_ends_at_root (u : DUnit) (hinc : OffsetsIncreasing u.root) (d : Die) (hd : d ∈ preorder u.root) :
    Climbs u d.off ∧ findParent u u.root.off = some none := by
  refine ⟨?_, root_has_no_parent u hinc⟩
  have hb := mem_below u.root d hd
  induction hb with
  | self => exact Climbs.root
  | @child p c hp hc ih =>
    have hpm := below_mem u.root p hp
    exact Climbs.step (child_parent u p c hinc hpm hc) (ih hpm)

/-- offsets strictly increase through the whole section (all units): the byte order -/
def ForestWF (f : Forest) : Prop := ((rawEntries f).map Die.off).Pairwise (· < ·)

theorem find_unique {α : Type} (l : List α) (key : α → Nat) (d : α) (hs : (l.map key).Pairwise (· < ·)) (hm : d ∈ l) :
    l.find? (fun x => key x == key d) = some d := by
  induction l with
  | nil => simp at hm
  | cons e es ih =>
    simp only [List.map_cons, List.pairwise_cons] at hs
    simp only [List.mem_cons] at hm
    rcases hm with rfl | hm
    · simp [List.find?]
    · have : key e < key d := hs.1 _ (List.mem_map.mpr ⟨d, hm, rfl⟩)
      have hne : (key e == key d) = false := by simp; omega
      simp only [List.find?, hne]
      exact ih hs.2 hm

theorem findDie_mem (f : Forest) (hwf : ForestWF f) (d : Die) (hd : d ∈ rawEntries f) : findDie f d.off = some d :=
  find_unique (rawEntries f) Die.off d hwf hd

theorem unit_entries_sub (f : Forest) (u : DUnit) (hu : u ∈ f) : ∀ d ∈ preorder u.root, d ∈ rawEntries f := by
  intro d hd
  simp only [rawEntries, List.mem_flatMap]
  exact ⟨u, hu, hd⟩

theorem pairwise_sublist_of_flatMap (f : Forest) (u : DUnit) (hu : u ∈ f) :
    (preorder u.root).Sublist (rawEntries f) := by
  induction f with
  | nil => simp at hu
  | cons x xs ih =>
    simp only [rawEntries, List.flatMap_cons]
    simp only [List.mem_cons] at hu
    rcases hu with rfl | hu
    · exact List.sublist_append_left _ _
    · exact List.Sublist.trans (ih hu) (List.sublist_append_right _ _)

theorem unit_increasing (f : Forest) (hwf : ForestWF f) (u : DUnit) (hu : u ∈ f) : OffsetsIncreasing u.root := by
  unfold OffsetsIncreasing
  exact List.Pairwise.sublist (List.Sublist.map _ (pairwise_sublist_of_flatMap f u hu)) hwf

/-- the unit whose entries list an offset is found, and it is the only one -/
theorem unitOf_mem (f : Forest) (hwf : ForestWF f) (u : DUnit) (hu : u ∈ f) (d : Die) (hd : d ∈ preorder u.root) :
    unitOf f d.off = some u := by
  unfold unitOf
  induction f with
  | nil => simp at hu
  | cons x xs ih =>
    have hwf' : ForestWF xs := by
      unfold ForestWF rawEntries at hwf ⊢
      simp only [List.flatMap_cons, List.map_append, List.pairwise_append] at hwf
      exact hwf.2.1
    simp only [List.mem_cons] at hu
    by_cases hx : (preorder x.root).any (fun e => e.off == d.off) = true
    · -- the first unit lists the offset: it must be the unit of d
      simp only [List.find?, hx]
      rcases hu with rfl | hu
      · rfl
      · exfalso
        obtain ⟨e, he, heq⟩ := List.any_eq_true.mp hx
        have heq' : e.off = d.off := by simpa using heq
        unfold ForestWF rawEntries at hwf
        simp only [List.flatMap_cons, List.map_append, List.pairwise_append] at hwf
        have hlt := hwf.2.2 e.off (List.mem_map.mpr ⟨e, he, rfl⟩) d.off
          (List.mem_map.mpr ⟨d, unit_entries_sub xs u hu d hd, rfl⟩)
        omega
    · have hx' : (preorder x.root).any (fun e => e.off == d.off) = false := by simpa using hx
      simp only [List.find?, hx']
      rcases hu with rfl | hu
      · exfalso
        have : (preorder u.root).any (fun e => e.off == d.off) = true :=
          List.any_eq_true.mpr ⟨d, hd, by simp⟩
        rw [this] at hx'; cases hx'
      · exact ih hwf' hu

/-- `parent` in the raw view, through the caches and look-ups of the model: a child's parent is the
    DIE it is a child of, the root of a unit has none -/
theorem rawParent_child (f : Forest) (hwf : ForestWF f) (u : DUnit) (hu : u ∈ f) (p c : Die)
    (hp : p ∈ preorder u.root) (hc : c ∈ p.children) : rawParent f c = some p := by
  have hcm : c ∈ preorder u.root := children_mem u.root p c hp hc
  unfold rawParent
  rw [unitOf_mem f hwf u hu c hcm]
  simp only [child_parent u p c (unit_increasing f hwf u hu) hp hc]
  exact findDie_mem f hwf p (unit_entries_sub f u hu p hp)

theorem rawParent_root (f : Forest) (hwf : ForestWF f) (u : DUnit) (hu : u ∈ f) : rawParent f u.root = none := by
  have hr : u.root ∈ preorder u.root := by
    match h : u.root with
    | .mk o t hh a cs => simp [preorder]
  unfold rawParent
  rw [unitOf_mem f hwf u hu u.root hr]
  simp [root_has_no_parent u (unit_increasing f hwf u hu)]


/-- cooked `parent` as a relation (the paths of fetch_parent_die): no fuel -/
inductive CParent (f : Forest) : CDie → Option CDie → Prop
  | none {d : Die} {chain : List Nat} : rawParent f d = none → CParent f ⟨d, chain⟩ none
  | inner {d p : Die} {chain : List Nat} : rawParent f d = some p → isUnitRoot f p = false →
      CParent f ⟨d, chain⟩ (some ⟨p, chain⟩)
  | outer {d p : Die} : rawParent f d = some p → isUnitRoot f p = true → CParent f ⟨d, []⟩ (some ⟨p, []⟩)
  | hop {d p imp : Die} {i : Nat} {rest : List Nat} {r : Option CDie} : rawParent f d = some p → isUnitRoot f p = true →
      findDie f i = some imp → CParent f ⟨imp, rest⟩ r → CParent f ⟨d, i :: rest⟩ r
  | lost {d p : Die} {i : Nat} {rest : List Nat} : rawParent f d = some p → isUnitRoot f p = true →
      findDie f i = none → CParent f ⟨d, i :: rest⟩ none

/-- the function of the model computes the relation, given fuel for the hops -/
theorem cookedParent_of_rel (f : Forest) (c : CDie) (r : Option CDie) (h : CParent f c r) :
    ∀ fuel, c.chain.length < fuel → cookedParent f fuel c = r := by
  induction h with
  | none hp => intro fuel hf; cases fuel with | zero => omega | succ n => simp [cookedParent, hp]
  | inner hp hr => intro fuel hf; cases fuel with | zero => omega | succ n => simp [cookedParent, hp, hr]
  | outer hp hr => intro fuel hf; cases fuel with | zero => omega | succ n => simp [cookedParent, hp, hr]
  | hop hp hr hi _ ih =>
    intro fuel hf
    cases fuel with
    | zero => omega
    | succ n =>
      simp only [cookedParent, hp, hr, ↓reduceIte, hi]
      exact ih n (by simp at hf ⊢; omega)
  | lost hp hr hi => intro fuel hf; cases fuel with | zero => omega | succ n => simp [cookedParent, hp, hr, hi]

theorem cparent_det (f : Forest) (c : CDie) (r1 : Option CDie) (h1 : CParent f c r1) :
    ∀ r2, CParent f c r2 → r1 = r2 := by
  intro r2 h2
  have a := cookedParent_of_rel f c r1 h1 (c.chain.length + 1) (by omega)
  have b := cookedParent_of_rel f c r2 h2 (c.chain.length + 1) (by omega)
  rw [a] at b; exact b

/-- climbing by `parent` from `c` ends at `e`, which has no parent -/
inductive CClimb (f : Forest) : CDie → CDie → Prop
  | stop {c : CDie} : CParent f c none → CClimb f c c
  | step {c c' e : CDie} : CParent f c (some c') → CClimb f c' e → CClimb f c e

/-- a cooked DIE value as the producers make them: a DIE of a unit of the file; if it was reached
    through imports, the innermost link is a DIE that has a parent and imports the DIE's unit, and
    the DIE is not that unit's root (the root of an imported unit is never yielded); `r` is the root
    of the unit the outermost link sits in -/
inductive Rooted (f : Forest) : CDie → Die → Prop
  | top {u : DUnit} {d : Die} : u ∈ f → d ∈ preorder u.root → Rooted f ⟨d, []⟩ u.root
  | imported {u : DUnit} {d p imp : Die} {rest : List Nat} {r : Die} {x : CDie} : u ∈ f → p ∈ preorder u.root → d ∈ p.children →
      findDie f imp.off = some imp → CParent f ⟨imp, rest⟩ (some x) → Rooted f ⟨imp, rest⟩ r →
      Rooted f ⟨d, imp.off :: rest⟩ r

theorem isUnitRoot_iff (f : Forest) (hwf : ForestWF f) (u : DUnit) (hu : u ∈ f) (d : Die) (hd : d ∈ preorder u.root) :
    isUnitRoot f d = true ↔ d.off = u.root.off := by
  unfold isUnitRoot
  rw [unitOf_mem f hwf u hu d hd]
  simp only [beq_iff_eq]
  exact ⟨fun h => h.symm, fun h => h.symm⟩

theorem off_eq_root (u : DUnit) (hinc : OffsetsIncreasing u.root) (d : Die) (hd : d ∈ preorder u.root) (h : d.off = u.root.off) :
    d = u.root := by
  have hr : u.root ∈ preorder u.root := by
    match hh : u.root with
    | .mk o t h a cs => simp [preorder]
  have := find_unique (preorder u.root) Die.off d hinc hd
  have h2 := find_unique (preorder u.root) Die.off u.root hinc hr
  rw [h] at this
  rw [this] at h2
  cases h2; rfl

/-- inside one unit: from any DIE, `parent` leads up to the unit's root, carrying the chain along -/
theorem climb_in_unit (f : Forest) (hwf : ForestWF f) (u : DUnit) (hu : u ∈ f) (chain : List Nat) (e : CDie) :
    ∀ d, Below u.root d → ∀ (hend : ∀ k, k ∈ u.root.children → CClimb f ⟨k, chain⟩ e), d ≠ u.root → CClimb f ⟨d, chain⟩ e := by
  intro d hb
  induction hb with
  | self => intro _ hne; exact absurd rfl hne
  | @child p c hp hc ih =>
    intro hend _
    by_cases hpr : p = u.root
    · subst hpr; exact hend c hc
    · have hpm := below_mem u.root p hp
      have hrp : rawParent f c = some p := rawParent_child f hwf u hu p c hpm hc
      have hnr : isUnitRoot f p = false := by
        cases h : isUnitRoot f p with
        | false => rfl
        | true =>
          have := (isUnitRoot_iff f hwf u hu p hpm).mp h
          exact absurd (off_eq_root u (unit_increasing f hwf u hu) p hpm this) hpr
      exact CClimb.step (CParent.inner hrp hnr) (ih hend hpr)

/-- **`root` is the end of the `parent` chain, through any nesting of imports**: climbing from a
    cooked DIE value ends at the root of the unit its outermost import sits in, with no chain left -/
theorem cooked_climb_ends_at_root (f : Forest) (hwf : ForestWF f) (c : CDie) (r : Die) (h : Rooted f c r) :
    CClimb f c ⟨r, []⟩ := by
  induction h with
  | @top u d hu hd =>
    have hrootm : u.root ∈ preorder u.root := by
      match hh : u.root with
      | .mk o t h a cs => simp [preorder]
    have hstop : CClimb f ⟨u.root, []⟩ ⟨u.root, []⟩ := CClimb.stop (CParent.none (rawParent_root f hwf u hu))
    by_cases hd0 : d = u.root
    · subst hd0; exact hstop
    · apply climb_in_unit f hwf u hu [] ⟨u.root, []⟩ d (mem_below u.root d hd) ?_ hd0
      intro k hk
      have hrp : rawParent f k = some u.root := rawParent_child f hwf u hu u.root k hrootm hk
      have hir : isUnitRoot f u.root = true := (isUnitRoot_iff f hwf u hu u.root hrootm).mpr rfl
      exact CClimb.step (CParent.outer hrp hir) hstop
  | @imported u d p imp rest r x hu hp hc hfi hpx _ ih =>
    -- the importing DIE has a parent: its climb starts with a step
    have hfirst : ∃ y, CParent f ⟨imp, rest⟩ (some y) ∧ CClimb f y ⟨r, []⟩ := by
      cases ih with
      | stop hn => exact absurd (cparent_det f _ _ hn _ hpx) (by simp)
      | step hs hcl => exact ⟨_, hs, hcl⟩
    obtain ⟨y, hy, hcl⟩ := hfirst
    have hrootm : u.root ∈ preorder u.root := by
      match hh : u.root with
      | .mk o t h a cs => simp [preorder]
    have hdm : d ∈ preorder u.root := children_mem u.root p d hp hc
    have hir : isUnitRoot f u.root = true := (isUnitRoot_iff f hwf u hu u.root hrootm).mpr rfl
    have hdne : d ≠ u.root := by
      intro he
      -- a child lies strictly after its parent in the section
      have hrp : rawParent f d = some p := rawParent_child f hwf u hu p d hp hc
      rw [he, rawParent_root f hwf u hu] at hrp
      cases hrp
    apply climb_in_unit f hwf u hu (imp.off :: rest) ⟨r, []⟩ d (mem_below u.root d hdm) ?_ hdne
    intro k hk
    have hrp : rawParent f k = some u.root := rawParent_child f hwf u hu u.root k hrootm hk
    exact CClimb.step (CParent.hop hrp hir hfi hy) hcl

/-- the model's function `cookedRoot` computes that end, given enough fuel -/
theorem cookedRoot_of_climb (f : Forest) (c e : CDie) (h : CClimb f c e) :
    ∃ n, ∀ fuel, n ≤ fuel → cookedRoot f fuel c = e := by
  induction h with
  | @stop c hn =>
    refine ⟨c.chain.length + 1, ?_⟩
    intro fuel hf
    cases fuel with
    | zero => omega
    | succ k =>
      simp only [cookedRoot]
      rw [cookedParent_of_rel f c none hn (k + 1) (by omega)]
  | @step c c' e hs _ ih =>
    obtain ⟨n', hn'⟩ := ih
    refine ⟨max (c.chain.length + 1) (n' + 1), ?_⟩
    intro fuel hf
    cases fuel with
    | zero => omega
    | succ k =>
      simp only [cookedRoot]
      rw [cookedParent_of_rel f c (some c') hs (k + 1) (by omega)]
      exact hn' k (by omega)

/-- non-vacuity: a compile unit importing a partial unit; the DIE inside the partial unit, reached
    through the import, is `Rooted` at the compile unit's root, and the forest is well formed -/
example :
    let x : Die := .mk 110 0x34 false [] []
    let pu : DUnit := ⟨100, 4, .mk 105 0x3c true [] [x]⟩
    let imp : Die := .mk 20 0x3d false [{ name := 0x18, form := 0x10, ref := some 105 }] []
    let cu : DUnit := ⟨0, 4, .mk 11 0x11 true [] [imp]⟩
    let f : Forest := [cu, pu]
    ForestWF f ∧ Rooted f ⟨x, [20]⟩ cu.root ∧ cookedRoot f 10 ⟨x, [20]⟩ = ⟨cu.root, []⟩ := by
  intro x pu imp cu f
  refine ⟨by simp [ForestWF, rawEntries, preorder, preorderList, Die.off, f, cu, pu, imp, x], ?_, by rfl⟩
  exact Rooted.imported (u := pu) (p := pu.root) (imp := imp) (x := ⟨cu.root, []⟩)
    (by simp [f]) (by simp [pu, preorder]) (by simp [pu, Die.children]) (by rfl)
    (CParent.outer (by rfl) (by rfl)) (Rooted.top (u := cu) (by simp [f]) (by simp [cu, preorder, preorderList, imp]))

end ZwVerif.C05
