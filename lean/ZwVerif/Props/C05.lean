import ZwVerif.Props.C02
set_option linter.unusedSimpArgs false
set_option linter.unusedVariables false
/-!
# C05 — navigation words agree on every DIE

Over the forest model: the parent table built by one walk of a unit (cache.cc)
answers `parent` correctly for every DIE — every child's recorded parent is the
DIE it is a child of, and the binary search finds exactly that record — provided
offsets increase in section order (they do: it is the order of the bytes).  Cooked
children carry the chain of imports they were reached through, and `parent` of a
cooked DIE keeps that chain (the F6 repair), so `root` is the end of the `parent`
chain.
-/
namespace ZwVerif.C05
open ZwVerif.Dwarf ZwVerif.C02

/-- offsets strictly increase along the section (a decidable well-formedness condition every
    real file satisfies: it is the byte order) -/
def OffsetsIncreasing (d : Die) : Prop := ((preorder d).map Die.off).Pairwise (· < ·)

mutual
theorem root_entry (par : Option Nat) (d : Die) : (d.off, par) ∈ parentTable par d := by
  match d with
  | .mk o t h a cs => simp [parentTable, Die.off]
theorem child_entry_list (par : Option Nat) (cs : List Die) (c : Die) (hc : c ∈ cs) :
    (c.off, par) ∈ parentTableList par cs := by
  match cs with
  | [] => simp at hc
  | x :: xs =>
    simp only [parentTableList, List.mem_append]
    simp at hc
    rcases hc with rfl | hc
    · exact Or.inl (root_entry par c)
    · exact Or.inr (child_entry_list par xs c hc)
end

/-- the table records, for every child, the DIE it is a child of -/
theorem child_entry (par : Option Nat) (d c : Die) (hc : c ∈ d.children) :
    (c.off, some d.off) ∈ parentTable par d := by
  obtain ⟨o, t, h, a, cs⟩ := d
  simp only [parentTable, Die.off, List.mem_cons]
  right
  exact child_entry_list (some o) cs c hc

/-- binary search on keys that strictly increase finds the record of a key that is present -/
theorem lowerBound_finds (tab : List (Nat × Option Nat)) (k : Nat) (v : Option Nat)
    (hs : (tab.map (·.1)).Pairwise (· < ·)) (hm : (k, v) ∈ tab) :
    lowerBound tab k = some (k, v) := by
  unfold lowerBound
  induction tab with
  | nil => simp at hm
  | cons e es ih =>
    simp only [List.map_cons, List.pairwise_cons] at hs
    obtain ⟨hlt, hs'⟩ := hs
    simp only [List.mem_cons] at hm
    rcases hm with rfl | hm
    · simp [List.find?]
    · have hk : e.1 < k := hlt k (List.mem_map.mpr ⟨(k, v), hm, rfl⟩)
      have : ¬ (k ≤ e.1) := by omega
      simp [List.find?, this]
      exact ih hs' hm

mutual
theorem child_entry_deep (par : Option Nat) (r d c : Die) (hd : d ∈ preorder r) (hc : c ∈ d.children) :
    (c.off, some d.off) ∈ parentTable par r := by
  match r with
  | .mk o t h a cs =>
    simp only [preorder, List.mem_cons] at hd
    rcases hd with rfl | hd
    · exact child_entry par _ c hc
    · simp only [parentTable, List.mem_cons]
      right
      exact child_entry_deep_list (some o) cs d c hd hc
theorem child_entry_deep_list (par : Option Nat) (rs : List Die) (d c : Die) (hd : d ∈ preorderList rs)
    (hc : c ∈ d.children) : (c.off, some d.off) ∈ parentTableList par rs := by
  match rs with
  | [] => simp [preorderList] at hd
  | x :: xs =>
    simp only [preorderList, List.mem_append] at hd
    simp only [parentTableList, List.mem_append]
    rcases hd with hd | hd
    · exact Or.inl (child_entry_deep par x d c hd hc)
    · exact Or.inr (child_entry_deep_list par xs d c hd hc)
end

/-- **every DIE yielded by `child` of D has D as `parent`** (raw view), for every DIE D of every
    unit: the parent table of the unit, searched the way cache.cc searches it, returns D for
    each child of D -/
theorem child_parent (u : DUnit) (d c : Die) (hinc : OffsetsIncreasing u.root)
    (hd : d ∈ preorder u.root) (hc : c ∈ d.children) :
    findParent u c.off = some (some d.off) := by
  unfold findParent
  have hs : ((parentTable none u.root).map (·.1)).Pairwise (· < ·) := by
    rw [parentTable_offsets]; exact hinc
  rw [lowerBound_finds _ _ _ hs (child_entry_deep none u.root d c hd hc)]
  simp

/-- the hypotheses are satisfiable: a three-DIE unit -/
example : OffsetsIncreasing (.mk 11 0x11 true [] [.mk 20 0x2e true [] [.mk 30 0x34 false [] []]]) := by
  simp [OffsetsIncreasing, preorder, preorderList, Die.off]

/-- the root of a unit has no parent -/
theorem root_has_no_parent (u : DUnit) (hinc : OffsetsIncreasing u.root) :
    findParent u u.root.off = some none := by
  unfold findParent
  have hs : ((parentTable none u.root).map (·.1)).Pairwise (· < ·) := by
    rw [parentTable_offsets]; exact hinc
  rw [lowerBound_finds _ _ _ hs (root_entry none u.root)]
  simp

/-- cooked children keep the chain of imports they were reached through: it extends the
    parent's chain -/
theorem cookedChildren_chain (f : Forest) (fuel : Nat) (d : CDie) :
    ∀ c ∈ cookedChildren f fuel d, ∃ pre, c.chain = pre ++ d.chain := by
  induction fuel generalizing d with
  | zero => simp [cookedChildren]
  | succ n ih =>
    obtain ⟨dd, chain⟩ := d
    intro c hc
    simp only [cookedChildren, List.mem_flatMap] at hc
    obtain ⟨x, _, hx⟩ := hc
    split at hx
    · obtain ⟨pre, hp⟩ := ih _ c hx
      exact ⟨pre ++ [x.off], by simp [hp]⟩
    · simp at hx; subst hx; exact ⟨[], by simp⟩

/-- `parent` of a cooked DIE that is not directly below a unit's root keeps the DIE's
    import chain: a later `parent` can still leave the partial unit through it (F6) -/
theorem cookedParent_keeps_chain (f : Forest) (fuel : Nat) (d p : Die) (chain : List Nat)
    (hp : rawParent f d = some p) (ht : isUnitRoot f p = false) :
    cookedParent f (fuel + 1) ⟨d, chain⟩ = some ⟨p, chain⟩ := by
  simp [cookedParent, hp, ht]

/-- at the root of an imported unit the walk continues from the importing DIE with the rest of the chain -/
theorem cookedParent_leaves_partial_unit (f : Forest) (fuel : Nat) (d p imp : Die) (i : Nat) (rest : List Nat)
    (hp : rawParent f d = some p) (ht : isUnitRoot f p = true)
    (hi : findDie f i = some imp) :
    cookedParent f (fuel + 1) ⟨d, i :: rest⟩ = cookedParent f fuel ⟨imp, rest⟩ := by
  simp [cookedParent, hp, ht, hi]

/-- `root` is the end of the `parent` chain: it has no parent (when the walk ends in the budget) -/
theorem cookedRoot_is_fixpoint (f : Forest) (fuel : Nat) (c : CDie)
    (h : cookedParent f (fuel + 1) c = none) : cookedRoot f (fuel + 1) c = c := by
  simp [cookedRoot, h]

end ZwVerif.C05
