import ZwVerif.Lemmas.Evs
set_option linter.unusedSimpArgs false
set_option linter.unusedVariables false
/-!
# C10 — `*` / `+` yield each reachable stack exactly once per input

The work-list algorithm of `op_tr_closure` as modelled by `semClose` / `closeStep`
(Model/Sem.lean): nothing is yielded twice (under the stack equality the engine
uses, `stackCmp … = eq`), whatever the body does and however long it runs; the
input itself comes first for `*`; every input starts from an empty seen-set; and
the parser's collapsing of repeated suffixes.
-/
namespace ZwVerif.C10
open ZwVerif

/-- "later stacks differ from earlier ones" -/
def Distinct (cfg : Cfg) (l : List Stack) : Prop :=
  l.Pairwise (fun earlier later => stackEq cfg later earlier = false)

def stacksOf (es : Evs) : List Stack := es.frames.map (·.stk)

theorem distinct_append_one (cfg : Cfg) (l : List Stack) (s : Stack) (h : Distinct cfg l)
    (hs : l.any (stackEq cfg s) = false) : Distinct cfg (l ++ [s]) := by
  unfold Distinct at *
  rw [List.pairwise_append]
  refine ⟨h, by simp, ?_⟩
  intro a ha b hb
  simp at hb; subst hb
  rw [List.any_eq_false] at hs
  have := hs a ha
  simpa using this

/-- one expansion step: the yielded stacks are exactly the ones added to the seen-set (and to
    the work-list), in order, and the seen-set stays duplicate-free -/
theorem closeStep_inv (ctx : Ctx) (f : Frame) (r : Evs) (seen work : List Stack)
    (h : Distinct ctx.cfg seen) :
    ∃ new, (closeStep ctx f r seen work).2.1 = seen ++ new ∧
           (closeStep ctx f r seen work).2.2 = work ++ new ∧
           stacksOf (closeStep ctx f r seen work).1 = new ∧
           Distinct ctx.cfg (seen ++ new) := by
  induction r generalizing seen work with
  | nil => exact ⟨[], by simp [closeStep], by simp [closeStep], by simp [closeStep, stacksOf, Evs.frames], by simpa using h⟩
  | cons e es ih =>
    cases e with
    | frame g =>
      unfold closeStep
      by_cases hc : Val.hasCloList g.stk = true
      · simp only [hc, if_true]
        obtain ⟨new, h1, h2, h3, h4⟩ := ih seen work h
        exact ⟨new, h1, h2, by simpa [stacksOf, Evs.frames, unsupportedClo] using h3, h4⟩
      · simp only [hc, if_false, Bool.false_eq_true]
        by_cases hs : seen.any (stackEq ctx.cfg g.stk) = true
        · simp only [hs, if_true]; exact ih seen work h
        · simp only [hs, if_false, Bool.false_eq_true]
          obtain ⟨new, h1, h2, h3, h4⟩ := ih (seen ++ [g.stk]) (work ++ [g.stk])
            (distinct_append_one _ _ _ h (by simpa using hs))
          refine ⟨g.stk :: new, by simpa using h1, by simpa using h2, ?_, by simpa using h4⟩
          simp [stacksOf, Evs.frames] at h3 ⊢; exact h3
    | soft c =>
      unfold closeStep
      obtain ⟨new, h1, h2, h3, h4⟩ := ih seen work h
      exact ⟨new, h1, h2, by simpa [stacksOf, Evs.frames] using h3, h4⟩
    | hard m =>
      unfold closeStep
      obtain ⟨new, h1, h2, h3, h4⟩ := ih seen work h
      exact ⟨new, h1, h2, by simpa [stacksOf, Evs.frames] using h3, h4⟩
    | mark =>
      unfold closeStep
      obtain ⟨new, h1, h2, h3, h4⟩ := ih seen work h
      exact ⟨new, h1, h2, by simpa [stacksOf, Evs.frames] using h3, h4⟩

theorem stacksOf_append (a b : Evs) : stacksOf (a ++ b) = stacksOf a ++ stacksOf b := by
  simp [stacksOf, Evs.frames, List.filterMap_append]

theorem stacksOf_cutHard_sublist (es : Evs) : (stacksOf (cutHard es)).Sublist (stacksOf es) := by
  induction es with
  | nil => simp [cutHard]
  | cons e es ih =>
    cases e with
    | hard m => simp [cutHard, stacksOf, Evs.frames]
    | frame g => simpa [cutHard, stacksOf, Evs.frames] using ih
    | soft c => simpa [cutHard, stacksOf, Evs.frames] using ih
    | mark => simpa [cutHard, stacksOf, Evs.frames] using ih

theorem distinct_sublist (cfg : Cfg) (seen a b : List Stack) (hs : a.Sublist b)
    (h : Distinct cfg (seen ++ b)) : Distinct cfg (seen ++ a) :=
  List.Pairwise.sublist (List.Sublist.append (List.Sublist.refl seen) hs) h

/-- **nothing is yielded twice**: whatever the body does, the stacks the closure yields while
    working off its work-list are pairwise different (under the engine's stack equality) and
    different from everything seen before for this input. -/
theorem semClose_distinct (ctx : Ctx) (fuel : Nat) (body : Tree) (f : Frame) (seen work : List Stack)
    (h : Distinct ctx.cfg seen) :
    Distinct ctx.cfg (seen ++ stacksOf (semClose ctx fuel body f seen work)) := by
  induction fuel generalizing seen work with
  | zero => simpa [semClose, stacksOf, Evs.frames] using h
  | succ n ih =>
    unfold semClose
    cases work with
    | nil => simpa [stacksOf, Evs.frames] using h
    | cons w0 ws =>
      simp only
      split
      · simpa [stacksOf, Evs.frames] using h
      · rename_i w restRev hw
        generalize hcs : closeStep ctx f (sem ctx n body [Ev.frame { f with stk := w }]) seen restRev.reverse = cs
        obtain ⟨out, seen', work''⟩ := cs
        obtain ⟨new, h1, h2, h3, h4⟩ := closeStep_inv ctx f (sem ctx n body [Ev.frame { f with stk := w }]) seen restRev.reverse h
        rw [hcs] at h1 h2 h3
        simp only at h1 h2 h3 ⊢
        split
        · exact distinct_sublist _ _ _ _ (h3 ▸ stacksOf_cutHard_sublist out) h4
        · rw [stacksOf_append, h3, ← List.append_assoc, ← h1]
          exact ih seen' work'' (h1 ▸ h4)

/-- `E*` on one input: the input itself is yielded first, and no stack is yielded twice -/
theorem star_distinct (ctx : Ctx) (n : Nat) (pl : Payload) (c : Tree) (f : Frame) :
    Distinct ctx.cfg (stacksOf (sem1 ctx (n + 1) (.node .CLOSE_STAR pl [c]) f)) := by
  simp only [sem1]
  split
  · simp [stacksOf, Evs.frames, unsupportedClo, Distinct]
  · have h0 : Distinct ctx.cfg [f.stk] := by simp [Distinct]
    have := semClose_distinct ctx n c f [f.stk] [f.stk] h0
    have e : stacksOf (Ev.frame f :: restoreEnv f.env (semClose ctx n c f [f.stk] [f.stk])) =
        [f.stk] ++ stacksOf (semClose ctx n c f [f.stk] [f.stk]) := by
      simp only [stacksOf, Evs.frames, restoreEnv, List.filterMap_cons, List.map_cons, List.filterMap_map,
        List.singleton_append, List.cons.injEq, true_and]
      induction (semClose ctx n c f [f.stk] [f.stk]) with
      | nil => simp
      | cons e es ih => cases e <;> simp [ih]
    have hsub := stacksOf_cutHard_sublist (Ev.frame f :: restoreEnv f.env (semClose ctx n c f [f.stk] [f.stk]))
    rw [e] at hsub
    exact List.Pairwise.sublist hsub this

theorem star_yields_input_first (ctx : Ctx) (n : Nat) (pl : Payload) (c : Tree) (f : Frame)
    (hc : Val.hasCloList f.stk = false) :
    (sem1 ctx (n + 1) (.node .CLOSE_STAR pl [c]) f).head? = some (.frame f) := by
  simp [sem1, hc, cutHard]

/-- every input starts from a clean slate: the meaning on a stream is per input (C01), and the
    seen-set handed to the work-list holds the input alone -/
theorem fresh_per_input (ctx : Ctx) (n : Nat) (pl : Payload) (c : Tree) (es : Evs) :
    sem ctx (n + 1) (.node .CLOSE_STAR pl [c]) es =
      mapFrames (sem1 ctx n (.node .CLOSE_STAR pl [c])) es := by
  simp [sem]

/-! ### the parser collapses repeated suffixes (`E+*`, `E*+`, `E**`, `E++` mean one closure) -/

theorem suffix_star_star (k : Nat) (t : Tree) (rest : List Tok) (h : t.tt = .CLOSE_STAR) :
    parsePostfix (k + 1) t (.asterisk :: rest) = parsePostfix k t rest := by
  obtain ⟨tt, p, cs⟩ := t
  simp [Tree.tt] at h; subst h
  simp [parsePostfix, Tree.tt]

theorem suffix_plus_star (k : Nat) (p : Payload) (cs : List Tree) (rest : List Tok) :
    parsePostfix (k + 1) (.node .CLOSE_PLUS p cs) (.asterisk :: rest) =
      parsePostfix k (.node .CLOSE_STAR p cs) rest := by
  simp [parsePostfix, Tree.tt, Tree.payload, Tree.children]

theorem suffix_closure_plus (k : Nat) (t : Tree) (rest : List Tok)
    (h : t.tt = .CLOSE_STAR ∨ t.tt = .CLOSE_PLUS) :
    parsePostfix (k + 1) t (.plus :: rest) = parsePostfix k t rest := by
  simp [parsePostfix, h]

/-- `E?` is `(E, )` -/
theorem qmark_is_alt_nop (k : Nat) (t : Tree) (rest : List Tok) (h : t.tt ≠ .ALT) :
    parsePostfix (k + 1) t (.qmark :: rest) =
      parsePostfix k (.node .ALT .none [t, Tree.nop]) rest := by
  obtain ⟨tt, p, cs⟩ := t
  simp [Tree.tt] at h
  simp [parsePostfix, Tree.createCat, h, Tree.nop, Tree.mk0, Tree.tt]

end ZwVerif.C10
