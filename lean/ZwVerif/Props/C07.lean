import ZwVerif.Model.Atval
set_option linter.unusedSimpArgs false
set_option linter.unusedVariables false
/-!
# C07 — attribute values decode to the right type, value, sign and constant domain

`atValue` is driven by the dispatch tables regenerated from atval.cc on every run, so each
theorem below is re-checked against what the switch statements say now.
-/
namespace ZwVerif.C07
open ZwVerif.Dwarf ZwVerif.Atval ZwVerif.Generated

/-! ### two's complement -/

theorem pows : ((2 : Int) ^ (8 * 1) = 256) ∧ ((2 : Int) ^ (8 * 1 - 1) = 128) ∧ ((2 : Int) ^ (8 * 2) = 65536) ∧
    ((2 : Int) ^ (8 * 2 - 1) = 32768) ∧ ((2 : Int) ^ (8 * 4) = 4294967296) ∧ ((2 : Int) ^ (8 * 4 - 1) = 2147483648) ∧
    ((2 : Int) ^ (8 * 8) = 18446744073709551616) ∧ ((2 : Int) ^ (8 * 8 - 1) = 9223372036854775808) := by decide

/-- reading back a value stored in `k` bytes gives the value, for every value the width holds
    (k = 1, 2, 4, 8: the fixed-size data forms) -/
theorem signExtend_roundtrip_1 (v : Int) (h1 : -128 ≤ v) (h2 : v < 128) : signExtend 1 (v % 256) = v := by
  simp only [signExtend, pows.1, pows.2.1, pows.2.2.1, pows.2.2.2.1, pows.2.2.2.2.1, pows.2.2.2.2.2.1, pows.2.2.2.2.2.2.1, pows.2.2.2.2.2.2.2]; split <;> omega
theorem signExtend_roundtrip_2 (v : Int) (h1 : -32768 ≤ v) (h2 : v < 32768) : signExtend 2 (v % 65536) = v := by
  simp only [signExtend, pows.1, pows.2.1, pows.2.2.1, pows.2.2.2.1, pows.2.2.2.2.1, pows.2.2.2.2.2.1, pows.2.2.2.2.2.2.1, pows.2.2.2.2.2.2.2]; split <;> omega
theorem signExtend_roundtrip_4 (v : Int) (h1 : -2147483648 ≤ v) (h2 : v < 2147483648) :
    signExtend 4 (v % 4294967296) = v := by
  simp only [signExtend, pows.1, pows.2.1, pows.2.2.1, pows.2.2.2.1, pows.2.2.2.2.1, pows.2.2.2.2.2.1, pows.2.2.2.2.2.2.1, pows.2.2.2.2.2.2.2]; split <;> omega
theorem signExtend_roundtrip_8 (v : Int) (h1 : -9223372036854775808 ≤ v) (h2 : v < 9223372036854775808) :
    signExtend 8 (v % 18446744073709551616) = v := by
  simp only [signExtend, pows.1, pows.2.1, pows.2.2.1, pows.2.2.2.1, pows.2.2.2.2.1, pows.2.2.2.2.2.1, pows.2.2.2.2.2.2.1, pows.2.2.2.2.2.2.2]; split <;> omega

/-- the unsigned reading of a non-negative value that fits is the value -/
theorem unsigned_roundtrip (form : Nat) (v : Int) (h : (dataWidth form).isSome) : formudata form v = some v := by
  simp [formudata, h]

/-- the signed reading agrees with the stored bits modulo 2^(8k) and lies in the signed range -/
theorem signExtend_spec_1 (b : Int) : (signExtend 1 b - b) % 256 = 0 ∧ -128 ≤ signExtend 1 b ∧ signExtend 1 b < 128 := by
  simp only [signExtend, pows.1, pows.2.1, pows.2.2.1, pows.2.2.2.1, pows.2.2.2.2.1, pows.2.2.2.2.2.1, pows.2.2.2.2.2.2.1, pows.2.2.2.2.2.2.2]; split <;> omega
theorem signExtend_spec_2 (b : Int) :
    (signExtend 2 b - b) % 65536 = 0 ∧ -32768 ≤ signExtend 2 b ∧ signExtend 2 b < 32768 := by
  simp only [signExtend, pows.1, pows.2.1, pows.2.2.1, pows.2.2.2.1, pows.2.2.2.2.1, pows.2.2.2.2.2.1, pows.2.2.2.2.2.2.1, pows.2.2.2.2.2.2.2]; split <;> omega
theorem signExtend_spec_4 (b : Int) :
    (signExtend 4 b - b) % 4294967296 = 0 ∧ -2147483648 ≤ signExtend 4 b ∧ signExtend 4 b < 2147483648 := by
  simp only [signExtend, pows.1, pows.2.1, pows.2.2.1, pows.2.2.2.1, pows.2.2.2.2.1, pows.2.2.2.2.2.1, pows.2.2.2.2.2.2.1, pows.2.2.2.2.2.2.2]; split <;> omega
theorem signExtend_spec_8 (b : Int) :
    (signExtend 8 b - b) % 18446744073709551616 = 0 ∧ -9223372036854775808 ≤ signExtend 8 b ∧
      signExtend 8 b < 9223372036854775808 := by
  simp only [signExtend, pows.1, pows.2.1, pows.2.2.1, pows.2.2.2.1, pows.2.2.2.2.1, pows.2.2.2.2.2.1, pows.2.2.2.2.2.2.1, pows.2.2.2.2.2.2.2]; split <;> omega

/-! ### form dispatch (against the regenerated table) -/

theorem form_sdata : formActs.lookup DW_FORM_sdata = some .signed := by decide
theorem form_udata : formActs.lookup DW_FORM_udata = some .unsigned := by decide
theorem dataWidth_forms (form : Nat) (h : (dataWidth form).isSome) :
    form = DW_FORM_data1 ∨ form = DW_FORM_data2 ∨ form = DW_FORM_data4 ∨ form = DW_FORM_data8 := by
  unfold dataWidth at h
  by_cases h1 : form = DW_FORM_data1
  · exact Or.inl h1
  · by_cases h2 : form = DW_FORM_data2
    · exact Or.inr (Or.inl h2)
    · by_cases h3 : form = DW_FORM_data4
      · exact Or.inr (Or.inr (Or.inl h3))
      · by_cases h4 : form = DW_FORM_data8
        · exact Or.inr (Or.inr (Or.inr h4))
        · simp [h1, h2, h3, h4] at h

theorem data_not_block (form : Nat) (h : (dataWidth form).isSome) : isBlock form = false := by
  rcases dataWidth_forms form h with h | h | h | h <;> rw [h] <;> decide

theorem form_data (form : Nat) (h : (dataWidth form).isSome) : formActs.lookup form = some .dependent := by
  rcases dataWidth_forms form h with h | h | h | h <;> rw [h] <;> decide

/-- **`sdata` is signed, whatever the attribute** -/
theorem sdata_decodes_signed (f : Forest) (d : Die) (p : Option Die) (a : DAttr) (v : Int)
    (hf : a.form = DW_FORM_sdata) (hv : a.num = some v) :
    atValue f d p a = ⟨.cst "dec" v, false⟩ := by
  simp only [atValue, hf, form_sdata, hv]
  simp [atvalSigned, formsdata, dataWidth, DW_FORM_sdata, DW_FORM_data1, DW_FORM_data2,
    DW_FORM_data4, DW_FORM_data8, DW_FORM_implicit_const]

/-- **`udata` is unsigned, whatever the attribute** -/
theorem udata_decodes_unsigned (f : Forest) (d : Die) (p : Option Die) (a : DAttr) (v : Int)
    (hf : a.form = DW_FORM_udata) (hv : a.num = some v) :
    atValue f d p a = ⟨.cst "dec" v, false⟩ := by
  simp only [atValue, hf, form_udata, hv]
  simp [atvalUnsignedDom, formudata, dataWidth, DW_FORM_udata, DW_FORM_data1, DW_FORM_data2,
    DW_FORM_data4, DW_FORM_data8]

/-- flags are booleans -/
theorem flags_are_booleans (f : Forest) (d : Die) (p : Option Die) (a : DAttr)
    (hf : a.form = 12 ∨ a.form = 25) :
    ∃ b : Int, (b = 0 ∨ b = 1) ∧ atValue f d p a = ⟨.cst "bool" b, false⟩ := by
  have hl : formActs.lookup a.form = some .flag := by rcases hf with h | h <;> rw [h] <;> decide
  simp only [atValue, hl]
  by_cases h0 : a.num.getD 0 = 0
  · exact ⟨0, Or.inl rfl, by simp [h0]⟩
  · exact ⟨1, Or.inr rfl, by simp [h0]⟩

/-- addresses are constants of the address domain (rendered in hexadecimal) -/
theorem addresses_are_address_constants (f : Forest) (d : Die) (p : Option Die) (a : DAttr) (v : Int)
    (hf : a.form = 1) (hv : a.num = some v) :
    atValue f d p a = ⟨.cst "Dwarf_Address" v, false⟩ := by
  have hl : formActs.lookup a.form = some .addr := by rw [hf]; decide
  simp [atValue, hl, hv]

/-- string forms yield the string -/
theorem strings_are_strings (f : Forest) (d : Die) (p : Option Die) (a : DAttr)
    (hf : a.form = 8 ∨ a.form = 14 ∨ a.form = 31 ∨ a.form = 26 ∨ a.form = 37 ∨ a.form = 38 ∨ a.form = 39 ∨ a.form = 40) :
    atValue f d p a = ⟨.str, false⟩ := by
  have hl : formActs.lookup a.form = some .str := by
    rcases hf with h | h | h | h | h | h | h | h <;> rw [h] <;> decide
  simp [atValue, hl]

/-- reference forms yield the DIE referred to -/
theorem references_are_dies (f : Forest) (d : Die) (p : Option Die) (a : DAttr) (t : Nat)
    (hf : a.form = 16 ∨ a.form = 17 ∨ a.form = 18 ∨ a.form = 19 ∨ a.form = 20 ∨ a.form = 21) (hr : a.ref = some t) :
    atValue f d p a = ⟨.die t, false⟩ := by
  have hl : formActs.lookup a.form = some .ref := by
    rcases hf with h | h | h | h | h | h <;> rw [h] <;> decide
  simp [atValue, hl, hr]

/-! ### enumerated attributes: the matching named constant -/

/-- the pairing the DWARF standard gives: attribute code, constant family -/
def enumeratedAttributes : List (Nat × String) :=
  [(0x13, "DW_LANG_"), (0x20, "DW_INL_"), (0x3e, "DW_ATE_"), (0x32, "DW_ACCESS_"), (0x17, "DW_VIS_"),
   (0x4c, "DW_VIRTUALITY_"), (0x42, "DW_ID_"), (0x36, "DW_CC_"), (0x09, "DW_ORD_"), (0x5e, "DW_DS_"),
   (0x33, "DW_ADDR_"), (0x65, "DW_END_"), (0x8b, "DW_DEFAULTED_"),
   (0x3b, "line_number"), (0x59, "line_number"), (0x39, "column_number"), (0x57, "column_number")]

/-- the regenerated table of atval.cc pairs every enumerated attribute with its own family -/
theorem enumerated_table : ∀ e ∈ enumeratedAttributes, atActs.lookup e.1 = some (.udom e.2) := by decide

/-- **enumerated attributes decode as the matching named constant**, in any fixed-size data form -/
theorem enumerated_attribute_domain (f : Forest) (d : Die) (p : Option Die) (a : DAttr) (v : Int) (dom : String)
    (he : (a.name, dom) ∈ enumeratedAttributes) (hw : (dataWidth a.form).isSome) (hv : a.num = some v) :
    atValue f d p a = ⟨.cst dom v, false⟩ := by
  have hl := enumerated_table _ he
  simp only at hl
  simp [atValue, form_data a.form hw, dependent, hl, hv, atvalUnsignedDom, formudata, hw]

/-- strides and scales may be negative: read as signed in every width, so that a fixed-size form and
    sdata give the same number -/
def signedAttributes : List Nat := [0x51, 0x2e, 0x5b, 0x5c]     -- byte_stride, bit_stride, binary_scale, decimal_scale

theorem signed_table : ∀ a ∈ signedAttributes, atActs.lookup a = some .signed := by decide

theorem signed_attribute_value (f : Forest) (d : Die) (p : Option Die) (a : DAttr) (k : Nat) (bits : Int)
    (hs : a.name ∈ signedAttributes) (hw : dataWidth a.form = some k) (hv : a.num = some bits) :
    atValue f d p a = ⟨.cst "dec" (signExtend k bits), false⟩ := by
  have hl := signed_table _ hs
  have hw' : (dataWidth a.form).isSome := by simp [hw]
  simp [atValue, form_data a.form hw', dependent, hl, hv, atvalSigned, formsdata, hw]

/-! ### DW_AT_const_value: signedness from the type -/

theorem const_value_rule : atActs.lookup DW_AT_const_value = some .constValue := by decide

/-- a non-enumerator whose type peels to a base type with a signed encoding: the stored bits read
    as two's complement of the form's width -/
theorem const_value_signed_type (f : Forest) (d : Die) (p : Option Die) (a : DAttr) (t : Die) (k : Nat) (bits enc : Int)
    (hn : a.name = DW_AT_const_value) (hw : dataWidth a.form = some k) (hv : a.num = some bits)
    (hd : (d.tag == DW_TAG_enumerator) = false)
    (ht : getTypeDie f 64 d = some t) (hb : t.tag = DW_TAG_base_type)
    (he : (dwIntegrate f libdwChain t DW_AT_encoding).isSome) (hen : encodingOf f t = some enc)
    (hs : enc = 5 ∨ enc = 6) :
    atValue f d p a = ⟨.cst "dec" (signExtend k bits), false⟩ := by
  have hw' : (dataWidth a.form).isSome := by simp [hw]
  have hblk : isBlock a.form = false := data_not_block a.form (by simp [hw])
  have hp : (t.tag == DW_TAG_pointer_type || t.tag == DW_TAG_ptr_to_member_type) = false := by rw [hb]; decide
  have hne : (t.tag != DW_TAG_enumeration_type && (t.tag != DW_TAG_base_type || !(dwIntegrate f libdwChain t DW_AT_encoding).isSome)) = false := by
    rw [hb]; simp [he]
  simp only [atValue, form_data a.form hw', dependent, hn, const_value_rule, constValue, hd, constValueFrom, ht, constValueTyped, hp, hne, he, hen]
  have hh : handleEncoding a enc = some (.cst "dec" (signExtend k bits)) := by
    simp only [handleEncoding, hblk, Bool.false_eq_true, ↓reduceIte, hv, Option.getD_some, handleEncodingData]
    rcases hs with h | h <;> simp [h, atvalSigned, formsdata, hw]
  simp [hh, hb]

/-- … with an unsigned encoding: the stored bits as they are -/
theorem const_value_unsigned_type (f : Forest) (d : Die) (p : Option Die) (a : DAttr) (t : Die) (k : Nat) (bits enc : Int)
    (hn : a.name = DW_AT_const_value) (hw : dataWidth a.form = some k) (hv : a.num = some bits)
    (hd : (d.tag == DW_TAG_enumerator) = false)
    (ht : getTypeDie f 64 d = some t) (hb : t.tag = DW_TAG_base_type)
    (he : (dwIntegrate f libdwChain t DW_AT_encoding).isSome) (hen : encodingOf f t = some enc)
    (hs : enc = 7 ∨ enc = 8) :
    atValue f d p a = ⟨.cst "dec" bits, false⟩ := by
  have hw' : (dataWidth a.form).isSome := by simp [hw]
  have hblk : isBlock a.form = false := data_not_block a.form (by simp [hw])
  have hp : (t.tag == DW_TAG_pointer_type || t.tag == DW_TAG_ptr_to_member_type) = false := by rw [hb]; decide
  have hne : (t.tag != DW_TAG_enumeration_type && (t.tag != DW_TAG_base_type || !(dwIntegrate f libdwChain t DW_AT_encoding).isSome)) = false := by
    rw [hb]; simp [he]
  simp only [atValue, form_data a.form hw', dependent, hn, const_value_rule, constValue, hd, constValueFrom, ht, constValueTyped, hp, hne, he, hen]
  have hh : handleEncoding a enc = some (.cst "dec" bits) := by
    simp only [handleEncoding, hblk, Bool.false_eq_true, ↓reduceIte, hv, Option.getD_some, handleEncodingData]
    rcases hs with h | h <;> simp [h, atvalUnsignedDom, formudata, hw']
  simp [hh, hb]

/-- … with a boolean encoding: a constant of the boolean domain -/
theorem const_value_boolean_type (f : Forest) (d : Die) (p : Option Die) (a : DAttr) (t : Die) (k : Nat) (bits : Int)
    (hn : a.name = DW_AT_const_value) (hw : dataWidth a.form = some k) (hv : a.num = some bits)
    (hd : (d.tag == DW_TAG_enumerator) = false)
    (ht : getTypeDie f 64 d = some t) (hb : t.tag = DW_TAG_base_type)
    (he : (dwIntegrate f libdwChain t DW_AT_encoding).isSome) (hen : encodingOf f t = some 2) :
    atValue f d p a = ⟨.cst "bool" bits, false⟩ := by
  have hw' : (dataWidth a.form).isSome := by simp [hw]
  have hblk : isBlock a.form = false := data_not_block a.form (by simp [hw])
  have hp : (t.tag == DW_TAG_pointer_type || t.tag == DW_TAG_ptr_to_member_type) = false := by rw [hb]; decide
  have hne : (t.tag != DW_TAG_enumeration_type && (t.tag != DW_TAG_base_type || !(dwIntegrate f libdwChain t DW_AT_encoding).isSome)) = false := by
    rw [hb]; simp [he]
  simp only [atValue, form_data a.form hw', dependent, hn, const_value_rule, constValue, hd, constValueFrom, ht, constValueTyped, hp, hne, he, hen]
  have hh : handleEncoding a 2 = some (.cst "bool" bits) := by
    simp [handleEncoding, hblk, hv, handleEncodingData, atvalUnsignedDom, formudata, hw']
  simp [hh, hb]

/-- a pointer type: an address constant -/
theorem const_value_pointer_type (f : Forest) (d : Die) (p : Option Die) (a : DAttr) (t : Die) (k : Nat) (bits : Int)
    (hn : a.name = DW_AT_const_value) (hw : dataWidth a.form = some k) (hv : a.num = some bits)
    (hd : (d.tag == DW_TAG_enumerator) = false)
    (ht : getTypeDie f 64 d = some t) (hb : t.tag = DW_TAG_pointer_type) :
    atValue f d p a = ⟨.cst "Dwarf_Address" bits, false⟩ := by
  have hw' : (dataWidth a.form).isSome := by simp [hw]
  have hp : (t.tag == DW_TAG_pointer_type || t.tag == DW_TAG_ptr_to_member_type) = true := by rw [hb]; decide
  simp only [atValue, form_data a.form hw', dependent, hn, const_value_rule, constValue, hd, constValueFrom, ht, constValueTyped, hp]
  simp [hv, atvalUnsignedDom, formudata, hw']

/-- the type walk goes through typedefs and cv-qualifiers -/
theorem type_walk_peels (f : Forest) (fuel : Nat) (d t : Die) (a : DAttr) (tref : Nat)
    (h1 : dwIntegrate f libdwChain d DW_AT_type = some a) (h2 : a.ref = some tref) (h3 : findDie f tref = some t)
    (hk : keepPeeling t.tag = true) :
    getTypeDie f (fuel + 1) d = getTypeDie f fuel t := by
  simp [getTypeDie, h1, h2, h3, hk]

theorem typedef_cv_are_peeled :
    keepPeeling DW_TAG_typedef = true ∧ keepPeeling DW_TAG_const_type = true ∧ keepPeeling DW_TAG_volatile_type = true ∧
    keepPeeling DW_TAG_restrict_type = true ∧ keepPeeling DW_TAG_base_type = false ∧
    keepPeeling DW_TAG_enumeration_type = false ∧ keepPeeling DW_TAG_pointer_type = false := by decide

/-! ### what is not interpreted is reported -/

/-- a form the dispatch does not list is refused with an error, never decoded as something else -/
theorem unknown_form_reported (f : Forest) (d : Die) (p : Option Die) (a : DAttr)
    (h : formActs.lookup a.form = none) :
    atValue f d p a = ⟨.err "Unhandled DWARF form", false⟩ := by
  have : formDefaultThrows = true := by decide
  simp [atValue, h, this]

/-- a fixed-size datum of an attribute without a signedness rule (and not a vendor attribute) is
    refused with an error -/
theorem unknown_signedness_reported (f : Forest) (d : Die) (p : Option Die) (a : DAttr)
    (hw : (dataWidth a.form).isSome) (hn : atActs.lookup a.name = none)
    (hu : ¬ (DW_AT_lo_user ≤ a.name ∧ a.name ≤ DW_AT_hi_user)) :
    atValue f d p a = ⟨.err "Signedness of attribute not handled", false⟩ := by
  have hblk : isBlock a.form = false := data_not_block a.form (by simp [hw])
  have h1 : atFinalThrow = true := by decide
  simp [atValue, form_data a.form hw, dependent, hn, dependentTail, hblk, hu, h1]

/-- DW_FORM_ref_sig8 is reported with a diagnostic and a placeholder string -/
theorem sig8_reported (f : Forest) (d : Die) (p : Option Die) (a : DAttr) (h : a.form = 32) :
    atValue f d p a = ⟨.sig8, true⟩ := by
  have hl : formActs.lookup a.form = some .sig8 := by rw [h]; decide
  simp [atValue, hl]

/-- non-vacuity: a variable of type `const int` (typedef'd) with a data1 const_value of 0xff is -1 -/
example :
    let int_ : Die := .mk 20 0x24 false [{ name := 0x3e, form := 11, ref := none, num := some 5 }] []
    let td : Die := .mk 30 0x16 false [{ name := 0x49, form := 19, ref := some 20 }] []
    let ct : Die := .mk 40 0x26 false [{ name := 0x49, form := 19, ref := some 30 }] []
    let a : DAttr := { name := 0x1c, form := 11, ref := none, num := some 255 }
    let v : Die := .mk 50 0x34 false [{ name := 0x49, form := 19, ref := some 40 }, a] []
    let f : Forest := [⟨0, 4, .mk 11 0x11 true [] [int_, td, ct, v]⟩]
    atValue f v none a = ⟨.cst "dec" (-1), false⟩ := by
  decide

end ZwVerif.C07
