import ZwVerif.Props.C05
set_option linter.unusedSimpArgs false
set_option linter.unusedVariables false
/-!
# C06 — cooked view = raw view with imports inlined and inherited attributes integrated

Over the forest model.  Children: no resolvable DW_TAG_imported_unit survives among cooked
children, DIEs without imports below them keep exactly their raw children, partial units are
not listed as units.  Attributes: never a name twice, nothing from a secondary DIE that must
not be integrated (DW_AT_sibling, DW_AT_declaration), the DIE's own attributes first and in
stored order, and `find_attribute` returns the DIE's own attribute when it has one.
-/
namespace ZwVerif.C06
open ZwVerif.Dwarf

/-! ### children -/

/-- every `DW_TAG_imported_unit` that resolves is replaced: none is left among cooked children -/
theorem cookedChildren_no_resolved_import (f : Forest) (fuel : Nat) (d : CDie) :
    ∀ c ∈ cookedChildren f fuel d, importTarget f c.die = none := by
  induction fuel generalizing d with
  | zero => simp [cookedChildren]
  | succ n ih =>
    obtain ⟨dd, chain⟩ := d
    intro c hc
    simp only [cookedChildren, List.mem_flatMap] at hc
    obtain ⟨x, _, hx⟩ := hc
    split at hx
    · exact ih _ c hx
    · rename_i hnone
      simp at hx; subst hx; exact hnone

/-- a DIE none of whose raw children is a resolvable import has exactly its raw children, in
    order, reached along the same chain -/
theorem cookedChildren_raw (f : Forest) (fuel : Nat) (d : Die) (chain : List Nat)
    (h : ∀ c ∈ d.children, importTarget f c = none) :
    cookedChildren f (fuel + 1) ⟨d, chain⟩ = d.children.map fun c => ⟨c, chain⟩ := by
  simp only [cookedChildren]
  generalize d.children = cs at h
  induction cs with
  | nil => simp
  | cons c cs ih =>
    simp only [List.flatMap_cons, List.map_cons]
    rw [h c (by simp)]
    simp only [List.singleton_append, List.cons.injEq, true_and]
    exact ih (fun x hx => h x (by simp [hx]))

/-- in place: the cooked children of `D` are the concatenation, child by child in raw order, of
    what each raw child contributes (itself, or the cooked children of the unit it imports) -/
theorem cookedChildren_in_place (f : Forest) (fuel : Nat) (d : Die) (chain : List Nat) (c : Die) (cs : List Die)
    (hd : d.children = c :: cs) :
    cookedChildren f (fuel + 1) ⟨d, chain⟩ =
      (match importTarget f c with
       | some root => cookedChildren f fuel ⟨root, c.off :: chain⟩
       | none => [⟨c, chain⟩]) ++
      (cs.flatMap fun c =>
        match importTarget f c with
        | some root => cookedChildren f fuel ⟨root, c.off :: chain⟩
        | none => [⟨c, chain⟩]) := by
  simp only [cookedChildren, hd, List.flatMap_cons]
  rfl

/-- partial units are not listed as units: a forest of partial units only has no cooked entries -/
theorem partial_units_not_listed (f : Forest) (fuel : Nat) (h : ∀ u ∈ f, isPartial u = true) :
    cookedEntries f fuel = [] := by
  unfold cookedEntries
  have : f.filter (fun u => !isPartial u) = [] := by
    apply List.filter_eq_nil_iff.mpr
    intro u hu; simp [h u hu]
  rw [this]; rfl

/-- every unit whose DIEs `entry` lists from the top is a non-partial unit of the forest -/
theorem listed_units_not_partial (f : Forest) :
    ∀ u ∈ f.filter (fun u => !isPartial u), isPartial u = false ∧ u ∈ f := by
  intro u hu
  simp only [List.mem_filter] at hu
  exact ⟨by simpa using hu.2, hu.1⟩

/-! ### attributes -/

/-- the producer's invariant: everything it yields has a name that was not seen before, and the
    names it yields are pairwise distinct -/
theorem go_names (f : Forest) (fuel : Nat) : ∀ (as : List DAttr) (cur : Nat) (sec : Bool) (next : List Nat) (base : Nat)
    (seen : List Nat),
    ((attrsCookedGo f fuel as cur sec next base seen).map (·.2.name)).Nodup ∧
    ∀ x ∈ attrsCookedGo f fuel as cur sec next base seen, x.2.name ∉ seen := by
  induction fuel with
  | zero => intro as cur sec next base seen; simp [attrsCookedGo]
  | succ n ih =>
    intro as cur sec next base seen
    match as with
    | [] =>
      simp only [attrsCookedGo]
      split
      · simp
      · split
        · exact ih _ _ _ _ _ _
        · simp
    | a :: as =>
      simp only [attrsCookedGo]
      split
      · exact ih _ _ _ _ _ _
      · split
        · exact ih _ _ _ _ _ _
        · rename_i _ hns
          obtain ⟨h1, h2⟩ := ih as cur sec (schedule next base a) base (seen ++ [a.name])
          refine ⟨?_, ?_⟩
          · simp only [List.map_cons, List.nodup_cons]
            refine ⟨?_, h1⟩
            intro hm
            obtain ⟨x, hx, hxe⟩ := List.mem_map.mp hm
            have := h2 x hx
            simp [hxe] at this
          · intro x hx
            simp only [List.mem_cons] at hx
            rcases hx with rfl | hx
            · simpa using hns
            · have := h2 x hx
              intro hc; exact this (by simp [hc])

/-- **never a name twice** -/
theorem attribute_no_name_twice (f : Forest) (fuel : Nat) (d : Die) :
    ((attrsCooked f fuel d).map (·.2.name)).Nodup :=
  (go_names f fuel _ _ _ _ _ _).1

/-- once the producer is on a secondary DIE it stays there, and yields nothing that must not be
    integrated: **never DW_AT_sibling / DW_AT_declaration of a referenced DIE** -/
theorem go_secondary (f : Forest) (fuel : Nat) : ∀ (as : List DAttr) (cur : Nat) (next : List Nat) (base : Nat)
    (seen : List Nat), ∀ x ∈ attrsCookedGo f fuel as cur true next base seen,
      attrShouldBeIntegrated x.2.name = true := by
  induction fuel with
  | zero => intro as cur next base seen; simp [attrsCookedGo]
  | succ n ih =>
    intro as cur next base seen
    match as with
    | [] =>
      simp only [attrsCookedGo]
      split
      · simp
      · split
        · exact ih _ _ _ _ _
        · simp
    | a :: as =>
      simp only [attrsCookedGo, Bool.true_and]
      split
      · exact ih _ _ _ _ _
      · rename_i hint
        split
        · exact ih _ _ _ _ _
        · intro x hx
          simp only [List.mem_cons] at hx
          rcases hx with rfl | hx
          · simpa using hint
          · exact ih _ _ _ _ _ x hx

/-- what the own attributes schedule, in order -/
def scheduleAll (next : List Nat) (base : Nat) : List DAttr → List Nat
  | [] => next
  | a :: as => scheduleAll (schedule next base a) base as

/-- **own attributes first**: with distinct own names and budget for them, the producer yields the
    DIE's own attributes, in stored order and sitting on the DIE itself, and only then turns to
    the referenced DIEs (in secondary mode) -/
theorem go_own_first (f : Forest) : ∀ (as : List DAttr) (fuel : Nat) (cur : Nat) (next : List Nat) (base : Nat)
    (seen : List Nat),
    (as.map (·.name)).Nodup → (∀ a ∈ as, a.name ∉ seen) →
    attrsCookedGo f (fuel + as.length) as cur false next base seen =
      as.map (fun a => (cur, a)) ++
      attrsCookedGo f fuel [] cur false (scheduleAll next base as) base (seen ++ as.map (·.name)) := by
  intro as
  induction as with
  | nil => intro fuel cur next base seen _ _; simp [scheduleAll]
  | cons a as ih =>
    intro fuel cur next base seen hnd hns
    simp only [List.map_cons, List.nodup_cons] at hnd
    have ha : a.name ∉ seen := hns a (by simp)
    have : fuel + (a :: as).length = (fuel + as.length) + 1 := by simp; omega
    rw [this]
    simp only [attrsCookedGo, Bool.false_and]
    have hc : seen.contains a.name = false := by simpa using ha
    simp only [hc]
    simp only [Bool.false_eq_true, ↓reduceIte, List.map_cons, List.cons_append, scheduleAll]
    rw [ih fuel cur (schedule next base a) base (seen ++ [a.name]) hnd.2]
    · simp
    · intro b hb
      simp only [List.mem_append, List.mem_singleton, not_or]
      refine ⟨hns b (by simp [hb]), ?_⟩
      intro he
      exact hnd.1 (List.mem_map.mpr ⟨b, hb, he⟩)

theorem attribute_own_first (f : Forest) (fuel : Nat) (d : Die) (hnd : (d.attrs.map (·.name)).Nodup) :
    attrsCooked f (fuel + d.attrs.length) d =
      d.attrs.map (fun a => (d.off, a)) ++
      attrsCookedGo f fuel [] d.off false (scheduleAll [] 0 d.attrs) 0 (d.attrs.map (·.name)) := by
  unfold attrsCooked
  rw [go_own_first f d.attrs fuel d.off [] 0 [] hnd (by simp)]
  simp

/-- `find_attribute` (`@AT_x`, `?AT_x`, `name`): an own attribute wins -/
theorem findAttr_own (f : Forest) (fuel : Nat) (d : Die) (x : Nat) (a : DAttr)
    (h : d.attrs.find? (fun a => a.name == x) = some a) :
    findAttr f (fuel + 1) d x = some (d.off, a) := by
  simp [findAttr, h]

/-- `find_attribute` never integrates DW_AT_sibling / DW_AT_declaration -/
theorem findAttr_not_integrated (f : Forest) (fuel : Nat) (d : Die) (x : Nat)
    (h : d.attrs.find? (fun a => a.name == x) = none) (hx : attrShouldBeIntegrated x = false) :
    findAttr f (fuel + 1) d x = none := by
  simp [findAttr, h, hx]

/-- the specification is looked through before the abstract origin -/
theorem findAttr_prefers_specification (f : Forest) (fuel : Nat) (d : Die) (x : Nat) (r : Nat × DAttr)
    (sp : DAttr) (t : Die) (tref : Nat)
    (h : d.attrs.find? (fun a => a.name == x) = none) (hx : attrShouldBeIntegrated x = true)
    (hs : d.attrs.find? (fun a => a.name == DW_AT_specification) = some sp)
    (hr : sp.ref = some tref) (ht : findDie f tref = some t)
    (hf : findAttr f fuel t x = some r) :
    findAttr f (fuel + 1) d x = some r := by
  simp [findAttr, h, hx, hs, hr, ht, hf]

/-- the producer agrees: a specification scheduled by the current DIE is on top of the stack,
    whatever the stored order of the two references -/
theorem schedule_specification_on_top (next : List Nat) (base : Nat) (a : DAttr) (t : Nat)
    (ha : a.name = DW_AT_specification) (hr : a.ref = some t) :
    (schedule next base a).reverse.head? = some t := by
  simp [schedule, ha, hr]

theorem schedule_origin_below (next : List Nat) (base : Nat) (a : DAttr) (t : Nat)
    (ha : a.name = DW_AT_abstract_origin) (hr : a.ref = some t) (hb : base < next.length) :
    (schedule next base a).reverse.head? = next.reverse.head? := by
  have hne : (a.name == DW_AT_specification) = false := by rw [ha]; decide
  have hdrop : next.drop base ≠ [] := by
    intro h; have := List.drop_eq_nil_iff.mp h; omega
  have hs : schedule next base a = next.take base ++ [t] ++ next.drop base := by
    have hne' : ¬ (DW_AT_abstract_origin = DW_AT_specification) := by decide
    simp [schedule, hr, ha, hne']
  rw [hs]
  cases hh : (List.drop base next).reverse with
  | nil => exact absurd (by simpa using hh) hdrop
  | cons y ys =>
    have e1 : next.reverse = (y :: ys) ++ (List.take base next).reverse := by
      rw [← hh, ← List.reverse_append, List.take_append_drop]
    have e2 : (next.take base ++ [t] ++ next.drop base).reverse = (y :: ys) ++ ([t] ++ (next.take base).reverse) := by
      simp [List.reverse_append, hh]
    rw [e1, e2]; simp

/-- below a list of DIEs none of which is a resolvable import, the cooked walk is the raw list,
    every DIE carrying the chain it was reached along -/
theorem cookedBelow_raw (f : Forest) (chain : List Nat) : ∀ (ds : List Die) (fuel : Nat), ds.length ≤ fuel →
    (∀ d ∈ ds, importTarget f d = none) → cookedBelow f fuel ds chain = ds.map fun d => ⟨d, chain⟩ := by
  intro ds
  induction ds with
  | nil => intro fuel _ _; cases fuel <;> simp [cookedBelow]
  | cons d rest ih =>
    intro fuel hl hn
    cases fuel with
    | zero => simp at hl
    | succ n =>
      simp only [cookedBelow, hn d (by simp), List.map_cons, List.singleton_append, List.cons.injEq, true_and]
      exact ih n (by simp at hl; omega) (fun x hx => hn x (by simp [hx]))

/-- **without imports the cooked view of a unit is its raw view**: the root, then all DIEs below
    it in section order -/
theorem cooked_unit_is_raw (f : Forest) (u : DUnit) (fuel : Nat) (hl : (preorderList u.root.children).length ≤ fuel)
    (hn : ∀ d ∈ preorderList u.root.children, importTarget f d = none) :
    (cookedUnitEntries f fuel u).map (·.die) = u.root :: preorderList u.root.children := by
  simp only [cookedUnitEntries, List.map_cons, cookedBelow_raw f [] _ fuel hl hn, List.map_map]
  congr 1
  induction preorderList u.root.children with
  | nil => rfl
  | cons x xs ih => simp [ih]

/-- non-vacuity: a DIE with both references and an inherited attribute on both sides -/
example :
    let t1 : Die := .mk 20 0x34 false [{ name := 3, form := 8, ref := none }] []
    let t2 : Die := .mk 30 0x34 false [{ name := 3, form := 14, ref := none }] []
    let d : Die := .mk 40 0x34 false [{ name := DW_AT_abstract_origin, form := 19, ref := some 30 }, { name := DW_AT_specification, form := 19, ref := some 20 }] []
    let f : Forest := [⟨0, 4, .mk 11 0x11 true [] [t1, t2, d]⟩]
    (findAttr f 10 d 3).map (·.1) = some 20 ∧
    ((attrsCooked f 50 d).find? (fun x => x.2.name == 3)).map (·.1) = some 20 := by
  decide

end ZwVerif.C06
