import ZwVerif.Model.Cli
import Mathlib.Tactic.Ring
set_option linter.unusedSimpArgs false
set_option linter.unusedVariables false
/-!
# C19 (iteration order) — the `++arg_its[i]`-with-carry loop visits every combination of
argument values exactly once, in row-major order (last argument fastest)

`combos sizes (∏ sizes) zeros = allIdx sizes` for every list of positive sizes.
-/
namespace ZwVerif.C19Order
open ZwVerif.Cli

/-- all index tuples, first position slowest -/
def allIdx : List Nat → List (List Nat)
  | [] => [[]]
  | s :: ss => (List.range s).flatMap fun i => (allIdx ss).map (i :: ·)

def prod (l : List Nat) : Nat := l.foldr (· * ·) 1

@[simp] theorem prod_nil : prod [] = 1 := rfl
@[simp] theorem prod_cons (a : Nat) (l : List Nat) : prod (a :: l) = a * prod l := rfl

/-- a tuple is valid for the sizes: same length, every index below its size -/
def Valid : List Nat → List Nat → Prop
  | [], [] => True
  | s :: ss, i :: is => i < s ∧ Valid ss is
  | _, _ => False

/-- value of a tuple read with the LAST position least significant… on the reversed lists:
    little endian -/
def numLE : List Nat → List Nat → Nat
  | s :: ss, i :: is => i + s * numLE ss is
  | _, _ => 0

/-- the carry loop of `bump`, on the reversed lists -/
def go : List Nat → List Nat → Option (List Nat)
  | [], [] => none
  | s :: ss, i :: is => if i + 1 = s then (go ss is).map (0 :: ·) else some ((i + 1) :: is)
  | _, _ => none

theorem bump_eq (sizes idx : List Nat) : bump sizes idx = (go sizes.reverse idx.reverse).map List.reverse := by
  unfold bump
  have : ∀ a b, bump.go a b = go a b := by
    intro a
    induction a with
    | nil => intro b; cases b <;> simp [bump.go, go]
    | cons s ss ih =>
      intro b
      cases b with
      | nil => simp [bump.go, go]
      | cons i is => simp [bump.go, go, ih]
  show Option.map List.reverse (bump.go sizes.reverse idx.reverse) = _
  rw [this]

theorem numLE_lt (ss is : List Nat) (h : Valid ss is) : numLE ss is < prod ss := by
  induction ss generalizing is with
  | nil => cases is <;> simp [Valid, numLE] at h ⊢
  | cons s ss ih =>
    cases is with
    | nil => simp [Valid] at h
    | cons i is =>
      simp only [Valid] at h
      have := ih is h.2
      simp only [numLE, prod_cons]
      calc i + s * numLE ss is < s + s * numLE ss is := by omega
        _ = s * (numLE ss is + 1) := by ring
        _ ≤ s * prod ss := Nat.mul_le_mul_left s this

/-- the carry loop is `+ 1` on the mixed-radix number, and fails exactly at the last tuple -/
theorem go_spec (ss is : List Nat) (h : Valid ss is) :
    (numLE ss is + 1 < prod ss → ∃ is', go ss is = some is' ∧ Valid ss is' ∧ numLE ss is' = numLE ss is + 1) ∧
    (numLE ss is + 1 = prod ss → go ss is = none) := by
  induction ss generalizing is with
  | nil =>
    cases is with
    | nil => simp [numLE, go]
    | cons i is => simp [Valid] at h
  | cons s ss ih =>
    cases is with
    | nil => simp [Valid] at h
    | cons i is =>
      simp only [Valid] at h
      obtain ⟨hi, hv⟩ := h
      have hlt := numLE_lt ss is hv
      obtain ⟨ih1, ih2⟩ := ih is hv
      simp only [numLE, prod_cons, go]
      by_cases hc : i + 1 = s
      · simp only [hc, ↓reduceIte]
        constructor
        · intro hnum
          have hn : numLE ss is + 1 < prod ss := by
            by_contra hge
            have he : numLE ss is + 1 = prod ss := by omega
            have : i + s * numLE ss is + 1 = s * prod ss := by rw [← he]; rw [← hc]; ring
            omega
          obtain ⟨is', hgo, hv', hnum'⟩ := ih1 hn
          refine ⟨0 :: is', by simp [hgo], ⟨by omega, hv'⟩, ?_⟩
          simp only [numLE, hnum']
          rw [← hc]; ring
        · intro hnum
          have he : numLE ss is + 1 = prod ss := by
            have h1 : s * (numLE ss is + 1) = s * prod ss := by rw [← hnum]; rw [← hc]; ring
            exact Nat.eq_of_mul_eq_mul_left (by omega) h1
          simp [ih2 he]
      · simp only [hc, ↓reduceIte]
        constructor
        · intro _
          exact ⟨(i + 1) :: is, rfl, ⟨by omega, hv⟩, by simp only [numLE]; ring⟩
        · intro hnum
          exfalso
          have : i + s * numLE ss is + 1 < s * prod ss := by
            calc i + s * numLE ss is + 1 < s + s * numLE ss is := by omega
              _ = s * (numLE ss is + 1) := by ring
              _ ≤ s * prod ss := Nat.mul_le_mul_left s hlt
          omega

/-- a valid tuple is determined by its number -/
theorem numLE_inj (ss a b : List Nat) (ha : Valid ss a) (hb : Valid ss b) (h : numLE ss a = numLE ss b) : a = b := by
  induction ss generalizing a b with
  | nil => cases a <;> cases b <;> simp [Valid] at ha hb ⊢
  | cons s ss ih =>
    cases a with
    | nil => simp [Valid] at ha
    | cons i is =>
      cases b with
      | nil => simp [Valid] at hb
      | cons j js =>
        simp only [Valid] at ha hb
        simp only [numLE] at h
        have hs : 0 < s := by omega
        have h1 : i = j := by
          have e1 : (i + s * numLE ss is) % s = i := by rw [Nat.add_mul_mod_self_left, Nat.mod_eq_of_lt ha.1]
          have e2 : (j + s * numLE ss js) % s = j := by rw [Nat.add_mul_mod_self_left, Nat.mod_eq_of_lt hb.1]
          rw [← e1, ← e2, h]
        subst h1
        have h2 : numLE ss is = numLE ss js := by
          have : s * numLE ss is = s * numLE ss js := by omega
          exact Nat.eq_of_mul_eq_mul_left hs this
        rw [ih is js ha.2 hb.2 h2]

/-! ### the loop, on reversed tuples -/

/-- `combos` with the tuples kept reversed -/
def combosR (rs : List Nat) : Nat → List Nat → List (List Nat)
  | 0, _ => []
  | fuel + 1, ri => ri :: (match go rs ri with
                           | some ri' => combosR rs fuel ri'
                           | none => [])

theorem combos_eq (sizes : List Nat) (fuel : Nat) (idx : List Nat) :
    combos sizes fuel idx = (combosR sizes.reverse fuel idx.reverse).map List.reverse := by
  induction fuel generalizing idx with
  | zero => simp [combos, combosR]
  | succ n ih =>
    simp only [combos, combosR, List.map_cons, List.reverse_reverse, bump_eq]
    congr 1
    cases hg : go sizes.reverse idx.reverse with
    | none => simp
    | some r => simp [ih r.reverse]

/-- from a valid tuple numbered `k`, `fuel` steps enumerate the numbers `k, k+1, …` while they
    last -/
theorem combosR_nums (rs : List Nat) (fuel : Nat) : ∀ (ri : List Nat), Valid rs ri → numLE rs ri + fuel ≤ prod rs →
    (combosR rs fuel ri).map (numLE rs) = (List.range fuel).map (numLE rs ri + ·) ∧
    ∀ x ∈ combosR rs fuel ri, Valid rs x := by
  induction fuel with
  | zero => intro ri _ _; simp [combosR]
  | succ n ih =>
    intro ri hv hle
    obtain ⟨g1, g2⟩ := go_spec rs ri hv
    simp only [combosR]
    by_cases hlast : numLE rs ri + 1 = prod rs
    · have hn : n = 0 := by omega
      subst hn
      simp [g2 hlast, hv]
    · obtain ⟨ri', hgo, hv', hnum⟩ := g1 (by omega)
      obtain ⟨i1, i2⟩ := ih ri' hv' (by omega)
      simp only [hgo]
      constructor
      · rw [List.map_cons, i1, List.range_succ_eq_map, List.map_cons, List.map_map]
        simp only [Nat.add_zero, List.cons.injEq, true_and]
        apply List.map_congr_left
        intro a _
        simp only [Function.comp, hnum]; omega
      · intro x hx
        simp only [List.mem_cons] at hx
        rcases hx with rfl | hx
        · exact hv
        · exact i2 x hx

/-! ### the row-major enumeration has the same numbers -/

theorem valid_append (ss : List Nat) (s : Nat) (is : List Nat) (i : Nat) (h : Valid ss is) (hi : i < s) :
    Valid (ss ++ [s]) (is ++ [i]) := by
  induction ss generalizing is with
  | nil => cases is <;> simp [Valid] at h ⊢; exact hi
  | cons a ss ih =>
    cases is with
    | nil => simp [Valid] at h
    | cons j js => simp only [Valid] at h; exact ⟨h.1, ih js h.2⟩

theorem numLE_append (ss : List Nat) (s : Nat) (is : List Nat) (i : Nat) (h : Valid ss is) :
    numLE (ss ++ [s]) (is ++ [i]) = numLE ss is + prod ss * i := by
  induction ss generalizing is with
  | nil => cases is <;> simp [Valid] at h ⊢; simp [numLE]
  | cons a ss ih =>
    cases is with
    | nil => simp [Valid] at h
    | cons j js =>
      simp only [Valid] at h
      simp only [List.cons_append, numLE, prod_cons, ih js h.2]; ring

theorem prod_append (a b : List Nat) : prod (a ++ b) = prod a * prod b := by
  induction a with
  | nil => simp
  | cons x xs ih => simp [ih]; ring

theorem prod_reverse (l : List Nat) : prod l.reverse = prod l := by
  induction l with
  | nil => rfl
  | cons x xs ih => simp [prod_append, ih]; ring

theorem flatMap_congr' {α β : Type} {l : List α} {f g : α → List β} (h : ∀ a ∈ l, f a = g a) :
    l.flatMap f = l.flatMap g := by
  induction l with
  | nil => rfl
  | cons x xs ih =>
    simp only [List.flatMap_cons]
    rw [h x (by simp), ih (fun a ha => h a (by simp [ha]))]

/-- every tuple of `allIdx`, reversed, is valid for the reversed sizes, and their numbers are
    0, 1, 2, … in order -/
theorem allIdx_nums (sizes : List Nat) :
    (∀ x ∈ allIdx sizes, Valid sizes.reverse x.reverse) ∧
    (allIdx sizes).map (fun x => numLE sizes.reverse x.reverse) = List.range (prod sizes) := by
  induction sizes with
  | nil => simp [allIdx, Valid, numLE]
  | cons s ss ih =>
    obtain ⟨ihv, ihn⟩ := ih
    constructor
    · intro x hx
      simp only [allIdx, List.mem_flatMap, List.mem_range, List.mem_map] at hx
      obtain ⟨i, hi, y, hy, rfl⟩ := hx
      simp only [List.reverse_cons]
      exact valid_append _ _ _ _ (ihv y hy) hi
    · simp only [allIdx, List.map_flatMap, List.map_map, prod_cons]
      have hrow : ∀ i, i < s → List.map ((fun x => numLE (s :: ss).reverse x.reverse) ∘ fun x => i :: x) (allIdx ss) =
          (List.range (prod ss)).map (fun k => k + prod ss * i) := by
        intro i hi
        rw [← ihn, List.map_map]
        apply List.map_congr_left
        intro y hy
        simp only [Function.comp, List.reverse_cons]
        rw [numLE_append _ _ _ _ (ihv y hy), prod_reverse]
      -- range (s * p) is the concatenation of the s rows
      have hcat : ∀ n, n ≤ s → (List.range n).flatMap (fun i => (List.range (prod ss)).map (fun k => k + prod ss * i)) =
          List.range (n * prod ss) := by
        intro n
        induction n with
        | zero => simp
        | succ m ihm =>
          intro hm
          rw [List.range_succ, List.flatMap_append, ihm (by omega)]
          simp only [List.flatMap_cons, List.flatMap_nil, List.append_nil]
          have : (m + 1) * prod ss = m * prod ss + prod ss := by ring
          rw [this, List.range_add]
          congr 1
          apply List.map_congr_left
          intro k _; ring
      rw [← hcat s (Nat.le_refl s)]
      apply flatMap_congr'
      intro i hi
      exact hrow i (List.mem_range.mp hi)

theorem valid_zeros (rs : List Nat) (h : ∀ s ∈ rs, 0 < s) : Valid rs (rs.map fun _ => 0) ∧ numLE rs (rs.map fun _ => 0) = 0 := by
  induction rs with
  | nil => simp [Valid, numLE]
  | cons s ss ih =>
    have := ih (fun x hx => h x (by simp [hx]))
    simp only [List.map_cons, Valid, numLE]
    exact ⟨⟨h s (by simp), this.1⟩, by rw [this.2]; simp⟩

theorem eq_of_nums (rs : List Nat) (a b : List (List Nat)) (ha : ∀ x ∈ a, Valid rs x) (hb : ∀ x ∈ b, Valid rs x)
    (h : a.map (numLE rs) = b.map (numLE rs)) : a = b := by
  induction a generalizing b with
  | nil => cases b <;> simp at h ⊢
  | cons x xs ih =>
    cases b with
    | nil => simp at h
    | cons y ys =>
      simp only [List.map_cons, List.cons.injEq] at h
      have e := numLE_inj rs x y (ha x (by simp)) (hb y (by simp)) h.1
      rw [e, ih ys (fun z hz => ha z (by simp [hz])) (fun z hz => hb z (by simp [hz])) h.2]

/-- **the bump loop visits every combination exactly once, in row-major order** -/
theorem combos_row_major (sizes : List Nat) (hpos : ∀ s ∈ sizes, 0 < s) :
    combos sizes (prod sizes) (sizes.map fun _ => 0) = allIdx sizes := by
  rw [combos_eq]
  have hz := valid_zeros sizes.reverse (fun s hs => hpos s (by simpa using hs))
  have hrev : (sizes.map fun _ => 0).reverse = sizes.reverse.map fun _ => 0 := by
    rw [List.map_reverse]
  rw [hrev]
  obtain ⟨c1, c2⟩ := combosR_nums sizes.reverse (prod sizes) _ hz.1 (by rw [hz.2, prod_reverse]; omega)
  obtain ⟨a1, a2⟩ := allIdx_nums sizes
  have hnum : (combosR sizes.reverse (prod sizes) (sizes.reverse.map fun _ => 0)).map (numLE sizes.reverse) =
      ((allIdx sizes).map List.reverse).map (numLE sizes.reverse) := by
    rw [c1, hz.2, List.map_map]
    have : (fun x => numLE sizes.reverse x.reverse) = numLE sizes.reverse ∘ List.reverse := rfl
    rw [← this, a2]
    simp [hz.2]
  have := eq_of_nums sizes.reverse _ _ c2 (by
    intro x hx
    obtain ⟨y, hy, rfl⟩ := List.mem_map.mp hx
    exact a1 y hy) hnum
  rw [this, List.map_map]
  have hid : (List.reverse ∘ List.reverse : List Nat → List Nat) = id := by
    funext x; simp
  rw [hid, List.map_id]

/-- the number of iterations `main` runs is the number of combinations -/
theorem prod_eq_foldl (l : List Nat) : l.foldl (· * ·) 1 = prod l := by
  have : ∀ a, l.foldl (· * ·) a = a * prod l := by
    induction l with
    | nil => intro a; simp
    | cons x xs ih => intro a; simp [List.foldl_cons, ih]; ring
  simpa using this 1

theorem allIdx_length (sizes : List Nat) : (allIdx sizes).length = prod sizes := by
  have := congrArg List.length (allIdx_nums sizes).2
  simpa using this

/-- as `main` calls it: the iteration count is the left fold it computes -/
theorem main_iterates_row_major (sizes : List Nat) (hpos : ∀ s ∈ sizes, 0 < s) :
    combos sizes (sizes.foldl (· * ·) 1) (sizes.map fun _ => 0) = allIdx sizes := by
  rw [prod_eq_foldl]; exact combos_row_major sizes hpos

example : combos [2, 3] 6 [0, 0] = [[0, 0], [0, 1], [0, 2], [1, 0], [1, 1], [1, 2]] := by decide

end ZwVerif.C19Order
