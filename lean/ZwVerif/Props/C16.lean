import ZwVerif.Lemmas.Coverage
set_option linter.unusedSimpArgs false
set_option linter.unusedVariables false
/-!
# C16 — address sets behave as mathematical sets of addresses

`mem x c` is the set denoted by a coverage; `WF` is the canonical form (ascending,
disjoint, non-adjacent, non-empty ranges).  Every word preserves `WF` and has
the set-theoretic meaning the documentation gives; two canonical coverages are
equal exactly when they denote the same set, so `value_aset::cmp` (structural)
is set equality.  Universe: natural numbers (addresses below 2^64-1, no
wrap-around) — see DESIGN.md.
-/
namespace ZwVerif.C16
open ZwVerif Cov

/-! ### construction -/

theorem aset_either_order (a b : Nat) : wAset a b = wAset b a := by
  unfold wAset; rw [Nat.min_comm, Nat.max_comm]

theorem aset_mem (a b x : Nat) : mem x (wAset a b) ↔ (min a b ≤ x ∧ x < max a b) := by
  unfold wAset; rw [mem_add]; simp; omega

theorem aset_WF (a b : Nat) : WF (wAset a b) := WF_add _ _ _ trivial

/-! ### union, difference, intersection -/

theorem add_cst_is_insert (c : Cov) (a x : Nat) : mem x (wAddCst c a) ↔ x = a ∨ mem x c := by
  unfold wAddCst; rw [mem_add]
  by_cases h : mem x c <;> simp [h]; omega

theorem add_is_union (a b : Cov) (x : Nat) : mem x (wAddAset a b) ↔ mem x a ∨ mem x b :=
  mem_addAll x a b

theorem sub_cst_is_erase (c : Cov) (h : WF c) (a x : Nat) :
    mem x (wSubCst c a) ↔ mem x c ∧ x ≠ a := by
  unfold wSubCst; rw [mem_remove _ _ _ _ h]
  by_cases h : mem x c <;> simp [h]; omega

theorem sub_is_difference (a b : Cov) (h : WF a) (x : Nat) :
    mem x (wSubAset a b) ↔ mem x a ∧ ¬ mem x b :=
  mem_removeAll x a b h

theorem overlap_fold (a : Cov) (x : Nat) (b acc : Cov) :
    mem x (b.foldl (fun acc r => addAll acc (intersect r.1 r.2 a)) acc) ↔
      mem x acc ∨ (mem x a ∧ mem x b) := by
  induction b generalizing acc with
  | nil => simp
  | cons r rest ih =>
    obtain ⟨s, l⟩ := r
    simp only [List.foldl_cons]
    rw [ih, mem_addAll, mem_intersect, mem_cons]
    by_cases h1 : mem x acc <;> by_cases h2 : mem x a <;> by_cases h3 : mem x rest <;>
      simp [h1, h2, h3]

theorem overlap_is_intersection (a b : Cov) (x : Nat) :
    mem x (wOverlap a b) ↔ mem x a ∧ mem x b := by
  unfold wOverlap; rw [overlap_fold]; simp

theorem overlap_fold_WF (a : Cov) (b acc : Cov) (h : WF acc) :
    WF (b.foldl (fun acc r => addAll acc (intersect r.1 r.2 a)) acc) := by
  induction b generalizing acc with
  | nil => exact h
  | cons r rest ih => exact ih _ (WF_addAll _ _ h)

/-- every word yields a canonical coverage when given canonical ones -/
theorem words_preserve_WF (a b : Cov) (ha : WF a) (x : Nat) :
    WF (wAddCst a x) ∧ WF (wAddAset a b) ∧ WF (wSubCst a x) ∧ WF (wSubAset a b) ∧
    WF (wOverlap a b) :=
  ⟨WF_add _ _ _ ha, WF_addAll _ _ ha, WF_remove _ _ _ ha, WF_removeAll _ _ ha,
   overlap_fold_WF a b [] trivial⟩

/-! ### predicates -/

theorem contains_cst_iff (c : Cov) (h : WF c) (a : Nat) : wContainsCst c a = true ↔ mem a c := by
  unfold wContainsCst
  rw [isCovered_iff a 1 c (by omega) h]
  constructor
  · intro hh; exact hh a (by omega) (by omega)
  · intro hm x h1 h2; have : x = a := by omega
    subst this; exact hm

theorem contains_aset_iff (a b : Cov) (ha : WF a) (hb : WF b) :
    wContainsAset a b = true ↔ ∀ x, mem x b → mem x a := by
  unfold wContainsAset
  rw [List.all_eq_true]
  constructor
  · intro hall x ⟨r, hr, h1, h2⟩
    have hl : 0 < r.2 := by omega
    exact (isCovered_iff r.1 r.2 a hl ha).mp (hall r hr) x h1 h2
  · intro hsub r hr
    have hl : 0 < r.2 := by
      clear hsub
      induction b with
      | nil => simp at hr
      | cons hd rest ih =>
        obtain ⟨s, l⟩ := hd
        simp at hr
        rcases hr with rfl | hr
        · exact hb.1
        · exact ih hb.2.2 hr
    rw [isCovered_iff r.1 r.2 a hl ha]
    intro x h1 h2
    exact hsub x ⟨r, hr, h1, h2⟩

theorem overlaps_iff (a b : Cov) : wOverlaps a b = true ↔ ∃ x, mem x a ∧ mem x b := by
  unfold wOverlaps
  rw [List.any_eq_true]
  constructor
  · rintro ⟨r, hr, ho⟩
    obtain ⟨x, h1, h2, hm⟩ := (isOverlap_iff r.1 r.2 a).mp ho
    exact ⟨x, hm, r, hr, h1, h2⟩
  · rintro ⟨x, hma, r, hr, h1, h2⟩
    exact ⟨r, hr, (isOverlap_iff r.1 r.2 a).mpr ⟨x, h1, h2, hma⟩⟩

theorem empty_iff (c : Cov) (h : WF c) : wEmpty c = true ↔ ∀ x, ¬ mem x c := by
  unfold wEmpty
  cases c with
  | nil => simp
  | cons hd rest =>
    obtain ⟨s, l⟩ := hd
    simp only [List.isEmpty_cons, Bool.false_eq_true, false_iff]
    intro hall
    exact hall s (by rw [mem_cons]; left; have := h.1; omega)

/-! ### equality is set equality -/

theorem cmp_eq_iff_same_set (a b : Cov) (ha : WF a) (hb : WF b) :
    cmp a b = 0 ↔ ∀ x, mem x a ↔ mem x b := by
  rw [cmp_eq_zero]
  constructor
  · intro h; subst h; intro x; exact Iff.rfl
  · exact canonical_unique a b ha hb

/-! ### enumeration, cardinality, bounds -/

theorem mem_elem (c : Cov) (x : Nat) : x ∈ wElem c ↔ mem x c := by
  unfold wElem mem
  simp only [List.mem_flatMap, List.mem_map, List.mem_range]
  constructor
  · rintro ⟨r, hr, i, hi, rfl⟩; exact ⟨r, hr, by omega, by omega⟩
  · rintro ⟨r, hr, h1, h2⟩; exact ⟨r, hr, x - r.1, by omega, by omega⟩

theorem length_is_card (c : Cov) : (wElem c).length = wLength c := by
  unfold wElem wLength
  induction c with
  | nil => simp
  | cons hd rest ih => simp [List.flatMap_cons, ih]

theorem range_run_sorted (s l : Nat) : ((List.range l).map (s + ·)).Pairwise (· < ·) := by
  rw [List.pairwise_map]
  have := List.pairwise_lt_range (n := l)
  exact this.imp (by intro a b h; omega)

theorem elem_ascending (c : Cov) (h : WF c) : (wElem c).Pairwise (· < ·) := by
  induction c with
  | nil => simp [wElem]
  | cons hd rest ih =>
    obtain ⟨s, l⟩ := hd
    obtain ⟨hl, hsep, hw⟩ := h
    have e : wElem ((s, l) :: rest) = (List.range l).map (s + ·) ++ wElem rest := by
      simp [wElem, List.flatMap_cons]
    rw [e, List.pairwise_append]
    refine ⟨range_run_sorted s l, ih hw, ?_⟩
    intro a ha b hb
    simp only [List.mem_map, List.mem_range] at ha
    obtain ⟨i, hi, rfl⟩ := ha
    have := mem_lb hsep ((mem_elem rest b).mp hb)
    omega

theorem relem_is_reverse (c : Cov) : wRelem c = (wElem c).reverse := rfl

theorem low_is_min (c : Cov) (h : WF c) (s : Nat) (hs : wLow c = some s) :
    mem s c ∧ ∀ x, mem x c → s ≤ x := by
  cases c with
  | nil => simp [wLow] at hs
  | cons hd rest =>
    obtain ⟨a, n⟩ := hd
    simp [wLow] at hs; subst hs
    exact ⟨by rw [mem_cons]; left; have := h.1; omega, fun x hx => WF_head_min h hx⟩

theorem high_is_sup (c : Cov) (h : WF c) (e : Nat) (he : wHigh c = some e) :
    (∀ x, mem x c → x < e) ∧ 0 < e ∧ mem (e - 1) c := by
  induction c with
  | nil => simp [wHigh] at he
  | cons hd rest ih =>
    obtain ⟨a, n⟩ := hd
    obtain ⟨hn, hsep, hw⟩ := h
    cases rest with
    | nil =>
      simp [wHigh] at he; subst he
      refine ⟨?_, by omega, ?_⟩
      · intro x hx; simp at hx; omega
      · simp; omega
    | cons hd' rest' =>
      have he' : wHigh (hd' :: rest') = some e := by
        simp [wHigh, List.getLast?_cons_cons] at he ⊢; exact he
      obtain ⟨h1, h2, h3⟩ := ih hw he'
      refine ⟨?_, h2, ?_⟩
      · intro x hx; rw [mem_cons] at hx
        rcases hx with hx | hx
        · have := mem_lb hsep h3; omega
        · exact h1 x hx
      · rw [mem_cons]; right; exact h3

theorem range_runs (c : Cov) (h : WF c) : (wRange c).flatten = c ∧ ∀ r ∈ wRange c, ∃ p ∈ c, r = [p] := by
  have hpos : ∀ p ∈ c, 0 < p.2 := by
    intro p hp
    induction c with
    | nil => simp at hp
    | cons hd rest ih =>
      obtain ⟨s, l⟩ := hd
      simp at hp
      rcases hp with rfl | hp
      · exact h.1
      · exact ih h.2.2 hp
  have hone : ∀ p ∈ c, add p.1 p.2 [] = [p] := by
    intro p hp; have := hpos p hp
    unfold add; simp [addPos]; omega
  constructor
  · unfold wRange
    clear h hpos
    induction c with
    | nil => simp
    | cons hd rest ih =>
      simp only [List.map_cons, List.flatten_cons]
      rw [hone hd (by simp), ih (fun p hp => hone p (by simp [hp]))]; simp
  · intro r hr
    unfold wRange at hr
    simp only [List.mem_map] at hr
    obtain ⟨p, hp, rfl⟩ := hr
    exact ⟨p, hp, hone p hp⟩

/-! Non-vacuity and the formerly failing input (F9): `0 10 aset 2 4 aset overlap`. -/
example : WF (wAset 0 10) ∧ WF (wAset 2 4) := ⟨aset_WF _ _, aset_WF _ _⟩
example : wOverlap (wAset 0 10) (wAset 2 4) = [(2, 2)] := by decide
example : wSubAset (wAset 0 10) (wAset 2 4) = [(0, 2), (4, 6)] := by decide
example : cmp (wAddAset (wAset 0 2) (wAset 2 4)) (wAset 4 0) = 0 := by decide

end ZwVerif.C16
