import ZwVerif.Lemmas.Int64Div
/-!
# C08 — integer arithmetic is exact over [-2^63, 2^64-1] or reports an error

Property theorems only; helper lemmas live in `ZwVerif/Lemmas/Int64*.lean`.
All statements are for *every* well-formed pair of representations (every
64-bit word with either signedness tag), i.e. all 2^130 operand pairs, including
both representations of each non-negative value below 2^63.

`Exact res x` (Lemmas/Int64.lean):  `res = .ok r` with `r` well formed and
`den r = x`, or `res = .error .overflow` and `x ∉ [-2^63, 2^64)`.  Since
`den` of a well-formed value is always in range (`den_inRange`) this is an
*iff*: the exact value is yielded exactly when it is representable.
-/
namespace ZwVerif.C08
open ZwVerif ZInt

/-- Reading of `Exact` as the two directions the property states. -/
theorem exact_iff {res : Except IntErr ZInt} {x : Int} (h : Exact res x) :
    (InRange x → ∃ r, res = .ok r ∧ r.WF ∧ r.den = x) ∧
    (¬ InRange x → res = .error .overflow) := by
  cases res with
  | ok r =>
    obtain ⟨hw, hd⟩ := h
    exact ⟨fun _ => ⟨r, rfl, hw, hd⟩, fun hn => absurd (hd ▸ den_inRange hw) hn⟩
  | error e =>
    obtain ⟨he, hn⟩ := h
    exact ⟨fun hr => absurd hr hn, fun _ => by rw [he]⟩

theorem add_exact (a b : ZInt) (ha : a.WF) (hb : b.WF) : Exact (add a b) (a.den + b.den) :=
  ZInt.add_exact a b ha hb

theorem sub_exact (a b : ZInt) (ha : a.WF) (hb : b.WF) : Exact (sub a b) (a.den - b.den) :=
  ZInt.sub_exact a b ha hb

theorem mul_exact (a b : ZInt) (ha : a.WF) (hb : b.WF) : Exact (mul a b) (a.den * b.den) :=
  ZInt.mul_exact a b ha hb

theorem neg_exact (a : ZInt) (ha : a.WF) : Exact (neg a) (- a.den) :=
  ZInt.neg_exact a ha

/-- Division by zero is an error; otherwise the floor quotient, exactly. -/
theorem div_floor (a b : ZInt) (ha : a.WF) (hb : b.WF) :
    if b.den = 0 then div a b = .error .div0 else Exact (div a b) (Int.fdiv a.den b.den) :=
  ZInt.div_floor a b ha hb

/-- Remainder with the divisor's sign (`Int.fmod`), which is always representable. -/
theorem mod_floor (a b : ZInt) (ha : a.WF) (hb : b.WF) :
    if b.den = 0 then mod a b = .error .div0 else Exact (mod a b) (Int.fmod a.den b.den) :=
  ZInt.mod_floor a b ha hb

/-- `mod` never reports overflow: the remainder lies between 0 and the divisor. -/
theorem mod_never_overflows (a b : ZInt) (ha : a.WF) (hb : b.WF) (h0 : b.den ≠ 0) :
    ∃ r, mod a b = .ok r ∧ r.WF ∧ r.den = Int.fmod a.den b.den := by
  have h := ZInt.mod_floor a b ha hb
  simp only [DivSpec, h0, if_false] at h
  cases hm : mod a b with
  | ok r => rw [hm] at h; exact ⟨r, rfl, h.1, h.2⟩
  | error e =>
    rw [hm] at h
    exfalso
    apply h.2
    have hbr := den_inRange hb
    unfold InRange at *
    rcases Int.lt_or_gt_of_ne h0 with hneg | hpos
    · have := fmod_bounds_neg a.den b.den hneg
      omega
    · have h1 := Int.fmod_nonneg_of_pos a.den hpos
      have h2 := Int.fmod_lt_of_pos a.den hpos
      omega

/-- All six comparisons agree with the mathematical order. -/
theorem lt_iff (a b : ZInt) (ha : a.WF) (hb : b.WF) : lt a b = true ↔ a.den < b.den :=
  ZInt.lt_iff a b ha hb

theorem le_iff (a b : ZInt) (ha : a.WF) (hb : b.WF) : le a b = true ↔ a.den ≤ b.den := by
  have h1 := ZInt.lt_iff a b ha hb
  have h2 := ZInt.lt_iff b a hb ha
  unfold le
  cases h : lt a b <;> cases h' : lt b a <;> simp_all <;> omega

theorem gt_iff (a b : ZInt) (ha : a.WF) (hb : b.WF) : gt a b = true ↔ a.den > b.den := by
  have := le_iff a b ha hb
  unfold gt
  cases h : le a b <;> simp_all <;> omega

theorem ge_iff (a b : ZInt) (ha : a.WF) (hb : b.WF) : ge a b = true ↔ a.den ≥ b.den := by
  have h1 := ZInt.lt_iff a b ha hb
  unfold ge
  cases h : lt a b <;> simp_all <;> omega

theorem eq_iff (a b : ZInt) (ha : a.WF) (hb : b.WF) : beq' a b = true ↔ a.den = b.den := by
  have h1 := ZInt.lt_iff a b ha hb
  have h2 := ZInt.lt_iff b a hb ha
  unfold beq'
  cases h : lt a b <;> cases h' : lt b a <;> simp_all <;> omega

theorem ne_iff (a b : ZInt) (ha : a.WF) (hb : b.WF) : ne a b = true ↔ a.den ≠ b.den := by
  have := eq_iff a b ha hb
  unfold ne
  cases h : beq' a b <;> simp_all

/-! Non-vacuity: the hypotheses are met by concrete non-trivial states, and the
    formerly failing inputs (F3) now come out exact in the model. -/
example : (⟨2^63, true⟩ : ZInt).WF ∧ (⟨2^64 - 1, false⟩ : ZInt).WF := by decide
-- INT64_MIN div UINT64_MAX = -1
example : div ⟨2^63, true⟩ ⟨2^64 - 1, false⟩ = .ok ⟨2^64 - 1, true⟩ := by decide
-- -1 mod UINT64_MAX = 2^64 - 2
example : mod ⟨2^64 - 1, true⟩ ⟨2^64 - 1, false⟩ = .ok ⟨2^64 - 2, false⟩ := by decide
-- -(signed 5) = -5
example : neg ⟨5, true⟩ = .ok ⟨2^64 - 5, true⟩ := by decide
-- UINT64_MAX + 1 overflows, INT64_MIN - 1 overflows
example : add ⟨2^64 - 1, false⟩ ⟨1, true⟩ = .error .overflow := by decide
example : sub ⟨2^63, true⟩ ⟨1, false⟩ = .error .overflow := by decide

end ZwVerif.C08
