import ZwVerif.Model.DieIt
set_option linter.unusedSimpArgs false
set_option linter.unusedVariables false
/-!
# C06 (mechanism) — the cooked DIE producer inlines imports in place, recursively

`producer_refines`: draining the die_it_producer machine over a range of DIEs yields exactly the
`Cooked` view of that range — every DIE that is not a resolvable import, with the chain of
imports it was reached through, and in place of every resolvable import the cooked view of the
unit it imports — for `entry` (ranges of all DIEs) and `child` (ranges of children) alike, for
any nesting.  `cookedBelow_of_cooked` / `cookedChildren_of_cooked` say the functions of
Model/Dwarf.lean compute that view.
-/
namespace ZwVerif.DieIt
open ZwVerif.Dwarf

theorem drain_lift (f : Forest) (range : Die → List Die) (st st0 : St)
    (h : ∀ r st', Next f range st0 r st' → Next f range st r st') (out : List CDie) (st' : St)
    (hd : Drain f range st0 out st') : Drain f range st out st' := by
  cases hd with
  | nil hn => exact Drain.nil (h _ _ hn)
  | cons hn hr => exact Drain.cons (h _ _ hn) hr

/-- walking a range on top of the stack yields its cooked view, then goes on with what is below -/
theorem range_drain (f : Forest) (range : Die → List Die) (ds : List Die) (chain : List Nat) (out : List CDie)
    (hc : Cooked f range ds chain out) :
    ∀ (rest : List (List Die)) (outs' : List CDie) (st' : St),
      Drain f range { stack := rest, chain := chain.tail } outs' st' →
      Drain f range { stack := ds :: rest, chain := chain } (out ++ outs') st' := by
  induction hc with
  | nil =>
    intro rest outs' st' hd
    exact drain_lift f range _ _ (fun r s hn => Next.dropFinished rfl hn) _ _ hd
  | @plain d ds chain out hn _ ih =>
    intro rest outs' st' hd
    exact Drain.cons (Next.yield (st := { stack := (d :: ds) :: rest, chain := chain }) rfl hn) (ih rest outs' st' hd)
  | @imp d root ds chain out1 out2 hi _ _ ih1 ih2 =>
    intro rest outs' st' hd
    have h2 := ih2 rest outs' st' hd
    have h1 := ih1 (ds :: rest) (out2 ++ outs') st' (by simpa using h2)
    rw [List.append_assoc]
    exact drain_lift f range _ _ (fun r s hn => Next.importUnit (st := { stack := (d :: ds) :: rest, chain := chain }) rfl hi hn) _ _ h1

/-- **the producer yields the cooked view of its range and then ends** -/
theorem producer_refines (f : Forest) (range : Die → List Die) (ds : List Die) (chain : List Nat) (out : List CDie)
    (hc : Cooked f range ds chain out) :
    Drain f range { stack := [ds], chain := chain } out { stack := [], chain := chain.tail } := by
  have := range_drain f range ds chain out hc [] [] { stack := [], chain := chain.tail } (Drain.nil (Next.empty rfl))
  simpa using this

/-- nothing that is yielded is a resolvable import, and every chain extends the starting one -/
theorem cooked_no_import (f : Forest) (range : Die → List Die) (ds : List Die) (chain : List Nat) (out : List CDie)
    (hc : Cooked f range ds chain out) :
    ∀ c ∈ out, importTarget f c.die = none ∧ ∃ pre, c.chain = pre ++ chain := by
  induction hc with
  | nil => intro c hc; simp at hc
  | plain hn _ ih =>
    intro c hc
    simp only [List.mem_cons] at hc
    rcases hc with rfl | hc
    · exact ⟨hn, [], by simp⟩
    · exact ih c hc
  | @imp d root ds chain out1 out2 _ _ _ ih1 ih2 =>
    intro c hc
    simp only [List.mem_append] at hc
    rcases hc with hc | hc
    · obtain ⟨h1, pre, hp⟩ := ih1 c hc
      exact ⟨h1, pre ++ [d.off], by simp [hp]⟩
    · exact ih2 c hc

/-- without resolvable imports the cooked view is the range itself -/
theorem cooked_plain (f : Forest) (range : Die → List Die) (chain : List Nat) :
    ∀ ds, (∀ d ∈ ds, importTarget f d = none) → Cooked f range ds chain (ds.map fun d => ⟨d, chain⟩) := by
  intro ds
  induction ds with
  | nil => intro _; exact Cooked.nil
  | cons d ds ih =>
    intro h
    exact Cooked.plain (h d (by simp)) (ih (fun x hx => h x (by simp [hx])))

/-- `cookedBelow` (the `entry` walk of Model/Dwarf.lean) computes the cooked view, given fuel -/
theorem cookedBelow_of_cooked (f : Forest) (ds : List Die) (chain : List Nat) (out : List CDie)
    (hc : Cooked f (fun root => preorderList root.children) ds chain out) :
    ∃ n, ∀ fuel, n ≤ fuel → cookedBelow f fuel ds chain = out := by
  induction hc with
  | nil => exact ⟨1, fun fuel hf => by cases fuel with | zero => omega | succ k => simp [cookedBelow]⟩
  | @plain d ds chain out hn _ ih =>
    obtain ⟨n, hnn⟩ := ih
    refine ⟨n + 1, ?_⟩
    intro fuel hf
    cases fuel with
    | zero => omega
    | succ k => simp [cookedBelow, hn, hnn k (by omega)]
  | @imp d root ds chain out1 out2 hi _ _ ih1 ih2 =>
    obtain ⟨n1, h1⟩ := ih1
    obtain ⟨n2, h2⟩ := ih2
    refine ⟨max n1 n2 + 1, ?_⟩
    intro fuel hf
    cases fuel with
    | zero => omega
    | succ k => simp [cookedBelow, hi, h1 k (by omega), h2 k (by omega)]

/-- the `child` walk: one level of children, imports replaced by the cooked children of the imported
    root -/
theorem cookedChildren_of_cooked (f : Forest) (ds : List Die) (chain : List Nat) (out : List CDie)
    (hc : Cooked f (fun root => root.children) ds chain out) :
    ∃ n, ∀ fuel, n ≤ fuel → ∀ (p : Die), p.children = ds → cookedChildren f fuel ⟨p, chain⟩ = out := by
  induction hc with
  | nil =>
    refine ⟨1, ?_⟩
    intro fuel hf p hp
    cases fuel with
    | zero => omega
    | succ k => simp [cookedChildren, hp]
  | @plain d ds chain out hn _ ih =>
    obtain ⟨n, hnn⟩ := ih
    refine ⟨n + 1, ?_⟩
    intro fuel hf p hp
    cases fuel with
    | zero => omega
    | succ k =>
      have := hnn (k + 1) (by omega) (Die.mk 0 0 false [] ds) rfl
      simp only [cookedChildren, Die.children] at this
      simp only [cookedChildren, hp, List.flatMap_cons, hn]
      rw [this]; rfl
  | @imp d root ds chain out1 out2 hi _ _ ih1 ih2 =>
    obtain ⟨n1, h1⟩ := ih1
    obtain ⟨n2, h2⟩ := ih2
    refine ⟨max n1 n2 + 1, ?_⟩
    intro fuel hf p hp
    cases fuel with
    | zero => omega
    | succ k =>
      have e1 := h1 k (by omega) root rfl
      have e2 := h2 (k + 1) (by omega) (Die.mk 0 0 false [] ds) rfl
      simp only [cookedChildren, Die.children] at e2
      simp only [cookedChildren, hp, List.flatMap_cons, hi]
      rw [e1, e2]

end ZwVerif.DieIt
