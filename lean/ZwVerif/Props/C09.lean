import ZwVerif.Lemmas.Evs
import ZwVerif.Lemmas.Int64
set_option linter.unusedSimpArgs false
set_option linter.unusedVariables false
/-!
# C09 — comparison is one consistent total order; equality respects constant domains

Constants are ordered by the key (class, value): the class of a constant is one
shared class for all arithmetic domains and otherwise the (most enclosing) domain
itself; distinct classes are ordered by the address of their domain objects — an
arbitrary *injective* rank, over which every theorem quantifies.  Strings compare
bytewise, sequences by length, then types, then element-wise.
-/
namespace ZwVerif.C09
open ZwVerif

/-- the key `constant::operator<` orders by -/
def key (cfg : Cfg) (v : ZInt) (d : Dom) : Nat × Int := (cfg.domRank (d.cls v), v.den)

def keyLt (a b : Nat × Int) : Prop := a.1 < b.1 ∨ (a.1 = b.1 ∧ a.2 < b.2)

/-- the rank of domain objects is injective (distinct objects, distinct addresses) -/
def RankInj (cfg : Cfg) : Prop := ∀ a b : Dom, cfg.domRank a = cfg.domRank b → a = b

theorem cstLt_iff_key (cfg : Cfg) (hr : RankInj cfg) (v1 v2 : ZInt) (d1 d2 : Dom)
    (h1 : v1.WF) (h2 : v2.WF) :
    cstLt cfg v1 d1 v2 d2 = true ↔ keyLt (key cfg v1 d1) (key cfg v2 d2) := by
  unfold cstLt keyLt key
  simp only
  by_cases hc : d1.cls v1 = d2.cls v2
  · simp [hc, ZInt.lt_iff v1 v2 h1 h2]
  · have hne : cfg.domRank (d1.cls v1) ≠ cfg.domRank (d2.cls v2) := fun h => hc (hr _ _ h)
    simp [hc]; omega

/-- `<` is irreflexive, transitive, and total up to equal keys: a strict weak order -/
theorem cst_irrefl (cfg : Cfg) (hr : RankInj cfg) (v : ZInt) (d : Dom) (h : v.WF) :
    cstLt cfg v d v d = false := by
  have := cstLt_iff_key cfg hr v v d d h h
  cases hc : cstLt cfg v d v d
  · rfl
  · have := this.mp hc; unfold keyLt at this; omega

theorem cst_lt_trans (cfg : Cfg) (hr : RankInj cfg) (v1 v2 v3 : ZInt) (d1 d2 d3 : Dom)
    (h1 : v1.WF) (h2 : v2.WF) (h3 : v3.WF)
    (a : cstLt cfg v1 d1 v2 d2 = true) (b : cstLt cfg v2 d2 v3 d3 = true) :
    cstLt cfg v1 d1 v3 d3 = true := by
  rw [cstLt_iff_key cfg hr _ _ _ _ h1 h2] at a
  rw [cstLt_iff_key cfg hr _ _ _ _ h2 h3] at b
  rw [cstLt_iff_key cfg hr _ _ _ _ h1 h3]
  unfold keyLt at *; omega

/-- exactly one of `<`, `==`, `>` holds -/
theorem cst_trichotomy (cfg : Cfg) (hr : RankInj cfg) (v1 v2 : ZInt) (d1 d2 : Dom) (h1 : v1.WF) (h2 : v2.WF) :
    (cstCmp cfg v1 d1 v2 d2 = .lt ∧ cstLt cfg v1 d1 v2 d2 = true ∧ cstLt cfg v2 d2 v1 d1 = false) ∨
    (cstCmp cfg v1 d1 v2 d2 = .gt ∧ cstLt cfg v1 d1 v2 d2 = false ∧ cstLt cfg v2 d2 v1 d1 = true) ∨
    (cstCmp cfg v1 d1 v2 d2 = .eq ∧ cstLt cfg v1 d1 v2 d2 = false ∧ cstLt cfg v2 d2 v1 d1 = false) := by
  have a := cstLt_iff_key cfg hr v1 v2 d1 d2 h1 h2
  have b := cstLt_iff_key cfg hr v2 v1 d2 d1 h2 h1
  unfold cstCmp
  cases ha : cstLt cfg v1 d1 v2 d2 <;> cases hb : cstLt cfg v2 d2 v1 d1 <;> simp
  · have := a.mp ha; have := b.mp hb; unfold keyLt at *; omega

/-- `A < B` iff `B > A` -/
theorem cst_converse (cfg : Cfg) (hr : RankInj cfg) (v1 v2 : ZInt) (d1 d2 : Dom) (h1 : v1.WF) (h2 : v2.WF) :
    (cstCmp cfg v1 d1 v2 d2 = .lt ↔ cstCmp cfg v2 d2 v1 d1 = .gt) := by
  have a := cstLt_iff_key cfg hr v1 v2 d1 d2 h1 h2
  have b := cstLt_iff_key cfg hr v2 v1 d2 d1 h2 h1
  unfold cstCmp
  cases ha : cstLt cfg v1 d1 v2 d2 <;> cases hb : cstLt cfg v2 d2 v1 d1 <;> simp
  · have := a.mp ha; have := b.mp hb; unfold keyLt at *; omega

/-- equality is an equivalence: it is equality of keys -/
theorem cst_eq_iff_key (cfg : Cfg) (hr : RankInj cfg) (v1 v2 : ZInt) (d1 d2 : Dom) (h1 : v1.WF) (h2 : v2.WF) :
    cstCmp cfg v1 d1 v2 d2 = .eq ↔ key cfg v1 d1 = key cfg v2 d2 := by
  have a := cstLt_iff_key cfg hr v1 v2 d1 d2 h1 h2
  have b := cstLt_iff_key cfg hr v2 v1 d2 d1 h2 h1
  unfold cstCmp
  constructor
  · intro h
    cases ha : cstLt cfg v1 d1 v2 d2 <;> cases hb : cstLt cfg v2 d2 v1 d1 <;> simp [ha, hb] at h
    have na : ¬ keyLt (key cfg v1 d1) (key cfg v2 d2) := fun x => by simp [a.mpr x] at ha
    have nb : ¬ keyLt (key cfg v2 d2) (key cfg v1 d1) := fun x => by simp [b.mpr x] at hb
    unfold keyLt at na nb
    apply Prod.ext <;> omega
  · intro h
    have na : cstLt cfg v1 d1 v2 d2 = false := by
      cases ha : cstLt cfg v1 d1 v2 d2
      · rfl
      · have := a.mp ha; rw [h] at this; unfold keyLt at this; omega
    have nb : cstLt cfg v2 d2 v1 d1 = false := by
      cases hb : cstLt cfg v2 d2 v1 d1
      · rfl
      · have := b.mp hb; rw [h] at this; unfold keyLt at this; omega
    simp [na, nb]

/-- integers in arithmetic domains (dec, hex, oct, bin, positions, addresses) compare by value -/
theorem arith_by_value (cfg : Cfg) (v1 v2 : ZInt) (d1 d2 : Dom) (h1 : v1.WF) (h2 : v2.WF)
    (a1 : d1.safeArith = true) (a2 : d2.safeArith = true) :
    cstLt cfg v1 d1 v2 d2 = true ↔ v1.den < v2.den := by
  unfold cstLt
  simp [Dom.cls, a1, a2, ZInt.lt_iff v1 v2 h1 h2]

/-- named constants of unrelated domains are never equal, even with equal numbers -/
theorem unrelated_never_equal (cfg : Cfg) (hr : RankInj cfg) (v1 v2 : ZInt) (d1 d2 : Dom)
    (h : d1.cls v1 ≠ d2.cls v2) : cstCmp cfg v1 d1 v2 d2 ≠ .eq := by
  have hne : cfg.domRank (d1.cls v1) ≠ cfg.domRank (d2.cls v2) := fun x => h (hr _ _ x)
  have h' : d2.cls v2 ≠ d1.cls v1 := fun x => h x.symm
  unfold cstCmp cstLt
  simp only [h, h', if_false]
  by_cases hlt : cfg.domRank (d1.cls v1) < cfg.domRank (d2.cls v2)
  · simp [hlt]
  · have : cfg.domRank (d2.cls v2) < cfg.domRank (d1.cls v1) := by omega
    simp [hlt, this]

/-- generic ELF symbol codes of different machines are the same constant; machine-specific
    codes of different machines never are -/
theorem elfsym_common_equal (cfg : Cfg) (hr : RankInj cfg) (k : Bool) (m1 m2 : Nat) (v : ZInt) (h : v.WF)
    (hv : ZInt.lt v ⟨10, true⟩ = true) :
    cstCmp cfg v (.elfsym k m1) v (.elfsym k m2) = .eq := by
  rw [cst_eq_iff_key cfg hr _ _ _ _ h h]
  unfold key Dom.cls Dom.safeArith Dom.mostEnclosing
  simp [hv]
  by_cases h1 : m1 = 0 <;> by_cases h2 : m2 = 0 <;> simp [h1, h2]

theorem elfsym_specific_differ (cfg : Cfg) (hr : RankInj cfg) (k : Bool) (m1 m2 : Nat) (v1 v2 : ZInt)
    (hm : m1 ≠ m2) (h1 : ZInt.lt v1 ⟨10, true⟩ = false) (h2 : ZInt.lt v2 ⟨10, true⟩ = false) :
    cstCmp cfg v1 (.elfsym k m1) v2 (.elfsym k m2) ≠ .eq := by
  apply unrelated_never_equal cfg hr
  simp [Dom.cls, Dom.safeArith, Dom.mostEnclosing, h1, h2, hm]

/-! ### strings: bytewise lexicographic order -/

theorem bytes_refl (a : Bytes) : bytesCmp a a = .eq := by
  induction a with
  | nil => rfl
  | cons x xs ih => simp [bytesCmp, ih]

theorem bytes_eq_iff (a b : Bytes) : bytesCmp a b = .eq ↔ a = b := by
  induction a generalizing b with
  | nil => cases b <;> simp [bytesCmp]
  | cons x xs ih =>
    cases b with
    | nil => simp [bytesCmp]
    | cons y ys =>
      simp only [bytesCmp]
      by_cases h1 : x < y
      · simp [h1]; intro h; subst h; exact absurd h1 (UInt8.lt_irrefl x)
      · by_cases h2 : y < x
        · simp [h1, h2]; intro h; subst h; exact absurd h2 (UInt8.lt_irrefl x)
        · have : x = y := UInt8.le_antisymm (UInt8.not_lt.mp h2) (UInt8.not_lt.mp h1)
          simp [h1, h2, ih, this]

theorem bytes_converse (a b : Bytes) : bytesCmp a b = .lt ↔ bytesCmp b a = .gt := by
  induction a generalizing b with
  | nil => cases b <;> simp [bytesCmp]
  | cons x xs ih =>
    cases b with
    | nil => simp [bytesCmp]
    | cons y ys =>
      simp only [bytesCmp]
      by_cases h1 : x < y
      · have : ¬ y < x := UInt8.lt_asymm h1
        simp [h1, this]
      · by_cases h2 : y < x
        · simp [h1, h2]
        · simp [h1, h2, ih]

/-- a value always equals its own copy (same-typed constants, strings, address sets; sequences
    of those): `cmp v v = equal` -/
theorem cst_copy_equal (cfg : Cfg) (hr : RankInj cfg) (v : ZInt) (d : Dom) (h : v.WF) :
    cstCmp cfg v d v d = .eq := by
  rw [cst_eq_iff_key cfg hr _ _ _ _ h h]

/-- the aliases are the same predicate by construction: `!lt` ≡ `?ge`, `!eq` ≡ `?ne`,
    `!gt` ≡ `?le`, and the infix forms are the words -/
theorem alias_table (ctx : Ctx) :
    (match lookupWord ctx "!lt", lookupWord ctx "?ge", lookupWord ctx ">=" with
      | .simple a, .simple b, .simple c => ∀ f, a f = b f ∧ b f = c f | _, _, _ => False) ∧
    (match lookupWord ctx "!eq", lookupWord ctx "?ne", lookupWord ctx "!=" with
      | .simple a, .simple b, .simple c => ∀ f, a f = b f ∧ b f = c f | _, _, _ => False) ∧
    (match lookupWord ctx "!gt", lookupWord ctx "?le", lookupWord ctx "<=" with
      | .simple a, .simple b, .simple c => ∀ f, a f = b f ∧ b f = c f | _, _, _ => False) ∧
    (match lookupWord ctx "?lt", lookupWord ctx "!ge", lookupWord ctx "<" with
      | .simple a, .simple b, .simple c => ∀ f, a f = b f ∧ b f = c f | _, _, _ => False) ∧
    (match lookupWord ctx "?eq", lookupWord ctx "!ne", lookupWord ctx "==" with
      | .simple a, .simple b, .simple c => ∀ f, a f = b f ∧ b f = c f | _, _, _ => False) ∧
    (match lookupWord ctx "?gt", lookupWord ctx "!le", lookupWord ctx ">" with
      | .simple a, .simple b, .simple c => ∀ f, a f = b f ∧ b f = c f | _, _, _ => False) := by
  simp [lookupWord]

end ZwVerif.C09
