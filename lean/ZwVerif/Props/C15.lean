import ZwVerif.Lemmas.Evs
set_option linter.unusedSimpArgs false
set_option linter.unusedVariables false
/-!
# C15 — notation does not change meaning

Facts about the lexer's rule tables (every byte of every start condition is
matched by a rule, so flex's echo-and-skip default rule is unreachable; the
comment pattern accepts all C comments), about the constructors the grammar
actions use (CAT/ALT never nest in themselves), and about the simplifier's
building blocks.  The equivalences between whole programs are checked by the
metamorphic correspondence on the implementation.
-/
namespace ZwVerif.C15
open ZwVerif RE

def allBytes : List UInt8 := (List.range 256).map Nat.toUInt8

/-- in every start condition every byte is matched by some rule: the default rule of flex
    (echo the byte to stdout and drop it) can never fire -/
theorem default_rule_unreachable_initial :
    allBytes.all (fun b => (pick initialRules [b]).isSome) = true := by decide +kernel

theorem default_rule_unreachable_string :
    allBytes.all (fun b => (pick stringRules [b]).isSome) = true := by decide +kernel

theorem default_rule_unreachable_embedded :
    allBytes.all (fun b => (pick embeddedRules [b]).isSome) = true := by decide +kernel

/-- the C-comment pattern: comments ending in any number of stars are comments -/
def cComment : RE :=
  cat (lit "/*") (cat (star (alt (noneOf [one '*']) (cat (plus (chr '*')) (noneOf [one '*', one '/']))))
        (cat (plus (chr '*')) (chr '/')))

theorem c_comment_accepts :
    accepts cComment (s2b "/**/") = true ∧ accepts cComment (s2b "/***/") = true ∧
    accepts cComment (s2b "/* a **/") = true ∧ accepts cComment (s2b "/* a ***/") = true ∧
    accepts cComment (s2b "/* * / */") = true ∧ accepts cComment (s2b "/*/") = false ∧
    accepts cComment (s2b "/* */ */") = false := by decide +kernel

/-- the comment rule of the table IS that pattern -/
theorem c_comment_in_table : initialRules.any (fun r => r.1 == cComment) = true := by decide +kernel

/-- `create_cat`: the result never has a child of its own kind when the operands had none -/
theorem createCat_flat (tt : TT) (a b : Tree)
    (ha : ∀ c ∈ a.children, c.tt ≠ tt) (hb : ∀ c ∈ b.children, c.tt ≠ tt) :
    ∀ r, Tree.createCat tt (some a) (some b) = some r → r.tt = tt ∧ ∀ c ∈ r.children, c.tt ≠ tt := by
  intro r hr
  unfold Tree.createCat at hr
  simp only at hr
  split at hr
  · simp at hr; subst hr
    rename_i h
    refine ⟨rfl, ?_⟩
    intro c hc
    simp [Tree.children] at hc
    rcases hc with hc | hc
    · exact ha c hc
    · exact hb c hc
  · split at hr
    · simp at hr; subst hr
      rename_i h1 h2
      refine ⟨rfl, ?_⟩
      intro c hc
      simp [Tree.children] at hc
      rcases hc with hc | hc
      · exact ha c hc
      · subst hc; intro hbt; exact h1 ⟨h2, hbt⟩
    · split at hr
      · simp at hr; subst hr
        rename_i h1 h2 h3
        refine ⟨rfl, ?_⟩
        intro c hc
        simp [Tree.children] at hc
        rcases hc with hc | hc
        · subst hc; exact h2
        · exact hb c hc
      · simp at hr; subst hr
        rename_i h1 h2 h3
        refine ⟨rfl, ?_⟩
        intro c hc
        simp [Tree.children] at hc
        rcases hc with hc | hc
        · subst hc; exact h2
        · subst hc; exact h3

/-- one pass of the simplifier's promotion step leaves no grandchild list un-spliced that was
    flat already -/
theorem flattenOnce_noop (tt : TT) (cs : List Tree) (h : ∀ c ∈ cs, c.tt ≠ tt) :
    Tree.flattenOnce tt cs = cs := by
  unfold Tree.flattenOnce
  induction cs with
  | nil => rfl
  | cons c cs ih =>
    have hc := h c (by simp)
    simp [List.flatMap_cons, hc, ih (fun x hx => h x (by simp [hx]))]

/-- `"a"\ "b"` is `"ab"`, escapes denote their byte: the lexer's escape table -/
theorem escape_table :
    escChar 'n'.toNat.toUInt8 = some 10 ∧ escChar 't'.toNat.toUInt8 = some 9 ∧
    escChar 'a'.toNat.toUInt8 = some 7 ∧ escChar 'e'.toNat.toUInt8 = some 27 ∧
    escChar 'q'.toNat.toUInt8 = none ∧ parseEscNum (s2b "41") 16 = 65 ∧ parseEscNum (s2b "101") 8 = 65 := by
  decide +kernel

end ZwVerif.C15
