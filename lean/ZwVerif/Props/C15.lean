import ZwVerif.Lemmas.Evs
import ZwVerif.Generated.TreeTypes
set_option linter.unusedSimpArgs false
set_option linter.unusedVariables false
/-!
# C15 — notation does not change meaning

Facts about the lexer's rule tables (every byte of every start condition is
matched by a rule, so flex's echo-and-skip default rule is unreachable; the
comment pattern accepts all C comments), about the constructors the grammar
actions use (CAT/ALT never nest in themselves), and about the simplifier's
building blocks.  The equivalences between whole programs are checked by the
metamorphic correspondence on the implementation.
-/
namespace ZwVerif.C15
open ZwVerif RE

def allBytes : List UInt8 := (List.range 256).map Nat.toUInt8

/-- in every start condition every byte is matched by some rule: the default rule of flex
    (echo the byte to stdout and drop it) can never fire -/
theorem default_rule_unreachable_initial :
    allBytes.all (fun b => (pick initialRules [b]).isSome) = true := by decide +kernel

theorem default_rule_unreachable_string :
    allBytes.all (fun b => (pick stringRules [b]).isSome) = true := by decide +kernel

theorem default_rule_unreachable_embedded :
    allBytes.all (fun b => (pick embeddedRules [b]).isSome) = true := by decide +kernel

/-- the C-comment pattern: comments ending in any number of stars are comments -/
def cComment : RE :=
  cat (lit "/*") (cat (star (alt (noneOf [one '*']) (cat (plus (chr '*')) (noneOf [one '*', one '/']))))
        (cat (plus (chr '*')) (chr '/')))

theorem c_comment_accepts :
    accepts cComment (s2b "/**/") = true ∧ accepts cComment (s2b "/***/") = true ∧
    accepts cComment (s2b "/* a **/") = true ∧ accepts cComment (s2b "/* a ***/") = true ∧
    accepts cComment (s2b "/* * / */") = true ∧ accepts cComment (s2b "/*/") = false ∧
    accepts cComment (s2b "/* */ */") = false := by decide +kernel

/-- the table regenerated from lexer.ll has a rule with that behaviour (and, being skipped, such comments vanish) -/
theorem c_comment_in_table :
    initialRules.any (fun r => accepts r.1 (s2b "/***/") && accepts r.1 (s2b "/* a **/") && accepts r.1 (s2b "/* * / */") &&
      !accepts r.1 (s2b "/*/") && !accepts r.1 (s2b "/* */ */")) = true := by decide +kernel

theorem c_comment_is_skipped :
    (pick initialRules (s2b "/***/x")).map (·.1) = some 5 ∧ (pick initialRules (s2b "/* a **/ 2")).map (·.1) = some 8 := by
  decide +kernel

/-! ### the tie with lexer.ll

The patterns of the three rule tables are regenerated from lexer.ll on every run
(Generated/LexerRules.lean); the actions are written here, in file order.  The theorem pins
the pattern texts the actions were written for and a digest of every action's C++ text (comments
and white space removed): a rule added, removed, reordered or re-patterned, or an action edited,
breaks it. -/

def actionDigestsInitial : List String := ["3ed6c99fa8", "1a828239ce", "04c9a6e024", "d01847d50c", "1f37760302", "83dde7c7bd", "90fd32733c", "250d689b8f", "249bf83cfa", "b54e28aa62", "1adaf635da", "cfd7eb0a33", "32fb39a826", "093ad1d0d1", "53c6d799d2", "3fa81c232f", "f40688046a", "73ce832f74", "bbb09faf7a", "f1deb0353b", "df721aafd8", "cd80cd8e15", "0c84972e2b", "542e283ed1", "32003d0e8c", "2a963e237a", "a0ee2bbd52", "4973f05098", "d69b775ee0", "da39a3ee5e", "da39a3ee5e", "da39a3ee5e", "1a94d5a735", "cf942e99f3"]
def actionDigestsString : List String := ["8974c2f5ff", "a8e1b52fe0", "41654ea2c6", "abb2617d9f", "b95764c176", "dc7a29aa96", "0d698cfa5a", "44e90a4253", "20cf621710", "e4528b58ad", "2d1aecc04a", "ea99a28459", "3246d2682e", "c25eca9781"]
def actionDigestsEmbedded : List String := ["ff47dcb0c9", "afc685a5d1", "212d64e460", "c82b0149f9", "4f9d49a8c1", "73205edecb", "c25eca9781"]
def eofRules : List (String × String) := [("STRING", "3a97aa2d7a"), ("STRING_EMBEDDED", "f7722ac238"), ("INITIAL", "d982810ac6")]

theorem lexer_rules_tie :
    Generated.lex_INITIAL.map (·.2.1) = initialRulesTexts ∧ Generated.lex_STRING.map (·.2.1) = stringRulesTexts ∧
    Generated.lex_STRING_EMBEDDED.map (·.2.1) = embeddedRulesTexts ∧
    Generated.lex_INITIAL.length = initialRulesActs.length ∧ Generated.lex_STRING.length = stringRulesActs.length ∧
    Generated.lex_STRING_EMBEDDED.length = embeddedRulesActs.length := by decide +kernel

theorem lexer_actions_tie :
    Generated.lex_INITIAL.map (·.2.2) = actionDigestsInitial ∧ Generated.lex_STRING.map (·.2.2) = actionDigestsString ∧
    Generated.lex_STRING_EMBEDDED.map (·.2.2) = actionDigestsEmbedded ∧ Generated.lex_EOF = eofRules := by decide +kernel

/-! ### the tie with tree.hh -/

/-- the tree types of the model, in the declaration order of tree.hh -/
def allTT : List TT :=
  [.CAT, .ALT, .OR, .CAPTURE, .SUBX_EVAL, .IFELSE, .SCOPE, .BLOCK, .BIND, .READ, .NOP, .CLOSE_STAR, .CLOSE_PLUS, .ASSERT,
   .EMPTY_LIST, .PRED_AND, .PRED_OR, .PRED_NOT, .PRED_SUBX_ANY, .CONST, .STR, .FORMAT, .F_DEBUG, .F_BUILTIN]

/-- what a node of each type carries besides children (the arity classes of tree.hh) -/
def ttArity : TT → String
  | .CAT | .ALT | .OR | .PRED_AND | .PRED_OR => "BINARY"
  | .CAPTURE | .BLOCK | .CLOSE_STAR | .CLOSE_PLUS | .ASSERT | .PRED_NOT | .PRED_SUBX_ANY => "UNARY"
  | .SUBX_EVAL | .CONST => "CST"
  | .IFELSE => "TERNARY"
  | .SCOPE => "SCOPE"
  | .BIND | .READ | .STR => "STR"
  | .NOP | .EMPTY_LIST | .FORMAT | .F_DEBUG => "NULLARY"
  | .F_BUILTIN => "BUILTIN"

/-- the model's tree types are exactly TREE_TYPES of tree.hh (regenerated on every run): same
    names — what the tree printer writes and the correspondence compares —, same order, same classes -/
theorem tree_types_tie : Generated.treeTypes = allTT.map fun t => (ttName t, ttArity t) := by decide

/-- `create_cat`: the result never has a child of its own kind when the operands had none -/
theorem createCat_flat (tt : TT) (a b : Tree)
    (ha : ∀ c ∈ a.children, c.tt ≠ tt) (hb : ∀ c ∈ b.children, c.tt ≠ tt) :
    ∀ r, Tree.createCat tt (some a) (some b) = some r → r.tt = tt ∧ ∀ c ∈ r.children, c.tt ≠ tt := by
  intro r hr
  unfold Tree.createCat at hr
  simp only at hr
  split at hr
  · simp at hr; subst hr
    rename_i h
    refine ⟨rfl, ?_⟩
    intro c hc
    simp [Tree.children] at hc
    rcases hc with hc | hc
    · exact ha c hc
    · exact hb c hc
  · split at hr
    · simp at hr; subst hr
      rename_i h1 h2
      refine ⟨rfl, ?_⟩
      intro c hc
      simp [Tree.children] at hc
      rcases hc with hc | hc
      · exact ha c hc
      · subst hc; intro hbt; exact h1 ⟨h2, hbt⟩
    · split at hr
      · simp at hr; subst hr
        rename_i h1 h2 h3
        refine ⟨rfl, ?_⟩
        intro c hc
        simp [Tree.children] at hc
        rcases hc with hc | hc
        · subst hc; exact h2
        · exact hb c hc
      · simp at hr; subst hr
        rename_i h1 h2 h3
        refine ⟨rfl, ?_⟩
        intro c hc
        simp [Tree.children] at hc
        rcases hc with hc | hc
        · subst hc; exact h2
        · subst hc; exact h3

/-- one pass of the simplifier's promotion step leaves no grandchild list un-spliced that was
    flat already -/
theorem flattenOnce_noop (tt : TT) (cs : List Tree) (h : ∀ c ∈ cs, c.tt ≠ tt) :
    Tree.flattenOnce tt cs = cs := by
  unfold Tree.flattenOnce
  induction cs with
  | nil => rfl
  | cons c cs ih =>
    have hc := h c (by simp)
    simp [List.flatMap_cons, hc, ih (fun x hx => h x (by simp [hx]))]

/-- `"a"\ "b"` is `"ab"`, escapes denote their byte: the lexer's escape table -/
theorem escape_table :
    escChar 'n'.toNat.toUInt8 = some 10 ∧ escChar 't'.toNat.toUInt8 = some 9 ∧
    escChar 'a'.toNat.toUInt8 = some 7 ∧ escChar 'e'.toNat.toUInt8 = some 27 ∧
    escChar 'q'.toNat.toUInt8 = none ∧ parseEscNum (s2b "41") 16 = 65 ∧ parseEscNum (s2b "101") 8 = 65 := by
  decide +kernel

end ZwVerif.C15
