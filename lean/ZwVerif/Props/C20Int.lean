import ZwVerif.Model.Render
import ZwVerif.Lemmas.Int64
set_option linter.unusedSimpArgs false
set_option linter.unusedVariables false
/-!
# C20 (integers) — every integer prints as a literal that reads back as the same value in the
same domain

Byte-level rendering of the four literal domains (`showLitB`: what `constant::operator<<` writes
for dec / hex / oct / bin in full form, the digits by repeated division as iostreams do) and the
model of `parse_int` (Model/Parser.lean).  `literal_roundtrip`: for EVERY integer of the engine
(−2^63 … 2^64−1) and each of the four domains, parsing the rendering yields that domain and
that value.
-/
namespace ZwVerif.C20Int
open ZwVerif

def digitB (d : Nat) : UInt8 := if d < 10 then (48 + d).toUInt8 else (87 + d).toUInt8

def auxB (base : Nat) : Nat → Nat → Bytes → Bytes
  | 0, _, acc => acc
  | fuel + 1, n, acc =>
    if n < base then digitB n :: acc
    else auxB base fuel (n / base) (digitB (n % base) :: acc)

/-- digits of `n` in `base`, most significant first, no prefix; "0" for 0 (natToBase, as bytes) -/
def digitsB (base n : Nat) : Bytes := auxB base 70 n []

theorem digitVal_digitB : ∀ d : Fin 16, digitVal (digitB d.val) = some d.val := by decide

theorem digitVal_digitB' (d : Nat) (h : d < 16) : digitVal (digitB d) = some d := digitVal_digitB ⟨d, h⟩

/-- a digit byte is none of the letters that select a radix, and it is '0' only for digit 0 -/
theorem digitB_facts : ∀ d : Fin 16,
    digitB d.val ≠ 120 ∧ digitB d.val ≠ 88 ∧ digitB d.val ≠ 111 ∧ digitB d.val ≠ 79 ∧ digitB d.val ≠ 66 ∧ digitB d.val ≠ 45 ∧
    (digitB d.val = 48 → d.val = 0) ∧ (d.val < 10 → digitB d.val ≠ 98) := by decide

/-- the same recursion as `natToBaseAux` of Model/Render.lean, byte for char -/
theorem aux_matches_render (base : Nat) (h0 : 0 < base) (hb : base ≤ 16) : ∀ (fuel n : Nat) (acc : Bytes),
    natToBaseAux base fuel n (acc.map fun b => Char.ofNat b.toNat) = (auxB base fuel n acc).map fun b => Char.ofNat b.toNat := by
  have hd : ∀ d : Fin 16, digitChar d.val = Char.ofNat (digitB d.val).toNat := by decide
  intro fuel
  induction fuel with
  | zero => intro n acc; simp [natToBaseAux, auxB]
  | succ f ih =>
    intro n acc
    simp only [natToBaseAux, auxB]
    split
    · rename_i h
      simp only [List.map_cons]
      rw [hd ⟨n, Nat.lt_of_lt_of_le h hb⟩]
    · have hm : n % base < 16 := by
        have : n % base < base := Nat.mod_lt _ h0
        omega
      have := ih (n / base) (digitB (n % base) :: acc)
      simp only [List.map_cons] at this
      rw [← this, hd ⟨n % base, hm⟩]

/-! ### digits read back -/

/-- the digit string of `n` is at least one digit long and `stoull` reads exactly `n` from it,
    whatever follows -/
theorem stoull_aux (base : Nat) (h2 : 2 ≤ base) (h16 : base ≤ 16) :
    ∀ (fuel n : Nat) (tail : Bytes), n < base ^ (fuel + 1) →
      ∃ nd, 1 ≤ nd ∧ (auxB base (fuel + 1) n tail).length = nd + tail.length ∧
        ∀ a k, stoullDigits base (auxB base (fuel + 1) n tail) a k = stoullDigits base tail (a * base ^ nd + n) (k + nd) := by
  intro fuel
  induction fuel with
  | zero =>
    intro n tail hn
    have hnb : n < base := by simpa using hn
    refine ⟨1, Nat.le_refl 1, by simp [auxB, hnb]; omega, ?_⟩
    intro a k
    simp only [auxB, hnb, ↓reduceIte, stoullDigits, digitVal_digitB' n (by omega), Nat.pow_one]
  | succ f ih =>
    intro n tail hn
    by_cases hnb : n < base
    · refine ⟨1, Nat.le_refl 1, by simp [auxB, hnb]; omega, ?_⟩
      intro a k
      simp only [auxB, hnb, ↓reduceIte, stoullDigits, digitVal_digitB' n (by omega), Nat.pow_one]
    · have hq : n / base < base ^ (f + 1) := by
        apply Nat.div_lt_of_lt_mul
        have : base ^ (f + 1 + 1) = base * base ^ (f + 1) := by rw [Nat.pow_succ, Nat.mul_comm]
        omega
      have hm : n % base < base := Nat.mod_lt _ (by omega)
      obtain ⟨nd, hnd, hlen, hst⟩ := ih (n / base) (digitB (n % base) :: tail) hq
      have e1 : auxB base (f + 1 + 1) n tail = auxB base (f + 1) (n / base) (digitB (n % base) :: tail) := by
        show (if n < base then _ else _) = _
        rw [if_neg hnb]
      refine ⟨nd + 1, by omega, ?_, ?_⟩
      · rw [e1, hlen]; simp; omega
      · intro a k
        rw [e1, hst a k]
        simp only [stoullDigits, digitVal_digitB' (n % base) (by omega), hm, ↓reduceIte]
        have e2 : (a * base ^ nd + n / base) * base + n % base = a * base ^ (nd + 1) + n := by
          have := Nat.div_add_mod n base
          rw [Nat.add_mul, Nat.mul_assoc, ← Nat.pow_succ, Nat.add_assoc, Nat.mul_comm (n / base) base, this]
        rw [e2]
        congr 1

theorem pow70 (base : Nat) (h2 : 2 ≤ base) (n : Nat) (hn : n < 2 ^ 64) : n < base ^ 70 := by
  have h1 : (2 : Nat) ^ 64 ≤ 2 ^ 70 := Nat.pow_le_pow_right (by omega) (by omega)
  have h3 : (2 : Nat) ^ 70 ≤ base ^ 70 := Nat.pow_le_pow_left h2 70
  omega

/-- `stoull` reads `n` from its digits followed by nothing, consuming all of them -/
theorem stoull_digits (base : Nat) (h2 : 2 ≤ base) (h16 : base ≤ 16) (n : Nat) (hn : n < 2 ^ 64) :
    ∃ nd, 1 ≤ nd ∧ (digitsB base n).length = nd ∧ stoullDigits base (digitsB base n) 0 0 = (n, nd) := by
  obtain ⟨nd, h1, hl, hs⟩ := stoull_aux base h2 h16 69 n [] (pow70 base h2 n hn)
  refine ⟨nd, h1, by simpa [digitsB] using hl, ?_⟩
  have := hs 0 0
  simpa [digitsB, stoullDigits] using this

/-- every byte of the digit string is a digit below the base; the first is not '0' unless n = 0 -/
theorem aux_bytes (base : Nat) (h2 : 2 ≤ base) : ∀ (fuel n : Nat) (tail : Bytes),
    ∃ d ds, auxB base (fuel + 1) n tail = digitB d :: ds ∧ d < base ∧ (1 ≤ n → n < base ^ (fuel + 1) → 1 ≤ d) ∧
      (∀ c ∈ ds, c ∈ tail ∨ ∃ e, e < base ∧ c = digitB e) := by
  intro fuel
  induction fuel with
  | zero =>
    intro n tail
    by_cases hnb : n < base
    · exact ⟨n, tail, by simp [auxB, hnb], hnb, fun h _ => h, fun c hc => Or.inl hc⟩
    · refine ⟨n % base, tail, by simp [auxB, hnb], Nat.mod_lt _ (by omega), ?_, fun c hc => Or.inl hc⟩
      intro _ hlt; simp at hlt; omega
  | succ f ih =>
    intro n tail
    by_cases hnb : n < base
    · exact ⟨n, tail, by simp [auxB, hnb], hnb, fun h _ => h, fun c hc => Or.inl hc⟩
    · obtain ⟨d, ds, he, hd, hpos, hall⟩ := ih (n / base) (digitB (n % base) :: tail)
      refine ⟨d, ds, by simp only [auxB, hnb, ↓reduceIte]; exact he, hd, ?_, ?_⟩
      · intro _ hlt
        apply hpos
        · exact Nat.div_pos (by omega) (by omega)
        · apply Nat.div_lt_of_lt_mul
          have : base ^ (f + 1 + 1) = base * base ^ (f + 1) := by rw [Nat.pow_succ, Nat.mul_comm]
          omega
      · intro c hc
        rcases hall c hc with h | h
        · simp only [List.mem_cons] at h
          rcases h with rfl | h
          · exact Or.inr ⟨n % base, Nat.mod_lt _ (by omega), rfl⟩
          · exact Or.inl h
        · exact Or.inr h

theorem digits_shape (base : Nat) (h2 : 2 ≤ base) (n : Nat) (hn : n < 2 ^ 64) :
    ∃ d ds, digitsB base n = digitB d :: ds ∧ d < base ∧ (1 ≤ n → 1 ≤ d) ∧ ∀ c ∈ ds, ∃ e, e < base ∧ c = digitB e := by
  obtain ⟨d, ds, he, hd, hpos, hall⟩ := aux_bytes base h2 69 n []
  refine ⟨d, ds, he, hd, fun h => hpos h (pow70 base h2 n hn), ?_⟩
  intro c hc
  rcases hall c hc with h | h
  · simp at h
  · exact h

/-! ### `parse_int`, in two steps -/

/-- radix and domain by prefix, and the digits that remain -/
def classify (s : Bytes) : Nat × Dom × Bytes :=
  let c0 := s.getD 0 0
  let c1 := s.getD 1 0
  if s.length > 2 ∧ c0 = 48 ∧ (c1 = 120 ∨ c1 = 88) then (16, .hex, s.drop 2)
  else if s.length > 2 ∧ c0 = 48 ∧ (c1 = 98 ∨ c1 = 66) then (2, .bin, s.drop 2)
  else if s.length > 2 ∧ c0 = 48 ∧ (c1 = 111 ∨ c1 = 79) then (8, .oct, s.drop 2)
  else if s.length > 1 ∧ c0 = 48 then (8, .oct, s.drop 1)
  else (10, .dec, s)

/-- conversion of the digits, range check, sign -/
def finish (sign : Bool) (base : Nat) (dom : Dom) (body : Bytes) : IntLit :=
  let body' :=
    if base = 16 ∧ body.length > 2 ∧ body.getD 0 0 = 48 ∧ (body.getD 1 0 = 120 ∨ body.getD 1 0 = 88)
       ∧ isHexDigit (body.getD 2 0) = true then body.drop 2 else body
  let skipped := body.length - body'.length
  let (v, n) := stoullDigits base body' 0 0
  if n = 0 then .stoullNoConv
  else if v ≥ 2^64 then .outOfRange
  else if n + skipped < body.length then .invalid
  else
    let z : ZInt := ⟨v, false⟩
    if sign then
      match ZInt.neg z with
      | .ok r => .ok r dom
      | .error _ => .outOfRange
    else .ok z dom

theorem parseInt_eq (s : Bytes) :
    parseInt s =
      (let sign := decide (s.head? = some 45)
       let s' := if sign then s.drop 1 else s
       finish sign (classify s').1 (classify s').2.1 (classify s').2.2) := by
  unfold parseInt
  by_cases h : s.head? = some 45
  · simp only [h, decide_true, ↓reduceIte]; rfl
  · simp only [h, decide_false, ↓reduceIte, Bool.false_eq_true]; rfl

theorem digits_zero (base : Nat) (h2 : 2 ≤ base) : digitsB base 0 = [digitB 0] := by
  simp [digitsB, auxB]; omega

/-- the second-prefix rule of strtoull never fires on a digit string: it is one digit, or does
    not start with '0' -/
theorem digits_noskip (base : Nat) (h2 : 2 ≤ base) (h16 : base ≤ 16) (n : Nat) (hn : n < 2 ^ 64) :
    (digitsB base n).length ≤ 2 ∨ (digitsB base n).getD 0 0 ≠ 48 := by
  by_cases h0 : n = 0
  · subst h0; rw [digits_zero base h2]; simp
  · obtain ⟨d, ds, he, hd, hpos, _⟩ := digits_shape base h2 n hn
    right
    rw [he]
    simp only [List.getD_cons_zero]
    intro h48
    have := (digitB_facts ⟨d, by omega⟩).2.2.2.2.2.2.1 h48
    have := hpos (by omega)
    simp at *; omega

theorem finish_digits (sign : Bool) (base : Nat) (dom : Dom) (h2 : 2 ≤ base) (h16 : base ≤ 16) (n : Nat) (hn : n < 2 ^ 64) :
    finish sign base dom (digitsB base n) =
      (if sign then (match ZInt.neg ⟨n, false⟩ with | .ok r => IntLit.ok r dom | .error _ => .outOfRange)
       else .ok ⟨n, false⟩ dom) := by
  obtain ⟨nd, h1, hl, hs⟩ := stoull_digits base h2 h16 n hn
  have hskip := digits_noskip base h2 h16 n hn
  have hcond : ¬ (base = 16 ∧ (digitsB base n).length > 2 ∧ (digitsB base n).getD 0 0 = 48 ∧
      ((digitsB base n).getD 1 0 = 120 ∨ (digitsB base n).getD 1 0 = 88) ∧ isHexDigit ((digitsB base n).getD 2 0) = true) := by
    intro ⟨_, hlen, h48, _⟩
    rcases hskip with h | h
    · omega
    · exact h h48
  have hnd : ¬ nd = 0 := by omega
  have hr : ¬ n ≥ 2 ^ 64 := by omega
  dsimp only [finish]
  rw [if_neg hcond, hs]
  dsimp only
  rw [if_neg hnd, if_neg hr, hl, Nat.sub_self, Nat.add_zero, if_neg (Nat.lt_irrefl nd)]

/-! ### the renderings -/

def radix : Dom → Nat
  | .hex => 16 | .oct => 8 | .bin => 2 | _ => 10

def radixPrefix : Dom → Bytes
  | .hex => [48, 120]      -- 0x
  | .oct => [48]           -- 0
  | .bin => [48, 98]       -- 0b
  | _ => []

/-- `constant::operator<<` in full form for the literal domains: sign, radix prefix, digits of the
    magnitude.  (Zero comes out as 0, 0x0, 00, 0b0 — the K4 repair.) -/
def showLitB (dom : Dom) (v : ZInt) : Bytes :=
  (if v.den < 0 then [45] else []) ++ radixPrefix dom ++ digitsB (radix dom) v.den.natAbs

def IsLiteralDom (d : Dom) : Prop := d = .dec ∨ d = .hex ∨ d = .oct ∨ d = .bin

theorem radix_bounds (dom : Dom) : 2 ≤ radix dom ∧ radix dom ≤ 16 := by
  cases dom <;> simp [radix]

/-- prefix + digits are classified as their radix and domain, and the digits remain -/
theorem classify_rendering (dom : Dom) (hd : IsLiteralDom dom) (n : Nat) (hn : n < 2 ^ 64) :
    classify (radixPrefix dom ++ digitsB (radix dom) n) = (radix dom, dom, digitsB (radix dom) n) ∧
    (radixPrefix dom ++ digitsB (radix dom) n).head? ≠ some 45 := by
  obtain ⟨d, ds, he, hdl, hpos, _⟩ := digits_shape (radix dom) (radix_bounds dom).1 n hn
  have hf := digitB_facts ⟨d, by have := (radix_bounds dom).2; omega⟩
  obtain ⟨f120, f88, f111, f79, f66, f45, f48, f98⟩ := hf
  simp only at f120 f88 f111 f79 f66 f45 f48 f98
  rcases hd with rfl | rfl | rfl | rfl
  · -- dec: no prefix
    simp only [radixPrefix, radix, List.nil_append] at *
    by_cases h0 : n = 0
    · subst h0
      rw [digits_zero 10 (by omega)]
      decide
    · have hd1 : 1 ≤ d := hpos (by omega)
      have hne : digitB d ≠ 48 := fun h => by have := f48 h; omega
      rw [he]
      refine ⟨?_, by simp [f45]⟩
      simp [classify, hne]
  · -- hex
    simp only [radixPrefix, radix] at *
    rw [he]
    refine ⟨?_, by simp⟩
    simp [classify]
  · -- oct: the character after the 0 is an octal digit
    simp only [radixPrefix, radix] at *
    rw [he]
    refine ⟨?_, by simp⟩
    have f98' : digitB d ≠ 98 := f98 (by omega)
    simp [classify, f120, f88, f98', f66, f111, f79]
  · -- bin
    simp only [radixPrefix, radix] at *
    rw [he]
    refine ⟨?_, by simp⟩
    simp [classify]

/-- **every integer of the engine prints, in each literal domain, as a literal that reads back as
    the same value in the same domain** -/
theorem literal_roundtrip (dom : Dom) (hd : IsLiteralDom dom) (v : ZInt) (hv : v.WF) :
    ∃ v', parseInt (showLitB dom v) = .ok v' dom ∧ v'.WF ∧ v'.den = v.den := by
  have hr := ZInt.den_inRange hv
  unfold ZInt.InRange at hr
  have hb := radix_bounds dom
  by_cases hneg : v.den < 0
  · -- "-" then the rendering of the magnitude
    have hmag : v.den.natAbs < 2 ^ 64 := by omega
    obtain ⟨hc, _⟩ := classify_rendering dom hd v.den.natAbs hmag
    have hs : showLitB dom v = 45 :: (radixPrefix dom ++ digitsB (radix dom) v.den.natAbs) := by
      simp [showLitB, hneg]
    rw [hs, parseInt_eq]
    simp only [List.head?_cons, decide_true, ↓reduceIte, List.drop_succ_cons, List.drop_zero, hc]
    rw [finish_digits true (radix dom) dom hb.1 hb.2 _ hmag]
    simp only [↓reduceIte]
    have hwf : (⟨v.den.natAbs, false⟩ : ZInt).WF := hmag
    have hex := ZInt.neg_exact ⟨v.den.natAbs, false⟩ hwf
    have hden : (⟨v.den.natAbs, false⟩ : ZInt).den = v.den.natAbs := by simp [ZInt.den, ZInt.isNeg]
    rw [hden] at hex
    cases hn : ZInt.neg ⟨v.den.natAbs, false⟩ with
    | ok r =>
      rw [hn] at hex
      simp only [ZInt.Exact_ok] at hex
      exact ⟨r, rfl, hex.1, by rw [hex.2]; omega⟩
    | error e =>
      rw [hn] at hex
      simp only [ZInt.Exact_err] at hex
      exfalso; apply hex.2; unfold ZInt.InRange; omega
  · have hmag : v.den.natAbs < 2 ^ 64 := by omega
    obtain ⟨hc, h45⟩ := classify_rendering dom hd v.den.natAbs hmag
    have hs : showLitB dom v = radixPrefix dom ++ digitsB (radix dom) v.den.natAbs := by
      simp [showLitB, hneg]
    rw [hs, parseInt_eq]
    have hdec : decide ((radixPrefix dom ++ digitsB (radix dom) v.den.natAbs).head? = some 45) = false := by
      simpa using h45
    simp only [hdec, Bool.false_eq_true, ↓reduceIte, hc]
    rw [finish_digits false (radix dom) dom hb.1 hb.2 _ hmag]
    refine ⟨⟨v.den.natAbs, false⟩, by simp, hmag, ?_⟩
    have e : ZInt.den ⟨v.den.natAbs, false⟩ = (v.den.natAbs : Int) := by simp [ZInt.den, ZInt.isNeg]
    rw [e]; omega

/-- the renderings of two different values differ, in every literal domain (a corollary: printing
    is injective on values) -/
theorem literal_injective (dom : Dom) (hd : IsLiteralDom dom) (a b : ZInt) (ha : a.WF) (hb : b.WF)
    (h : showLitB dom a = showLitB dom b) : a.den = b.den := by
  obtain ⟨a', pa, _, da⟩ := literal_roundtrip dom hd a ha
  obtain ⟨b', pb, _, db⟩ := literal_roundtrip dom hd b hb
  rw [h, pb] at pa
  cases pa
  rw [← da, ← db]

/-! ### `showLitB` is what Model/Render.lean prints, character for byte -/

def b2c (b : UInt8) : Char := Char.ofNat b.toNat

theorem natToBase_chars (base n : Nat) (h0 : 0 < base) (hb : base ≤ 16) :
    (natToBase base n).toList = (digitsB base n).map b2c := by
  unfold natToBase digitsB
  rw [String.toList_ofList]
  have := aux_matches_render base h0 hb 70 n []
  simp only [List.map_nil] at this
  exact this

/-- the string `showConst` prints for the four literal domains (full form) is `showLitB`, read as
    ASCII -/
theorem showConst_chars (tn : Nat → Option String) (dom : Dom) (hd : IsLiteralDom dom) (v : ZInt) :
    (showConst tn v dom false).toList = (showLitB dom v).map b2c := by
  have e10 := natToBase_chars 10 v.den.natAbs (by omega) (by omega)
  have e16 := natToBase_chars 16 v.den.natAbs (by omega) (by omega)
  have e8 := natToBase_chars 8 v.den.natAbs (by omega) (by omega)
  have e2 := natToBase_chars 2 v.den.natAbs (by omega) (by omega)
  rcases hd with rfl | rfl | rfl | rfl
  · simp only [showConst, showInt, showLitB, radixPrefix, radix, String.toList_append, e10]
    by_cases h : v.den < 0 <;> simp [h, b2c]
  · simp only [showConst, showIntLit, showInt, showLitB, radixPrefix, radix]
    by_cases h0 : v.den = 0
    · simp [h0, digits_zero 16 (by omega), b2c]; decide
    · by_cases h : v.den < 0 <;> simp [h, h0, String.toList_append, e16, b2c] <;> decide
  · simp only [showConst, showIntLit, showInt, showLitB, radixPrefix, radix]
    by_cases h0 : v.den = 0
    · simp [h0, digits_zero 8 (by omega), b2c]; decide
    · by_cases h : v.den < 0 <;> simp [h, h0, String.toList_append, e8, b2c] <;> decide
  · simp only [showConst, showLitB, radixPrefix, radix]
    by_cases h0 : v.den = 0
    · simp [h0, digits_zero 2 (by omega), b2c]; decide
    · by_cases h : v.den < 0 <;> simp [h, h0, String.toList_append, e2, b2c] <;> decide

example : showLitB .hex ⟨255, false⟩ = [48, 120, 102, 102] ∧ showLitB .oct ⟨0, false⟩ = [48, 48] ∧
    showLitB .dec ⟨2 ^ 64 - 1, true⟩ = [45, 49] ∧ showLitB .bin ⟨5, false⟩ = [48, 98, 49, 48, 49] := by decide

end ZwVerif.C20Int
