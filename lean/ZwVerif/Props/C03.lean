import ZwVerif.Lemmas.Evs
set_option linter.unusedSimpArgs false
set_option linter.unusedVariables false
/-!
# C03 — names resolve lexically

Compile time (`check`, the model of bindings.cc / build.cc): rebinding in one scope
and reading an unbound name are errors; no sub-expression context, ALT/OR branch,
arm or block lets a binding escape.  Run time (`sem`): a read pushes the value of
the innermost binding; a block carries the values its free names had when it was
created and runs its body with exactly those.
-/
namespace ZwVerif.C03
open ZwVerif

/-- a read sees the innermost binding of its name -/
theorem lookup_innermost (n : Bytes) (v : Val) (env : List (Bytes × Val)) :
    lookupEnv n ((n, v) :: env) = some v := by simp [lookupEnv]

/-- inner binders of other names do not hide it -/
theorem lookup_skips_other (n m : Bytes) (w : Val) (env : List (Bytes × Val)) (h : m ≠ n) :
    lookupEnv n ((m, w) :: env) = lookupEnv n env := by simp [lookupEnv, h]

/-- rebinding a name in the scope that already binds it is a compile-time error -/
theorem rebind_rejected (s : Scopes) (n : Bytes) (c : List Bytes) (cs : List (List Bytes))
    (hs : s.chain = c :: cs) (hn : n ∈ c) : s.bind n = .error (.rebound n) := by
  simp [Scopes.bind, hs, hn]

/-- … while shadowing in an inner scope is fine -/
theorem shadow_accepted (s : Scopes) (n : Bytes) (hs : s.chain ≠ []) :
    ∃ s', s.push.bind n = .ok s' := by
  simp [Scopes.push, Scopes.bind]

/-- reading a name that is neither bound, nor an up-value, nor a builtin is a compile-time error -/
theorem unbound_rejected (known : Bytes → Bool) (pl : Payload) (n : Bytes) (s : Scopes)
    (h1 : s.visible n = false) (h2 : known n = false) :
    check known (.node .READ (.str n) []) s = .error (.unbound n) := by
  simp [check, h1, h2]

/-- **bindings never leak**: whatever a sub-expression context binds, the scope chain after it
    is the one before it — for SCOPE (let bodies, arms, captures, closures, parenthesised
    binder blocks), every ALT and OR branch, assertion sub-expressions, format splices, blocks. -/
theorem scope_no_leak (known : Bytes → Bool) (pl : Payload) (c : Tree) (s s' : Scopes)
    (h : check known (.node .SCOPE pl [c]) s = .ok s') : s' = s := by
  simp only [check] at h
  cases hc : check known c s.push <;> simp [hc, bind, Except.bind] at h
  · simp [pure, Except.pure] at h; exact h.symm

theorem alt_no_leak (known : Bytes → Bool) (pl : Payload) (cs : List Tree) (s s' : Scopes)
    (h : check known (.node .ALT pl cs) s = .ok s') : s' = s := by
  simp only [check] at h
  cases hc : checkEach known cs s true <;> simp [hc, bind, Except.bind] at h
  · simp [pure, Except.pure] at h; exact h.symm

theorem or_no_leak (known : Bytes → Bool) (pl : Payload) (cs : List Tree) (s s' : Scopes)
    (h : check known (.node .OR pl cs) s = .ok s') : s' = s := by
  simp only [check] at h
  cases hc : checkEach known cs s false <;> simp [hc, bind, Except.bind] at h
  · simp [pure, Except.pure] at h; exact h.symm

theorem assertion_no_leak (known : Bytes → Bool) (pl : Payload) (c : Tree) (s s' : Scopes)
    (h : check known (.node .PRED_SUBX_ANY pl [c]) s = .ok s') : s' = s := by
  simp only [check] at h
  cases hc : check known c s.push <;> simp [hc, bind, Except.bind] at h
  · simp [pure, Except.pure] at h; exact h.symm

theorem splice_no_leak (known : Bytes → Bool) (pl : Payload) (cs : List Tree) (s s' : Scopes)
    (h : check known (.node .FORMAT pl cs) s = .ok s') : s' = s := by
  simp only [check] at h
  cases hc : checkEach known cs s true <;> simp [hc, bind, Except.bind] at h
  · simp [pure, Except.pure] at h; exact h.symm

theorem block_no_leak (known : Bytes → Bool) (pl : Payload) (c : Tree) (s s' : Scopes)
    (h : check known (.node .BLOCK pl [c]) s = .ok s') : s' = s := by
  simp only [check] at h
  cases hc : check known c { chain := [[]], outer := s.allNames } <;> simp [hc, bind, Except.bind] at h
  · simp [pure, Except.pure] at h; exact h.symm

/-- the rightmost identifier of a binder list is bound first, i.e. takes the top of stack -/
theorem idlist_rightmost_first (ws : List Bytes) (rest : List Tok)
    (hr : ∀ w r, rest ≠ .word w :: r) :
    parseIdList (ws.map Tok.word ++ rest) [] = (ws.reverse, rest) := by
  suffices H : ∀ acc, parseIdList (ws.map Tok.word ++ rest) acc = (ws.reverse ++ acc, rest) by
    simpa using H []
  induction ws with
  | nil =>
    intro acc
    cases rest with
    | nil => simp [parseIdList]
    | cons t ts =>
      cases t <;> simp [parseIdList]
      exact absurd rfl (hr _ _)
  | cons w ws ih => intro acc; simp [parseIdList, ih]

/-- a block captures the values its free names have when it is created … -/
theorem block_captures_creation_env (ctx : Ctx) (n : Nat) (pl : Payload) (c : Tree) (f : Frame) :
    sem1 ctx (n + 1) (.node .BLOCK pl [c]) f =
      [.frame { f with stk := .clo 0 c (f.env.map (·.1)) (f.env.map (·.2)) :: f.stk }] := by
  simp [sem1, withStk]

/-- … and applying it (explicitly or by reading the name it is bound to) runs the body with
    exactly those values, on the rest of the stack; the caller's names are back afterwards. -/
theorem apply_is_inline (ctx : Ctx) (n : Nat) (env : List (Bytes × Val)) (p : Nat) (body : Tree)
    (names : List Bytes) (vals : List Val) (r : Stack) :
    applyIfClosure ctx (n + 1) ⟨env, .clo p body names vals :: r⟩ =
      restoreEnv env (sem ctx n body [.frame ⟨names.zip vals, r⟩]) := by
  simp [applyIfClosure]

/-- binder: pops the top of stack into the innermost scope -/
theorem bind_pops_tos (ctx : Ctx) (n : Nat) (name : Bytes) (env : List (Bytes × Val)) (v : Val) (r : Stack) :
    sem1 ctx (n + 1) (.node .BIND (.str name) []) ⟨env, v :: r⟩ = [.frame ⟨(name, v) :: env, r⟩] := by
  simp [sem1]

/-- leaving a scope at run time forgets exactly the bindings made inside -/
theorem dropInner_restores (d : Nat) (inner : List (Bytes × Val)) (env : List (Bytes × Val)) (stk : Stack)
    (h : env.length = d) :
    dropInner d [.frame ⟨inner ++ env, stk⟩] = [.frame ⟨env, stk⟩] := by
  simp [dropInner, h.symm]

end ZwVerif.C03
