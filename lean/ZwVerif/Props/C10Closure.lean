import ZwVerif.Model.Closure
set_option linter.unusedSimpArgs false
set_option linter.unusedVariables false
/-!
# C10 (mechanism) — the op_tr_closure machine yields exactly the stacks reachable from its input,
each once, the input first

For `E*` in front of one upstream stack `s`, ANY terminating drain of the machine yields a list
`outs` with: `s` first; no stack twice; every yielded stack reachable from `s` by steps of the
body; and every reachable stack yielded (`star_sound_complete`).  Termination is a hypothesis
(the drain exists): it holds exactly when finitely many stacks are reachable.
-/
namespace ZwVerif.Closure
variable {α : Type}

/-- what holds between two pulls while the machine works on input `s` (upstream already taken) -/
structure Inv (f : α → List α) (s : α) (st : St α) : Prop where
  hup : st.up = []
  hs : s ∈ st.seen
  hreach : ∀ x ∈ st.seen, Reach f s x
  hnodup : st.seen.Nodup
  hstks : ∀ x ∈ st.stks, x ∈ st.seen
  /-- the body is drained, or it works on a seen stack `c` and what it has handed out so far is seen -/
  hcur : st.drained = true ∨ ∃ c pre, st.cur = some c ∧ c ∈ st.seen ∧ f c = pre ++ st.pend ∧ ∀ z ∈ pre, z ∈ st.seen
  /-- every seen stack is waiting, being expanded, or fully expanded -/
  hexp : ∀ y ∈ st.seen, y ∈ st.stks ∨ (st.drained = false ∧ st.cur = some y) ∨ ∀ z ∈ f y, z ∈ st.seen

theorem opDry_inv (f : α → List α) (s : α) (st st1 : St α) (h : OpDry st st1) (hi : Inv f s st) :
    Inv f s st1 ∧ st1.drained = true ∧ st1.seen = st.seen ∧ st1.stks = st.stks ∧ st1.up = st.up ∧
    ∀ y ∈ st1.seen, y ∈ st1.stks ∨ ∀ z ∈ f y, z ∈ st1.seen := by
  cases h with
  | was hd =>
    refine ⟨hi, hd, rfl, rfl, rfl, ?_⟩
    intro y hy
    rcases hi.hexp y hy with h | h | h
    · exact Or.inl h
    · rw [hd] at h; exact absurd h.1 (by simp)
    · exact Or.inr h
  | now hd hp =>
    have hfull : ∀ y ∈ st.seen, y ∈ st.stks ∨ ∀ z ∈ f y, z ∈ st.seen := by
      intro y hy
      rcases hi.hexp y hy with h | h | h
      · exact Or.inl h
      · -- the stack being expanded: the body has handed out everything
        right
        rcases hi.hcur with hc | ⟨c, pre, hc, _, hf, hpre⟩
        · rw [hd] at hc; exact absurd hc (by simp)
        · rw [h.2] at hc; cases hc
          intro z hz
          rw [hf, hp, List.append_nil] at hz
          exact hpre z hz
      · exact Or.inr h
    refine ⟨⟨hi.hup, hi.hs, hi.hreach, hi.hnodup, hi.hstks, Or.inl rfl, ?_⟩, rfl, rfl, rfl, rfl, hfull⟩
    intro y hy
    rcases hfull y hy with h | h
    · exact Or.inl h
    · exact Or.inr (Or.inr h)

/-- a pull that yields: the stack is new, reachable, and the invariant goes on -/
theorem next_some (f : α → List α) (s : α) (st st' : St α) (r : Option α) (h : Next f false st r st') :
    ∀ x, r = some x → Inv f s st → Inv f s st' ∧ x ∉ st.seen ∧ Reach f s x ∧ st'.seen = x :: st.seen := by
  induction h with
  | @opYield st x xs hd hp hx =>
    intro x' hr hi
    cases hr
    have hrx : Reach f s x := by
      rcases hi.hcur with hc | ⟨c, pre, hc, hcs, hf, _⟩
      · rw [hd] at hc; exact absurd hc (by simp)
      · exact Reach.step (hi.hreach c hcs) (by rw [hf, hp]; simp)
    refine ⟨⟨hi.hup, List.mem_cons_of_mem _ hi.hs, ?_, ?_, ?_, ?_, ?_⟩, hx, hrx, rfl⟩
    · intro y hy
      simp only [List.mem_cons] at hy
      rcases hy with rfl | hy
      · exact hrx
      · exact hi.hreach y hy
    · exact List.nodup_cons.mpr ⟨hx, hi.hnodup⟩
    · intro y hy
      simp only [List.mem_cons] at hy
      rcases hy with rfl | hy
      · simp
      · exact List.mem_cons_of_mem _ (hi.hstks y hy)
    · right
      rcases hi.hcur with hc | ⟨c, pre, hc, hcs, hf, hpre⟩
      · rw [hd] at hc; exact absurd hc (by simp)
      · refine ⟨c, pre ++ [x], hc, List.mem_cons_of_mem _ hcs, by rw [hf, hp]; simp, ?_⟩
        intro z hz
        simp only [List.mem_append, List.mem_singleton] at hz
        rcases hz with hz | rfl
        · exact List.mem_cons_of_mem _ (hpre z hz)
        · simp
    · intro y hy
      simp only [List.mem_cons] at hy
      rcases hy with rfl | hy
      · left; simp
      · rcases hi.hexp y hy with h | h | h
        · exact Or.inl (List.mem_cons_of_mem _ h)
        · exact Or.inr (Or.inl h)
        · exact Or.inr (Or.inr fun z hz => List.mem_cons_of_mem _ (h z hz))
  | @opSkip st st' x xs r hd hp hx _ ih =>
    intro x' hr hi
    have hi' : Inv f s { st with pend := xs } := by
      refine ⟨hi.hup, hi.hs, hi.hreach, hi.hnodup, hi.hstks, ?_, hi.hexp⟩
      rcases hi.hcur with hc | ⟨c, pre, hc, hcs, hf, hpre⟩
      · exact Or.inl hc
      · right
        refine ⟨c, pre ++ [x], hc, hcs, by rw [hf, hp]; simp, ?_⟩
        intro z hz
        simp only [List.mem_append, List.mem_singleton] at hz
        rcases hz with hz | rfl
        · exact hpre z hz
        · exact hx
    exact ih x' hr hi'
  | @sendCached st st1 st' y ys r hdry hst _ ih =>
    intro x' hr hi
    obtain ⟨hi1, hd1, hseen, hstks, hup, hfull⟩ := opDry_inv f s st st1 hdry hi
    have hy : y ∈ st1.seen := hi1.hstks y (by rw [hst]; simp)
    have hi2 : Inv f s { st1 with stks := ys, cur := some y, pend := f y, drained := false } := by
      refine ⟨hi1.hup, hi1.hs, hi1.hreach, hi1.hnodup, ?_, ?_, ?_⟩
      · intro z hz; exact hi1.hstks z (by rw [hst]; exact List.mem_cons_of_mem _ hz)
      · exact Or.inr ⟨y, [], rfl, hy, by simp, by simp⟩
      · intro z hz
        rcases hfull z hz with h | h
        · rw [hst] at h
          simp only [List.mem_cons] at h
          rcases h with rfl | h
          · exact Or.inr (Or.inl ⟨rfl, rfl⟩)
          · exact Or.inl h
        · exact Or.inr (Or.inr h)
    obtain ⟨a, b, c, d⟩ := ih x' hr hi2
    exact ⟨a, by rw [← hseen]; exact b, c, by rw [← hseen]; exact d⟩
  | plusFeed hp _ _ _ _ _ => exact absurd hp (by simp)
  | plusEnd hp _ _ _ => exact absurd hp (by simp)
  | @starInput st st1 s' rest _ hdry _ hu =>
    intro x' _ hi
    obtain ⟨hi1, _, _, _, hup, _⟩ := opDry_inv f s st st1 hdry hi
    rw [hup, hi.hup] at hu; cases hu
  | starEnd _ _ _ _ => intro x' hr; cases hr

/-- a pull that reports exhaustion: everything reachable has been seen -/
theorem next_none (f : α → List α) (s : α) (st st' : St α) (r : Option α) (h : Next f false st r st') :
    r = none → Inv f s st → ∀ x, Reach f s x → x ∈ st.seen := by
  induction h with
  | opYield _ _ _ => intro hr; cases hr
  | @opSkip st st' x xs r hd hp hx _ ih =>
    intro hr hi
    have hi' : Inv f s { st with pend := xs } := by
      refine ⟨hi.hup, hi.hs, hi.hreach, hi.hnodup, hi.hstks, ?_, hi.hexp⟩
      rcases hi.hcur with hc | ⟨c, pre, hc, hcs, hf, hpre⟩
      · exact Or.inl hc
      · right
        refine ⟨c, pre ++ [x], hc, hcs, by rw [hf, hp]; simp, ?_⟩
        intro z hz
        simp only [List.mem_append, List.mem_singleton] at hz
        rcases hz with hz | rfl
        · exact hpre z hz
        · exact hx
    exact ih hr hi'
  | @sendCached st st1 st' y ys r hdry hst _ ih =>
    intro hr hi
    obtain ⟨hi1, hd1, hseen, hstks, hup, hfull⟩ := opDry_inv f s st st1 hdry hi
    have hy : y ∈ st1.seen := hi1.hstks y (by rw [hst]; simp)
    have hi2 : Inv f s { st1 with stks := ys, cur := some y, pend := f y, drained := false } := by
      refine ⟨hi1.hup, hi1.hs, hi1.hreach, hi1.hnodup, ?_, ?_, ?_⟩
      · intro z hz; exact hi1.hstks z (by rw [hst]; exact List.mem_cons_of_mem _ hz)
      · exact Or.inr ⟨y, [], rfl, hy, by simp, by simp⟩
      · intro z hz
        rcases hfull z hz with h | h
        · rw [hst] at h
          simp only [List.mem_cons] at h
          rcases h with rfl | h
          · exact Or.inr (Or.inl ⟨rfl, rfl⟩)
          · exact Or.inl h
        · exact Or.inr (Or.inr h)
    intro x hx
    have := ih hr hi2 x hx
    rw [← hseen]; exact this
  | plusFeed hp _ _ _ _ _ => exact absurd hp (by simp)
  | plusEnd hp _ _ _ => exact absurd hp (by simp)
  | starInput _ _ _ _ => intro hr; cases hr
  | @starEnd st st1 _ hdry hst hu =>
    intro _ hi
    obtain ⟨hi1, _, hseen, _, _, hfull⟩ := opDry_inv f s st st1 hdry hi
    -- nothing waits and the body is dry: the seen set is closed under the body and contains s
    intro x hx
    rw [← hseen]
    induction hx with
    | refl => exact hi1.hs
    | step _ hz ihx =>
      rcases hfull _ ihx with h | h
      · rw [hst] at h; simp at h
      · exact h _ hz

/-- from a state working on `s`: whatever a drain yields is new, reachable, distinct, and together
    with what was seen it is everything reachable -/
theorem drain_inv (f : α → List α) (s : α) (st st' : St α) (outs : List α) (h : Drain f false st outs st') :
    Inv f s st →
      outs.Nodup ∧ (∀ x ∈ outs, x ∉ st.seen ∧ Reach f s x) ∧ (∀ x, Reach f s x → x ∈ st.seen ∨ x ∈ outs) := by
  induction h with
  | nil hn =>
    intro hi
    exact ⟨List.nodup_nil, by simp, fun x hx => Or.inl (next_none f s _ _ _ hn rfl hi x hx)⟩
  | @cons st st1 st2 x xs hn _ ih =>
    intro hi
    obtain ⟨hi1, hxs, hrx, hseen⟩ := next_some f s _ _ _ hn x rfl hi
    obtain ⟨hnd, hnew, hall⟩ := ih hi1
    refine ⟨?_, ?_, ?_⟩
    · refine List.nodup_cons.mpr ⟨?_, hnd⟩
      intro hmem
      have := (hnew x hmem).1
      rw [hseen] at this; simp at this
    · intro y hy
      simp only [List.mem_cons] at hy
      rcases hy with rfl | hy
      · exact ⟨hxs, hrx⟩
      · obtain ⟨h1, h2⟩ := hnew y hy
        rw [hseen] at h1
        exact ⟨fun hc => h1 (List.mem_cons_of_mem _ hc), h2⟩
    · intro y hy
      rcases hall y hy with h | h
      · rw [hseen] at h
        simp only [List.mem_cons] at h
        rcases h with rfl | h
        · exact Or.inr (by simp)
        · exact Or.inl h
      · exact Or.inr (List.mem_cons_of_mem _ h)

/-- **`E*` in front of one input: the input first, then exactly the reachable stacks, each once** -/
theorem star_sound_complete (f : α → List α) (s : α) (outs : List α) (st' : St α)
    (h : Drain f false (init [s]) outs st') :
    outs.head? = some s ∧ outs.Nodup ∧ (∀ x ∈ outs, Reach f s x) ∧ (∀ x, Reach f s x → x ∈ outs) := by
  cases h with
  | nil hn =>
    -- a fresh operator in front of an input cannot report exhaustion
    exfalso
    generalize hst : init [s] = st0 at hn
    cases hn with
    | opSkip hd _ _ _ => rw [← hst] at hd; simp [init] at hd
    | sendCached hdry hst1 _ =>
      cases hdry with
      | was _ => rw [← hst] at hst1; simp [init] at hst1
      | now hd _ => rw [← hst] at hd; simp [init] at hd
    | plusFeed hp _ _ _ _ => simp at hp
    | plusEnd hp _ _ _ => simp at hp
    | starEnd _ hdry _ hu =>
      cases hdry with
      | was _ => rw [← hst] at hu; simp [init] at hu
      | now hd _ => rw [← hst] at hd; simp [init] at hd
  | @cons _ st1 _ x xs hn hd =>
    generalize hst : init [s] = st0 at hn
    cases hn with
    | opYield hdr _ _ => rw [← hst] at hdr; simp [init] at hdr
    | opSkip hdr _ _ _ => rw [← hst] at hdr; simp [init] at hdr
    | sendCached hdry hst1 _ =>
      cases hdry with
      | was _ => rw [← hst] at hst1; simp [init] at hst1
      | now hdr _ => rw [← hst] at hdr; simp [init] at hdr
    | plusFeed hp _ _ _ _ => simp at hp
    | starInput _ hdry _ hu =>
      cases hdry with
      | now hdr _ => rw [← hst] at hdr; simp [init] at hdr
      | was _ =>
        rw [← hst] at hu
        simp only [init, List.cons.injEq] at hu
        obtain ⟨rfl, rfl⟩ := hu
        -- the state after the input was yielded: seen = [s], stks = [s], body drained
        have hi : Inv f s { st0 with up := [], seen := [s], stks := [s] } := by
          subst hst
          refine ⟨rfl, by simp, ?_, by simp, by simp, Or.inl rfl, ?_⟩
          · intro y hy; simp at hy; subst hy; exact Reach.refl
          · intro y hy; left; simpa using hy
        obtain ⟨hnd, hnew, hall⟩ := drain_inv f s _ _ _ hd hi
        refine ⟨rfl, ?_, ?_, ?_⟩
        · refine List.nodup_cons.mpr ⟨?_, hnd⟩
          intro hm
          have := (hnew s hm).1
          simp at this
        · intro y hy
          simp only [List.mem_cons] at hy
          rcases hy with rfl | hy
          · exact Reach.refl
          · exact (hnew y hy).2
        · intro y hy
          rcases hall y hy with h | h
          · simp at h; subst h; simp
          · exact List.mem_cons_of_mem _ h


/-! ### `E+` -/

/-- reachable from `s` by one or more steps of the body -/
inductive ReachP (f : α → List α) (s : α) : α → Prop
  | base {z : α} : z ∈ f s → ReachP f s z
  | step {y z : α} : ReachP f s y → z ∈ f y → ReachP f s z

/-- between two pulls while `E+` works on input `s`: `s` itself is expanded without being yielded -/
structure InvP (f : α → List α) (s : α) (st : St α) : Prop where
  hup : st.up = []
  hreach : ∀ x ∈ st.seen, ReachP f s x
  hnodup : st.seen.Nodup
  hstks : ∀ x ∈ st.stks, x ∈ st.seen
  hcur : st.drained = true ∨ ∃ c pre, st.cur = some c ∧ (c = s ∨ c ∈ st.seen) ∧ f c = pre ++ st.pend ∧ ∀ z ∈ pre, z ∈ st.seen
  hexp : ∀ y, (y = s ∨ y ∈ st.seen) → y ∈ st.stks ∨ (st.drained = false ∧ st.cur = some y) ∨ ∀ z ∈ f y, z ∈ st.seen

theorem opDry_invP (f : α → List α) (s : α) (st st1 : St α) (h : OpDry st st1) (hi : InvP f s st) :
    InvP f s st1 ∧ st1.drained = true ∧ st1.seen = st.seen ∧ st1.stks = st.stks ∧ st1.up = st.up ∧
    ∀ y, (y = s ∨ y ∈ st1.seen) → y ∈ st1.stks ∨ ∀ z ∈ f y, z ∈ st1.seen := by
  cases h with
  | was hd =>
    refine ⟨hi, hd, rfl, rfl, rfl, ?_⟩
    intro y hy
    rcases hi.hexp y hy with h | h | h
    · exact Or.inl h
    · rw [hd] at h; exact absurd h.1 (by simp)
    · exact Or.inr h
  | now hd hp =>
    have hfull : ∀ y, (y = s ∨ y ∈ st.seen) → y ∈ st.stks ∨ ∀ z ∈ f y, z ∈ st.seen := by
      intro y hy
      rcases hi.hexp y hy with h | h | h
      · exact Or.inl h
      · right
        rcases hi.hcur with hc | ⟨c, pre, hc, _, hf, hpre⟩
        · rw [hd] at hc; exact absurd hc (by simp)
        · rw [h.2] at hc; cases hc
          intro z hz
          rw [hf, hp, List.append_nil] at hz
          exact hpre z hz
      · exact Or.inr h
    refine ⟨⟨hi.hup, hi.hreach, hi.hnodup, hi.hstks, Or.inl rfl, ?_⟩, rfl, rfl, rfl, rfl, hfull⟩
    intro y hy
    rcases hfull y hy with h | h
    · exact Or.inl h
    · exact Or.inr (Or.inr h)

theorem skip_invP (f : α → List α) (s : α) (st : St α) (x : α) (xs : List α) (hp : st.pend = x :: xs) (hx : x ∈ st.seen)
    (hi : InvP f s st) : InvP f s { st with pend := xs } := by
  refine ⟨hi.hup, hi.hreach, hi.hnodup, hi.hstks, ?_, hi.hexp⟩
  rcases hi.hcur with hc | ⟨c, pre, hc, hcs, hf, hpre⟩
  · exact Or.inl hc
  · right
    refine ⟨c, pre ++ [x], hc, hcs, by rw [hf, hp]; simp, ?_⟩
    intro z hz
    simp only [List.mem_append, List.mem_singleton] at hz
    rcases hz with hz | rfl
    · exact hpre z hz
    · exact hx

theorem send_invP (f : α → List α) (s : α) (st1 : St α) (y : α) (ys : List α) (hst : st1.stks = y :: ys)
    (hi1 : InvP f s st1) (hfull : ∀ y, (y = s ∨ y ∈ st1.seen) → y ∈ st1.stks ∨ ∀ z ∈ f y, z ∈ st1.seen) :
    InvP f s { st1 with stks := ys, cur := some y, pend := f y, drained := false } := by
  have hy : y ∈ st1.seen := hi1.hstks y (by rw [hst]; simp)
  refine ⟨hi1.hup, hi1.hreach, hi1.hnodup, ?_, ?_, ?_⟩
  · intro z hz; exact hi1.hstks z (by rw [hst]; exact List.mem_cons_of_mem _ hz)
  · exact Or.inr ⟨y, [], rfl, Or.inr hy, by simp, by simp⟩
  · intro z hz
    rcases hfull z hz with h | h
    · rw [hst] at h
      simp only [List.mem_cons] at h
      rcases h with rfl | h
      · exact Or.inr (Or.inl ⟨rfl, rfl⟩)
      · exact Or.inl h
    · exact Or.inr (Or.inr h)

theorem next_some_plus (f : α → List α) (s : α) (st st' : St α) (r : Option α) (h : Next f true st r st') :
    ∀ x, r = some x → InvP f s st → InvP f s st' ∧ x ∉ st.seen ∧ ReachP f s x ∧ st'.seen = x :: st.seen := by
  induction h with
  | @opYield st x xs hd hp hx =>
    intro x' hr hi
    cases hr
    have hrx : ReachP f s x := by
      rcases hi.hcur with hc | ⟨c, pre, hc, hcs, hf, _⟩
      · rw [hd] at hc; exact absurd hc (by simp)
      · have hm : x ∈ f c := by rw [hf, hp]; simp
        rcases hcs with rfl | hcs
        · exact ReachP.base hm
        · exact ReachP.step (hi.hreach c hcs) hm
    refine ⟨⟨hi.hup, ?_, ?_, ?_, ?_, ?_⟩, hx, hrx, rfl⟩
    · intro y hy
      simp only [List.mem_cons] at hy
      rcases hy with rfl | hy
      · exact hrx
      · exact hi.hreach y hy
    · exact List.nodup_cons.mpr ⟨hx, hi.hnodup⟩
    · intro y hy
      simp only [List.mem_cons] at hy
      rcases hy with rfl | hy
      · simp
      · exact List.mem_cons_of_mem _ (hi.hstks y hy)
    · right
      rcases hi.hcur with hc | ⟨c, pre, hc, hcs, hf, hpre⟩
      · rw [hd] at hc; exact absurd hc (by simp)
      · refine ⟨c, pre ++ [x], hc, ?_, by rw [hf, hp]; simp, ?_⟩
        · rcases hcs with h | h
          · exact Or.inl h
          · exact Or.inr (List.mem_cons_of_mem _ h)
        · intro z hz
          simp only [List.mem_append, List.mem_singleton] at hz
          rcases hz with hz | rfl
          · exact List.mem_cons_of_mem _ (hpre z hz)
          · simp
    · intro y hy
      have hy' : y = x ∨ (y = s ∨ y ∈ st.seen) := by
        rcases hy with h | h
        · exact Or.inr (Or.inl h)
        · simp only [List.mem_cons] at h
          rcases h with h | h
          · exact Or.inl h
          · exact Or.inr (Or.inr h)
      rcases hy' with rfl | hy'
      · left; simp
      · rcases hi.hexp y hy' with h | h | h
        · exact Or.inl (List.mem_cons_of_mem _ h)
        · exact Or.inr (Or.inl h)
        · exact Or.inr (Or.inr fun z hz => List.mem_cons_of_mem _ (h z hz))
  | @opSkip st st' x xs r hd hp hx _ ih =>
    intro x' hr hi
    exact ih x' hr (skip_invP f s st x xs hp hx hi)
  | @sendCached st st1 st' y ys r hdry hst _ ih =>
    intro x' hr hi
    obtain ⟨hi1, _, hseen, _, _, hfull⟩ := opDry_invP f s st st1 hdry hi
    obtain ⟨a, b, c, d⟩ := ih x' hr (send_invP f s st1 y ys hst hi1 hfull)
    exact ⟨a, by rw [← hseen]; exact b, c, by rw [← hseen]; exact d⟩
  | @plusFeed st st1 st' s' rest r _ hdry _ hu _ _ =>
    intro x' _ hi
    obtain ⟨_, _, _, _, hup, _⟩ := opDry_invP f s st st1 hdry hi
    rw [hup, hi.hup] at hu; cases hu
  | plusEnd _ _ _ _ => intro x' hr; cases hr
  | starInput hp _ _ _ => exact absurd hp (by simp)
  | starEnd hp _ _ _ => exact absurd hp (by simp)

theorem next_none_plus (f : α → List α) (s : α) (st st' : St α) (r : Option α) (h : Next f true st r st') :
    r = none → InvP f s st → ∀ x, ReachP f s x → x ∈ st.seen := by
  induction h with
  | opYield _ _ _ => intro hr; cases hr
  | @opSkip st st' x xs r hd hp hx _ ih =>
    intro hr hi
    exact ih hr (skip_invP f s st x xs hp hx hi)
  | @sendCached st st1 st' y ys r hdry hst _ ih =>
    intro hr hi
    obtain ⟨hi1, _, hseen, _, _, hfull⟩ := opDry_invP f s st st1 hdry hi
    intro x hx
    have := ih hr (send_invP f s st1 y ys hst hi1 hfull) x hx
    rw [← hseen]; exact this
  | @plusFeed st st1 st' s' rest r _ hdry _ hu _ _ =>
    intro _ hi
    obtain ⟨_, _, _, _, hup, _⟩ := opDry_invP f s st st1 hdry hi
    rw [hup, hi.hup] at hu; cases hu
  | @plusEnd st st1 _ hdry hst _ =>
    intro _ hi
    obtain ⟨hi1, _, hseen, _, _, hfull⟩ := opDry_invP f s st st1 hdry hi
    intro x hx
    rw [← hseen]
    induction hx with
    | base hz =>
      rcases hfull s (Or.inl rfl) with h | h
      · rw [hst] at h; simp at h
      · exact h _ hz
    | step _ hz ihx =>
      rcases hfull _ (Or.inr ihx) with h | h
      · rw [hst] at h; simp at h
      · exact h _ hz
  | starInput hp _ _ _ => exact absurd hp (by simp)
  | starEnd hp _ _ _ => exact absurd hp (by simp)

theorem drain_inv_plus (f : α → List α) (s : α) (st st' : St α) (outs : List α) (h : Drain f true st outs st') :
    InvP f s st →
      outs.Nodup ∧ (∀ x ∈ outs, x ∉ st.seen ∧ ReachP f s x) ∧ (∀ x, ReachP f s x → x ∈ st.seen ∨ x ∈ outs) := by
  induction h with
  | nil hn =>
    intro hi
    exact ⟨List.nodup_nil, by simp, fun x hx => Or.inl (next_none_plus f s _ _ _ hn rfl hi x hx)⟩
  | @cons st st1 st2 x xs hn _ ih =>
    intro hi
    obtain ⟨hi1, hxs, hrx, hseen⟩ := next_some_plus f s _ _ _ hn x rfl hi
    obtain ⟨hnd, hnew, hall⟩ := ih hi1
    refine ⟨?_, ?_, ?_⟩
    · refine List.nodup_cons.mpr ⟨?_, hnd⟩
      intro hmem
      have := (hnew x hmem).1
      rw [hseen] at this; simp at this
    · intro y hy
      simp only [List.mem_cons] at hy
      rcases hy with rfl | hy
      · exact ⟨hxs, hrx⟩
      · obtain ⟨h1, h2⟩ := hnew y hy
        rw [hseen] at h1
        exact ⟨fun hc => h1 (List.mem_cons_of_mem _ hc), h2⟩
    · intro y hy
      rcases hall y hy with h | h
      · rw [hseen] at h
        simp only [List.mem_cons] at h
        rcases h with rfl | h
        · exact Or.inr (by simp)
        · exact Or.inl h
      · exact Or.inr (List.mem_cons_of_mem _ h)

/-- a pull of a fresh `E+` in front of `[s]` is a pull of the state in which `s` has been fed to the body -/
theorem plus_first_pull (f : α → List α) (s : α) (r : Option α) (st' : St α) (h : Next f true (init [s]) r st') :
    Next f true { (init [s] : St α) with up := [], seen := [], cur := some s, pend := f s, drained := false } r st' := by
  generalize hst : init [s] = st0 at h
  cases h with
  | opYield hd _ _ => rw [← hst] at hd; simp [init] at hd
  | opSkip hd _ _ _ => rw [← hst] at hd; simp [init] at hd
  | sendCached hdry hst1 _ =>
    cases hdry with
    | was _ => rw [← hst] at hst1; simp [init] at hst1
    | now hd _ => rw [← hst] at hd; simp [init] at hd
  | plusFeed _ hdry _ hu hn =>
    cases hdry with
    | now hd _ => rw [← hst] at hd; simp [init] at hd
    | was _ =>
      rw [← hst] at hu
      simp only [init, List.cons.injEq] at hu
      obtain ⟨rfl, rfl⟩ := hu
      subst hst
      exact hn
  | plusEnd _ hdry _ hu =>
    cases hdry with
    | was _ => rw [← hst] at hu; simp [init] at hu
    | now hd _ => rw [← hst] at hd; simp [init] at hd
  | starInput hp _ _ _ => simp at hp
  | starEnd hp _ _ _ => simp at hp

/-- **`E+` in front of one input: exactly the stacks reachable in one or more steps, each once** -/
theorem plus_sound_complete (f : α → List α) (s : α) (outs : List α) (st' : St α)
    (h : Drain f true (init [s]) outs st') :
    outs.Nodup ∧ (∀ x ∈ outs, ReachP f s x) ∧ (∀ x, ReachP f s x → x ∈ outs) := by
  have hi : InvP f s { (init [s] : St α) with up := [], seen := [], cur := some s, pend := f s, drained := false } := by
    refine ⟨rfl, by simp, by simp, by simp [init], Or.inr ⟨s, [], rfl, Or.inl rfl, by simp, by simp⟩, ?_⟩
    intro y hy
    rcases hy with rfl | hy
    · exact Or.inr (Or.inl ⟨rfl, rfl⟩)
    · simp at hy
  have hd : Drain f true { (init [s] : St α) with up := [], seen := [], cur := some s, pend := f s, drained := false } outs st' := by
    cases h with
    | nil hn => exact Drain.nil (plus_first_pull f s _ _ hn)
    | cons hn hrest => exact Drain.cons (plus_first_pull f s _ _ hn) hrest
  obtain ⟨hnd, hnew, hall⟩ := drain_inv_plus f s _ _ _ hd hi
  refine ⟨hnd, fun x hx => (hnew x hx).2, ?_⟩
  intro x hx
  rcases hall x hx with h | h
  · simp at h
  · exact h

/-- non-vacuity: the machine on a 3-cycle with a spur does drain, in this order -/
example : ∃ st', Drain (fun n : Nat => if n = 0 then [1, 3] else if n = 1 then [2] else if n = 2 then [0] else []) false
    (init [0]) [0, 1, 3, 2] st' := by
  apply Exists.intro
  apply Drain.cons (Next.starInput rfl (OpDry.was rfl) rfl rfl)
  apply Drain.cons (Next.sendCached (OpDry.was rfl) rfl (Next.opYield rfl rfl (by simp)))
  apply Drain.cons (Next.opYield rfl rfl (by simp))
  apply Drain.cons (Next.sendCached (OpDry.now rfl rfl) rfl
    (Next.sendCached (OpDry.now rfl rfl) rfl (Next.opYield rfl rfl (by simp))))
  apply Drain.nil
  apply Next.sendCached (OpDry.now rfl rfl) rfl
  apply Next.opSkip rfl rfl (by simp)
  exact Next.starEnd rfl (OpDry.now rfl rfl) rfl rfl

end ZwVerif.Closure
