import ZwVerif.Model.Pipe
import ZwVerif.Props.C04SubOps
set_option linter.unusedSimpArgs false
set_option linter.unusedVariables false
/-!
# C01 — stages compose: the stream an operator yields is the concatenation of what it yields per input

`nest U C comb` feeds every item of the upstream `U` to the chain `C` and combines.  For EVERY
upstream machine (any state space, any `next`), if pulling `U` dry yields the list `L`, then pulling
`nest U C comb` dry yields, item by item of `L` in order, what `C` yields for that item
(`nest_refines`) — and nothing else (`nest_only_behaviour`, given deterministic parts).  Since a
`nest` over a chain is again a chain (`Chain.comp`), this covers pipelines of any length: what a
CAT of stages yields for one input is the Kleisli composition of what its stages yield
(`comp_f`), and the whole stream is the concatenation over the inputs (`pipeline_refines`).
No result of one input depends on an earlier input: every chain is back at `idle` when it is fed.
-/
namespace ZwVerif.Pipe
variable {α β γ δ : Type}

theorem drain_det (M : Mach γ) (hd : M.Det) (st : M.σ) (o1 : List γ) (s1 : M.σ) (h1 : M.Drain st o1 s1) :
    ∀ (o2 : List γ) (s2 : M.σ), M.Drain st o2 s2 → o1 = o2 ∧ s1 = s2 := by
  induction h1 with
  | nil h =>
    intro o2 s2 h2
    cases h2 with
    | nil h' => exact ⟨rfl, (hd _ _ _ _ _ h h').2⟩
    | cons h' _ => have := (hd _ _ _ _ _ h h').1; cases this
  | cons h _ ih =>
    intro o2 s2 h2
    cases h2 with
    | nil h' => have := (hd _ _ _ _ _ h h').1; cases this
    | cons h' hd2 =>
      obtain ⟨e1, e2⟩ := hd _ _ _ _ _ h h'
      cases e1; subst e2
      obtain ⟨e1, e2⟩ := ih _ _ hd2
      exact ⟨by rw [e1], e2⟩

/-- draining looks at a state only through `next` -/
theorem drain_of_next_imp (M : Mach γ) {st st2 : M.σ} {o : List γ} {s : M.σ}
    (e : ∀ r s', M.next st2 r s' → M.next st r s') (h : M.Drain st2 o s) : M.Drain st o s := by
  cases h with
  | nil h' => exact Mach.Drain.nil (e _ _ h')
  | cons h' hd => exact Mach.Drain.cons (e _ _ h') hd

/-! ### nest -/

theorem nest_det (U : Mach α) (C : Chain α β) (comb : α → β → γ) (hU : U.Det) : (nest U C comb).Det := by
  intro st r1 s1 r2 s2 h1
  revert r2 s2
  induction h1 with
  | pull hu _ ih =>
    intro r2 s2 h2
    cases h2 with
    | pull hu2 hn2 =>
      obtain ⟨e1, e2⟩ := hU _ _ _ _ _ hu hu2
      cases e1; subst e2
      exact ih _ _ hn2
    | endUp hu2 => have := (hU _ _ _ _ _ hu hu2).1; cases this
  | endUp hu =>
    intro r2 s2 h2
    cases h2 with
    | pull hu2 _ => have := (hU _ _ _ _ _ hu hu2).1; cases this
    | endUp hu2 => have := (hU _ _ _ _ _ hu hu2).2; subst this; exact ⟨rfl, rfl⟩
  | yield hc =>
    intro r2 s2 h2
    cases h2 with
    | yield hc2 =>
      obtain ⟨e1, e2⟩ := C.det _ _ _ _ _ hc hc2
      cases e1; subst e2; exact ⟨rfl, rfl⟩
    | dry hc2 _ => have := (C.det _ _ _ _ _ hc hc2).1; cases this
  | dry hc _ ih =>
    intro r2 s2 h2
    cases h2 with
    | yield hc2 => have := (C.det _ _ _ _ _ hc hc2).1; cases this
    | dry hc2 hn2 =>
      have := (C.det _ _ _ _ _ hc hc2).2
      subst this
      exact ih _ _ hn2

/-- while the chain works on item `a`: its results combined with `a`, then whatever comes after -/
theorem nest_item (U : Mach α) (C : Chain α β) (comb : α → β → γ) (u : U.σ) (a : α) (R : List γ) (fin : NestSt U C)
    (c cf : C.M.σ) (ys : List β) (hc : C.M.Drain c ys cf)
    (hrest : (nest U C comb).Drain (u, none, cf) R fin) :
    (nest U C comb).Drain (u, some a, c) (ys.map (comb a) ++ R) fin := by
  induction hc with
  | nil h =>
    simp only [List.map_nil, List.nil_append]
    exact drain_of_next_imp (nest U C comb) (fun r s' hn => NestNext.dry h hn) hrest
  | cons h _ ih =>
    simp only [List.map_cons, List.cons_append]
    exact Mach.Drain.cons (M := nest U C comb) (NestNext.yield h) (ih hrest)

/-- **stages compose**: whatever the upstream is, `nest` yields, item by item, what the chain yields -/
theorem nest_refines (U : Mach α) (C : Chain α β) (comb : α → β → γ) (u ufin : U.σ) (L : List α)
    (h : U.Drain u L ufin) :
    (nest U C comb).Drain (u, none, C.idle) (nestSpec C.f comb L) (ufin, none, C.idle) := by
  induction h with
  | nil hu => exact Mach.Drain.nil (M := nest U C comb) (NestNext.endUp hu)
  | @cons st st' st'' a xs hu _ ih =>
    have d := nest_item U C comb st' a _ _ (C.feed C.idle a) C.idle (C.f a) (C.ok a) ih
    have : nestSpec C.f comb (a :: xs) = (C.f a).map (comb a) ++ nestSpec C.f comb xs := by simp [nestSpec]
    rw [this]
    exact drain_of_next_imp (nest U C comb) (fun r s' hn => NestNext.pull hu hn) d

theorem nest_only_behaviour (U : Mach α) (C : Chain α β) (comb : α → β → γ) (hU : U.Det) (u ufin : U.σ) (L : List α)
    (h : U.Drain u L ufin) (out : List γ) (fin : NestSt U C)
    (ho : (nest U C comb).Drain (u, none, C.idle) out fin) : out = nestSpec C.f comb L :=
  (drain_det _ (nest_det U C comb hU) _ _ _ ho _ _ (nest_refines U C comb u ufin L h)).1

/-! ### numbering is per input -/

/-- **fresh numbering**: what an operator yields for an input is numbered from zero, whatever the counter stood at -/
theorem nestNum_refines (U : Mach α) (C : Chain α β) (comb : α → β → Nat → γ) (u ufin : U.σ) (L : List α)
    (h : U.Drain u L ufin) :
    ∀ n, ∃ m, (nestNum U C comb).Drain (u, none, C.idle, n) (numSpec C.f comb L) (ufin, none, C.idle, m) := by
  induction h with
  | nil hu => intro n; exact ⟨n, Mach.Drain.nil (M := nestNum U C comb) (NumNext.endUp hu)⟩
  | @cons st st' st'' a xs hu _ ih =>
    intro n
    have hs : numSpec C.f comb (a :: xs) = numFrom (comb a) 0 (C.f a) ++ numSpec C.f comb xs := by simp [numSpec]
    rw [hs]
    -- the item's results are numbered from the counter `pull` set (0); the rest is drained from whatever counter it leaves
    have key : ∀ k, ∃ m, (nestNum U C comb).Drain (st', some a, C.feed C.idle a, k)
        (numFrom (comb a) k (C.f a) ++ numSpec C.f comb xs) (st'', none, C.idle, m) := by
      intro k
      have aux : ∀ (c cf : C.M.σ) (ys : List β), C.M.Drain c ys cf → cf = C.idle → ∀ k, ∃ m,
          (nestNum U C comb).Drain (st', some a, c, k) (numFrom (comb a) k ys ++ numSpec C.f comb xs) (st'', none, C.idle, m) := by
        intro c cf ys hc
        induction hc with
        | nil h =>
          intro e k
          subst e
          obtain ⟨m, d⟩ := ih k
          refine ⟨m, ?_⟩
          simp only [numFrom, List.nil_append]
          exact drain_of_next_imp (nestNum U C comb) (fun r s' hn => NumNext.dry h hn) d
        | cons h _ ih2 =>
          intro e k
          obtain ⟨m, d⟩ := ih2 e (k + 1)
          refine ⟨m, ?_⟩
          simp only [numFrom, List.cons_append]
          exact Mach.Drain.cons (M := nestNum U C comb) (NumNext.yield h) d
      exact aux _ _ _ (C.ok a) rfl k
    obtain ⟨m, d⟩ := key 0
    exact ⟨m, drain_of_next_imp (nestNum U C comb) (fun r s' hn => NumNext.pull hu hn) d⟩

/-! ### upstreams -/

theorem listSrc_det : (listSrc α).Det := by
  intro st r1 s1 r2 s2 h1 h2
  cases st with
  | nil => obtain ⟨a, b⟩ := h1; obtain ⟨c, d⟩ := h2; subst_vars; exact ⟨rfl, rfl⟩
  | cons x xs => obtain ⟨a, b⟩ := h1; obtain ⟨c, d⟩ := h2; subst_vars; exact ⟨rfl, rfl⟩

theorem listSrc_drain (l : List α) : (listSrc α).Drain l l [] := by
  induction l with
  | nil => exact Mach.Drain.nil (M := listSrc α) (st := ([] : List α)) ⟨rfl, rfl⟩
  | cons x xs ih => exact Mach.Drain.cons (M := listSrc α) (st := x :: xs) ⟨rfl, rfl⟩ ih

theorem originSrc_det : (originSrc α).Det := by
  intro st r1 s1 r2 s2 h1 h2
  obtain ⟨a, b⟩ := h1; obtain ⟨c, d⟩ := h2; subst_vars; exact ⟨rfl, rfl⟩

/-- **the whole stream**: an operator in front of the inputs `ups` yields the concatenation, over the inputs in
    order, of what its chain yields for each -/
theorem pipeline_refines (C : Chain α β) (comb : α → β → γ) (ups : List α) :
    (nest (listSrc α) C comb).Drain (ups, none, C.idle) (nestSpec C.f comb ups) ([], none, C.idle) :=
  nest_refines (listSrc α) C comb ups [] ups (listSrc_drain ups)

theorem pipeline_only_behaviour (C : Chain α β) (comb : α → β → γ) (ups : List α) (out : List γ)
    (fin : NestSt (listSrc α) C) (h : (nest (listSrc α) C comb).Drain (ups, none, C.idle) out fin) :
    out = nestSpec C.f comb ups :=
  nest_only_behaviour (listSrc α) C comb listSrc_det ups [] ups (listSrc_drain ups) out fin h

/-! ### chains compose -/

/-- feeding `C1` and sending everything it yields through `C2` is again a chain -/
def Chain.comp (C1 : Chain α β) (C2 : Chain β γ) (comb : β → γ → δ) : Chain α δ where
  M := nest C1.M C2 comb
  idle := (C1.idle, none, C2.idle)
  feed := fun st a => (C1.feed st.1 a, st.2.1, st.2.2)
  f := fun a => nestSpec C2.f comb (C1.f a)
  ok := fun a => nest_refines C1.M C2 comb (C1.feed C1.idle a) C1.idle (C1.f a) (C1.ok a)
  det := nest_det C1.M C2 comb C1.det

/-- what a two-stage pipeline yields for one input is the Kleisli composition of its stages -/
theorem comp_f (C1 : Chain α β) (C2 : Chain β γ) (a : α) :
    (C1.comp C2 (fun _ y => y)).f a = (C1.f a).flatMap C2.f := by
  simp [Chain.comp, nestSpec]

/-- … and for three stages, bracketed either way -/
theorem comp_assoc_f (C1 : Chain α β) (C2 : Chain β γ) (C3 : Chain γ δ) (a : α) :
    ((C1.comp C2 (fun _ y => y)).comp C3 (fun _ y => y)).f a = (C1.comp (C2.comp C3 (fun _ y => y)) (fun _ y => y)).f a := by
  simp [Chain.comp, nestSpec, List.flatMap_assoc]

/-! ### the leaf: a sub-expression seen from its origin (Model/SubOps) -/

def bodyMach (f : α → List β) : Mach β where
  σ := SubOps.Body α β
  next := fun st r st' => (SubOps.Body.next f st) = (r, st')

theorem bodyMach_drain (f : α → List β) (b : SubOps.Body α β) (o : List β) (b' : SubOps.Body α β)
    (h : SubOps.Drain (SubOps.Body.next f) b o b') : (bodyMach f).Drain b o b' := by
  induction h with
  | nil h' => exact Mach.Drain.nil (M := bodyMach f) (by simp only [bodyMach]; exact Prod.ext h' rfl)
  | cons h' _ ih => exact Mach.Drain.cons (M := bodyMach f) (by simp only [bodyMach]; exact Prod.ext h' rfl) ih

/-- an abstract operator chain as a `Chain`: fed through its origin, it yields `f item` and is as good as new -/
def bodyChain (f : α → List β) : Chain α β where
  M := bodyMach f
  idle := SubOps.Body.fresh
  feed := fun b a => b.setNext a
  f := f
  ok := fun a => by
    have d := SubOps.body_drain f ((SubOps.Body.fresh : SubOps.Body α β).setNext a)
    have e : ((SubOps.Body.fresh : SubOps.Body α β).setNext a).rest f = f a := by
      simp [SubOps.Body.rest, SubOps.Body.setNext, SubOps.Body.fresh]
    rw [e] at d
    exact bodyMach_drain f _ _ _ d
  det := by
    intro st r1 s1 r2 s2 h1 h2
    simp only [bodyMach] at h1 h2
    rw [h1] at h2
    cases h2; exact ⟨rfl, rfl⟩

/-- a pipeline of three abstract stages in front of the inputs: the stream is the per-input composition,
    concatenated — whatever the three stages do -/
theorem three_stage_pipeline (f1 : α → List β) (f2 : β → List γ) (f3 : γ → List δ) (ups : List α) :
    let C := ((bodyChain f1).comp (bodyChain f2) (fun _ y => y)).comp (bodyChain f3) (fun _ y => y)
    (nest (listSrc α) C (fun _ y => y)).Drain (ups, none, C.idle)
      (ups.flatMap fun a => ((f1 a).flatMap f2).flatMap f3) ([], none, C.idle) := by
  intro C
  have h := pipeline_refines C (fun _ y => y) ups
  have e : nestSpec C.f (fun _ (y : δ) => y) ups = ups.flatMap fun a => ((f1 a).flatMap f2).flatMap f3 := by
    simp [nestSpec, C, Chain.comp, bodyChain]
  rw [e] at h
  exact h

/-! ### format strings: the stringer chain (stringer_origin, stringer_lit, stringer_op) under op_format -/

/-- a piece of a format string as the stringer chain sees it -/
inductive Piece (σ : Type) where
  /-- `stringer_lit`: prepends its text -/
  | lit (s : String)
  /-- `stringer_op`: runs the embedded program on the stack; for each result, the stack without its top and the top's
      rendering, which is prepended -/
  | splice (g : σ → List (σ × String))

def Piece.f {σ : Type} : Piece σ → (σ × String) → List (σ × String)
  | .lit s, (stk, acc) => [(stk, s ++ acc)]
  | .splice g, (stk, acc) => (g stk).map fun rs => (rs.1, rs.2 ++ acc)

/-- the chain from the origin outwards: pieces in the order they are applied (the format string read right to left) -/
def stringerChain {σ : Type} : List (Piece σ) → Chain (σ × String) (σ × String)
  | [] => bodyChain (fun x => [x])
  | p :: ps => (bodyChain p.f).comp (stringerChain ps) (fun _ y => y)

/-- what the chain yields for one (stack, "") : every piece applied to every result of the pieces before it -/
def stringerSpec {σ : Type} : List (Piece σ) → (σ × String) → List (σ × String)
  | [], x => [x]
  | p :: ps, x => (p.f x).flatMap (stringerSpec ps)

theorem stringerChain_f {σ : Type} (ps : List (Piece σ)) (x : σ × String) : (stringerChain ps).f x = stringerSpec ps x := by
  induction ps generalizing x with
  | nil => rfl
  | cons p ps ih =>
    simp only [stringerChain, stringerSpec, Chain.comp, nestSpec, bodyChain]
    congr 1
    funext y
    simp [ih]

/-- **op_format**: for every input stack, the strings the pieces build for it, numbered from zero for THAT input, each
    pushed on the stack its splices left — and the stream is the concatenation over the inputs -/
theorem format_refines {σ : Type} (ps : List (Piece σ)) (push : σ → String → Nat → σ) (ups : List (σ × String)) :
    ∀ n, ∃ m, (nestNum (listSrc (σ × String)) (stringerChain ps) (fun _ r k => push r.1 r.2 k)).Drain
      (ups, none, (stringerChain ps).idle, n)
      (ups.flatMap fun x => numFrom (fun (r : σ × String) k => push r.1 r.2 k) 0 (stringerSpec ps x))
      ([], none, (stringerChain ps).idle, m) := by
  intro n
  obtain ⟨m, d⟩ := nestNum_refines (listSrc (σ × String)) (stringerChain ps) (fun _ r k => push r.1 r.2 k) ups [] ups
    (listSrc_drain ups) n
  refine ⟨m, ?_⟩
  have e : numSpec (stringerChain ps).f (fun _ (r : σ × String) k => push r.1 r.2 k) ups =
      ups.flatMap fun x => numFrom (fun (r : σ × String) k => push r.1 r.2 k) 0 (stringerSpec ps x) := by
    simp only [numSpec]
    congr 1
    funext x
    rw [stringerChain_f]
  rw [e] at d
  exact d

/-- non-vacuity: `"%( 1,2 %)-%s"`-like: a two-valued splice in front of a literal in front of a one-valued splice -/
example : stringerSpec [Piece.splice (fun (s : List Nat) => [(s.tail, "7")]), Piece.lit "-",
      Piece.splice (fun s => [(s, "1"), (s, "2")])] ([7, 8], "") = [([8], "1-7"), ([8], "2-7")] := by
  decide

/-- non-vacuity: a concrete three-stage run -/
example : (([1, 2] : List Nat).flatMap fun a => ((List.range a).flatMap fun b => [b, b + 10]).flatMap fun c => [c * 2])
    = [0, 20, 0, 20, 2, 22] := by decide

end ZwVerif.Pipe
