import ZwVerif.Model.Lifecycle
set_option linter.unusedSimpArgs false
set_option linter.unusedVariables false
/-!
# C13 — no broken state lifecycle (the part of the property a model can carry)

Layout: successive reservations are aligned, lie above everything reserved before
and so never overlap; a union is as large as its largest member.  Protocol: the
construct / use / destroy discipline checked at run time by the `DWGREP_VERIF`
hook in scon.cc is stated as a state machine; a guarded use is accepted from any
state in which the slot is free and leaves the state as it was.

Memory errors, undefined behaviour and leaks are runtime facts: the check runs the
corpora of all query-level checks on an ASan + UBSan + LSan build with the hook
compiled in; that is observation, not proof.
-/
namespace ZwVerif.C13
open ZwVerif.Lifecycle

theorem alignUp_ge (top a : Nat) (ha : 0 < a) : top ≤ alignUp top a := by
  unfold alignUp
  have h := Nat.div_add_mod (top + (a - 1)) a
  have hm := Nat.mod_lt (top + (a - 1)) ha
  rw [Nat.mul_comm] at h
  omega

theorem alignUp_aligned (top a : Nat) : alignUp top a % a = 0 := by
  unfold alignUp; exact Nat.mul_mod_left _ _

/-- a reservation starts at or above everything reserved so far and is aligned -/
theorem reserve_above (sz size a : Nat) (ha : 0 < a) :
    sz ≤ (reserve sz size a).1 ∧ (reserve sz size a).1 % a = 0 ∧
    (reserve sz size a).2 = (reserve sz size a).1 + size :=
  ⟨alignUp_ge sz a ha, alignUp_aligned sz a, rfl⟩

/-- two successive reservations never overlap -/
theorem reserve_disjoint (sz s1 a1 s2 a2 : Nat) (h1 : 0 < a1) (h2 : 0 < a2) :
    let r1 := reserve sz s1 a1
    let r2 := reserve r1.2 s2 a2
    r1.1 + s1 ≤ r2.1 := by
  simp only [reserve]
  exact alignUp_ge _ a2 h2

/-- a union layout is at least as large as each member and the layout before -/
theorem addUnion_ge (sz : Nat) (subs : List Nat) : sz ≤ addUnion sz subs ∧ ∀ s ∈ subs, s ≤ addUnion sz subs := by
  unfold addUnion
  induction subs generalizing sz with
  | nil => simp
  | cons x xs ih =>
    simp only [List.foldl_cons]
    have := ih (max sz x)
    refine ⟨by omega, ?_⟩
    intro s hs
    simp at hs
    rcases hs with rfl | hs
    · omega
    · exact this.2 s hs

/-- constructing a state that overlaps a live one is a breach (what the hook aborts on) -/
theorem con_overlap_rejected (live : List (Nat × Nat)) (loc size l s : Nat)
    (hm : (l, s) ∈ live) (h1 : l < loc + size) (h2 : loc < l + s) :
    step live (.con loc size) = none := by
  unfold step
  have : live.any (fun x => decide (x.1 < loc + size) && decide (loc < x.1 + x.2)) = true :=
    List.any_eq_true.mpr ⟨(l, s), hm, by simp [h1, h2]⟩
  simp [this]

/-- using or destroying a state that is not live is a breach -/
theorem use_dead_rejected (live : List (Nat × Nat)) (loc size : Nat) (h : (loc, size) ∉ live) :
    step live (.get loc size) = none ∧ step live (.des loc size) = none := by
  simp [step, h]

/-- a guarded use (construct, use n times, destroy) of a free slot is accepted and leaves the
    set of live states exactly as it was -/
theorem guarded_ok (live : List (Nat × Nat)) (loc size n : Nat)
    (hfree : live.any (fun s => decide (s.1 < loc + size) && decide (loc < s.1 + s.2)) = false) :
    run live (guarded loc size n) = some live := by
  unfold guarded
  simp only [List.singleton_append, List.cons_append, run, step, hfree]
  simp only [Bool.false_eq_true, if_false, Option.bind]
  have hget : ∀ k, run ((loc, size) :: live) (List.replicate k (.get loc size) ++ [.des loc size]) = some live := by
    intro k
    induction k with
    | zero => simp [run, step]
    | succ k ih => simp [List.replicate_succ, run, step, ih]
  exact hget n

end ZwVerif.C13
