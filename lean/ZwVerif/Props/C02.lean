import ZwVerif.Model.Dwarf
set_option linter.unusedSimpArgs false
set_option linter.unusedVariables false
/-!
# C02 — the raw view is the DIE tree on disk

The all-DIEs iterator, as a machine over the forest (current DIE + the later
siblings pending at every ancestor level), visits exactly the section pre-order of
a unit: every DIE once, parents before children, siblings in stored order —
whatever the shape of the tree.
-/
namespace ZwVerif.C02
open ZwVerif.Dwarf

theorem preorder_cons (o t : Nat) (h : Bool) (a : List DAttr) (cs : List Die) :
    preorder (.mk o t h a cs) = .mk o t h a cs :: preorderList cs := by
  simp [preorder]

theorem pending_popConts (conts : List (List Die)) :
    (match popConts conts with
     | some s => pending s
     | none => []) = conts.flatMap preorderList := by
  induction conts with
  | nil => simp [popConts]
  | cons c rest ih =>
    cases c with
    | nil => simp [popConts, preorderList]; exact ih
    | cons s ss => simp [popConts, pending, preorderList]

/-- one step of the iterator: the DIE it stands on is the head of what is pending, and the
    step leaves exactly the rest pending -/
theorem iter_step (s : ItState) :
    pending s = s.cur :: (match itNext s with | some s' => pending s' | none => []) := by
  obtain ⟨cur, conts⟩ := s
  obtain ⟨o, t, h, a, cs⟩ := cur
  unfold itNext
  cases cs with
  | nil =>
    simp only [Die.children]
    have := pending_popConts conts
    simp [pending, preorder, preorderList] at this ⊢
    exact this.symm
  | cons c cs' =>
    simp [Die.children, pending, preorder, preorderList]

theorem pending_length_pos (s : ItState) : 0 < (pending s).length := by
  obtain ⟨cur, conts⟩ := s
  obtain ⟨o, t, h, a, cs⟩ := cur
  simp [pending, preorder]

/-- **the iterator visits exactly the pre-order**: with enough steps, running it from a state
    yields precisely what was pending there — each DIE once, in section order -/
theorem iter_run_pending (fuel : Nat) (s : ItState) (h : (pending s).length ≤ fuel) :
    itRun fuel (some s) = pending s := by
  induction fuel generalizing s with
  | zero => have := pending_length_pos s; omega
  | succ n ih =>
    have hs := iter_step s
    simp only [itRun]
    cases hn : itNext s with
    | none =>
      rw [hs, hn]
      cases n <;> simp [itRun]
    | some s' =>
      rw [hs, hn]
      simp only
      rw [ih s']
      rw [hs, hn] at h
      simp at h; omega

theorem iter_is_preorder (root : Die) (fuel : Nat) (h : (preorder root).length ≤ fuel) :
    itRun fuel (some ⟨root, []⟩) = preorder root := by
  have := iter_run_pending fuel ⟨root, []⟩ (by simpa [pending] using h)
  simpa [pending] using this

mutual
theorem parentTable_offsets (par : Option Nat) (d : Die) :
    (parentTable par d).map (·.1) = (preorder d).map Die.off := by
  match d with
  | .mk o t h a cs => simp [parentTable, preorder, Die.off, parentTableList_offsets (some o) cs]
theorem parentTableList_offsets (par : Option Nat) (cs : List Die) :
    (parentTableList par cs).map (·.1) = (preorderList cs).map Die.off := by
  match cs with
  | [] => simp [parentTableList, preorderList]
  | c :: cs' => simp [parentTableList, preorderList, parentTable_offsets par c, parentTableList_offsets par cs']
end

/-- `raw entry` numbers the DIEs of the whole file 0, 1, 2, … across units -/
theorem raw_positions (f : Forest) :
    ((rawEntries f).zipIdx.map (·.2)) = List.range (rawEntries f).length := by
  simp [List.range_eq_range']

end ZwVerif.C02
