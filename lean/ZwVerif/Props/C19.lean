import ZwVerif.Model.Cli
set_option linter.unusedSimpArgs false
set_option linter.unusedVariables false
/-!
# C19 — the command line honours its grep-like contract

Theorems about the driver model (Model/Cli.lean) for every option set, every list
of files and arguments, and every behaviour of the library (`exec`).
-/
namespace ZwVerif.C19
open ZwVerif.Cli

/-- a compile failure is status 2, nothing on stdout -/
theorem compile_error_status (o : Opts) (m : String) (files : List (String × Bool)) (extra : List Arg)
    (exec : List Nat → Run) :
    (main o (some m) files extra exec).status = 2 ∧ (main o (some m) files extra exec).stdout = [] := by
  simp [main]

/-- the loop's state after any number of iterations: with -q nothing is ever queued for stdout -/
theorem iteration_quiet_out (o : Opts) (wh : Bool) (hdr : String) (r : Run) (st : St)
    (hq : o.quiet = true) (h : st.out = []) : (iteration o wh hdr r st).out = [] := by
  unfold iteration
  split
  · exact h
  · split
    · exact h
    · rename_i h1 h2
      have hr : r.results = [] := by
        cases hres : r.results with
        | nil => rfl
        | cons x xs => simp [hq, hres] at h2
      cases r.err <;> simp [hq, h, hr]

theorem foldl_quiet_out (o : Opts) (wh : Bool) (hq : o.quiet = true) (hdr : List Nat → String)
    (exec : List Nat → Run) (cs : List (List Nat)) (st : St) (h : st.out = []) :
    (cs.foldl (fun st idx => iteration o wh (hdr idx) (exec idx) st) st).out = [] := by
  induction cs generalizing st with
  | nil => exact h
  | cons c cs ih => exact ih _ (iteration_quiet_out o wh _ _ st hq h)

/-- **with -q nothing is written to stdout**, whatever the library does -/
theorem quiet_stdout_empty (o : Opts) (ce : Option String) (files : List (String × Bool)) (extra : List Arg)
    (exec : List Nat → Run) (hq : o.quiet = true) : (main o ce files extra exec).stdout = [] := by
  unfold main
  cases ce with
  | some m => rfl
  | none =>
    simp only []
    repeat' split
    all_goals first
      | rfl
      | exact foldl_quiet_out o _ hq _ exec _ {} rfl

/-- one iteration: the error flag is raised exactly by an exception without -q; a match is
    recorded exactly by a result -/
theorem iteration_flags (o : Opts) (wh : Bool) (hdr : String) (r : Run) (st : St) (hnq : st.quitZero = false)
    (hq : o.quiet = false) :
    (iteration o wh hdr r st).errors = (st.errors || r.err.isSome) ∧
    (iteration o wh hdr r st).isMatch = (st.isMatch || !r.results.isEmpty) ∧
    (iteration o wh hdr r st).quitZero = false := by
  unfold iteration
  simp [hnq, hq]
  cases r.err <;> cases o.count <;> simp [hq]

/-- status without -q: 2 iff some execution raised, else 0 iff some result was yielded -/
theorem status_of_flags (o : Opts) (wh : Bool) (hq : o.quiet = false) (hdr : List Nat → String)
    (exec : List Nat → Run) (cs : List (List Nat)) (st : St) (hnq : st.quitZero = false) :
    let fin := cs.foldl (fun st idx => iteration o wh (hdr idx) (exec idx) st) st
    fin.errors = (st.errors || cs.any (fun idx => (exec idx).err.isSome)) ∧
    fin.isMatch = (st.isMatch || cs.any (fun idx => !(exec idx).results.isEmpty)) ∧
    fin.quitZero = false := by
  induction cs generalizing st with
  | nil => simp [hnq]
  | cons c cs ih =>
    obtain ⟨h1, h2, h3⟩ := iteration_flags o wh (hdr c) (exec c) st hnq hq
    have := ih (iteration o wh (hdr c) (exec c) st) h3
    simp only [List.foldl_cons, List.any_cons]
    rw [this.1, this.2.1, h1, h2]
    simp [Bool.or_assoc, this.2.2]

/-- `-c`: per input, one line holding exactly the number of results that would otherwise be
    printed (also when an error ended the execution early) -/
theorem count_line (o : Opts) (wh : Bool) (hdr : String) (r : Run) (st : St)
    (hc : o.count = true) (hq : o.quiet = false) (hnq : st.quitZero = false) :
    (iteration o wh hdr r st).out = st.out ++ [(if wh then hdr ++ ":" else "") ++ toString r.results.length] := by
  unfold iteration
  simp [hnq, hq, hc]
  cases r.err <;> simp [hc, hq]

/-- without -c every result is printed: optional header line, `---` for multi-value stacks, the
    values -/
theorem results_printed (o : Opts) (wh : Bool) (hdr : String) (r : Run) (st : St)
    (hc : o.count = false) (hq : o.quiet = false) (hnq : st.quitZero = false) :
    (iteration o wh hdr r st).out = st.out ++ r.results.flatMap fun lines =>
      (if wh then [hdr ++ ":"] else []) ++ (if lines.length > 1 then ["---"] else []) ++ lines := by
  unfold iteration
  simp [hnq, hq, hc]
  cases r.err <;> simp [hc, hq]

/-- `-s` silences the driver's own diagnostics -/
theorem silent_no_driver_messages (o : Opts) (wh : Bool) (hdr : String) (r : Run) (st : St)
    (hs : o.silent = true) (h : st.err = []) : (iteration o wh hdr r st).err = [] := by
  unfold iteration
  split
  · exact h
  · split
    · exact h
    · cases r.err <;> simp [hs, h] <;> split <;> simp [h]

/-- the bump loop visits the combinations in row-major order: the successor of an index vector
    increments the last position and carries leftwards (examples for the shapes the matrix uses;
    the general statement is checked by the correspondence) -/
example : combos [2, 3] 6 [0, 0] = [[0,0],[0,1],[0,2],[1,0],[1,1],[1,2]] := by decide
example : combos [2, 1, 2] 4 [0, 0, 0] = [[0,0,0],[0,0,1],[1,0,0],[1,0,1]] := by decide
example : combos [3] 3 [0] = [[0],[1],[2]] := by decide

end ZwVerif.C19
