import ZwVerif.Lemmas.Evs
set_option linter.unusedSimpArgs false
set_option linter.unusedVariables false
/-!
# C04 — assertions and sub-expression contexts never disturb the surrounding stack

Statements about the documented meaning `sem` (Model/Sem.lean), for every
sub-expression, every frame (environment + stack) and every evaluation budget.
The tie of `sem` to the engine is the query-level correspondence.
-/
namespace ZwVerif.C04
open ZwVerif

/-- the events a predicate evaluation consumes contain no result frame -/
theorem semPred_noFrame (ctx : Ctx) (n : Nat) (p : Tree) (f : Frame) :
    ∀ e ∈ (semPred ctx n p f).2, e.isFrame = false := by
  induction n generalizing p with
  | zero => intro e he; simp [semPred] at he; subst he; rfl
  | succ n ih =>
    unfold semPred
    split
    · exact ih _
    · intro e he
      simp only at he
      rcases List.mem_append.mp (mem_cutHard he) with h | h
      · exact ih _ e h
      · exact ih _ e h
    · intro e he
      simp only at he
      rcases List.mem_append.mp (mem_cutHard he) with h | h
      · exact ih _ e h
      · exact ih _ e h
    · exact firstResult_pre_noFrame _
    · intro e he; simp at he; subst he; rfl

/-- `?(E)`, `!(E)` and every assertion built from predicates: each yielded frame is the
    incoming frame itself — same environment, same stack (depth, values, positions). -/
theorem assert_yields_input_or_nothing (ctx : Ctx) (n : Nat) (pl : Payload) (p : Tree) (f : Frame) :
    ∀ e ∈ sem1 ctx (n + 1) (.node .ASSERT pl [p]) f, e.isFrame = true → e = .frame f := by
  intro e he hf
  simp only [sem1] at he
  have hp := semPred_noFrame ctx n p f
  split at he
  · have := hp e (mem_cutHard he); simp [this] at hf
  · split at he
    · rcases List.mem_append.mp he with h | h
      · have := hp e h; simp [this] at hf
      · simpa using h
    · have := hp e he; simp [this] at hf

/-- at most one copy of the input is yielded -/
theorem assert_yields_at_most_once (ctx : Ctx) (n : Nat) (pl : Payload) (p : Tree) (f : Frame) :
    ((sem1 ctx (n + 1) (.node .ASSERT pl [p]) f).filter Ev.isFrame).length ≤ 1 := by
  simp only [sem1]
  have hp := semPred_noFrame ctx n p f
  have h0 : ∀ l : Evs, (∀ e ∈ l, e.isFrame = false) → l.filter Ev.isFrame = [] := by
    intro l hl; exact List.filter_eq_nil_iff.mpr (by intro a ha; simp [hl a ha])
  split
  · rw [h0 _ (fun e he => hp e (mem_cutHard he))]; simp
  · split
    · rw [List.filter_append, h0 _ hp]; simp [Ev.isFrame, List.filter]
    · rw [h0 _ hp]; simp

/-- `?X` holds exactly when `!X` does not, and when X fails neither holds:
    the result of the negated predicate is the negation, `fail` stays `fail`, and the
    events consumed are the same. -/
theorem pred_not_three_valued (ctx : Ctx) (n : Nat) (pl : Payload) (p : Tree) (f : Frame) :
    semPred ctx (n + 1) (.node .PRED_NOT pl [p]) f =
      ((semPred ctx n p f).1.map (!·), (semPred ctx n p f).2) := by
  simp [semPred]

/-- the assertion words (`?w` / `!w`): the frame unchanged, or nothing -/
theorem assertWord_yields_input_or_nothing (positive : Bool) (p : Stack → PredR) (f : Frame)
    (hp : ∀ e ∈ (p f.stk).2, e.isFrame = false) :
    ∀ e ∈ assertWord positive p f, e.isFrame = true → e = .frame f := by
  intro e he hf
  unfold assertWord at he
  split at he
  · rename_i r evs hpf
    have hp' : ∀ e ∈ evs, e.isFrame = false := by simpa [hpf] using hp
    split at he
    · rcases List.mem_append.mp (mem_cutHard he) with h | h
      · have := hp' e h; simp [this] at hf
      · split at h <;> simp at h; exact h
    · have := hp' e he; simp [this] at hf

/-- `?w` and `!w` are complementary when `w` does not fail; neither holds when it fails -/
theorem assertWord_pos_xor_neg (p : Stack → PredR) (f : Frame) :
    match (p f.stk).1 with
    | some b => (assertWord true p f = cutHard ((p f.stk).2 ++ (if b then [.frame f] else []))) ∧
                (assertWord false p f = cutHard ((p f.stk).2 ++ (if b then [] else [.frame f])))
    | none => assertWord true p f = (p f.stk).2 ∧ assertWord false p f = (p f.stk).2 := by
  unfold assertWord
  cases h : (p f.stk) with
  | mk r evs =>
    cases r with
    | none => simp
    | some b => cases b <;> simp

/-- comparison words (`?lt`, `==`, …): input unchanged or nothing, or an error when fewer than
    two values are on the stack -/
theorem cmpWord_yields_input_or_nothing (cfg : Cfg) (positive : Bool) (want : Ord3) (f : Frame) :
    ∀ e ∈ cmpWord cfg positive want f, e.isFrame = true → e = .frame f := by
  intro e he hf
  unfold cmpWord at he
  split at he
  · simp [underflow] at he; subst he; simp [Ev.isFrame] at hf
  · rename_i r evs hc
    have hev : ∀ e ∈ evs, e.isFrame = false := by
      unfold pCmp at hc
      split at hc
      · split at hc <;> simp at hc <;> obtain ⟨_, rfl⟩ := hc <;> simp [unsupportedClo, Ev.isFrame]
      · simp at hc
    split at he
    · rcases List.mem_append.mp he with h | h
      · have := hev e h; simp [this] at hf
      · split at h <;> simp at h; exact h
    · have := hev e he; simp [this] at hf

/-- `let … := E;` (SUBX_EVAL k): every result is the incoming stack with exactly `k` values
    pushed; the names in scope are untouched. -/
theorem let_preserves_below (ctx : Ctx) (n : Nat) (k : ZInt) (d : Dom) (c : Tree) (f : Frame) :
    ∀ g, Ev.frame g ∈ sem1 ctx (n + 1) (.node .SUBX_EVAL (.cst k d) [c]) f →
      ∃ vs, vs.length = k.u ∧ g.stk = vs ++ f.stk ∧ g.env = f.env := by
  intro g hg
  simp only [sem1] at hg
  have hg' := mem_cutHard hg
  simp only [List.mem_flatMap] at hg'
  obtain ⟨e, _, he⟩ := hg'
  cases e with
  | frame h =>
    simp only at he
    cases hp : popK k.u h.stk with
    | none => simp [hp, underflow] at he
    | some pr =>
      obtain ⟨vs, rest⟩ := pr
      simp [hp, withStk] at he
      have hl : ∀ (k : Nat) (s : Stack) (vs : List Val) (r : Stack), popK k s = some (vs, r) → vs.length = k := by
        intro k
        induction k with
        | zero => intro s vs r h; simp [popK] at h; simp [h.1.symm]
        | succ k ih =>
          intro s vs r h
          cases s with
          | nil => simp [popK] at h
          | cons v s =>
            simp only [popK, Option.map_eq_some_iff] at h
            obtain ⟨⟨vs', r'⟩, h1, h2⟩ := h
            simp at h2
            obtain ⟨rfl, _⟩ := h2
            simp [ih s vs' r' h1]
      refine ⟨vs, hl _ _ _ _ hp, ?_, ?_⟩ <;> simp [he]
  | soft c => simp at he
  | hard m => simp at he
  | mark => simp at he

/-- `[E]`: the one result is the incoming stack with one sequence pushed -/
theorem capture_adds_one (ctx : Ctx) (n : Nat) (pl : Payload) (c : Tree) (f : Frame) :
    ∀ g, Ev.frame g ∈ sem1 ctx (n + 1) (.node .CAPTURE pl [c]) f →
      ∃ es, g.stk = Val.seq 0 es :: f.stk ∧ g.env = f.env := by
  intro g hg
  simp only [sem1] at hg
  have nof : ∀ (l : Evs), Ev.frame g ∉ l.filter (fun x => match x with
      | Ev.frame _ => false | Ev.hard _ => false | _ => true) := by
    intro l h
    have := (List.mem_filter.mp h).2
    simp at this
  split at hg
  · rcases List.mem_append.mp hg with h | h
    · exact absurd h (nof _)
    · simp at h
  · split at hg
    · rcases List.mem_append.mp hg with h | h
      · exact absurd h (nof _)
      · simp [underflow] at h
    · rcases List.mem_append.mp hg with h | h
      · exact absurd h (nof _)
      · simp [withStk] at h
        exact ⟨_, by rw [h], by rw [h]⟩

end ZwVerif.C04
