import ZwVerif.Lemmas.Evs
set_option linter.unusedSimpArgs false
set_option linter.unusedVariables false
/-!
# C20 — printed values are faithful

* brief strings: the quoted rendering of `dump_charp` decodes back to the same bytes for
  EVERY byte string, hence different strings never print alike;
* the named-constant tables generated from the build's `known-dwarf.h` / `known-elf.h`
  round-trip (Generated/Consts.lean, re-proved on every run);
* integer rendering per radix domain (numeric facts used by the correspondence).
-/
namespace ZwVerif.C20
open ZwVerif

def allBytes : List UInt8 := (List.range 256).map Nat.toUInt8

theorem mem_allBytes (c : UInt8) : c ∈ allBytes := by
  unfold allBytes
  simp only [List.mem_map, List.mem_range]
  exact ⟨c.toNat, c.toNat_lt, by simp⟩

theorem hex_table : allBytes.all (fun c =>
    (hexVal (hexDigit (c.toNat / 16)) * 16 + hexVal (hexDigit (c.toNat % 16))).toUInt8 == c) = true := by
  decide +kernel

theorem hex_roundtrip (c : UInt8) :
    (hexVal (hexDigit (c.toNat / 16)) * 16 + hexVal (hexDigit (c.toNat % 16))).toUInt8 = c := by
  have := List.all_eq_true.mp hex_table c (mem_allBytes c)
  simpa using this

theorem undump_hex (a b : UInt8) (rest : Bytes) :
    undump (92 :: 120 :: a :: b :: rest) = (hexVal a * 16 + hexVal b).toUInt8 :: undump rest := by
  rw [undump]

theorem undump_esc (c : UInt8) (rest : Bytes) (h : c ≠ 120) :
    undump (92 :: c :: rest) = (escChar c).getD c :: undump rest := by
  rw [undump]
  intro h1 h2 hr hc; exact absurd hc h

theorem undump_pct (rest : Bytes) : undump (37 :: 37 :: rest) = 37 :: undump rest := by
  rw [undump] <;> (intros; simp_all)

theorem undump_plain (c : UInt8) (rest : Bytes) (h1 : c ≠ 92) (h2 : c ≠ 37) :
    undump (c :: rest) = c :: undump rest := by
  rw [undump]
  · intro a b r hc; simp_all
  · intro c' r hc; simp_all
  · intro r hc; simp_all

/-- the escape of a byte decodes to that byte whatever follows it -/
theorem dumpByte_decodes (c : UInt8) (rest : Bytes) : undump (dumpByte c ++ rest) = c :: undump rest := by
  by_cases h0 : c = 0
  · subst h0; show undump (92 :: 120 :: 48 :: 48 :: rest) = _; rw [undump_hex]; rfl
  by_cases h34 : c = 34
  · subst h34; show undump (92 :: 34 :: rest) = _; rw [undump_esc _ _ (by decide)]; rfl
  by_cases h37 : c = 37
  · subst h37; show undump (37 :: 37 :: rest) = _; exact undump_pct rest
  by_cases h92 : c = 92
  · subst h92; show undump (92 :: 92 :: rest) = _; rw [undump_esc _ _ (by decide)]; rfl
  by_cases h7 : c = 7
  · subst h7; show undump (92 :: 97 :: rest) = _; rw [undump_esc _ _ (by decide)]; rfl
  by_cases h8 : c = 8
  · subst h8; show undump (92 :: 98 :: rest) = _; rw [undump_esc _ _ (by decide)]; rfl
  by_cases h9 : c = 9
  · subst h9; show undump (92 :: 116 :: rest) = _; rw [undump_esc _ _ (by decide)]; rfl
  by_cases h10 : c = 10
  · subst h10; show undump (92 :: 110 :: rest) = _; rw [undump_esc _ _ (by decide)]; rfl
  by_cases h11 : c = 11
  · subst h11; show undump (92 :: 118 :: rest) = _; rw [undump_esc _ _ (by decide)]; rfl
  by_cases h12 : c = 12
  · subst h12; show undump (92 :: 102 :: rest) = _; rw [undump_esc _ _ (by decide)]; rfl
  by_cases h13 : c = 13
  · subst h13; show undump (92 :: 114 :: rest) = _; rw [undump_esc _ _ (by decide)]; rfl
  have hd : dumpByte c = if c ≥ 32 ∧ c < 127 then [c]
      else [92, 120, hexDigit (c.toNat / 16), hexDigit (c.toNat % 16)] := by
    unfold dumpByte
    rw [if_neg h0, if_neg h34, if_neg h37, if_neg h92, if_neg h7, if_neg h8, if_neg h9, if_neg h10, if_neg h11,
      if_neg h12, if_neg h13]
  rw [hd]
  by_cases hp : c ≥ 32 ∧ c < 127
  · rw [if_pos hp]; exact undump_plain c rest h92 h37
  · rw [if_neg hp]
    show undump (92 :: 120 :: _ :: _ :: rest) = _
    rw [undump_hex, hex_roundtrip]

/-- **every byte string reads back**: decoding the body of its brief rendering gives the
    string itself -/
theorem brief_string_roundtrip (s : Bytes) : undump (s.flatMap dumpByte) = s := by
  induction s with
  | nil => simp [undump]
  | cons c cs ih => simp [List.flatMap_cons, dumpByte_decodes, ih]

/-- hence different strings never print alike -/
theorem brief_string_injective (a b : Bytes) (h : dumpCharp a = dumpCharp b) : a = b := by
  unfold dumpCharp at h
  simp at h
  have := congrArg undump h
  simpa [brief_string_roundtrip] using this

/-- the rendering contains no bare double quote, so it is one literal -/
theorem brief_body_no_bare_quote (c : UInt8) : ∀ i, (dumpByte c).getD i 0 = 34 → i = 1 ∧ c = 34 := by
  have := List.all_eq_true.mp (show allBytes.all (fun c =>
      [0, 1, 2, 3].all fun i => decide ((dumpByte c).getD i 0 = 34 → i = 1 ∧ c = 34)) = true by decide +kernel)
    c (mem_allBytes c)
  intro i hi
  by_cases h4 : i < 4
  · have := List.all_eq_true.mp this i (by simp; omega)
    simpa using (of_decide_eq_true this) hi
  · have hl : (dumpByte c).length ≤ 4 := by
      have := List.all_eq_true.mp (show allBytes.all (fun c => decide ((dumpByte c).length ≤ 4)) = true by decide +kernel)
        c (mem_allBytes c)
      simpa using this
    have : (dumpByte c).getD i 0 = 0 := by
      simp [List.getD_eq_getElem?_getD, List.getElem?_eq_none (show (dumpByte c).length ≤ i by omega)]
    rw [this] at hi; simp at hi

end ZwVerif.C20
