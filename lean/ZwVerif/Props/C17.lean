import ZwVerif.Model.Loc
import ZwVerif.Props.C07
set_option linter.unusedSimpArgs false
set_option linter.unusedVariables false
/-!
# C17 — location lists, their operations and abbreviations are consistent with the DIEs
-/
namespace ZwVerif.C17
open ZwVerif.Loc ZwVerif.Atval ZwVerif.Generated

/-! ### elements and operations -/

/-- `length` equals the number of `elem` results -/
theorem length_eq_elem_count (e : Elem) : (elem e).length = length e := by
  simp [elem, length]

/-- `elem` yields the stored operations, in stored order, numbered from zero -/
theorem elem_is_stored_order (e : Elem) : (elem e).map (·.2) = e.ops ∧ (elem e).map (·.1) = List.range e.ops.length := by
  constructor
  · simp [elem, List.map_snd_zip]
  · simp [elem, List.map_fst_zip]

theorem relem_get (l : List Op) (i : Nat) (h : i < l.length) :
    l[l.length - 1 - i]? = some (l[l.length - 1 - i]'(by omega)) := by
  exact List.getElem?_eq_getElem (by omega)

theorem relem_aux (l : List Op) (n : Nat) (hn : n ≤ l.length) :
    ((List.range n).filterMap fun i => (l[l.length - 1 - i]?).map fun o => (l.length - 1 - i, o)).map (·.2) =
      (List.range n).map fun i => l[l.length - 1 - i]?.getD ⟨0, 0, 0, 0⟩ := by
  induction n with
  | zero => simp
  | succ k ih =>
    rw [List.range_succ, List.filterMap_append, List.map_append, List.map_append, ih (by omega)]
    congr 1
    have : l.length - 1 - k < l.length := by omega
    simp [List.getElem?_eq_getElem this]

/-- `relem` is `elem` reversed -/
theorem relem_is_reverse (e : Elem) : (relem e).map (·.2) = e.ops.reverse := by
  unfold relem
  rw [relem_aux e.ops e.ops.length (Nat.le_refl _)]
  apply List.ext_getElem?
  intro i
  by_cases hi : i < e.ops.length
  · simp only [List.getElem?_map, List.getElem?_range hi, Option.map_some]
    rw [List.getElem?_reverse hi]
    have : e.ops.length - 1 - i < e.ops.length := by omega
    simp [List.getElem?_eq_getElem this]
  · rw [List.getElem?_eq_none (by simp; omega), List.getElem?_eq_none (by simp; omega)]

/-- `?OP_x` on an element holds iff some operation has that opcode -/
theorem hasOp_iff (e : Elem) (x : Nat) : hasOp e x = true ↔ ∃ o ∈ (elem e).map (·.2), o.atom = x := by
  rw [(elem_is_stored_order e).1]
  simp [hasOp]

/-- `address` is exactly the range -/
theorem address_is_range (e : Elem) (h : e.lo < e.hi) :
    address e = [(e.lo, e.hi - e.lo)] ∧ e.lo + (e.hi - e.lo) = e.hi := by
  simp only [address, h, ↓reduceIte, true_and]; omega

/-! ### operand classes (against the table regenerated from atval.cc) -/

/-- the operand classes the DWARF standard (and the GNU extensions) give -/
def standardOperands : List (Nat × OpAct) :=
  [(0x03, .one .hexU),                                                   -- addr
   (0x08, .one .decU), (0x09, .one .decS), (0x0a, .one .decU), (0x0b, .one .decS),
   (0x0c, .one .decU), (0x0d, .one .decS), (0x0e, .one .decU), (0x0f, .one .decS),   -- constNu / constNs
   (0x10, .one .decU), (0x11, .one .decS),                               -- constu, consts
   (0x15, .one .decU), (0x23, .one .decU),                               -- pick, plus_uconst
   (0x28, .one .decS), (0x2f, .one .decS),                               -- bra, skip
   (0x70, .one .decS), (0x77, .one .decS), (0x8f, .one .decS),           -- breg0, breg7, breg31
   (0x90, .one .decU), (0x91, .one .decS), (0x92, .two .decU .decS),     -- regx, fbreg, bregx
   (0x93, .one .decU), (0x94, .one .decU), (0x95, .one .decU),           -- piece, deref_size, xderef_size
   (0x98, .one .decU), (0x99, .one .decU), (0x9a, .one .hexU),           -- call2, call4, call_ref
   (0x9d, .two .decU .decU), (0x9e, .block),                             -- bit_piece, implicit_value
   (0xa0, .dieSigned), (0xf2, .dieSigned),                               -- implicit_pointer
   (0xa3, .expr), (0xf3, .expr),                                         -- entry_value
   (0xa4, .dieBlock), (0xf4, .dieBlock),                                 -- const_type
   (0xa5, .two .decU .decU), (0xf5, .two .decU .decU),                   -- regval_type
   (0xa6, .two .decU .decU), (0xf6, .two .decU .decU),                   -- deref_type
   (0xa8, .one .decU), (0xf7, .one .decU), (0xa9, .one .decU), (0xf9, .one .decU),   -- convert, reinterpret
   (0xfa, .one .decU)]                                                   -- GNU_parameter_ref

/-- operations without operands -/
def noOperand : List Nat :=
  [0x06, 0x12, 0x13, 0x14, 0x16, 0x17, 0x18, 0x19, 0x1a, 0x1b, 0x1c, 0x1d, 0x1e, 0x1f, 0x20, 0x21, 0x22, 0x24, 0x25, 0x26,
   0x27, 0x29, 0x2a, 0x2b, 0x2c, 0x2d, 0x2e, 0x30, 0x31, 0x4f, 0x50, 0x51, 0x6f, 0x96, 0x97, 0x9b, 0x9c, 0x9f, 0xe0]

theorem operand_classes : ∀ e ∈ standardOperands, opActs.lookup e.1 = some e.2 := by decide
theorem all_bregs_signed : ∀ r, r < 32 → opActs.lookup (0x70 + r) = some (.one .decS) := by decide
theorem no_operand_ops : ∀ x ∈ noOperand, opActs.lookup x = none := by decide

/-- an operation of a signed class reports its operand as two's complement -/
theorem signed_operand (o : Op) (h : opActs.lookup o.atom = some (.one .decS)) :
    opValues o = [.cst "dec" (signExtend 8 o.number)] := by
  simp [opValues, h, operand]

theorem unsigned_operand (o : Op) (h : opActs.lookup o.atom = some (.one .decU)) :
    opValues o = [.cst "dec" o.number] := by
  simp [opValues, h, operand]

theorem no_operands (o : Op) (h : opActs.lookup o.atom = none) : opValues o = [] := by
  simp [opValues, h]

/-- a stored signed operand is read back exactly: v ↦ 64-bit word ↦ v -/
theorem signed_operand_roundtrip (v : Int) (h1 : -9223372036854775808 ≤ v) (h2 : v < 9223372036854775808) :
    signExtend 8 (v % 18446744073709551616) = v := ZwVerif.C07.signExtend_roundtrip_8 v h1 h2

/-! ### abbreviations -/

theorem abbrevUnits_fresh (os seen : List Nat) : ∀ o ∈ abbrevUnits os seen, o ∉ seen ∧ o ∈ os := by
  induction os generalizing seen with
  | nil => simp [abbrevUnits]
  | cons x xs ih =>
    intro o ho
    simp only [abbrevUnits] at ho
    split at ho
    · obtain ⟨h1, h2⟩ := ih seen o ho
      exact ⟨h1, by simp [h2]⟩
    · rename_i hx
      simp only [List.mem_cons] at ho
      rcases ho with rfl | ho
      · exact ⟨by simpa using hx, by simp⟩
      · obtain ⟨h1, h2⟩ := ih (seen ++ [x]) o ho
        exact ⟨fun hc => h1 (by simp [hc]), by simp [h2]⟩

/-- `abbrev` lists every abbreviation table exactly once -/
theorem abbrevUnits_nodup (os seen : List Nat) : (abbrevUnits os seen).Nodup := by
  induction os generalizing seen with
  | nil => simp [abbrevUnits]
  | cons x xs ih =>
    simp only [abbrevUnits]
    split
    · exact ih seen
    · simp only [List.nodup_cons]
      refine ⟨?_, ih _⟩
      intro hm
      exact (abbrevUnits_fresh xs (seen ++ [x]) x hm).1 (by simp)

/-- … and misses none: every unit's table is listed (or was seen before) -/
theorem abbrevUnits_complete (os seen : List Nat) : ∀ o ∈ os, o ∈ abbrevUnits os seen ∨ o ∈ seen := by
  induction os generalizing seen with
  | nil => simp
  | cons x xs ih =>
    intro o ho
    simp only [abbrevUnits]
    simp only [List.mem_cons] at ho
    split
    · rename_i hx
      rcases ho with rfl | ho
      · exact Or.inr (by simpa using hx)
      · exact ih seen o ho
    · rcases ho with rfl | ho
      · exact Or.inl (by simp)
      · rcases ih (seen ++ [x]) o ho with h | h
        · exact Or.inl (by simp [h])
        · simp only [List.mem_append, List.mem_singleton] at h
          rcases h with h | rfl
          · exact Or.inr h
          · exact Or.inl (by simp)

theorem abbrev_lists_every_table_once (os : List Nat) :
    (abbrevUnits os []).Nodup ∧ ∀ o ∈ os, o ∈ abbrevUnits os [] := by
  refine ⟨abbrevUnits_nodup os [], ?_⟩
  intro o ho
  rcases abbrevUnits_complete os [] o ho with h | h
  · exact h
  · simp at h

/-- the abbreviation of a DIE is the table entry with its code; with distinct codes it is the
    only such entry -/
theorem findAbbrev_code (t : Table) (c : Nat) (a : Abbrev) (h : findAbbrev t c = some a) : a.code = c ∧ a ∈ t.entries := by
  unfold findAbbrev at h
  have := List.find?_some h
  exact ⟨by simpa using this, List.mem_of_find?_eq_some h⟩

theorem findAbbrev_unique (t : Table) (a : Abbrev) (hm : a ∈ t.entries)
    (hd : (t.entries.map (·.code)).Nodup) : findAbbrev t a.code = some a := by
  unfold findAbbrev
  generalize t.entries = es at hm hd
  induction es with
  | nil => simp at hm
  | cons x xs ih =>
    simp only [List.map_cons, List.nodup_cons] at hd
    simp only [List.mem_cons] at hm
    rcases hm with rfl | hm
    · exact List.find?_cons_of_pos (l := xs) (by simp)
    · have hne : (x.code == a.code) = false := by
        have : x.code ≠ a.code := fun he => hd.1 (by rw [he]; exact List.mem_map.mpr ⟨a, hm, rfl⟩)
        simpa using this
      rw [List.find?_cons_of_neg (l := xs) (by simp [hne])]
      exact ih hm hd.2

example : abbrevUnits [0, 52, 0, 52, 97] [] = [0, 52, 97] := by decide

end ZwVerif.C17
