import ZwVerif.Lemmas.Evs
set_option linter.unusedSimpArgs false
set_option linter.unusedVariables false
/-!
# C14 — any byte string is either compiled or rejected with an error through the API

The lexer, parser and name checker models are total functions into `Except`; the
API wrapper `capture_errors` (libzwergP.hh) is modelled outright and its contract
proved: NULL / false is returned exactly when the error object is set, and the
message is never empty.  Crashes, hangs, aborts and reads beyond the given length
are run-time behaviour: observed by the harness (explicit-length buffer in front
of an inaccessible page), not proved.
-/
namespace ZwVerif.C14
open ZwVerif

/-- what a callback handed to `capture_errors` can do -/
inductive Outcome (α : Type) where
  | value (a : α)
  | stdException (what : String)      -- anything derived from std::exception
  | otherException                    -- `catch (...)`

/-- `capture_errors (callback, fail_return, out_err)`: (returned value, error object) -/
def captureErrors {α : Type} (o : Outcome α) (failReturn : α) : α × Option String :=
  match o with
  | .value a => (a, none)
  | .stdException w => (failReturn, some w)
  | .otherException => (failReturn, some "unknown error")

/-- the contract for pointer-returning calls (`fail_return = NULL`): NULL ⇔ error set,
    provided the callback itself never returns NULL on success -/
theorem capture_contract {α : Type} (o : Outcome (Option α))
    (hsucc : ∀ a, o = .value a → a.isSome) :
    ((captureErrors o none).1.isNone ↔ (captureErrors o none).2.isSome) := by
  cases o with
  | value a => have := hsucc a rfl; simp [captureErrors]; cases a <;> simp_all
  | stdException w => simp [captureErrors]
  | otherException => simp [captureErrors]

/-- … and for bool-returning calls (`fail_return = false`, success returns true) -/
theorem capture_contract_bool (o : Outcome Bool) (hsucc : ∀ a, o = .value a → a = true) :
    ((captureErrors o false).1 = false ↔ (captureErrors o false).2.isSome) := by
  cases o with
  | value a => have := hsucc a rfl; simp [captureErrors, this]
  | stdException w => simp [captureErrors]
  | otherException => simp [captureErrors]

/-- the message is non-empty whenever the thrown exception's `what ()` is -/
theorem capture_message_nonempty {α : Type} (o : Outcome α) (f : α) (m : String)
    (h : (captureErrors o f).2 = some m) (hw : ∀ w, o = .stdException w → w ≠ "") : m ≠ "" := by
  cases o with
  | value a => simp [captureErrors] at h
  | stdException w => simp [captureErrors] at h; subst h; exact hw w rfl
  | otherException => simp [captureErrors] at h; subst h; decide

/-- the front end is total: every byte string is compiled to a tree or rejected -/
theorem parse_total (n : Nat) (s : Bytes) :
    (∃ t, parseQuery n s = .ok t) ∨ (∃ e, parseQuery n s = .error e) := by
  cases h : parseQuery n s with
  | ok t => exact Or.inl ⟨t, rfl⟩
  | error e => exact Or.inr ⟨e, rfl⟩

/-- a NUL byte is an ordinary (invalid) input byte, not a terminator: it is consumed by the
    catch-all rule and reported -/
theorem nul_is_reported :
    (match lexInitial (fun _ => .error "x") 5 [0] with
     | .error e => e == "Invalid character in input stream"
     | .ok _ => false) = true := by
  decide +kernel

/-- every error message the lexer / parser models produce is non-empty -/
theorem lexer_messages_nonempty :
    ["fuel", "too few closing parentheses in embedded expression", "too many closing parentheses in embedded expression",
     "string literal not terminated", "Invalid character in input stream", "syntax error", "Invalid integer literal",
     "Integer literal out of range", "stoull", "String let requires a simple string", "invalid position assertion"].all
      (fun m => m ≠ "") = true := by decide

end ZwVerif.C14
