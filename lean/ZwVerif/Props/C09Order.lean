import ZwVerif.Lemmas.Ord3
import ZwVerif.Props.C09
set_option linter.unusedSimpArgs false
set_option linter.unusedVariables false
/-!
# C09 — the comparison of values is ONE consistent total preorder, for every value

`Val.cmpAny` is what the comparison words use (`comparison_result`: the type first, then the
value class's `cmp`).  For all values that can be compared at all (`Ok`: no closure anywhere
inside — closures compare by object identity, which the property excepts), nested sequences to
any depth included:

* the comparison never fails and `a ? a` is "equal";
* `b ? a` is the mirror image of `a ? b` (so exactly one of `<`, `==`, `>` holds, and
  `A < B` iff `B > A`);
* `<` is transitive;
* values that compare equal compare alike with every third value (so `==` is symmetric and
  transitive, and `<` respects it).

The two things the build decides — the numeric codes of the value types and the order of the
constant-domain objects — are arbitrary injective maps (`TypeInj`, `RankInj`).
-/
namespace ZwVerif.C09
open ZwVerif

/-- distinct value types have distinct codes (`value_type::alloc`) -/
def TypeInj (cfg : Cfg) : Prop := ∀ a b : VT, cfg.typeCode a = cfg.typeCode b → a = b

mutual
/-- values the engine can compare: integers in range, no closure anywhere inside -/
def Ok : Val → Prop
  | .cst _ v _ => v.WF
  | .str .. => True
  | .seq _ es => OkL es
  | .aset .. => True
  | .clo .. => False
  | .ext .. => True
def OkL : List Val → Prop
  | [] => True
  | a :: as => Ok a ∧ OkL as
end

mutual
def depth : Val → Nat
  | .seq _ es => depthL es + 1
  | .cst .. | .str .. | .aset .. | .clo .. | .ext .. => 0
def depthL : List Val → Nat
  | [] => 0
  | a :: as => max (depth a) (depthL as)
end

theorem okL_mem {es : List Val} (h : OkL es) : ∀ e ∈ es, Ok e := by
  induction es with
  | nil => intro e he; cases he
  | cons a as ih =>
    unfold OkL at h
    intro e he
    cases he with
    | head => exact h.1
    | tail _ h' => exact ih h.2 e h'

theorem depthL_mem {es : List Val} : ∀ e ∈ es, depth e ≤ depthL es := by
  induction es with
  | nil => intro e he; cases he
  | cons a as ih =>
    intro e he
    unfold depthL
    cases he with
    | head => omega
    | tail _ h' => have := ih e h'; omega

/-! ### the value classes -/

/-- constants -/
def cstO (cfg : Cfg) : Cmp (ZInt × Dom) := fun a b => some (cstCmp cfg a.1 a.2 b.1 b.2)

theorem cstCmp_lt_iff (cfg : Cfg) (v1 v2 : ZInt) (d1 d2 : Dom) :
    cstCmp cfg v1 d1 v2 d2 = .lt ↔ cstLt cfg v1 d1 v2 d2 = true := by
  unfold cstCmp
  cases cstLt cfg v1 d1 v2 d2 <;> cases cstLt cfg v2 d2 v1 d1 <;> simp

theorem cstO_good (cfg : Cfg) (hr : RankInj cfg) : GoodOn (cstO cfg) (fun a => a.1.WF) := by
  intro a b x ha hb hx
  refine ⟨?_, ?_, ?_, ?_⟩
  · simp only [cstO]; rw [cst_copy_equal cfg hr _ _ ha]
  · refine ⟨_, rfl, ?_⟩
    simp only [cstO, Option.some.injEq]
    rcases cst_trichotomy cfg hr a.1 b.1 a.2 b.2 ha hb with ⟨h, l1, l2⟩ | ⟨h, l1, l2⟩ | ⟨h, l1, l2⟩ <;>
      rw [h] <;> unfold cstCmp <;> simp [l1, l2]
  · simp only [cstO, Option.some.injEq]
    rw [cstCmp_lt_iff, cstCmp_lt_iff, cstCmp_lt_iff]
    exact cst_lt_trans cfg hr _ _ _ _ _ _ ha hb hx
  · simp only [cstO, Option.some.injEq]
    intro h
    rw [cst_eq_iff_key cfg hr _ _ _ _ ha hb] at h
    have e1 : cstLt cfg a.1 a.2 x.1 x.2 = cstLt cfg b.1 b.2 x.1 x.2 := by
      rw [Bool.eq_iff_iff, cstLt_iff_key cfg hr _ _ _ _ ha hx, cstLt_iff_key cfg hr _ _ _ _ hb hx, h]
    have e2 : cstLt cfg x.1 x.2 a.1 a.2 = cstLt cfg x.1 x.2 b.1 b.2 := by
      rw [Bool.eq_iff_iff, cstLt_iff_key cfg hr _ _ _ _ hx ha, cstLt_iff_key cfg hr _ _ _ _ hx hb, h]
    unfold cstCmp
    rw [e1, e2]

/-- strings: bytewise, a proper prefix is smaller -/
theorem bytesCmp_lexFull (s t : Bytes) : some (bytesCmp s t) = lexFull (byNat UInt8.toNat) s t := by
  induction s generalizing t with
  | nil => cases t <;> rfl
  | cons a as ih =>
    cases t with
    | nil => rfl
    | cons b bs =>
      simp only [bytesCmp, lexFull, byNat, Ord3.cmpNat, UInt8.lt_iff_toNat_lt]
      by_cases h1 : a.toNat < b.toNat
      · simp [h1]
      · by_cases h2 : b.toNat < a.toNat
        · simp [h1, h2]
        · simp [h1, h2, ih]

theorem bytes_good : GoodOn (fun s t : Bytes => some (bytesCmp s t)) (fun _ => True) := by
  have g := lexFull_good' (byNat_good UInt8.toNat (fun _ => True))
  have : GoodOn (lexFull (byNat UInt8.toNat)) (fun _ : Bytes => True) := g.mono (fun _ _ _ _ => trivial)
  exact this.of_agree (fun u v _ _ => bytesCmp_lexFull u v)

/-- keys of the opaque DWARF / ELF values -/
theorem listNatCmp_lexFull (s t : List Nat) : some (listNatCmp s t) = lexFull (byNat id) s t := by
  induction s generalizing t with
  | nil => cases t <;> rfl
  | cons a as ih =>
    cases t with
    | nil => rfl
    | cons b bs =>
      simp only [listNatCmp, lexFull, byNat, Ord3.cmpNat, id]
      by_cases h1 : a < b
      · simp [h1]
      · by_cases h2 : b < a
        · simp [h1, h2]
        · simp [h1, h2, ih]

theorem listNat_good : GoodOn (fun s t : List Nat => some (listNatCmp s t)) (fun _ => True) := by
  have g := lexFull_good' (byNat_good (id : Nat → Nat) (fun _ => True))
  have : GoodOn (lexFull (byNat id)) (fun _ : List Nat => True) := g.mono (fun _ _ _ _ => trivial)
  exact this.of_agree (fun u v _ _ => listNatCmp_lexFull u v)

/-- address sets: the number of ranges, then (start, length) range by range -/
def rangeO : Cmp Range := lexO (byNat Prod.fst) (byNat Prod.snd)

theorem rangeO_good : GoodOn rangeO (fun _ => True) :=
  lexO_good (byNat_good _ _) (fun a b x _ _ _ _ _ => byNat_good Prod.snd (fun _ => True) a b x trivial trivial trivial)

def ofInt (r : Int) : Ord3 := if r < 0 then .lt else if r > 0 then .gt else .eq

theorem cmpRanges_listO (c d : Cov) : some (ofInt (Cov.cmpRanges c d)) = cmpListO rangeO c d := by
  induction c generalizing d with
  | nil => cases d <;> simp [Cov.cmpRanges, cmpListO, ofInt]
  | cons r rs ih =>
    cases d with
    | nil => simp [Cov.cmpRanges, cmpListO, ofInt]
    | cons s ss =>
      obtain ⟨a, n⟩ := r
      obtain ⟨b, m⟩ := s
      simp only [Cov.cmpRanges, cmpListO, rangeO, lexO, byNat, Ord3.cmpNat]
      by_cases h1 : a < b
      · simp [h1, ofInt]
      · by_cases h2 : b < a
        · simp [h1, h2, ofInt]
        · by_cases h3 : n < m
          · simp [h1, h2, h3, ofInt]
          · by_cases h4 : m < n
            · simp [h1, h2, h3, h4, ofInt]
            · simp [h1, h2, h3, h4, ih]; rfl

theorem covCmp_lexO (c d : Cov) : some (covCmp c d) = lexO (byNat List.length) (cmpListO rangeO) c d := by
  simp only [covCmp, Cov.cmp, lexO, byNat, Ord3.cmpNat]
  by_cases h1 : c.length < d.length
  · simp [h1]
  · by_cases h2 : d.length < c.length
    · simp [h1, h2]
    · simp only [h1, h2, if_false]
      have := cmpRanges_listO c d
      simp only [ofInt] at this
      exact this

theorem cov_good : GoodOn (fun c d : Cov => some (covCmp c d)) (fun _ => True) := by
  have g : GoodOn (lexO (byNat List.length) (cmpListO rangeO)) (fun _ : Cov => True) := by
    apply lexO_good (byNat_good _ _)
    intro a b x _ _ _ e1 e2
    rw [byNat_eq_iff] at e1 e2
    exact cmpListO_good rangeO_good a.length a b x ⟨rfl, fun _ _ => trivial⟩ ⟨e1.symm, fun _ _ => trivial⟩
      ⟨by omega, fun _ _ => trivial⟩
  exact g.of_agree (fun u v _ _ => covCmp_lexO u v)

/-! ### sequences and the whole order -/

/-- the comparison of type codes -/
def tcO (cfg : Cfg) : Cmp Val := byNat (fun v => cfg.typeCode v.vt)

theorem cmpAny_lexO (cfg : Cfg) (a b : Val) : Val.cmpAny cfg a b = lexO (tcO cfg) (Val.cmp cfg) a b := by
  simp only [Val.cmpAny, lexO, tcO, byNat]
  cases Ord3.cmpNat (cfg.typeCode a.vt) (cfg.typeCode b.vt) <;> rfl

theorem typesCmp_listO (cfg : Cfg) (e1 e2 : List Val) : some (typesCmp cfg e1 e2) = cmpListO (tcO cfg) e1 e2 := by
  induction e1 generalizing e2 with
  | nil => cases e2 <;> simp [typesCmp, cmpListO]
  | cons a as ih =>
    cases e2 with
    | nil => simp [typesCmp, cmpListO]
    | cons b bs =>
      simp only [typesCmp, cmpListO, tcO, byNat]
      cases h : Ord3.cmpNat (cfg.typeCode a.vt) (cfg.typeCode b.vt) <;> simp [ih] <;> rfl

theorem cmpList_listO (cfg : Cfg) (e1 e2 : List Val) : Val.cmpList cfg e1 e2 = cmpListO (Val.cmp cfg) e1 e2 := by
  induction e1 generalizing e2 with
  | nil => cases e2 <;> simp [Val.cmpList, cmpListO]
  | cons a as ih =>
    cases e2 with
    | nil => simp [Val.cmpList, cmpListO]
    | cons b bs =>
      simp only [Val.cmpList, cmpListO]
      cases h : Val.cmp cfg a b with
      | none => rfl
      | some r => cases r <;> simp [ih]

/-- where the types agree position by position, comparing the elements by `cmp` is comparing them
    by the full order -/
theorem listO_cmp_any (cfg : Cfg) (e1 e2 : List Val) (h : cmpListO (tcO cfg) e1 e2 = some .eq) :
    cmpListO (Val.cmp cfg) e1 e2 = cmpListO (Val.cmpAny cfg) e1 e2 := by
  induction e1 generalizing e2 with
  | nil => cases e2 <;> simp [cmpListO]
  | cons a as ih =>
    cases e2 with
    | nil => simp [cmpListO]
    | cons b bs =>
      simp only [cmpListO] at h ⊢
      cases ht : tcO cfg a b with
      | none => simp [ht] at h
      | some r =>
        cases r with
        | eq =>
          simp only [ht] at h
          have : Val.cmpAny cfg a b = Val.cmp cfg a b := by rw [cmpAny_lexO, lexO_of_eq ht]
          rw [this, ih bs h]
        | lt => simp [ht] at h
        | gt => simp [ht] at h

/-- `value_seq::cmp` spelled with the combinators -/
def seqO (cfg : Cfg) : Cmp (List Val) :=
  lexO (byNat List.length) (lexO (cmpListO (tcO cfg)) (cmpListO (Val.cmpAny cfg)))

theorem seq_cmp_eq (cfg : Cfg) (p q : Nat) (e1 e2 : List Val) :
    Val.cmp cfg (.seq p e1) (.seq q e2) = seqO cfg e1 e2 := by
  simp only [Val.cmp, seqO, lexO, byNat]
  cases Ord3.cmpNat e1.length e2.length with
  | lt => rfl
  | gt => rfl
  | eq =>
    simp only
    have ht := typesCmp_listO cfg e1 e2
    cases h : typesCmp cfg e1 e2 with
    | lt => rw [h] at ht; simp [← ht]
    | gt => rw [h] at ht; simp [← ht]
    | eq =>
      rw [h] at ht
      simp only [← ht]
      rw [cmpList_listO, listO_cmp_any cfg e1 e2 ht.symm]

theorem seqO_good (cfg : Cfg) (M : Val → Prop) (g : GoodOn (Val.cmpAny cfg) M) :
    GoodOn (seqO cfg) (fun l => ∀ e ∈ l, M e) := by
  apply lexO_good (byNat_good _ _)
  intro a b x ha hb hx e1 e2
  rw [byNat_eq_iff] at e1 e2
  have la : ListsOf M a.length a := ⟨rfl, ha⟩
  have lb : ListsOf M a.length b := ⟨e1.symm, hb⟩
  have lx : ListsOf M a.length x := ⟨by omega, hx⟩
  have g1 : GoodOn (lexO (cmpListO (tcO cfg)) (cmpListO (Val.cmpAny cfg))) (ListsOf M a.length) := by
    apply lexO_good (cmpListO_good (byNat_good _ M) _)
    intro a' b' x' ha' hb' hx' _ _
    exact cmpListO_good g _ a' b' x' ha' hb' hx'
  exact g1 a b x la lb lx

/-- **the order of values is a consistent total preorder** (depth-indexed form) -/
theorem cmpAny_good_depth (cfg : Cfg) (hr : RankInj cfg) (ht : TypeInj cfg) :
    ∀ n, GoodOn (Val.cmpAny cfg) (fun v => Ok v ∧ depth v < n) := by
  intro n
  induction n with
  | zero => intro a _ _ ha; exact absurd ha.2 (by omega)
  | succ n ih =>
    apply GoodOn.of_agree _ (fun u v _ _ => cmpAny_lexO cfg u v)
    apply lexO_good (byNat_good _ _)
    intro a b x ha hb hx e1 e2
    have hab : a.vt = b.vt := ht _ _ ((byNat_eq_iff _ a b).mp e1)
    have hbx : b.vt = x.vt := ht _ _ ((byNat_eq_iff _ b x).mp e2)
    cases a with
    | cst p1 v1 d1 =>
      cases b <;> simp [Val.vt] at hab
      cases x <;> simp [Val.vt] at hbx
      rename_i p2 v2 d2 p3 v3 d3
      have t := (cstO_good cfg hr).comap (fun u : Nat × ZInt × Dom => u.2) (p1, v1, d1) (p2, v2, d2) (p3, v3, d3)
        (by simpa [Ok] using ha.1) (by simpa [Ok] using hb.1) (by simpa [Ok] using hx.1)
      exact t.map (fun u : Nat × ZInt × Dom => Val.cst u.1 u.2.1 u.2.2) (fun u v => by simp [Val.cmp, cstO])
    | str p1 s1 =>
      cases b <;> simp [Val.vt] at hab
      cases x <;> simp [Val.vt] at hbx
      rename_i p2 s2 p3 s3
      have t := (bytes_good.comap (fun u : Nat × Bytes => u.2)) (p1, s1) (p2, s2) (p3, s3) trivial trivial trivial
      exact t.map (fun u : Nat × Bytes => Val.str u.1 u.2) (fun u v => by simp [Val.cmp])
    | seq p1 s1 =>
      cases b <;> simp [Val.vt] at hab
      cases x <;> simp [Val.vt] at hbx
      rename_i p2 s2 p3 s3
      have el : ∀ (p : Nat) (s : List Val), Ok (.seq p s) ∧ depth (.seq p s) < n + 1 →
          ∀ e ∈ s, Ok e ∧ depth e < n := by
        intro p s h e he
        have h1 : OkL s := by simpa [Ok] using h.1
        have h2 : depthL s + 1 < n + 1 := by simpa [depth] using h.2
        have := depthL_mem e he
        exact ⟨okL_mem h1 e he, by omega⟩
      have t := ((seqO_good cfg _ ih).comap (fun u : Nat × List Val => u.2)) (p1, s1) (p2, s2) (p3, s3)
        (el p1 s1 ha) (el p2 s2 hb) (el p3 s3 hx)
      exact t.map (fun u : Nat × List Val => Val.seq u.1 u.2) (fun u v => seq_cmp_eq cfg _ _ _ _)
    | aset p1 c1 =>
      cases b <;> simp [Val.vt] at hab
      cases x <;> simp [Val.vt] at hbx
      rename_i p2 c2 p3 c3
      have t := (cov_good.comap (fun u : Nat × Cov => u.2)) (p1, c1) (p2, c2) (p3, c3) trivial trivial trivial
      exact t.map (fun u : Nat × Cov => Val.aset u.1 u.2) (fun u v => by simp [Val.cmp])
    | clo p1 b1 n1 v1 => exact absurd ha.1 (by simp [Ok])
    | ext p1 c1 k1 l1 =>
      cases b <;> simp [Val.vt] at hab
      cases x <;> simp [Val.vt] at hbx
      rename_i p2 c2 k2 l2 p3 c3 k3 l3
      subst hab; subst hbx
      have t := (listNat_good.comap (fun u : Nat × List Nat × String => u.2.1)) (p1, k1, l1) (p2, k2, l2) (p3, k3, l3)
        trivial trivial trivial
      exact t.map (fun u : Nat × List Nat × String => Val.ext u.1 c1 u.2.1 u.2.2) (fun u v => by simp [Val.cmp])

/-- **C09, for every comparable value** — whatever the nesting of sequences -/
theorem cmpAny_good (cfg : Cfg) (hr : RankInj cfg) (ht : TypeInj cfg) : GoodOn (Val.cmpAny cfg) Ok := by
  intro a b x ha hb hx
  let n := depth a + depth b + depth x + 1
  exact cmpAny_good_depth cfg hr ht n a b x ⟨ha, by omega⟩ ⟨hb, by omega⟩ ⟨hx, by omega⟩

/-! ### the clauses of the property, read off -/
section clauses
variable (cfg : Cfg) (hr : RankInj cfg) (ht : TypeInj cfg)
include hr ht

/-- the comparison is always decided -/
theorem total (a b : Val) (ha : Ok a) (hb : Ok b) : ∃ r, Val.cmpAny cfg a b = some r := by
  obtain ⟨r, h, _⟩ := (cmpAny_good cfg hr ht a b a ha hb ha).swap
  exact ⟨r, h⟩

/-- a value equals itself (and its copy: positions are not compared) -/
theorem refl (a : Val) (ha : Ok a) : Val.cmpAny cfg a a = some .eq := (cmpAny_good cfg hr ht a a a ha ha ha).refl

/-- `A < B` iff `B > A`; `A == B` iff `B == A` -/
theorem converse (a b : Val) (ha : Ok a) (hb : Ok b) (r : Ord3) :
    Val.cmpAny cfg a b = some r ↔ Val.cmpAny cfg b a = some r.swap := by
  obtain ⟨s, h1, h2⟩ := (cmpAny_good cfg hr ht a b a ha hb ha).swap
  rw [h1, h2]
  constructor
  · intro h; cases h; rfl
  · intro h
    have : s.swap = r.swap := by simpa using h
    have : s.swap.swap = r.swap.swap := by rw [this]
    simpa using this

theorem lt_trans (a b x : Val) (ha : Ok a) (hb : Ok b) (hx : Ok x) :
    Val.cmpAny cfg a b = some .lt → Val.cmpAny cfg b x = some .lt → Val.cmpAny cfg a x = some .lt :=
  (cmpAny_good cfg hr ht a b x ha hb hx).trans

theorem eq_trans (a b x : Val) (ha : Ok a) (hb : Ok b) (hx : Ok x) :
    Val.cmpAny cfg a b = some .eq → Val.cmpAny cfg b x = some .eq → Val.cmpAny cfg a x = some .eq := by
  intro h1 h2
  rw [(cmpAny_good cfg hr ht a b x ha hb hx).congr h1]; exact h2

/-- `<` is antisymmetric: never both ways, never together with `==` -/
theorem lt_asymm (a b : Val) (ha : Ok a) (hb : Ok b) :
    Val.cmpAny cfg a b = some .lt → Val.cmpAny cfg b a ≠ some .lt ∧ Val.cmpAny cfg b a ≠ some .eq := by
  intro h
  have := (converse cfg hr ht a b ha hb .lt).mp h
  rw [this]
  simp

/-- equal values are interchangeable in every comparison -/
theorem eq_congr (a b x : Val) (ha : Ok a) (hb : Ok b) (hx : Ok x) :
    Val.cmpAny cfg a b = some .eq → Val.cmpAny cfg a x = Val.cmpAny cfg b x :=
  (cmpAny_good cfg hr ht a b x ha hb hx).congr

end clauses

/-- sequences: by length first -/
theorem seq_by_length (cfg : Cfg) (p q : Nat) (e1 e2 : List Val) (h : e1.length < e2.length) :
    Val.cmpAny cfg (.seq p e1) (.seq q e2) = some .lt := by
  rw [cmpAny_lexO, lexO_of_eq (by simp [tcO, byNat, Ord3.cmpNat, Val.vt]), seq_cmp_eq]
  exact lexO_of_lt (by simp [byNat, Ord3.cmpNat, h])

/-- non-vacuity: a nested sequence with constants of several domains, a string and an address set
    is comparable, and the hypotheses on the build are satisfiable -/
def exCfg : Cfg :=
  { typeCode := fun | .closure => 0 | .const => 1 | .seq => 2 | .str => 3 | .aset => 4 | .ext c => 5 + c
    domRank := fun d => (toString (repr d)).length }

example : Ok (.seq 0 [.cst 0 ⟨5, false⟩ .hex, .str 1 [104, 105], .seq 2 [.aset 0 [(16, 4)], .cst 1 ⟨1, true⟩ (.named "DW_TAG_")]]) := by
  simp [Ok, OkL, ZInt.WF]

example : TypeInj exCfg := by
  intro a b h
  cases a <;> cases b <;> simp [exCfg] at h ⊢ <;> omega

end ZwVerif.C09
