import ZwVerif.Lemmas.Evs
import ZwVerif.Generated.StaticSyms
set_option linter.unusedSimpArgs false
set_option linter.unusedVariables false
/-!
# C12 — a compiled query is a pure function of its input stack

In the model an execution is `runQuery ctx fuel t input`: a function.  What has to
be shown for the code is that nothing *outside* the per-result state buffer
carries state from one execution (or compilation) to another.  Two parts:

* a history model: result sets are lists of pending results; executing, pulling
  and destroying them in any interleaving gives, for each execution, exactly the
  prefix of the fresh run — by induction over the history;
* the static-storage audit: the list of symbols in writable data sections of the
  freshly built objects (Generated/StaticSyms.lean, from `nm`) must be covered by
  the allow-list below, every entry of which says why it cannot carry state
  between executions.  A new `static` anywhere in the library fails this theorem.
-/
namespace ZwVerif.C12
open ZwVerif

/-! ### histories -/

inductive HOp where
  | exec (input : Nat)        -- start an execution on input #k; it becomes the newest live result
  | pull (slot : Nat)         -- pull one result from live result #slot
  | destroy (slot : Nat)      -- abandon live result #slot

/-- a live result set: which input it runs on and what it still has to yield -/
structure Live where
  input : Nat
  pending : List String
  pulled : List String        -- what it has yielded so far, in order

/-- the model of the API: `fresh k` is the result sequence of a fresh parse-and-run on input k -/
def stepH (fresh : Nat → List String) (ls : List Live) : HOp → List Live × Option (Nat × Option String)
  | .exec k => (ls ++ [{ input := k, pending := fresh k, pulled := [] }], none)
  | .pull i =>
    match ls[i]? with
    | none => (ls, none)
    | some l =>
      match l.pending with
      | [] => (ls, some (l.input, none))
      | r :: rest => (ls.set i { l with pending := rest, pulled := l.pulled ++ [r] }, some (l.input, some r))
  | .destroy i => (ls.eraseIdx i, none)

def runH (fresh : Nat → List String) : List Live → List HOp → List Live
  | ls, [] => ls
  | ls, o :: os => runH fresh (stepH fresh ls o).1 os

/-- the invariant: what a live result has yielded plus what it still holds is the fresh run -/
def LiveOk (fresh : Nat → List String) (l : Live) : Prop := l.pulled ++ l.pending = fresh l.input

theorem step_preserves (fresh : Nat → List String) (ls : List Live) (o : HOp)
    (h : ∀ l ∈ ls, LiveOk fresh l) : ∀ l ∈ (stepH fresh ls o).1, LiveOk fresh l := by
  cases o with
  | exec k =>
    intro l hl
    simp [stepH] at hl
    rcases hl with hl | rfl
    · exact h l hl
    · simp [LiveOk]
  | pull i =>
    simp only [stepH]
    cases hi : ls[i]? with
    | none => simpa using h
    | some l0 =>
      have hl0 : l0 ∈ ls := List.mem_of_getElem? hi
      cases hp : l0.pending with
      | nil => simpa [hp] using h
      | cons r rest =>
        simp only [hp]
        intro l hl
        rcases List.mem_or_eq_of_mem_set hl with hl | rfl
        · exact h l hl
        · have := h l0 hl0
          simp [LiveOk, hp] at this ⊢
          exact this
  | destroy i =>
    intro l hl
    simp [stepH] at hl
    exact h l (List.mem_of_mem_eraseIdx hl)

/-- **executions never influence one another**: after any history, every live result set has
    yielded exactly a prefix of the fresh run on its own input, whatever was executed, pulled or
    abandoned in between. -/
theorem exec_independent (fresh : Nat → List String) (ops : List HOp) :
    ∀ l ∈ runH fresh [] ops, ∃ rest, l.pulled ++ rest = fresh l.input := by
  suffices H : ∀ ls, (∀ l ∈ ls, LiveOk fresh l) → ∀ l ∈ runH fresh ls ops, LiveOk fresh l by
    intro l hl
    exact ⟨l.pending, H [] (by simp) l hl⟩
  induction ops with
  | nil => intro ls h; simpa [runH] using h
  | cons o os ih => intro ls h; exact ih _ (step_preserves fresh ls o h)

/-- a pull returns the next element of the fresh run for that input -/
theorem pull_is_next_of_fresh (fresh : Nat → List String) (ls : List Live) (i : Nat) (l : Live) (r : String)
    (h : ∀ l ∈ ls, LiveOk fresh l) (hi : ls[i]? = some l)
    (hr : (stepH fresh ls (.pull i)).2 = some (l.input, some r)) :
    (fresh l.input)[l.pulled.length]? = some r := by
  have hl := h l (List.mem_of_getElem? hi)
  simp only [stepH, hi] at hr
  cases hp : l.pending with
  | nil => simp [hp] at hr
  | cons r' rest =>
    simp [hp] at hr
    subst hr
    unfold LiveOk at hl
    rw [← hl, hp]
    simp

/-! ### static-storage audit -/

def ends (s p : String) : Bool := p.toList.isSuffixOf s.toList
def starts (s p : String) : Bool := p.toList.isPrefixOf s.toList
def same (s p : String) : Bool := s.toList == p.toList

/-- why a writable static object cannot carry state from one execution to another -/
def allowed (obj sec sym : String) : Bool :=
  -- constant-domain objects: stateless singletons (virtual functions only) and references to them
  ends sym "_constant_dom" || ends sym "_constant_dom_obj" || ends sym "_number_dom"
  || ends sym "_number_dom_obj" || same sym "slot_type_dom" || same sym "slot_type_dom_obj"
  || (starts sym "dw_" && (ends sym "::dom" || ends sym "_dom_obj"))
  || starts sym "elfsym_stt_dom(int)::dom" || starts sym "elfsym_stb_dom(int)::dom"
  || same sym "elfsym_stv_dom()::dom"
  || same sym "op_pos::next(scon&) const::pos_dom_obj"
  -- value-type registry: written during static initialisation only
  || ends sym "::vtype" || same sym "value_type::alloc(char const*, char const*)::last"
  || same sym "(anonymous namespace)::get_vtype_names()::names"
  || same sym "(anonymous namespace)::get_vtype_docstrings()::docstrings"
  -- initialise-once vocabularies
  || same sym "zw_vocabulary_core::{lambda()#1}::operator()() const::v"
  || same sym "zw_vocabulary_dwarf::{lambda()#1}::operator()() const::v"
  -- bison's token-name table (read only in practice)
  || same sym "yytname"
  -- scratch output buffer, fully rewritten before every use
  || starts sym "string_or_unknown("
  -- libdwfl callback table: constant configuration, never written after initialisation
  || (starts sym "(anonymous namespace)::open_dwfl(" && ends sym "::callbacks")

theorem static_state_audit :
    Generated.staticSyms.all (fun r => allowed r.1 r.2.1 r.2.2) = true := by decide +kernel

/-- the audit is not vacuous: the table is not empty and the defect it once caught would fail -/
example : Generated.staticSyms.length > 20 := by decide +kernel
example : allowed "parser.o" "b" "(anonymous namespace)::append_drop_below(std::unique_ptr<tree>, unsigned int)::bi" = false := by
  decide +kernel

end ZwVerif.C12
