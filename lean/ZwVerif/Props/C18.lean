import ZwVerif.Model.Symbol
set_option linter.unusedSimpArgs false
set_option linter.unusedVariables false
/-!
# C18 — ELF symbols are reported completely and faithfully
-/
namespace ZwVerif.C18
open ZwVerif.Symbol ZwVerif.Generated

/-- every entry of every table exactly once, in table order: the yielded list is the
    concatenation of the tables -/
theorem symbols_complete (mods : List (List Sym)) : symbols mods = mods.flatten := rfl

theorem symbols_count (mods : List (List Sym)) : (symbols mods).length = (mods.map List.length).sum := by
  simp [symbols, List.length_flatten]

/-- a single table is yielded as it is -/
theorem symbols_single (t : List Sym) : symbols [t] = t := by simp [symbols]

/-- entry `i` of the k-th table comes after all entries of earlier tables -/
theorem symbols_order (pre : List (List Sym)) (t : List Sym) (post : List (List Sym)) (i : Nat) (h : i < t.length) :
    (symbols (pre ++ t :: post))[(symbols pre).length + i]? = t[i]? := by
  simp only [symbols, List.flatten_append, List.flatten_cons]
  rw [List.getElem?_append_right (by omega)]
  simp only [Nat.add_sub_cancel_left]
  rw [List.getElem?_append_left h]

/-- numbered from zero, without gaps -/
theorem positions_from_zero (mods : List (List Sym)) :
    positions mods = List.range (symbols mods).length ∧ (positions mods).length = (symbols mods).length := by
  simp [positions]

/-- st_info packs binding and type: both are recovered for every byte -/
theorem info_unpack (b t : Nat) (ht : t < 16) :
    (Sym.mk [] 0 0 (b * 16 + t) 0).type = t ∧ (Sym.mk [] 0 0 (b * 16 + t) 0).bind = b := by
  simp only [Sym.type, Sym.bind]; omega

theorem vis_unpack (hi v : Nat) (hv : v < 4) : (Sym.mk [] 0 0 0 (hi * 4 + v)).vis = v := by
  simp only [Sym.vis]; omega

/-- generic codes are equal across machines -/
theorem generic_equal_across_machines (m1 m2 c : Nat) (h : c < STT_LOOS) :
    cstEq (sttFamily m1) c (sttFamily m2) c = true := by
  simp [cstEq, h]

/-- a machine-specific code never equals another family's -/
theorem specific_never_equal_across_families (f1 f2 c1 c2 : Nat) (h : STT_LOOS ≤ c1) (hf : f1 ≠ f2) :
    cstEq f1 c1 f2 c2 = false := by
  simp only [cstEq]
  have : ¬ c1 < STT_LOOS := by omega
  simp [this, hf]

/-- machines with their own family keep it; all others share the generic one (against the
    regenerated tables) -/
theorem families :
    sttFamily 40 = 40 ∧ sttFamily 2 = 2 ∧ sttFamily 15 = 15 ∧ sttFamily 62 = 0 ∧ sttFamily 8 = 0 ∧ sttFamily 21 = 0 ∧
    stbFamily 8 = 8 ∧ stbFamily 40 = 0 ∧ stbFamily 62 = 0 := by decide

/-- machine-specific codes are named in their machine's family and not in another's -/
theorem specific_names :
    codeName sttNames (sttFamily 40) 13 = "ARM_TFUNC" ∧ codeName sttNames (sttFamily 40) 15 = "ARM_16BIT" ∧
    codeName sttNames (sttFamily 2) 13 = "SPARC_REGISTER" ∧ codeName sttNames (sttFamily 15) 13 = "PARISC_MILLICODE" ∧
    codeName sttNames (sttFamily 62) 13 = "LOPROC+0" ∧ codeName sttNames (sttFamily 8) 13 = "LOPROC+0" ∧
    codeName stbNames (stbFamily 8) 13 = "MIPS_SPLIT_COMMON" ∧ codeName stbNames (stbFamily 62) 13 = "LOPROC+0" ∧
    codeName sttNames (sttFamily 62) 2 = "FUNC" ∧ codeName sttNames (sttFamily 40) 2 = "FUNC" ∧
    codeName stbNames (stbFamily 8) 1 = "GLOBAL" := by decide

end ZwVerif.C18
