import ZwVerif.Model.StackProf
import ZwVerif.Lemmas.Evs
set_option linter.unusedSimpArgs false
set_option linter.unusedVariables false
/-!
# C11 — core words do what their documentation says

* the cached stack profile always describes the top four slots, whatever
  sequence of push / pop / drop built the stack, so overload dispatch depends
  only on the values near the top, never on history;
* `?find` / `?starts` / `?ends` are infix / prefix / suffix of the list model;
* `elem` numbers 0, 1, 2, …; `relem` numbers the reversed walk afresh.
-/
namespace ZwVerif.C11
open ZwVerif PStack

theorem enc_lt (l : List Nat) (h : ∀ c ∈ l, c < 256) : enc l < 256 ^ l.length := by
  induction l with
  | nil => simp [enc]
  | cons c r ih =>
    have hc := h c (by simp)
    have hr := ih (fun x hx => h x (by simp [hx]))
    simp only [enc, List.length_cons, Nat.pow_succ]
    omega

theorem inv_empty : PStack.Inv empty := by simp [PStack.Inv, empty, enc]

theorem inv_push (s : PStack) (c : Nat) (h : PStack.Inv s) (hc : 0 < c ∧ c < 256) : PStack.Inv (s.push c) := by
  obtain ⟨hp, hcodes⟩ := h
  refine ⟨?_, ?_⟩
  · simp only [push, List.take_succ_cons, enc]
    rw [hp]
    -- enc (take 4 l) * 256 % 2^32 = 256 * enc (take 3 l)
    have key : ∀ l : List Nat, (∀ c ∈ l, c < 256) → enc (l.take 4) * 256 % 2^32 = 256 * enc (l.take 3) := by
      intro l hl
      match l with
      | [] => simp [enc]
      | [a] => have := hl a (by simp); simp [enc]; omega
      | [a, b] =>
        have := hl a (by simp); have := hl b (by simp); simp [enc]; omega
      | [a, b, c] =>
        have := hl a (by simp); have := hl b (by simp); have := hl c (by simp); simp [enc]; omega
      | a :: b :: c :: d :: r =>
        have := hl a (by simp); have := hl b (by simp); have := hl c (by simp); have := hl d (by simp)
        simp [enc]; omega
    rw [key s.codes (fun c hc => (hcodes c hc).2)]
    omega
  · intro x hx
    simp [push] at hx
    rcases hx with rfl | hx
    · exact hc
    · exact hcodes x hx

theorem inv_pop (s s' : PStack) (h : PStack.Inv s) (hp : s.pop = some s') : PStack.Inv s' := by
  obtain ⟨hprof, hcodes⟩ := h
  unfold pop at hp
  match hs : s.codes with
  | [] => simp [hs] at hp
  | c0 :: r =>
    simp [hs] at hp
    subst hp
    have hr : ∀ c ∈ r, 0 < c ∧ c < 256 := fun c hc => hcodes c (by simp [hs, hc])
    have h0 := hcodes c0 (by simp [hs])
    refine ⟨?_, hr⟩
    simp only
    rw [hprof, hs]
    match r, hr with
    | [], _ => simp [enc]; omega
    | [a], hr => have := hr a (by simp); simp [enc]; omega
    | [a, b], hr => have := hr a (by simp); have := hr b (by simp); simp [enc]; omega
    | [a, b, c], hr =>
      have := hr a (by simp); have := hr b (by simp); have := hr c (by simp); simp [enc]; omega
    | a :: b :: c :: d :: r', hr =>
      have := hr a (by simp); have := hr b (by simp); have := hr c (by simp); have := hr d (by simp)
      simp [enc]; omega

theorem inv_drop (s s' : PStack) (n : Nat) (h : PStack.Inv s) (hd : s.drop n = some s') : PStack.Inv s' := by
  unfold PStack.drop at hd
  split at hd
  · simp at hd
  · simp at hd; subst hd
    exact ⟨rfl, fun c hc => h.2 c (List.mem_of_mem_drop hc)⟩

/-- operations on a stack of type codes -/
inductive SOp where
  | push (c : Nat) | pop | drop (n : Nat)

def applyOp (s : PStack) : SOp → Option PStack
  | .push c => some (s.push c)
  | .pop => s.pop
  | .drop n => s.drop n

def applyOps : PStack → List SOp → Option PStack
  | s, [] => some s
  | s, o :: os => (applyOp s o).bind fun s' => applyOps s' os

/-- **profile invariant for every history**: after any sequence of push / pop / drop (with
    valid type codes) from the empty stack, the cached profile encodes exactly the type codes
    of the top four slots. -/
theorem profile_invariant (ops : List SOp) (s : PStack)
    (hops : ∀ o ∈ ops, ∀ c, o = .push c → 0 < c ∧ c < 256)
    (h : applyOps empty ops = some s) : PStack.Inv s := by
  suffices H : ∀ (s0 : PStack), PStack.Inv s0 → applyOps s0 ops = some s → PStack.Inv s from H empty inv_empty h
  clear h
  induction ops with
  | nil => intro s0 h0 h1; simp [applyOps] at h1; subst h1; exact h0
  | cons o os ih =>
    intro s0 h0 h1
    simp only [applyOps] at h1
    cases ho : applyOp s0 o with
    | none => simp [ho] at h1
    | some s1 =>
      simp [ho] at h1
      have h1' : PStack.Inv s1 := by
        cases o with
        | push c => simp [applyOp] at ho; subst ho; exact inv_push _ _ h0 (hops _ (by simp) c rfl)
        | pop => exact inv_pop _ _ h0 ho
        | drop n => exact inv_drop _ _ _ h0 ho
      exact ih (fun o ho c hc => hops o (by simp [ho]) c hc) s1 h1' h1

theorem enc_mod (l : List Nat) (k : Nat) (h : ∀ c ∈ l, c < 256) :
    enc l % 256 ^ k = enc (l.take k) := by
  induction k generalizing l with
  | zero => simp [enc, Nat.mod_one]
  | succ k ih =>
    match l with
    | [] => simp [enc]
    | c :: r =>
      have hc := h c (by simp)
      have hr : ∀ x ∈ r, x < 256 := fun x hx => h x (by simp [hx])
      simp only [enc, List.take_succ_cons, Nat.pow_succ]
      have := ih r hr
      have hlt := enc_lt (r.take k) (fun x hx => hr x (List.mem_of_mem_take hx))
      have hlen : (r.take k).length ≤ k := by simp; exact Nat.min_le_left _ _
      have : enc r = 256 ^ k * (enc r / 256 ^ k) + enc (r.take k) := by
        rw [← this]; exact (Nat.div_add_mod _ _).symm
      generalize enc r / 256 ^ k = q at this
      rw [this]
      have hpos : 0 < 256 ^ k := Nat.pow_pos (by decide)
      have hb : enc (r.take k) < 256 ^ k := Nat.lt_of_lt_of_le hlt (Nat.pow_le_pow_right (by decide) hlen)
      have e : c + 256 * (256 ^ k * q + enc (List.take k r)) =
          (c + 256 * enc (List.take k r)) + (256 ^ k * 256) * q := by
        rw [Nat.mul_add, ← Nat.mul_assoc, Nat.mul_comm 256 (256 ^ k)]; omega
      rw [e, Nat.add_mul_mod_self_left]
      apply Nat.mod_eq_of_lt
      have : 256 * enc (List.take k r) + 256 ≤ 256 ^ k * 256 := by
        have := Nat.mul_le_mul_left 256 (Nat.succ_le_of_lt hb)
        rw [Nat.mul_comm (256 ^ k)]; omega
      omega

theorem enc_inj (a b : List Nat) (hl : a.length = b.length) (ha : ∀ c ∈ a, c < 256)
    (hb : ∀ c ∈ b, c < 256) (h : enc a = enc b) : a = b := by
  induction a generalizing b with
  | nil => cases b <;> simp_all
  | cons x xs ih =>
    cases b with
    | nil => simp at hl
    | cons y ys =>
      simp only [enc] at h
      have hx := ha x (by simp); have hy := hb y (by simp)
      have h1 : x = y := by omega
      have h2 : enc xs = enc ys := by omega
      rw [h1, ih ys (by simpa using hl) (fun c hc => ha c (by simp [hc])) (fun c hc => hb c (by simp [hc])) h2]

/-- **dispatch looks at the top `k` types only**: a selector of `k ≤ 4` type codes matches the
    cached profile iff the top `k` slots have exactly those types — independent of anything
    deeper and of how the stack was built. -/
theorem dispatch_by_top_types (s : PStack) (sel : List Nat) (h : PStack.Inv s)
    (hk : sel.length ≤ 4) (hsel : ∀ c ∈ sel, 0 < c ∧ c < 256) :
    selMatches sel s.profile = true ↔ s.codes.take sel.length = sel := by
  obtain ⟨hp, hcodes⟩ := h
  unfold selMatches
  rw [hp, beq_iff_eq]
  have h4 : ∀ c ∈ s.codes.take 4, c < 256 := fun c hc => (hcodes c (List.mem_of_mem_take hc)).2
  rw [enc_mod _ _ h4, List.take_take, Nat.min_eq_left hk]
  constructor
  · intro he
    -- a shorter stack pads with zero bytes, which no selector code equals
    by_cases hlen : sel.length ≤ s.codes.length
    · apply enc_inj _ _ (by simp [hlen]) (fun c hc => (hcodes c (List.mem_of_mem_take hc)).2)
        (fun c hc => (hsel c hc).2) he
    · exfalso
      have hshort : s.codes.take sel.length = s.codes := List.take_of_length_le (by omega)
      rw [hshort] at he
      -- compare lengths: enc of the shorter list is below 256^len, enc sel is at least 256^len
      have hlt := enc_lt s.codes (fun c hc => (hcodes c hc).2)
      have hge : ∀ (l : List Nat) (n : Nat), n < l.length → (∀ c ∈ l, 0 < c) → 256 ^ n ≤ enc l := by
        intro l
        induction l with
        | nil => intro n hn; simp at hn
        | cons c r ih =>
          intro n hn hpos
          cases n with
          | zero => have := hpos c (by simp); simp [enc]; omega
          | succ n =>
            have := ih n (by simpa using hn) (fun x hx => hpos x (by simp [hx]))
            simp only [enc, Nat.pow_succ]; omega
      have := hge sel s.codes.length (by omega) (fun c hc => (hsel c hc).1)
      omega
  · intro he; rw [he]

/-! ### list-model laws of `?starts`, `?find`, `?ends` -/

theorem isPrefixBy_iff [BEq α] [LawfulBEq α] (needle hay : List α) :
    isPrefixBy (· == ·) needle hay = true ↔ needle <+: hay := by
  induction needle generalizing hay with
  | nil => simp [isPrefixBy]
  | cons a as ih =>
    cases hay with
    | nil => simp [isPrefixBy]
    | cons b bs => simp [isPrefixBy, ih, List.cons_prefix_cons]

theorem isInfixBy_iff [BEq α] [LawfulBEq α] (needle hay : List α) :
    isInfixBy (· == ·) needle hay = true ↔ needle <:+: hay := by
  induction hay with
  | nil => cases needle <;> simp [isInfixBy, List.isEmpty]
  | cons h hs ih =>
    simp only [isInfixBy, Bool.or_eq_true, isPrefixBy_iff, ih]
    constructor
    · rintro (h | h)
      · exact h.isInfix
      · exact h.trans (List.suffix_cons _ hs).isInfix
    · intro h
      rw [List.infix_cons_iff] at h
      exact h

theorem isSuffixBy_iff [BEq α] [LawfulBEq α] (needle hay : List α) :
    isSuffixBy (· == ·) needle hay = true ↔ needle <:+ hay := by
  unfold isSuffixBy
  rw [isPrefixBy_iff, List.reverse_prefix]

/-- needles longer than the haystack never match -/
theorem longer_needle_never [BEq α] [LawfulBEq α] (needle hay : List α) (h : hay.length < needle.length) :
    isInfixBy (· == ·) needle hay = false ∧ isPrefixBy (· == ·) needle hay = false ∧
    isSuffixBy (· == ·) needle hay = false := by
  refine ⟨?_, ?_, ?_⟩ <;> apply Bool.eq_false_iff.mpr <;> intro hh
  · have := ((isInfixBy_iff needle hay).mp hh).length_le; omega
  · have := ((isPrefixBy_iff needle hay).mp hh).length_le; omega
  · have := ((isSuffixBy_iff needle hay).mp hh).length_le; omega

/-- `value` strips the domain, the radix casts keep the value -/
theorem cast_keeps_value (d : Dom) (p : Nat) (v : ZInt) (d0 : Dom) (r : Stack) (env : List (Bytes × Val)) :
    wCast d ⟨env, .cst p v d0 :: r⟩ = [.frame ⟨env, .cst 0 v d :: r⟩] := by
  simp [wCast, withStk, cstV]

/-- an operand of an unsupported type produces a diagnostic and no result -/
theorem add_unsupported_is_diagnosed (env : List (Bytes × Val)) (p q : Nat) (s : Bytes) (v : ZInt) (d : Dom) (r : Stack) :
    wAdd ⟨env, .str p s :: .cst q v d :: r⟩ = [.soft "overload"] := by
  simp [wAdd, noOverload]

end ZwVerif.C11
