import ZwVerif.Lemmas.Evs
set_option linter.unusedSimpArgs false
set_option linter.unusedVariables false
/-!
# C01 — each construct acts on every input stack independently (stream semantics)

`sem` (Model/Sem.lean) is the documented meaning as a function on streams.  The
theorems here state which parts of it are input-independent *by construction*
and which order facts hold; that the pull engine of op.cc computes `sem` —
including the order in which `op_merge` serves its branches — is what the
query-level correspondence checks on generated programs.
-/
namespace ZwVerif.C01
open ZwVerif

/-- the node kinds that have no state across inputs: everything except the three that are
    transparent for the stream (CAT, SCOPE, NOP/F_DEBUG) and ALT -/
def PerFrame (t : Tree) : Prop :=
  t.tt ≠ .CAT ∧ t.tt ≠ .ALT ∧ t.tt ≠ .NOP ∧ t.tt ≠ .F_DEBUG ∧ t.tt ≠ .SCOPE

/-- for such a node the meaning on a stream is the per-input meaning, applied in place -/
theorem sem_perframe (ctx : Ctx) (n : Nat) (t : Tree) (h : PerFrame t) (es : Evs) :
    sem ctx (n + 1) t es = mapFrames (sem1 ctx n t) es := by
  obtain ⟨tt, p, cs⟩ := t
  simp only [PerFrame, Tree.tt] at h
  obtain ⟨h1, h2, h3, h4, h5⟩ := h
  unfold sem
  split <;> simp_all

/-- **no construct remembers, drops or re-orders work because of stacks it saw earlier**
    (per-frame constructs): the result for a stream is the concatenation, in order, of the
    results for its parts — up to the first hard error, which ends everything. -/
theorem stream_is_concat (ctx : Ctx) (n : Nat) (t : Tree) (h : PerFrame t) (a b : Evs) :
    sem ctx (n + 1) t (a ++ b) = cutHard (sem ctx (n + 1) t a ++
      (b.flatMap fun | .frame f => sem1 ctx n t f | e => [e])) := by
  rw [sem_perframe ctx n t h, sem_perframe ctx n t h, mapFrames_append]
  rfl

/-- in particular the results for the second part do not depend on the first part at all,
    when the first part raised no hard error -/
theorem later_inputs_unaffected (ctx : Ctx) (n : Nat) (t : Tree) (h : PerFrame t) (a b : Evs)
    (ha : NoHard (sem ctx (n + 1) t a)) :
    sem ctx (n + 1) t (a ++ b) = sem ctx (n + 1) t a ++ sem ctx (n + 1) t b := by
  rw [stream_is_concat ctx n t h, cutHard_append_noHard _ _ ha, sem_perframe ctx n t h b]
  rfl

/-- the rotation of `op_merge` serves every branch exactly once per input -/
theorem rotate_perm (l : List α) (k : Nat) : (rotate l k).Perm l := by
  unfold rotate
  have : (l.take k ++ l.drop k).Perm (l.drop k ++ l.take k) := List.perm_append_comm
  rw [List.take_append_drop] at this
  exact this.symm

theorem rot_lt (n j : Nat) (h : 0 < n) : rot n j < n := Nat.mod_lt _ h

/-- a construct fed ONE stack yields its alternatives left to right -/
theorem rot_first_input (n : Nat) : rot n 0 = 0 := by simp [rot]

theorem rotate_zero (l : List α) : rotate l 0 = l := by simp [rotate]

/-- `elem` numbers its results 0, 1, 2, … in forward order, `relem` numbers the reversed walk -/
theorem posMap_pos (vs : List Val) : (posMap (fun i v => v.setPos i) vs).map Val.pos = List.range vs.length := by
  unfold posMap
  have h : ∀ (l : List Val) (k : Nat),
      ((l.zipIdx k).map (fun x => (x.1.setPos x.2))).map Val.pos = List.range' k l.length := by
    intro l
    induction l with
    | nil => intro k; simp
    | cons v vs ih =>
      intro k
      simp only [List.zipIdx_cons, List.map_cons, List.length_cons, List.range'_succ]
      rw [ih (k + 1)]
      cases v <;> simp [Val.setPos, Val.pos]
  have := h vs 0
  rw [List.range_eq_range']
  exact this

/-- sequence literals keep written order: the captured sequence lists the top values of the
    body's results in the order they were yielded -/
theorem capture_order (ctx : Ctx) (n : Nat) (pl : Payload) (c : Tree) (f : Frame)
    (hn : (sem ctx n c [.frame f]).hardMsg = none)
    (ht : ∀ g ∈ (sem ctx n c [.frame f]).frames, g.stk ≠ []) :
    (sem1 ctx (n + 1) (.node .CAPTURE pl [c]) f).frames =
      [{ f with stk := Val.seq 0 ((sem ctx n c [.frame f]).frames.filterMap (·.stk.head?)) :: f.stk }] := by
  simp only [sem1, hn]
  have hall : ((sem ctx n c [.frame f]).frames.map fun g => g.stk.head?).any Option.isNone = false := by
    rw [List.any_eq_false]
    intro x hx
    simp only [List.mem_map] at hx
    obtain ⟨g, hg, rfl⟩ := hx
    have := ht g hg
    cases h : g.stk with
    | nil => exact absurd h this
    | cons v r => simp
  simp only [hall]
  simp [Evs.frames, withStk, List.filterMap_append, List.filterMap_map]
  intro a _ ha
  cases a <;> simp at ha ⊢

end ZwVerif.C01
