import ZwVerif.Model.Or
set_option linter.unusedSimpArgs false
set_option linter.unusedVariables false
/-!
# C01 (mechanism) — the op_or machine: for every upstream stack, the results of the first branch
that yields anything, in upstream order; later stacks start again at the first branch
-/
namespace ZwVerif.OrOp
variable {α : Type}

/-- draining what the selected branch still has, then going on -/
theorem drain_pend (c : Cfg α) (i : Nat) : ∀ (p : List α) (rest : List α) (outs : List α) (st' : St α),
    Drain c { up := rest, it := none, pend := [] } outs st' →
    Drain c { up := rest, it := some i, pend := p } (p ++ outs) st' := by
  intro p
  induction p with
  | nil =>
    intro rest outs st' h
    cases h with
    | nil hn => exact Drain.nil (Next.reset (i := i) rfl rfl hn)
    | cons hn hr => exact Drain.cons (Next.reset (i := i) rfl rfl hn) hr
  | cons x xs ih =>
    intro rest outs st' h
    exact Drain.cons (Next.yield (i := i) rfl rfl) (ih rest outs st' h)

/-- a stack for which no branch yields is passed over -/
theorem drain_miss (c : Cfg α) (s : α) (rest : List α) (outs : List α) (st' : St α)
    (hf : firstFrom c s c.n 0 = none) (h : Drain c { up := rest, it := none, pend := [] } outs st') :
    Drain c { up := s :: rest, it := none, pend := [] } outs st' := by
  cases h with
  | nil hn => exact Drain.nil (Next.pullMiss (s := s) (rest := rest) rfl rfl hf hn)
  | cons hn hr => exact Drain.cons (Next.pullMiss (s := s) (rest := rest) rfl rfl hf hn) hr

/-- **the machine computes `spec` and ends ready for more** -/
theorem or_refines (c : Cfg α) (up : List α) :
    Drain c (init up) (spec c up) { up := [], it := none, pend := [] } := by
  induction up with
  | nil => exact Drain.nil (Next.upstreamDry rfl rfl)
  | cons s rest ih =>
    simp only [spec, List.flatMap_cons, firstResults]
    cases hf : firstFrom c s c.n 0 with
    | none =>
      simp only [List.nil_append]
      exact drain_miss c s rest _ _ hf ih
    | some t =>
      obtain ⟨i, x, xs⟩ := t
      simp only [List.cons_append]
      refine Drain.cons (Next.pullHit (s := s) (rest := rest) rfl rfl hf) ?_
      exact drain_pend c i xs rest _ _ ih

theorem firstFrom_first (c : Cfg α) (s : α) : ∀ (k i : Nat) (j : Nat) (x : α) (xs : List α),
    firstFrom c s k i = some (j, x, xs) → c.fs j s = x :: xs ∧ i ≤ j ∧ j < i + k ∧ ∀ m, i ≤ m → m < j → c.fs m s = [] := by
  intro k
  induction k with
  | zero => intro i j x xs h; simp [firstFrom] at h
  | succ k ih =>
    intro i j x xs h
    simp only [firstFrom] at h
    cases hfi : c.fs i s with
    | nil =>
      rw [hfi] at h
      obtain ⟨h1, h2, h3, h4⟩ := ih (i + 1) j x xs h
      refine ⟨h1, by omega, by omega, ?_⟩
      intro m hm1 hm2
      by_cases hmi : m = i
      · subst hmi; exact hfi
      · exact h4 m (by omega) hm2
    | cons y ys =>
      rw [hfi] at h
      simp at h
      obtain ⟨rfl, rfl, rfl⟩ := h
      exact ⟨hfi, Nat.le_refl _, by omega, fun m h1 h2 => by omega⟩

/-- what is yielded for one stack is the whole output of the first branch (in order) that yields
    anything for it: no earlier branch yields, no later branch is consulted -/
theorem firstResults_is_first_branch (c : Cfg α) (s : α) :
    (∃ j, j < c.n ∧ firstResults c s = c.fs j s ∧ c.fs j s ≠ [] ∧ ∀ m, m < j → c.fs m s = []) ∨
    (firstResults c s = [] ∧ firstFrom c s c.n 0 = none) := by
  unfold firstResults
  cases hf : firstFrom c s c.n 0 with
  | none => exact Or.inr ⟨rfl, rfl⟩
  | some t =>
    obtain ⟨j, x, xs⟩ := t
    obtain ⟨h1, _, h3, h4⟩ := firstFrom_first c s c.n 0 j x xs hf
    exact Or.inl ⟨j, by omega, by simp [h1], by simp [h1], fun m hm => h4 m (Nat.zero_le _) hm⟩

example : let c : Cfg Nat := ⟨2, fun i s => if i = 0 then (if s = 1 then [] else [s, s]) else [100 + s]⟩
    spec c [1, 2, 3] = [101, 2, 2, 3, 3] := by decide

end ZwVerif.OrOp
