import ZwVerif.Model.Coverage
set_option linter.unusedSimpArgs false
set_option linter.unusedVariables false
/-! Set semantics of the coverage model (proof side of C16). -/
namespace ZwVerif
namespace Cov

/-- the set denoted -/
def mem (x : Nat) (c : Cov) : Prop := ∃ r ∈ c, r.1 ≤ x ∧ x < r.1 + r.2

/-- canonical form: non-empty ranges, ascending, neither overlapping nor adjacent -/
def WF : Cov → Prop
  | [] => True
  | (s, l) :: rest => 0 < l ∧ (∀ r ∈ rest, s + l < r.1) ∧ WF rest

@[simp] theorem mem_nil (x : Nat) : mem x [] ↔ False := by simp [mem]

@[simp] theorem mem_cons (x : Nat) (a n : Nat) (c : Cov) :
    mem x ((a, n) :: c) ↔ (a ≤ x ∧ x < a + n) ∨ mem x c := by
  simp [mem]

theorem mem_append (x : Nat) (c d : Cov) : mem x (c ++ d) ↔ mem x c ∨ mem x d := by
  simp only [mem, List.mem_append]
  constructor
  · rintro ⟨r, h | h, hr⟩
    · exact Or.inl ⟨r, h, hr⟩
    · exact Or.inr ⟨r, h, hr⟩
  · rintro (⟨r, h, hr⟩ | ⟨r, h, hr⟩)
    · exact ⟨r, Or.inl h, hr⟩
    · exact ⟨r, Or.inr h, hr⟩

/-- every member of a WF list whose ranges all start above `b` is above `b` -/
theorem mem_lb {c : Cov} {b x : Nat} (h : ∀ r ∈ c, b < r.1) (hx : mem x c) : b < x := by
  obtain ⟨r, hr, h1, _⟩ := hx
  have := h r hr; omega

/-! ### add -/

theorem mem_addPos (x s l : Nat) (c : Cov) :
    mem x (addPos s l c) ↔ (s ≤ x ∧ x < s + l) ∨ mem x c := by
  induction c generalizing s l with
  | nil => simp [addPos]
  | cons hd rest ih =>
    obtain ⟨a, n⟩ := hd
    unfold addPos
    split
    · simp
    · split
      · by_cases hm : mem x rest <;> simp [ih, hm]; omega
      · rw [ih]
        have : min s a ≤ x ∧ x < min s a + (max (s + l) (a + n) - min s a) ↔
            (s ≤ x ∧ x < s + l) ∨ (a ≤ x ∧ x < a + n) := by omega
        rw [this]
        by_cases hm : mem x rest <;> simp [hm]

theorem addPos_lb (b s l : Nat) (c : Cov) (hc : ∀ r ∈ c, b < r.1) (hs : b < s) :
    ∀ r ∈ addPos s l c, b < r.1 := by
  induction c generalizing s l with
  | nil => simp [addPos]; exact hs
  | cons hd rest ih =>
    obtain ⟨a, n⟩ := hd
    have ha : b < a := hc (a, n) (by simp)
    have hrest : ∀ r ∈ rest, b < r.1 := fun r hr => hc r (by simp [hr])
    unfold addPos
    split
    · intro r hr; simp at hr
      rcases hr with rfl | rfl | hr
      · exact hs
      · exact ha
      · exact hrest r hr
    · split
      · intro r hr; simp at hr
        rcases hr with rfl | hr
        · exact ha
        · exact ih s l hrest hs r hr
      · exact ih _ _ hrest (by omega)

theorem WF_addPos (s l : Nat) (c : Cov) (hl : 0 < l) (h : WF c) : WF (addPos s l c) := by
  induction c generalizing s l with
  | nil => simp [addPos, WF]; exact hl
  | cons hd rest ih =>
    obtain ⟨a, n⟩ := hd
    obtain ⟨hn, hsep, hw⟩ := h
    unfold addPos
    split
    · rename_i h1
      refine ⟨hl, ?_, hn, hsep, hw⟩
      intro r hr; simp at hr
      rcases hr with rfl | hr
      · exact h1
      · have := hsep r hr; simp; omega
    · split
      · rename_i h1 h2
        exact ⟨hn, addPos_lb (a + n) s l rest hsep h2, ih s l hl hw⟩
      · exact ih _ _ (by omega) hw

theorem mem_add (x s l : Nat) (c : Cov) :
    mem x (add s l c) ↔ (s ≤ x ∧ x < s + l) ∨ mem x c := by
  unfold add; split
  · rename_i h0; subst h0
    constructor
    · intro h; exact Or.inr h
    · rintro (h | h)
      · omega
      · exact h
  · exact mem_addPos x s l c

theorem WF_add (s l : Nat) (c : Cov) (h : WF c) : WF (add s l c) := by
  unfold add; split
  · exact h
  · exact WF_addPos s l c (by omega) h

/-! ### remove -/

theorem mem_removePos (x s l : Nat) (c : Cov) (h : WF c) :
    mem x (removePos s l c) ↔ mem x c ∧ ¬ (s ≤ x ∧ x < s + l) := by
  induction c with
  | nil => simp [removePos]
  | cons hd rest ih =>
    obtain ⟨a, n⟩ := hd
    obtain ⟨hn, hsep, hw⟩ := h
    unfold removePos
    split
    · by_cases hm : mem x rest <;> simp [ih hw, hm]
      · intro _ _; have := mem_lb hsep hm; omega
      · omega
    · split
      · rename_i h1 h2
        simp
        rintro (h | h) hs
        · omega
        · have := mem_lb hsep h; omega
      · rename_i h1 h2
        rw [mem_append, mem_append, ih hw]
        have e1 : mem x (if a < s then [(a, s - a)] else []) ↔ (a < s ∧ a ≤ x ∧ x < s) := by
          split <;> simp <;> omega
        have e2 : mem x (if s + l < a + n then [(s + l, a + n - (s + l))] else []) ↔
            (s + l < a + n ∧ s + l ≤ x ∧ x < a + n) := by
          split <;> simp <;> omega
        rw [e1, e2]; simp
        constructor
        · rintro ((h | h) | h)
          · exact ⟨Or.inl (by omega), by omega⟩
          · exact ⟨Or.inl (by omega), by omega⟩
          · exact ⟨Or.inr h.1, h.2⟩
        · rintro ⟨h | h, hx⟩
          · by_cases hxs : x < s
            · exact Or.inl (Or.inl (by omega))
            · exact Or.inl (Or.inr (by omega))
          · exact Or.inr ⟨h, hx⟩

theorem removePos_lb (b s l : Nat) (c : Cov) (hc : ∀ r ∈ c, b < r.1) (hw : WF c) :
    ∀ r ∈ removePos s l c, b < r.1 := by
  induction c with
  | nil => simp [removePos]
  | cons hd rest ih =>
    obtain ⟨a, n⟩ := hd
    obtain ⟨hn, hsep, hw'⟩ := hw
    have ha : b < a := hc (a, n) (by simp)
    have hrest : ∀ r ∈ rest, b < r.1 := fun r hr => hc r (by simp [hr])
    unfold removePos
    split
    · intro r hr; simp at hr
      rcases hr with rfl | hr
      · exact ha
      · exact ih hrest hw' r hr
    · split
      · exact hc
      · intro r hr
        simp only [List.mem_append] at hr
        rcases hr with (hr | hr) | hr
        · split at hr <;> simp at hr; subst hr; exact ha
        · split at hr <;> simp at hr; subst hr; simp; omega
        · exact ih hrest hw' r hr

theorem WF_removePos (s l : Nat) (c : Cov) (hl : 0 < l) (h : WF c) : WF (removePos s l c) := by
  induction c with
  | nil => simp [removePos, WF]
  | cons hd rest ih =>
    obtain ⟨a, n⟩ := hd
    obtain ⟨hn, hsep, hw⟩ := h
    unfold removePos
    split
    · exact ⟨hn, removePos_lb (a + n) s l rest hsep hw, ih hw⟩
    · split
      · exact ⟨hn, hsep, hw⟩
      · rename_i h1 h2
        have hr := ih hw
        have hlb := removePos_lb (a + n) s l rest hsep hw
        by_cases c1 : a < s <;> by_cases c2 : s + l < a + n <;> simp [c1, c2, WF]
        · refine ⟨by omega, ⟨by omega, ?_⟩, by omega, ?_, hr⟩
          · intro x y hxy; have := hlb (x, y) hxy; simp at this; omega
          · intro x y hxy; have := hlb (x, y) hxy; simp at this; omega
        · refine ⟨by omega, ?_, hr⟩
          intro x y hxy; have := hlb (x, y) hxy; simp at this; omega
        · refine ⟨by omega, ?_, hr⟩
          intro x y hxy; have := hlb (x, y) hxy; simp at this; omega
        · exact hr

theorem mem_remove (x s l : Nat) (c : Cov) (h : WF c) :
    mem x (remove s l c) ↔ mem x c ∧ ¬ (s ≤ x ∧ x < s + l) := by
  unfold remove; split
  · constructor
    · intro hm; exact ⟨hm, by omega⟩
    · intro hm; exact hm.1
  · exact mem_removePos x s l c h

theorem WF_remove (s l : Nat) (c : Cov) (h : WF c) : WF (remove s l c) := by
  unfold remove; split
  · exact h
  · exact WF_removePos s l c (by omega) h

/-! ### intersect, is_covered, is_overlap -/

theorem mem_intersect (x s l : Nat) (c : Cov) :
    mem x (intersect s l c) ↔ mem x c ∧ (s ≤ x ∧ x < s + l) := by
  induction c with
  | nil => simp [intersect]
  | cons hd rest ih =>
    obtain ⟨a, n⟩ := hd
    unfold intersect at ih ⊢
    simp only [List.filterMap_cons]
    split
    · rename_i h; split at h <;> simp at h
      rw [ih]; simp
      by_cases hm : mem x rest <;> simp [hm] <;> omega
    · rename_i r h; split at h <;> simp at h
      subst h; rw [mem_cons, ih]
      by_cases hm : mem x rest <;> simp [hm] <;> omega

theorem intersect_lb (b s l : Nat) (c : Cov) (hc : ∀ r ∈ c, b < r.1) :
    ∀ r ∈ intersect s l c, b < r.1 := by
  intro r hr
  unfold intersect at hr
  simp only [List.mem_filterMap] at hr
  obtain ⟨⟨a, n⟩, hmem, h⟩ := hr
  have := hc (a, n) hmem
  split at h <;> simp at h
  subst h; simp at *; omega

theorem WF_intersect (s l : Nat) (c : Cov) (h : WF c) : WF (intersect s l c) := by
  induction c with
  | nil => simp [intersect, WF]
  | cons hd rest ih =>
    obtain ⟨a, n⟩ := hd
    obtain ⟨hn, hsep, hw⟩ := h
    have hr := ih hw
    unfold intersect at hr ⊢
    simp only [List.filterMap_cons]
    split
    · exact hr
    · rename_i r h; split at h <;> simp at h
      subst h
      refine ⟨by omega, ?_, hr⟩
      intro r hr'
      have := intersect_lb (a + n) s l rest hsep r hr'
      simp; omega

theorem isCovered_iff (s l : Nat) (c : Cov) (hl : 0 < l) (h : WF c) :
    isCovered s l c = true ↔ ∀ x, s ≤ x → x < s + l → mem x c := by
  unfold isCovered
  rw [List.any_eq_true]
  constructor
  · rintro ⟨⟨a, n⟩, hm, hc⟩ x h1 h2
    simp at hc
    exact ⟨(a, n), hm, by simp; omega⟩
  · intro hall
    -- the range containing s must contain the whole interval: the next range is not adjacent
    obtain ⟨⟨a, n⟩, hm, h1, h2⟩ := hall s (by omega) (by omega)
    refine ⟨(a, n), hm, ?_⟩
    simp at h1 h2 ⊢
    refine ⟨h1, ?_⟩
    apply Classical.byContradiction
    intro hlt
    -- a + n < s + l, so the address a + n is in the interval, hence covered by some range
    obtain ⟨⟨b, m⟩, hm', h3, h4⟩ := hall (a + n) (by omega) (by omega)
    simp at h3 h4
    -- two ranges of a WF list: either equal, or separated by a gap
    have key : ∀ (c : Cov), WF c → (a, n) ∈ c → (b, m) ∈ c → b ≤ a + n → a + n < b + m → False := by
      intro c
      induction c with
      | nil => intro _ h; simp at h
      | cons hd rest ih =>
        obtain ⟨p, q⟩ := hd
        rintro ⟨hq, hsep, hw⟩ h1 h2 h5 h6
        simp at h1 h2
        rcases h1 with ⟨rfl, rfl⟩ | h1 <;> rcases h2 with ⟨rfl, rfl⟩ | h2
        · omega
        · have := hsep (b, m) h2; simp at this; omega
        · have := hsep (a, n) h1; simp at this; omega
        · exact ih hw h1 h2 h5 h6
    exact key c h hm hm' h3 h4

theorem isOverlap_iff (s l : Nat) (c : Cov) :
    isOverlap s l c = true ↔ ∃ x, s ≤ x ∧ x < s + l ∧ mem x c := by
  unfold isOverlap
  rw [List.any_eq_true]
  constructor
  · rintro ⟨⟨a, n⟩, hm, hc⟩
    simp at hc
    exact ⟨max a s, by omega, by omega, (a, n), hm, by simp; omega⟩
  · rintro ⟨x, h1, h2, ⟨a, n⟩, hm, h3, h4⟩
    simp at h3 h4
    exact ⟨(a, n), hm, by simp; omega⟩

/-! ### canonical form is unique -/

theorem WF_head_min {a n : Nat} {rest : Cov} (h : WF ((a, n) :: rest)) {x : Nat}
    (hx : mem x ((a, n) :: rest)) : a ≤ x := by
  obtain ⟨hn, hsep, hw⟩ := h
  rw [mem_cons] at hx
  rcases hx with h | h
  · exact h.1
  · have := mem_lb hsep h; omega

theorem canonical_unique (c d : Cov) (hc : WF c) (hd : WF d)
    (h : ∀ x, mem x c ↔ mem x d) : c = d := by
  induction c generalizing d with
  | nil =>
    cases d with
    | nil => rfl
    | cons hd' rest =>
      obtain ⟨b, m⟩ := hd'
      have := (h b).mpr (by rw [mem_cons]; left; have := hd.1; omega)
      simp at this
  | cons hd' rest ih =>
    obtain ⟨a, n⟩ := hd'
    cases d with
    | nil =>
      have := (h a).mp (by rw [mem_cons]; left; have := hc.1; omega)
      simp at this
    | cons hd'' rest' =>
      obtain ⟨b, m⟩ := hd''
      have hc' := hc; have hd' := hd
      obtain ⟨hn, hsep, hw⟩ := hc
      obtain ⟨hm, hsep', hw'⟩ := hd
      have ha : mem a ((a, n) :: rest) := by rw [mem_cons]; left; omega
      have hb : mem b ((b, m) :: rest') := by rw [mem_cons]; left; omega
      have e1 : b ≤ a := WF_head_min hd' ((h a).mp ha)
      have e2 : a ≤ b := WF_head_min hc' ((h b).mpr hb)
      have eab : a = b := by omega
      subst eab
      -- equal lengths: the address just past the shorter range separates the sets
      have enm : n = m := by
        apply Classical.byContradiction
        intro hne
        rcases Nat.lt_or_gt_of_ne hne with hlt | hgt
        · have : mem (a + n) ((a, m) :: rest') := by rw [mem_cons]; left; omega
          have := (h (a + n)).mpr this
          rw [mem_cons] at this
          rcases this with h' | h'
          · omega
          · have := mem_lb hsep h'; omega
        · have : mem (a + m) ((a, n) :: rest) := by rw [mem_cons]; left; omega
          have := (h (a + m)).mp this
          rw [mem_cons] at this
          rcases this with h' | h'
          · omega
          · have := mem_lb hsep' h'; omega
      subst enm
      have : rest = rest' := by
        apply ih rest' hw hw'
        intro x
        have hx := h x
        rw [mem_cons, mem_cons] at hx
        constructor
        · intro hm'
          have := mem_lb hsep hm'
          rcases hx.mp (Or.inr hm') with h' | h'
          · omega
          · exact h'
        · intro hm'
          have := mem_lb hsep' hm'
          rcases hx.mpr (Or.inr hm') with h' | h'
          · omega
          · exact h'
      rw [this]

/-! ### comparison -/

theorem cmpRanges_eq_zero (c d : Cov) (hlen : c.length = d.length) :
    cmpRanges c d = 0 ↔ c = d := by
  induction c generalizing d with
  | nil => cases d <;> simp_all [cmpRanges]
  | cons hd rest ih =>
    obtain ⟨a, n⟩ := hd
    cases d with
    | nil => simp at hlen
    | cons hd' rest' =>
      obtain ⟨b, m⟩ := hd'
      simp at hlen
      unfold cmpRanges
      split
      · simp; omega
      · split
        · simp; omega
        · split
          · simp; omega
          · split
            · simp; omega
            · rw [ih rest' hlen]; simp
              intro _; omega

theorem cmp_eq_zero (c d : Cov) : cmp c d = 0 ↔ c = d := by
  unfold cmp
  split
  · simp; intro h; subst h; omega
  · split
    · simp; intro h; subst h; omega
    · rw [cmpRanges_eq_zero c d (by omega)]

/-! ### folds -/

theorem WF_addAll (c o : Cov) (h : WF c) : WF (addAll c o) := by
  unfold addAll
  induction o generalizing c with
  | nil => exact h
  | cons r rest ih => exact ih _ (WF_add _ _ _ h)

theorem mem_addAll (x : Nat) (c o : Cov) : mem x (addAll c o) ↔ mem x c ∨ mem x o := by
  unfold addAll
  induction o generalizing c with
  | nil => simp
  | cons r rest ih =>
    obtain ⟨a, n⟩ := r
    simp only [List.foldl_cons]
    rw [ih, mem_add, mem_cons]
    by_cases h1 : mem x c <;> by_cases h2 : mem x rest <;> simp [h1, h2]

theorem WF_removeAll (c o : Cov) (h : WF c) : WF (removeAll c o) := by
  unfold removeAll
  induction o generalizing c with
  | nil => exact h
  | cons r rest ih => exact ih _ (WF_remove _ _ _ h)

theorem mem_removeAll (x : Nat) (c o : Cov) (h : WF c) :
    mem x (removeAll c o) ↔ mem x c ∧ ¬ mem x o := by
  unfold removeAll
  induction o generalizing c with
  | nil => simp
  | cons r rest ih =>
    obtain ⟨a, n⟩ := r
    simp only [List.foldl_cons]
    rw [ih _ (WF_remove _ _ _ h), mem_remove _ _ _ _ h, mem_cons]
    by_cases h1 : mem x c <;> by_cases h2 : mem x rest <;> simp [h1, h2]

end Cov
end ZwVerif
