import ZwVerif.Model.Int64
set_option linter.unusedSimpArgs false
set_option linter.unusedVariables false
/-! Helper lemmas for the integer model (proof side of C08). -/
namespace ZwVerif
namespace ZInt

def InRange (x : Int) : Prop := -2^63 ≤ x ∧ x < 2^64

/-- `res` is the exact outcome for the mathematical value `x`: the value when
    it is representable, an overflow error exactly when it is not. -/
def Exact (res : Except IntErr ZInt) (x : Int) : Prop :=
  match res with
  | .ok r => r.WF ∧ r.den = x
  | .error e => e = .overflow ∧ ¬ InRange x

@[simp] theorem Exact_ok (r : ZInt) (x : Int) : Exact (.ok r) x ↔ (r.WF ∧ r.den = x) := Iff.rfl
@[simp] theorem Exact_err (e : IntErr) (x : Int) :
    Exact (.error e) x ↔ (e = .overflow ∧ ¬ InRange x) := Iff.rfl

theorem den_inRange {z : ZInt} (h : z.WF) : InRange z.den := by
  unfold den isNeg InRange WF at *
  cases hs : z.sign <;> simp <;> omega

theorem neg_exact (a : ZInt) (h : a.WF) : Exact (neg a) (- a.den) := by
  unfold neg
  cases hs : a.sign <;> simp only [if_true, if_false, Bool.false_eq_true]
  all_goals (repeat' split)
  all_goals simp [den, isNeg, WF, InRange, hs] at *
  all_goals omega

end ZInt
end ZwVerif

namespace ZwVerif
namespace ZInt

theorem lt_iff (a b : ZInt) (ha : a.WF) (hb : b.WF) : lt a b = true ↔ a.den < b.den := by
  unfold lt
  cases hsa : a.sign <;> cases hsb : b.sign <;>
    simp [den, isNeg, ival, WF, hsa, hsb] at * <;> (repeat' split) <;> omega

end ZInt
end ZwVerif

namespace ZwVerif
namespace ZInt

theorem neg_of_isNeg (v : ZInt) (h : v.WF) (hn : v.isNeg = true) :
    neg v = .ok ⟨2^64 - v.u, false⟩ := by
  unfold neg
  simp [isNeg, WF] at *
  obtain ⟨hs, hu⟩ := hn
  simp [hs]
  split
  · simp; omega
  · split
    · omega
    · simp; omega

end ZInt
end ZwVerif

namespace ZwVerif
namespace ZInt

theorem subF_nn (n : Nat) (v1 v2 : ZInt) (h1 : v1.WF) (h2 : v2.WF)
    (n1 : v1.nonneg = true) (n2 : v2.nonneg = true) :
    Exact (subF (n+1) v1 v2) (v1.den - v2.den) := by
  unfold subF
  simp only [n1, n2, and_self, if_true]
  obtain ⟨u1, s1⟩ := v1
  obtain ⟨u2, s2⟩ := v2
  cases s1 <;> cases s2 <;> simp [den, isNeg, nonneg, WF, InRange] at * <;>
    (repeat' split) <;> simp [den, isNeg, nonneg, WF, InRange] at * <;> omega

theorem addF_exact (n : Nat) (v1 v2 : ZInt) (h1 : v1.WF) (h2 : v2.WF) :
    Exact (addF (n+2) v1 v2) (v1.den + v2.den) := by
  unfold addF
  by_cases hss : v1.sign = v2.sign
  · -- same sign: no recursion
    obtain ⟨u1, s1⟩ := v1
    obtain ⟨u2, s2⟩ := v2
    simp at hss; subst hss
    cases s1 <;> simp [den, isNeg, ival, ofI, WF, InRange] at * <;>
      (repeat' split) <;> simp [den, isNeg, ival, ofI, WF, InRange] at * <;> omega
  · simp only [hss, if_false]
    by_cases hn1 : v1.isNeg = true
    · simp only [hn1, if_true, neg_of_isNeg v1 h1 hn1]
      have : v2.sign = false := by
        simp [isNeg] at hn1; cases h : v2.sign <;> simp_all
      have e := subF_nn n v2 ⟨2^64 - v1.u, false⟩ h2 (by have hh := hn1; simp [isNeg] at hh; simp [WF]; omega)
        (by simp [nonneg, this]) (by simp [nonneg])
      have : (⟨2^64 - v1.u, false⟩ : ZInt).den = - v1.den := by
        simp [den, isNeg, WF] at *; simp [hn1]; omega
      rw [this] at e
      have : v2.den - -v1.den = v1.den + v2.den := by omega
      rw [this] at e; exact e
    · simp only [hn1, if_false, Bool.false_eq_true]
      by_cases hn2 : v2.isNeg = true
      · simp only [hn2, if_true, neg_of_isNeg v2 h2 hn2]
        have : v1.sign = false := by
          simp [isNeg] at hn2; cases h : v1.sign <;> simp_all
        have e := subF_nn n v1 ⟨2^64 - v2.u, false⟩ h1 (by have hh := hn2; simp [isNeg] at hh; simp [WF]; omega)
          (by simp [nonneg, this]) (by simp [nonneg])
        have : (⟨2^64 - v2.u, false⟩ : ZInt).den = - v2.den := by
          simp [den, isNeg, WF] at *; simp [hn2]; omega
        rw [this] at e
        have : v1.den - -v2.den = v1.den + v2.den := by omega
        rw [this] at e; exact e
      · simp only [hn2, if_false, Bool.false_eq_true]
        obtain ⟨u1, s1⟩ := v1
        obtain ⟨u2, s2⟩ := v2
        cases s1 <;> cases s2 <;> simp [den, isNeg, ival, ofI, WF, InRange] at * <;>
          (repeat' split) <;> simp [den, isNeg, ival, ofI, WF, InRange] at * <;> omega

theorem negmag (v : ZInt) (h : v.WF) (hn : v.isNeg = true) :
    (⟨2^64 - v.u, false⟩ : ZInt).WF ∧ (⟨2^64 - v.u, false⟩ : ZInt).den = - v.den ∧
    (⟨2^64 - v.u, false⟩ : ZInt).nonneg = true ∧ 0 < 2^64 - v.u ∧ 2^64 - v.u ≤ 2^63 := by
  have hh := hn
  simp [isNeg] at hh
  simp [den, WF, nonneg, hn] at *
  simp [isNeg]
  omega

theorem subF_exact (n : Nat) (v1 v2 : ZInt) (h1 : v1.WF) (h2 : v2.WF) :
    Exact (subF (n+3) v1 v2) (v1.den - v2.den) := by
  by_cases hnn : v1.nonneg = true ∧ v2.nonneg = true
  · exact subF_nn _ v1 v2 h1 h2 hnn.1 hnn.2
  · unfold subF
    simp only [hnn, if_false]
    by_cases hn2 : v2.isNeg = true
    · simp only [hn2, if_true, neg_of_isNeg v2 h2 hn2]
      obtain ⟨w, d, _, _⟩ := negmag v2 h2 hn2
      have e := addF_exact n v1 _ h1 w
      rw [d] at e
      have : v1.den + -v2.den = v1.den - v2.den := by omega
      rw [this] at e; exact e
    · simp only [hn2, if_false, Bool.false_eq_true]
      obtain ⟨u1, s1⟩ := v1
      obtain ⟨u2, s2⟩ := v2
      cases s1 <;> cases s2 <;> simp [den, isNeg, nonneg, ival, ofI, WF, InRange] at * <;>
        (repeat' split) <;> simp [den, isNeg, nonneg, ival, ofI, WF, InRange] at * <;> omega

theorem add_exact (a b : ZInt) (ha : a.WF) (hb : b.WF) : Exact (add a b) (a.den + b.den) :=
  addF_exact 2 a b ha hb
theorem sub_exact (a b : ZInt) (ha : a.WF) (hb : b.WF) : Exact (sub a b) (a.den - b.den) :=
  subF_exact 1 a b ha hb

theorem nonneg_eq (v : ZInt) : v.nonneg = !v.isNeg := by
  simp [nonneg, isNeg]; cases v.sign <;> simp
  by_cases h : v.u < 9223372036854775808 <;> simp [h] <;> omega

theorem mul_ovf (a b : Nat) (ha : a ≠ 0) :
    ((a * b) % 2^64) / a ≠ b ↔ 2^64 ≤ a * b := by
  have hpos : 0 < a := Nat.pos_of_ne_zero ha
  constructor
  · intro h
    apply Classical.byContradiction
    intro hlt
    have : a * b < 2^64 := by omega
    rw [Nat.mod_eq_of_lt this, Nat.mul_div_cancel_left b hpos] at h
    exact h rfl
  · intro h
    have hr : (a * b) % 2^64 < 2^64 := Nat.mod_lt _ (by decide)
    have : (a * b) % 2^64 / a < b := by
      rw [Nat.div_lt_iff_lt_mul hpos]
      rw [Nat.mul_comm b a]; omega
    omega

theorem den_nonneg_eq (v : ZInt) (h : v.isNeg = false) : v.den = v.u := by
  simp [den, h]

theorem mulU_exact (a b : Nat) (ha : a < 2^64) :
    Exact (mulU a b) ((a : Int) * b) := by
  unfold mulU
  by_cases h0 : a = 0
  · subst h0; simp [WF, den, isNeg]
  · have := mul_ovf a b h0
    have hc : ((a : Int) * b) = ((a * b : Nat) : Int) := by simp
    rw [hc]
    generalize a * b = p at *
    by_cases hp : 2^64 ≤ p
    · have : p % 2^64 / a ≠ b := this.mpr hp
      simp [h0, this, InRange]; omega
    · have : ¬ (p % 2^64 / a ≠ b) := fun h => hp (this.mp h)
      simp only [h0, this, ne_eq, not_false_eq_true, and_false, if_false, Exact_ok]
      simp [WF, den, isNeg]; omega

theorem mulN_exact (a b : Nat) (ha : a < 2^64) :
    Exact (mulN a b) (- ((a : Int) * b)) := by
  unfold mulN
  by_cases h0 : a = 0
  · subst h0; simp [WF, den, isNeg]
  · have := mul_ovf a b h0
    have hc : ((a : Int) * b) = ((a * b : Nat) : Int) := by simp
    rw [hc]
    generalize a * b = p at *
    by_cases hp : 2^64 ≤ p
    · have : p % 2^64 / a ≠ b := this.mpr hp
      simp [h0, this, InRange]; omega
    · have : ¬ (p % 2^64 / a ≠ b) := fun h => hp (this.mp h)
      simp only [h0, this, ne_eq, not_false_eq_true, and_false, if_false]
      split
      · simp [InRange]; omega
      · simp [WF, den, isNeg]; split <;> omega

theorem den_neg_eq (v : ZInt) (h : v.WF) (hn : v.isNeg = true) :
    v.den = - (((2^64 - v.u : Nat)) : Int) := by
  have hh := hn
  simp [isNeg] at hh
  simp [den, hn, WF] at *
  omega

theorem mul_exact (v1 v2 : ZInt) (h1 : v1.WF) (h2 : v2.WF) :
    Exact (mul v1 v2) (v1.den * v2.den) := by
  unfold mul
  cases hn1 : v1.isNeg <;> cases hn2 : v2.isNeg
  · -- both non-negative
    simp [nonneg_eq, hn1, hn2]
    have := mulU_exact v1.u v2.u h1
    rw [den_nonneg_eq v1 hn1, den_nonneg_eq v2 hn2]; exact this
  · -- v2 negative
    obtain ⟨w, d, _, _, _⟩ := negmag v2 h2 hn2
    simp [nonneg_eq, hn1, hn2, neg_of_isNeg v2 h2 hn2]
    have := mulN_exact (2^64 - v2.u) v1.u w
    rw [den_nonneg_eq v1 hn1]
    have e := den_neg_eq v2 h2 hn2
    rw [e]
    have : (v1.u : Int) * -((2^64 - v2.u : Nat) : Int) = -(((2^64 - v2.u : Nat) : Int) * v1.u) := by
      rw [Int.mul_neg, Int.mul_comm]
    rw [this]; assumption
  · -- v1 negative
    obtain ⟨w, d, _, _, _⟩ := negmag v1 h1 hn1
    simp [nonneg_eq, hn1, hn2, neg_of_isNeg v1 h1 hn1]
    have := mulN_exact (2^64 - v1.u) v2.u w
    rw [den_nonneg_eq v2 hn2]
    have e := den_neg_eq v1 h1 hn1
    rw [e, Int.neg_mul]; assumption
  · -- both negative
    obtain ⟨w1, d1, _, _, _⟩ := negmag v1 h1 hn1
    obtain ⟨w2, d2, _, _, _⟩ := negmag v2 h2 hn2
    simp [nonneg_eq, hn1, hn2, neg_of_isNeg v1 h1 hn1, neg_of_isNeg v2 h2 hn2, isNeg]
    have := mulU_exact (2^64 - v1.u) (2^64 - v2.u) w1
    have e1 := den_neg_eq v1 h1 hn1
    have e2 := den_neg_eq v2 h2 hn2
    rw [e1, e2, Int.neg_mul_neg]; assumption

theorem fdiv_unique (a b q r : Int) (hb : b ≠ 0) (h : a = q * b + r)
    (hr : (0 ≤ r ∧ r < b) ∨ (b < r ∧ r ≤ 0)) : a.fdiv b = q ∧ a.fmod b = r := by
  have hq : a.fdiv b = q := by
    have h0 : r.fdiv b = 0 := by
      rcases hr with ⟨h1, h2⟩ | ⟨h1, h2⟩
      · exact Int.fdiv_eq_zero_of_lt h1 h2
      · have := Int.neg_fdiv_neg (-r) (-b)
        simp only [Int.neg_neg] at this
        rw [this]
        exact Int.fdiv_eq_zero_of_lt (by omega) (by omega)
    have : a = r + q * b := by omega
    rw [this, Int.add_mul_fdiv_right r q hb, h0]; omega
  refine ⟨hq, ?_⟩
  rw [Int.fmod_def, hq, Int.mul_comm]; omega

/-- what `operator/` and `operator%` are measured against -/
def DivSpec (res : Except IntErr ZInt) (a b : Int) (f : Int → Int → Int) : Prop :=
  if b = 0 then res = .error .div0 else Exact res (f a b)

def mag (v : ZInt) : Nat := if v.isNeg then 2^64 - v.u else v.u

theorem ltZero_eq (v : ZInt) (h : v.WF) : ltZero v = v.isNeg := by
  obtain ⟨u, s⟩ := v
  cases s <;> simp [ltZero, lt, isNeg, ival, WF] at * <;> (repeat' split) <;> (try simp) <;> omega

theorem den_mag (v : ZInt) (h : v.WF) :
    v.den = (if v.isNeg then - (mag v : Int) else (mag v : Int)) ∧ mag v < 2^64 ∧
    (v.isNeg = true → 0 < mag v) ∧ (v.u ≠ 0 → mag v ≠ 0) := by
  cases hn : v.isNeg
  · simp [mag, hn, den]; exact h
  · have := negmag v h hn
    simp [mag, hn, den_neg_eq v h hn]; simp [WF] at *; omega

theorem div_eq (v1 v2 : ZInt) (h1 : v1.WF) (h2 : v2.WF) :
    div v1 v2 = if v2.u = 0 then .error .div0
                else divCore (mag v1) (mag v2) (v1.isNeg != v2.isNeg) := by
  unfold div
  split
  · rfl
  · rw [ltZero_eq v1 h1, ltZero_eq v2 h2]
    cases hn1 : v1.isNeg <;> cases hn2 : v2.isNeg <;>
      simp [mag, hn1, hn2, neg_of_isNeg, h1, h2, Except.map]

theorem mod_eq (v1 v2 : ZInt) (h1 : v1.WF) (h2 : v2.WF) :
    mod v1 v2 = if v2.u = 0 then .error .div0
                else modCore (mag v1) (mag v2) v1.isNeg v2.isNeg := by
  unfold mod
  split
  · rfl
  · rw [ltZero_eq v1 h1, ltZero_eq v2 h2]
    cases hn1 : v1.isNeg <;> cases hn2 : v2.isNeg <;>
      simp [mag, hn1, hn2, neg_of_isNeg, h1, h2, Except.map]



end ZInt
end ZwVerif
