import ZwVerif.Lemmas.Int64
import Mathlib.Tactic.Ring
set_option linter.unusedSimpArgs false
set_option linter.unusedVariables false
/-! Floor division / remainder exactness (uses `ring` from Mathlib). -/
namespace ZwVerif
namespace ZInt

theorem fmod_bounds_neg (a b : Int) (hb : b < 0) : b < a.fmod b ∧ a.fmod b ≤ 0 := by
  rw [Int.fmod_eq_emod]
  have h1 := Int.emod_nonneg a (show b ≠ 0 by omega)
  have h2 := Int.emod_lt a (show b ≠ 0 by omega)
  by_cases hd : b ∣ a
  · simp [hd, Int.emod_eq_zero_of_dvd hd]; omega
  · have : a % b ≠ 0 := fun h => hd (Int.dvd_of_emod_eq_zero h)
    have hnb : ¬ (0 ≤ b) := by omega
    simp [hd, hnb]; omega

def sg (s : Bool) (x : Nat) : Int := if s then -(x : Int) else x

theorem okU_exact (q : Nat) (h : q < 2^64) : Exact (.ok ⟨q, false⟩) (q : Int) := by
  simp [WF, den, isNeg]; exact h

theorem negU_exact (q : Nat) (h : q < 2^64) : Exact (neg ⟨q, false⟩) (-(q : Int)) := by
  have := neg_exact ⟨q, false⟩ h
  simpa [den, isNeg] using this

theorem divmod_facts (A B : Nat) (hA : A < 2^64) (hB : 0 < B) :
    ∃ q0 m : Nat, A / B = q0 ∧ A % B = m ∧ (A : Int) = q0 * B + m ∧ m < B ∧ q0 < 2^64 ∧
      (m ≠ 0 → q0 + 1 < 2^64) := by
  refine ⟨A / B, A % B, rfl, rfl, ?_, Nat.mod_lt _ hB, ?_, ?_⟩
  · have := Nat.div_add_mod A B
    have h2 : (A : Int) = ((B * (A / B) + A % B : Nat) : Int) := by rw [this]
    rw [h2]; simp only [Int.natCast_add, Int.natCast_mul]; ring
  · have := Nat.div_le_self A B; omega
  · intro hm
    have h1 := Nat.div_add_mod A B
    have h2 := Nat.mod_lt A hB
    have hB2 : 2 ≤ B := by omega
    have : 2 * (A / B) ≤ B * (A / B) := Nat.mul_le_mul_right _ hB2
    omega

theorem divCore_exact (A B : Nat) (hA : A < 2^64) (hB : 0 < B) (hB' : B < 2^64) (s1 s2 : Bool) :
    Exact (divCore A B (s1 != s2)) (Int.fdiv (sg s1 A) (sg s2 B)) := by
  obtain ⟨q0, m, hq, hm, hAe, hmB, hq0, hq1⟩ := divmod_facts A B hA hB
  have hBi : (B : Int) ≠ 0 := by omega
  have hBn : -(B : Int) ≠ 0 := by omega
  unfold divCore
  simp only [hq, hm]
  cases s1 <;> cases s2 <;> simp [sg]
  · -- + / +
    have := (fdiv_unique A B q0 m hBi hAe (Or.inl ⟨by omega, by omega⟩)).1
    rw [this]; exact okU_exact q0 hq0
  · -- + / -
    by_cases hm0 : m = 0
    · have := (fdiv_unique A (-B) (-q0) 0 hBn (by rw [hAe, hm0]; push_cast; ring)
        (Or.inr ⟨by omega, by omega⟩)).1
      rw [this]; simp [hm0]; exact negU_exact q0 hq0
    · have h1 := hq1 hm0
      have := (fdiv_unique A (-B) (-(q0+1 : Nat)) (m - B) hBn
        (by rw [hAe]; push_cast; ring) (Or.inr ⟨by omega, by omega⟩)).1
      have h1' : (q0 + 1) % 18446744073709551616 = q0 + 1 := by omega
      rw [this]; simp [hm0, h1']
      have := negU_exact (q0+1) h1
      simpa using this
  · -- - / +
    by_cases hm0 : m = 0
    · have := (fdiv_unique (-A) B (-q0) 0 hBi (by rw [hAe, hm0]; push_cast; ring)
        (Or.inl ⟨by omega, by omega⟩)).1
      rw [this]; simp [hm0]; exact negU_exact q0 hq0
    · have h1 := hq1 hm0
      have := (fdiv_unique (-A) B (-(q0+1 : Nat)) (B - m) hBi
        (by rw [hAe]; push_cast; ring) (Or.inl ⟨by omega, by omega⟩)).1
      have h1' : (q0 + 1) % 18446744073709551616 = q0 + 1 := by omega
      rw [this]; simp [hm0, h1']
      have := negU_exact (q0+1) h1
      simpa using this
  · -- - / -
    have := (fdiv_unique A B q0 m hBi hAe (Or.inl ⟨by omega, by omega⟩)).1
    rw [this]; exact okU_exact q0 hq0

theorem modCore_exact (A B : Nat) (hA : A < 2^64) (hB : 0 < B) (hB' : B ≤ 2^64 - 1)
    (s1 s2 : Bool) (hs2 : s2 = true → B ≤ 2^63) :
    Exact (modCore A B s1 s2) (Int.fmod (sg s1 A) (sg s2 B)) := by
  obtain ⟨q0, m, hq, hm, hAe, hmB, hq0, hq1⟩ := divmod_facts A B hA hB
  have hBi : (B : Int) ≠ 0 := by omega
  have hBn : -(B : Int) ≠ 0 := by omega
  unfold modCore
  simp only [hm]
  cases s1 <;> cases s2 <;> simp [sg]
  · have := (fdiv_unique A B q0 m hBi hAe (Or.inl ⟨by omega, by omega⟩)).2
    rw [this]; exact okU_exact m (by omega)
  · have hb := hs2 rfl
    by_cases hm0 : m = 0
    · have := (fdiv_unique A (-B) (-q0) 0 hBn (by rw [hAe, hm0]; push_cast; ring)
        (Or.inr ⟨by omega, by omega⟩)).2
      rw [this]; simp [hm0]
      have := negU_exact 0 (by omega); simpa using this
    · have := (fdiv_unique A (-B) (-(q0+1 : Nat)) (m - B) hBn
        (by rw [hAe]; push_cast; ring) (Or.inr ⟨by omega, by omega⟩)).2
      rw [this]; simp [hm0]
      have := negU_exact (B - m) (by omega)
      have e : -(((B - m : Nat)) : Int) = (m : Int) - B := by omega
      rw [e] at this; exact this
  · by_cases hm0 : m = 0
    · have := (fdiv_unique (-A) B (-q0) 0 hBi (by rw [hAe, hm0]; push_cast; ring)
        (Or.inl ⟨by omega, by omega⟩)).2
      rw [this]; simp [hm0]; exact okU_exact 0 (by omega)
    · have := (fdiv_unique (-A) B (-(q0+1 : Nat)) (B - m) hBi
        (by rw [hAe]; push_cast; ring) (Or.inl ⟨by omega, by omega⟩)).2
      rw [this]; simp [hm0]
      have := okU_exact (B - m) (by omega)
      have e : (((B - m : Nat)) : Int) = (B : Int) - m := by omega
      rw [e] at this; exact this
  · have := (fdiv_unique A B q0 m hBi hAe (Or.inl ⟨by omega, by omega⟩)).2
    rw [this]
    have := negU_exact m (by omega); exact this

theorem den_sg (v : ZInt) (h : v.WF) : v.den = sg v.isNeg (mag v) := by
  have := (den_mag v h).1
  rw [this]; cases v.isNeg <;> simp [sg]

theorem den_zero_iff (v : ZInt) (h : v.WF) : v.den = 0 ↔ v.u = 0 := by
  obtain ⟨u, s⟩ := v
  cases s <;> simp [den, isNeg, WF] at * <;> (try split) <;> omega

theorem div_floor (a b : ZInt) (ha : a.WF) (hb : b.WF) :
    DivSpec (div a b) a.den b.den Int.fdiv := by
  unfold DivSpec
  rw [div_eq a b ha hb]
  by_cases h0 : b.u = 0
  · simp [h0, (den_zero_iff b hb).mpr h0]
  · have hd : b.den ≠ 0 := fun h => h0 ((den_zero_iff b hb).mp h)
    simp only [h0, hd, if_false]
    obtain ⟨_, hA, _, _⟩ := den_mag a ha
    obtain ⟨_, hB, _, hBn⟩ := den_mag b hb
    rw [den_sg a ha, den_sg b hb]
    exact divCore_exact _ _ hA (Nat.pos_of_ne_zero (hBn h0)) hB _ _

theorem mod_floor (a b : ZInt) (ha : a.WF) (hb : b.WF) :
    DivSpec (mod a b) a.den b.den Int.fmod := by
  unfold DivSpec
  rw [mod_eq a b ha hb]
  by_cases h0 : b.u = 0
  · simp [h0, (den_zero_iff b hb).mpr h0]
  · have hd : b.den ≠ 0 := fun h => h0 ((den_zero_iff b hb).mp h)
    simp only [h0, hd, if_false]
    obtain ⟨_, hA, _, _⟩ := den_mag a ha
    obtain ⟨_, hB, _, hBn⟩ := den_mag b hb
    rw [den_sg a ha, den_sg b hb]
    refine modCore_exact _ _ hA (Nat.pos_of_ne_zero (hBn h0)) (by omega) _ _ ?_
    intro hn
    have := negmag b hb hn
    simp [mag, hn]; omega

end ZInt
end ZwVerif
