import ZwVerif.Model.Bind
set_option linter.unusedSimpArgs false
set_option linter.unusedVariables false
/-! Basic facts about event streams (`cutHard`, `mapFrames`, `firstResult`). -/
namespace ZwVerif

def Ev.isHard : Ev → Bool | .hard _ => true | _ => false
def Ev.isFrame : Ev → Bool | .frame _ => true | _ => false

/-- a stream without hard error -/
def NoHard (es : Evs) : Prop := ∀ e ∈ es, e.isHard = false

theorem cutHard_of_noHard (es : Evs) (h : NoHard es) : cutHard es = es := by
  induction es with
  | nil => rfl
  | cons e es ih =>
    have he := h e (by simp)
    have hes : NoHard es := fun x hx => h x (by simp [hx])
    cases e <;> simp [cutHard, Ev.isHard] at * <;> exact ih hes

theorem cutHard_idem (es : Evs) : cutHard (cutHard es) = cutHard es := by
  induction es with
  | nil => rfl
  | cons e es ih => cases e <;> simp [cutHard, ih]

theorem cutHard_append_noHard (a b : Evs) (h : NoHard a) : cutHard (a ++ b) = a ++ cutHard b := by
  induction a with
  | nil => rfl
  | cons e es ih =>
    have he := h e (by simp)
    have hes : NoHard es := fun x hx => h x (by simp [hx])
    cases e <;> simp [cutHard, Ev.isHard] at * <;> exact ih hes

/-- `firstResult` consumes no result frame before the one it reports -/
theorem firstResult_pre_noFrame (es : Evs) : ∀ e ∈ (firstResult es).1, e.isFrame = false := by
  induction es with
  | nil => simp [firstResult]
  | cons e es ih =>
    cases e with
    | frame f => simp [firstResult]
    | hard m => simp [firstResult, Ev.isFrame]
    | soft c =>
      simp only [firstResult]
      intro x hx
      simp at hx
      rcases hx with rfl | hx
      · rfl
      · exact ih x hx
    | mark =>
      simp only [firstResult]
      intro x hx
      simp at hx
      rcases hx with rfl | hx
      · rfl
      · exact ih x hx

/-- per-frame processing of a concatenated stream is the concatenation of the parts: the
    inputs are independent and their order is kept -/
theorem mapFrames_append (g : Frame → Evs) (a b : Evs) :
    mapFrames g (a ++ b) = cutHard (cutHard (a.flatMap fun | .frame f => g f | e => [e]) ++
                                    (b.flatMap fun | .frame f => g f | e => [e])) := by
  unfold mapFrames
  rw [List.flatMap_append]
  generalize (a.flatMap fun | .frame f => g f | e => [e]) = x
  generalize (b.flatMap fun | .frame f => g f | e => [e]) = y
  induction x with
  | nil => simp [cutHard]
  | cons e es ih => cases e <;> simp [cutHard, ih]

theorem mapFrames_singleton (g : Frame → Evs) (f : Frame) : mapFrames g [.frame f] = cutHard (g f) := by
  simp [mapFrames]

end ZwVerif

namespace ZwVerif

theorem mem_cutHard {es : Evs} {e : Ev} (h : e ∈ cutHard es) : e ∈ es := by
  induction es with
  | nil => simp [cutHard] at h
  | cons x xs ih =>
    cases x with
    | hard m => simp [cutHard] at h; simp [h]
    | frame f =>
      simp only [cutHard, List.mem_cons] at h ⊢
      rcases h with h | h
      · exact Or.inl h
      · exact Or.inr (ih h)
    | soft c =>
      simp only [cutHard, List.mem_cons] at h ⊢
      rcases h with h | h
      · exact Or.inl h
      · exact Or.inr (ih h)
    | mark =>
      simp only [cutHard, List.mem_cons] at h ⊢
      rcases h with h | h
      · exact Or.inl h
      · exact Or.inr (ih h)

end ZwVerif
