import ZwVerif.Model.Value
/-
  Three-way comparators that may fail (`Option Ord3`, `none` = cmp_result::fail) and what it
  means for one to be a consistent total preorder on a set of values; closure of that notion
  under the ways the C++ builds comparisons: by a numeric key, one comparison after another
  (`lexO`), element by element along equally long lists (`cmpListO`, compare_sequences), and
  true lexicographic order (`lexFull`, std::string / std::vector comparison).

  Core Lean only.
-/
namespace ZwVerif

def Ord3.swap : Ord3 → Ord3
  | .lt => .gt | .eq => .eq | .gt => .lt

@[simp] theorem Ord3.swap_swap (r : Ord3) : r.swap.swap = r := by cases r <;> rfl
@[simp] theorem Ord3.swap_lt : Ord3.swap .lt = .gt := rfl
@[simp] theorem Ord3.swap_gt : Ord3.swap .gt = .lt := rfl
@[simp] theorem Ord3.swap_eq : Ord3.swap .eq = .eq := rfl

abbrev Cmp (α : Type) := α → α → Option Ord3

/-- what a consistent order says about three values: `a` equals itself; `a ? b` is decided and is
    the mirror image of `b ? a`; `<` is transitive; equal values compare alike with anything -/
structure Tri {α : Type} (c : Cmp α) (a b x : α) : Prop where
  refl : c a a = some .eq
  swap : ∃ r, c a b = some r ∧ c b a = some r.swap
  trans : c a b = some .lt → c b x = some .lt → c a x = some .lt
  congr : c a b = some .eq → c a x = c b x

/-- `c` is a consistent total preorder on the values satisfying `M` -/
def GoodOn {α : Type} (c : Cmp α) (M : α → Prop) : Prop := ∀ a b x, M a → M b → M x → Tri c a b x

variable {α β : Type}

theorem GoodOn.mono {c : Cmp α} {M N : α → Prop} (h : GoodOn c M) (hs : ∀ a, N a → M a) : GoodOn c N :=
  fun a b x ha hb hx => h a b x (hs a ha) (hs b hb) (hs x hx)

/-- a comparator that agrees with a good one through a map is good -/
theorem Tri.map {c : Cmp α} {d : Cmp β} (f : β → α) (h : ∀ u v, c (f u) (f v) = d u v) {a b x : β}
    (t : Tri d a b x) : Tri c (f a) (f b) (f x) := by
  refine ⟨?_, ?_, ?_, ?_⟩
  · rw [h]; exact t.refl
  · rw [h, h]; exact t.swap
  · rw [h, h, h]; exact t.trans
  · rw [h, h, h]; exact t.congr

theorem GoodOn.comap {c : Cmp α} {M : α → Prop} (f : β → α) (h : GoodOn c M) :
    GoodOn (fun u v => c (f u) (f v)) (fun u => M (f u)) := by
  intro a b x ha hb hx
  have t := h (f a) (f b) (f x) ha hb hx
  exact ⟨t.refl, t.swap, t.trans, t.congr⟩

/-- two comparators that agree on a set are good on it together -/
theorem GoodOn.of_agree {c d : Cmp α} {M : α → Prop} (h : GoodOn d M) (e : ∀ u v, M u → M v → c u v = d u v) :
    GoodOn c M := by
  intro a b x ha hb hx
  have t := h a b x ha hb hx
  refine ⟨?_, ?_, ?_, ?_⟩
  · rw [e a a ha ha]; exact t.refl
  · rw [e a b ha hb, e b a hb ha]; exact t.swap
  · rw [e a b ha hb, e b x hb hx, e a x ha hx]; exact t.trans
  · rw [e a b ha hb, e a x ha hx, e b x hb hx]; exact t.congr

/-- comparison by a numeric key -/
def byNat (f : α → Nat) : Cmp α := fun a b => some (Ord3.cmpNat (f a) (f b))

theorem byNat_good (f : α → Nat) (M : α → Prop) : GoodOn (byNat f) M := by
  intro a b x _ _ _
  refine ⟨?_, ?_, ?_, ?_⟩
  · simp [byNat, Ord3.cmpNat]
  · refine ⟨Ord3.cmpNat (f a) (f b), rfl, ?_⟩
    simp only [byNat, Ord3.cmpNat]
    by_cases h1 : f a < f b
    · have : ¬ f b < f a := by omega
      simp [h1, this]
    · by_cases h2 : f b < f a
      · simp [h1, h2]
      · simp [h1, h2]
  · simp only [byNat, Ord3.cmpNat, Option.some.injEq]
    intro h1 h2
    by_cases p : f a < f b
    · by_cases q : f b < f x
      · have : f a < f x := by omega
        simp [this]
      · simp only [q, if_false] at h2
        by_cases q' : f x < f b <;> simp [q'] at h2
    · simp only [p, if_false] at h1
      by_cases p' : f b < f a <;> simp [p'] at h1
  · simp only [byNat, Ord3.cmpNat, Option.some.injEq]
    intro h1
    have : f a = f b := by
      by_cases p : f a < f b
      · simp [p] at h1
      · by_cases p' : f b < f a
        · simp [p, p'] at h1
        · omega
    rw [this]

theorem byNat_eq_iff (f : α → Nat) (a b : α) : byNat f a b = some .eq ↔ f a = f b := by
  simp only [byNat, Ord3.cmpNat, Option.some.injEq]
  by_cases p : f a < f b
  · simp [p]; omega
  · by_cases p' : f b < f a
    · simp [p, p']; omega
    · simp [p, p']; omega

/-- first `c1`; where it says equal, `c2` -/
def lexO (c1 c2 : Cmp α) : Cmp α := fun a b =>
  match c1 a b with
  | some .eq => c2 a b
  | r => r

theorem lexO_of_eq {c1 c2 : Cmp α} {a b : α} (h : c1 a b = some .eq) : lexO c1 c2 a b = c2 a b := by
  simp [lexO, h]

theorem lexO_of_lt {c1 c2 : Cmp α} {a b : α} (h : c1 a b = some .lt) : lexO c1 c2 a b = some .lt := by
  simp [lexO, h]

theorem lexO_of_gt {c1 c2 : Cmp α} {a b : α} (h : c1 a b = some .gt) : lexO c1 c2 a b = some .gt := by
  simp [lexO, h]

theorem lexO_good {c1 c2 : Cmp α} {M : α → Prop} (h1 : GoodOn c1 M)
    (h2 : ∀ a b x, M a → M b → M x → c1 a b = some .eq → c1 b x = some .eq → Tri c2 a b x) :
    GoodOn (lexO c1 c2) M := by
  intro a b x ha hb hx
  have raa := (h1 a a a ha ha ha).refl
  obtain ⟨p, hab, hba⟩ := (h1 a b x ha hb hx).swap
  obtain ⟨q, hbx, hxb⟩ := (h1 b x a hb hx ha).swap
  obtain ⟨s, hax, hxa⟩ := (h1 a x b ha hx hb).swap
  refine ⟨?_, ?_, ?_, ?_⟩
  · rw [lexO_of_eq raa]; exact (h2 a a a ha ha ha raa raa).refl
  · cases p with
    | eq =>
      rw [lexO_of_eq hab, lexO_of_eq (by simpa using hba)]
      exact (h2 a b a ha hb ha hab (by simpa using hba)).swap
    | lt => exact ⟨.lt, lexO_of_lt hab, lexO_of_gt (by simpa using hba)⟩
    | gt => exact ⟨.gt, lexO_of_gt hab, lexO_of_lt (by simpa using hba)⟩
  · intro l1 l2
    cases p with
    | lt =>
      cases q with
      | lt => exact lexO_of_lt ((h1 a b x ha hb hx).trans hab hbx)
      | eq =>
        -- c1 b x = eq, so b and x compare alike with a
        have e := (h1 b x a hb hx ha).congr hbx
        rw [hba] at e
        have : s.swap = .gt := by
          rw [hxa] at e; simpa using e.symm
        have : s = .lt := by cases s <;> simp_all
        subst this
        exact lexO_of_lt hax
      | gt => rw [lexO_of_gt hbx] at l2; cases l2
    | eq =>
      have e := (h1 a b x ha hb hx).congr hab
      rw [lexO_of_eq hab] at l1
      cases q with
      | lt => rw [hbx] at e; exact lexO_of_lt e
      | eq =>
        rw [hbx] at e
        rw [lexO_of_eq hbx] at l2
        rw [lexO_of_eq e]
        exact (h2 a b x ha hb hx hab hbx).trans l1 l2
      | gt => rw [lexO_of_gt hbx] at l2; cases l2
    | gt => rw [lexO_of_gt hab] at l1; cases l1
  · intro l1
    cases p with
    | eq =>
      have e := (h1 a b x ha hb hx).congr hab
      rw [lexO_of_eq hab] at l1
      cases q with
      | eq =>
        rw [hbx] at e
        rw [lexO_of_eq e, lexO_of_eq hbx]
        exact (h2 a b x ha hb hx hab hbx).congr l1
      | lt => rw [hbx] at e; rw [lexO_of_lt e, lexO_of_lt hbx]
      | gt => rw [hbx] at e; rw [lexO_of_gt e, lexO_of_gt hbx]
    | lt => rw [lexO_of_lt hab] at l1; cases l1
    | gt => rw [lexO_of_gt hab] at l1; cases l1

/-- element by element along two lists, stopping at the end of either (`compare_sequences`) -/
def cmpListO (c : Cmp α) : List α → List α → Option Ord3
  | a :: as, b :: bs =>
    match c a b with
    | some .eq => cmpListO c as bs
    | r => r
  | _, _ => some .eq

/-- the lists of length `n` whose elements satisfy `M` -/
def ListsOf (M : α → Prop) (n : Nat) (l : List α) : Prop := l.length = n ∧ ∀ e ∈ l, M e

theorem cmpListO_good {c : Cmp α} {M : α → Prop} (h : GoodOn c M) :
    ∀ n, GoodOn (cmpListO c) (ListsOf M n) := by
  intro n
  induction n with
  | zero =>
    intro a b x ha hb hx
    have : a = [] := List.eq_nil_of_length_eq_zero ha.1
    have : b = [] := List.eq_nil_of_length_eq_zero hb.1
    have : x = [] := List.eq_nil_of_length_eq_zero hx.1
    subst_vars
    exact ⟨rfl, ⟨.eq, rfl, rfl⟩, (fun h _ => by cases h), fun _ => rfl⟩
  | succ n ih =>
    -- on non-empty lists: heads first, then the tails
    let hd : Cmp (List α) := fun l1 l2 => match l1, l2 with
      | a :: _, b :: _ => c a b
      | _, _ => some .eq
    let tl : Cmp (List α) := fun l1 l2 => cmpListO c l1.tail l2.tail
    have agree : ∀ u v, ListsOf M (n + 1) u → ListsOf M (n + 1) v → cmpListO c u v = lexO hd tl u v := by
      intro u v hu hv
      cases u with
      | nil => cases hu.1
      | cons a as =>
        cases v with
        | nil => cases hv.1
        | cons b bs => simp only [cmpListO, lexO, hd, tl, List.tail_cons]
    apply GoodOn.of_agree _ agree
    apply lexO_good
    · intro a b x ha hb hx
      cases a with
      | nil => cases ha.1
      | cons a0 as =>
        cases b with
        | nil => cases hb.1
        | cons b0 bs =>
          cases x with
          | nil => cases hx.1
          | cons x0 xs =>
            have t := h a0 b0 x0 (ha.2 a0 (by simp)) (hb.2 b0 (by simp)) (hx.2 x0 (by simp))
            exact ⟨t.refl, t.swap, t.trans, t.congr⟩
    · intro a b x ha hb hx _ _
      have tails : ∀ l, ListsOf M (n + 1) l → ListsOf M n l.tail := by
        intro l hl
        cases l with
        | nil => cases hl.1
        | cons a0 as =>
          refine ⟨by simpa using hl.1, fun e he => hl.2 e (List.mem_cons_of_mem _ (by simpa using he))⟩
      have t := ih a.tail b.tail x.tail (tails a ha) (tails b hb) (tails x hx)
      exact ⟨t.refl, t.swap, t.trans, t.congr⟩

/-- true lexicographic order: a proper prefix is smaller (`std::string::compare`, `operator<` of vectors) -/
def lexFull (c : Cmp α) : List α → List α → Option Ord3
  | [], [] => some .eq
  | [], _ :: _ => some .lt
  | _ :: _, [] => some .gt
  | a :: as, b :: bs =>
    match c a b with
    | some .eq => lexFull c as bs
    | r => r

/-- the lists of length at most `n` whose elements satisfy `M` -/
def ListsUpTo (M : α → Prop) (n : Nat) (l : List α) : Prop := l.length ≤ n ∧ ∀ e ∈ l, M e

theorem lexFull_good {c : Cmp α} {M : α → Prop} (h : GoodOn c M) :
    ∀ n, GoodOn (lexFull c) (ListsUpTo M n) := by
  intro n
  induction n with
  | zero =>
    intro a b x ha hb hx
    have : a = [] := List.eq_nil_of_length_eq_zero (by have := ha.1; omega)
    have : b = [] := List.eq_nil_of_length_eq_zero (by have := hb.1; omega)
    have : x = [] := List.eq_nil_of_length_eq_zero (by have := hx.1; omega)
    subst_vars
    exact ⟨rfl, ⟨.eq, rfl, rfl⟩, (fun h _ => by cases h), fun _ => rfl⟩
  | succ n ih =>
    let ne : List α → Nat := fun l => if l.isEmpty then 0 else 1
    let hd : Cmp (List α) := fun l1 l2 => match l1, l2 with
      | a :: _, b :: _ => c a b
      | _, _ => some .eq
    let tl : Cmp (List α) := fun l1 l2 => lexFull c l1.tail l2.tail
    have agree : ∀ u v, ListsUpTo M (n + 1) u → ListsUpTo M (n + 1) v →
        lexFull c u v = lexO (byNat ne) (lexO hd tl) u v := by
      intro u v _ _
      cases u <;> cases v <;> simp [lexFull, lexO, byNat, Ord3.cmpNat, ne, hd, tl]
    apply GoodOn.of_agree _ agree
    apply lexO_good (byNat_good ne _)
    intro a b x ha hb hx e1 e2
    rw [byNat_eq_iff] at e1 e2
    cases a with
    | nil =>
      -- all three are empty
      cases b with
      | nil =>
        cases x with
        | nil => exact ⟨rfl, ⟨.eq, rfl, rfl⟩, (fun h _ => by cases h), fun _ => rfl⟩
        | cons _ _ => simp [ne] at e2
      | cons _ _ => simp [ne] at e1
    | cons a0 as =>
      cases b with
      | nil => simp [ne] at e1
      | cons b0 bs =>
        cases x with
        | nil => simp [ne] at e2
        | cons x0 xs =>
          -- all three are non-empty: heads, then tails
          have g : GoodOn (lexO hd tl) (fun l => ListsUpTo M (n + 1) l ∧ l ≠ []) := by
            apply lexO_good
            · intro a b x ha hb hx
              cases a with
              | nil => exact absurd rfl ha.2
              | cons a0 as =>
                cases b with
                | nil => exact absurd rfl hb.2
                | cons b0 bs =>
                  cases x with
                  | nil => exact absurd rfl hx.2
                  | cons x0 xs =>
                    have t := h a0 b0 x0 (ha.1.2 a0 (by simp)) (hb.1.2 b0 (by simp)) (hx.1.2 x0 (by simp))
                    exact ⟨t.refl, t.swap, t.trans, t.congr⟩
            · intro a b x ha hb hx _ _
              have tails : ∀ l, ListsUpTo M (n + 1) l ∧ l ≠ [] → ListsUpTo M n l.tail := by
                intro l hl
                cases l with
                | nil => exact absurd rfl hl.2
                | cons a0 as =>
                  refine ⟨by have := hl.1.1; simp at this ⊢; omega, fun e he => hl.1.2 e (List.mem_cons_of_mem _ (by simpa using he))⟩
              have t := ih a.tail b.tail x.tail (tails a ha) (tails b hb) (tails x hx)
              exact ⟨t.refl, t.swap, t.trans, t.congr⟩
          exact g _ _ _ ⟨ha, by simp⟩ ⟨hb, by simp⟩ ⟨hx, by simp⟩

/-- … for lists of any length -/
theorem lexFull_good' {c : Cmp α} {M : α → Prop} (h : GoodOn c M) :
    GoodOn (lexFull c) (fun l => ∀ e ∈ l, M e) := by
  intro a b x ha hb hx
  let n := a.length + b.length + x.length
  exact lexFull_good h n a b x ⟨by omega, ha⟩ ⟨by omega, hb⟩ ⟨by omega, hx⟩

end ZwVerif
