import ZwVerif.Model.Int64
/-! Line protocol for the integer unit:  `N <op> <au> <as> <bu> <bs>`
    → `<model result> | <spec result>`; the spec side is exact `Int` arithmetic. -/
namespace Driver
open ZwVerif ZwVerif.ZInt

def showRes : Except IntErr ZInt → String
  | .ok r => s!"ok {r.u} {if r.sign then 1 else 0}"
  | .error .overflow => "err overflow"
  | .error .div0 => "err div0"
  | .error .fuel => "err fuel"

def specRes (x : Int) : String :=
  if -(2:Int)^63 ≤ x ∧ x < (2:Int)^64 then s!"val {x}" else "err overflow"

def showB (b : Bool) : String := if b then "b 1" else "b 0"

def intLine (op : String) (a b : ZInt) : String :=
  let da := a.den
  let db := b.den
  match op with
  | "add" => showRes (add a b) ++ " | " ++ specRes (da + db)
  | "sub" => showRes (sub a b) ++ " | " ++ specRes (da - db)
  | "mul" => showRes (mul a b) ++ " | " ++ specRes (da * db)
  | "div" => showRes (div a b) ++ " | " ++ (if db = 0 then "err div0" else specRes (Int.fdiv da db))
  | "mod" => showRes (mod a b) ++ " | " ++ (if db = 0 then "err div0" else specRes (Int.fmod da db))
  | "neg" => showRes (neg a) ++ " | " ++ specRes (- da)
  | "lt" => showB (lt a b) ++ " | " ++ showB (decide (da < db))
  | "le" => showB (le a b) ++ " | " ++ showB (decide (da ≤ db))
  | "gt" => showB (gt a b) ++ " | " ++ showB (decide (da > db))
  | "ge" => showB (ge a b) ++ " | " ++ showB (decide (da ≥ db))
  | "eq" => showB (beq' a b) ++ " | " ++ showB (decide (da = db))
  | "ne" => showB (ne a b) ++ " | " ++ showB (decide (da ≠ db))
  | _ => "bad-op"

def handleInt (ws : List String) : String :=
  match ws with
  | [op, au, as, bu, bs] =>
    match au.toNat?, as.toNat?, bu.toNat?, bs.toNat? with
    | some au, some as, some bu, some bs =>
      if au < 2^64 ∧ bu < 2^64 then intLine op ⟨au, as != 0⟩ ⟨bu, bs != 0⟩ else "bad-op"
    | _, _, _, _ => "bad-op"
  | _ => "bad-op"

end Driver
