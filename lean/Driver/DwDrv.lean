import ZwVerif.Model.Dwarf
import ZwVerif.Model.Atval
import ZwVerif.Model.Symbol
import ZwVerif.Model.Loc
import Driver.ZwDrv
/-! Line protocol for the DWARF forest model.
    `F <tokens>` loads a forest:  U off version  D off tag hc nattr (name form ref|-)* nchild <children> …
    `FRAW`, `FCOOKED` print one record per DIE as nested lists of numbers. -/
namespace Driver
open ZwVerif.Dwarf

partial def parseDie : List String → Option (Die × List String)
  | "D" :: off :: tag :: hc :: na :: rest => do
    let off ← off.toNat?
    let tag ← tag.toNat?
    let na ← na.toNat?
    let rec attrs (n : Nat) (ts : List String) (acc : List DAttr) : Option (List DAttr × List String) :=
      match n, ts with
      | 0, ts => some (acc.reverse, ts)
      | n + 1, name :: form :: ref :: num :: blk :: str :: ts => do
        let name ← name.toNat?
        let form ← form.toNat?
        let blk : Option (List Nat) := if blk == "-" then none else if blk == "e" then some []
          else some ((blk.splitOn ".").filterMap String.toNat?)
        let str : Option (List Nat) := if str == "-" then none else if str == "e" then some []
          else some ((unhex str).map (·.toNat))
        attrs n ts ({ name := name, form := form, ref := ref.toNat?, num := num.toInt?, blk := blk, str := str } :: acc)
      | _, _ => none
    let (as, rest) ← attrs na rest []
    match rest with
    | nc :: rest => do
      let nc ← nc.toNat?
      let rec kids (n : Nat) (ts : List String) (acc : List Die) : Option (List Die × List String) :=
        match n with
        | 0 => some (acc.reverse, ts)
        | n + 1 => do
          let (d, ts') ← parseDie ts
          kids n ts' (d :: acc)
      let (cs, rest) ← kids nc rest []
      pure (Die.mk off tag (hc == "1") as cs, rest)
    | [] => none
  | _ => none

partial def parseForest : List String → List DUnit → List DUnit
  | "U" :: off :: ver :: rest, acc =>
    match parseDie rest with
    | some (d, rest') => parseForest rest' ({ off := off.toNat?.getD 0, version := ver.toNat?.getD 0, root := d } :: acc)
    | none => acc.reverse
  | _, acc => acc.reverse

def nl (l : List Nat) : String := "[" ++ ",".intercalate (l.map toString) ++ "]"
def ol (o : Option Nat) : String := match o with | some x => s!"[{x}]" | none => "[]"

def rawRecords (f : Forest) : List String :=
  f.flatMap fun u =>
    (preorder u.root).map fun d =>
      let par := match findParent u d.off with | some (some p) => some p | _ => none
      "[" ++ ",".intercalate [toString d.off, toString d.tag, ol par,
        (if d.hasChildren then "[1]" else "[]"), nl (d.children.map (·.off)),
        "[" ++ ",".intercalate (d.attrs.map fun a => nl [a.name, a.form]) ++ "]"] ++ "]"

def cookedRecords (f : Forest) : List String :=
  let fuel := 100000
  (cookedEntries f fuel).map fun c =>
    let par := (cookedParent f fuel c).map (·.die.off)
    let root := (cookedRoot f fuel c).die.off
    let kids := (cookedChildren f fuel c).map (·.die.off)
    let attrs := (attrsCooked f 4000 c.die).map fun x => nl [x.2.name, x.2.form]
    "[" ++ ",".intercalate [toString c.die.off, ol par, nl [root], nl kids,
      "[" ++ ",".intercalate attrs ++ "]"] ++ "]"

/-- cooked unit list: offsets of the units `unit` yields in cooked mode -/
def cookedUnits (f : Forest) : List String :=
  (f.filter fun u => !isPartial u).map fun u => toString u.off

/-- model-internal consistency (a test, not a theorem): for every cooked entry and every attribute
    name occurring in the forest, `find_attribute` finds what `attribute` yields first under that
    name.  Prints one line per disagreement. -/
def findAttrDisagreements (f : Forest) : List String :=
  let names := ((rawEntries f).flatMap fun d => d.attrs.map (·.name)).eraseDups
  (cookedEntries f 100000).flatMap fun c =>
    let as := attrsCooked f 4000 c.die
    names.filterMap fun n =>
      let a := (as.find? fun x => x.2.name == n).map fun x => (x.1, x.2.form)
      let b := (findAttr f 4000 c.die n).map fun x => (x.1, x.2.form)
      if a == b then none else some s!"{c.die.off} {n} {repr a} {repr b}"

def findAttrRecords (f : Forest) (names : List Nat) : List String :=
  (cookedEntries f 100000).map fun c =>
    "[" ++ toString c.die.off ++ "," ++
      ",".intercalate (names.map fun n =>
        match findAttr f 4000 c.die n with
        | some (o, a) => nl [o, a.form]
        | none => "[]") ++ "]"

def showOut : ZwVerif.Atval.Out → String
  | .cst d v => s!"c|{d}|{v}"
  | .str => "s"
  | .die o => s!"d|{o}"
  | .loc => "loc"
  | .ranges => "aset"
  | .macinfo => "mac"
  | .file => "file"
  | .block bs => "b|" ++ ".".intercalate (bs.map toString)
  | .sig8 => "sig8"
  | .err m => s!"err|{m}"
  | .libdw => "libdw"
  | .abort => "abort"

/-- one line per attribute of every raw entry: `<DIE offset> <index> <decoded>[!]` -/
def valueRecords (f : Forest) : List String :=
  (rawEntries f).flatMap fun d =>
    let parent := rawParent f d
    d.attrs.zipIdx.map fun (a, i) =>
      let r := ZwVerif.Atval.atValue f d parent a
      s!"{d.off} {i} {showOut r.out}{if r.diag then "!" else ""}"

/-- `SYM <machine> <info> <other> <info> <other> …`: one line per symbol
    `<pos> <type> <type family> <type name> <bind> <bind family> <bind name> <vis> <vis name>` -/
def symbolRecords (args : List String) : List String :=
  match args with
  | m :: rest =>
    let machine := m.toNat?.getD 0
    let rec pairs : List String → List (Nat × Nat)
      | a :: b :: r => (a.toNat?.getD 0, b.toNat?.getD 0) :: pairs r
      | _ => []
    let syms : List ZwVerif.Symbol.Sym := (pairs rest).map fun (i, o) => ⟨[], 0, 0, i, o⟩
    let all := ZwVerif.Symbol.symbols [syms]
    (all.zip (ZwVerif.Symbol.positions [syms])).map fun (s, p) =>
      let tf := ZwVerif.Symbol.sttFamily machine
      let bf := ZwVerif.Symbol.stbFamily machine
      let vn := match ZwVerif.Generated.stvNames.lookup s.vis with | some n => n | none => "???"
      s!"{p} {s.type} {tf} {ZwVerif.Symbol.codeName ZwVerif.Generated.sttNames tf s.type} {s.bind} {bf} {ZwVerif.Symbol.codeName ZwVerif.Generated.stbNames bf s.bind} {s.vis} {vn}"
  | [] => []

end Driver
