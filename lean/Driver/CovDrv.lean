import ZwVerif.Model.Coverage
/-! Line protocol for the coverage unit (`C <base> <op>...`), mirroring harness/covharness.cc. -/
namespace Driver
open ZwVerif ZwVerif.Cov

def showCov (c : Cov) : String :=
  ",".intercalate (c.map fun r => s!"{r.1}+{r.2}")

def parseRange (s : String) : Option Range :=
  match s.splitOn ":" with
  | [a, b] => do let a ← a.toNat?; let b ← b.toNat?; pure (a, b)
  | _ => none

def parseRanges (s : String) : List Range :=
  (s.splitOn ",").filterMap parseRange

def showB01 (b : Bool) : String := if b then "1" else "0"

def covOp (c : Cov) (tok : String) : Cov × String :=
  let op := tok.take 1 |>.toString
  let rs := parseRanges (tok.drop 2).toString
  match op, rs with
  | "a", [(s, l)] => let c' := add s l c; (c', showCov c')
  | "r", [(s, l)] => let c' := remove s l c; (c', showCov c')
  | "i", [(s, l)] => (c, showCov (intersect s l c))
  | "c", [(s, l)] => (c, showB01 (isCovered s l c))
  | "o", [(s, l)] => (c, showB01 (isOverlap s l c))
  | "A", rs => let o := rs.foldl (fun acc r => add r.1 r.2 acc) []
               let c' := addAll c o; (c', showCov c')
  | "R", rs => let o := rs.foldl (fun acc r => add r.1 r.2 acc) []
               let c' := removeAll c o; (c', showCov c')
  | _, _ => (c, "bad-op")

def handleCov (ws : List String) : String :=
  match ws with
  | _base :: ops =>
    let (_, outs) := ops.foldl (fun (st : Cov × List String) tok =>
      let (c', o) := covOp st.1 tok; (c', o :: st.2)) ([], [])
    ";".intercalate outs.reverse
  | _ => "bad-op"

end Driver
