import ZwVerif.Model.Cli
import Driver.ZwDrv
/-! Line protocol for the CLI model:
    `L <flags|-> <compileErr 0/1> <files hexname:ok,..|-> <args hex/hex;hex|-> <kind E|P|N|X> <k>` -/
namespace Driver
open ZwVerif ZwVerif.Cli

def parseFiles (s : String) : List (String × Bool) :=
  if s = "-" then [] else
  (s.splitOn ",").filterMap fun f =>
    match f.splitOn ":" with
    | [n, ok] => some (b2s (unhex n), ok = "1")
    | _ => none

/-- every value comes as `<hex printed form>=<hex header form>` -/
def parseArgs (s : String) : List (List (String × String)) :=
  if s = "-" then [] else
  (s.splitOn ";").map fun a => (a.splitOn "/").filterMap fun v =>
    match v.splitOn "=" with
    | [p, h] => some (b2s (unhex p), b2s (unhex h))
    | _ => none

def handleCli (ws : List String) : List String :=
  match ws with
  | [flags, ce, files, args, kind, k] =>
    let o : Opts := { count := flags.contains 'c', quiet := flags.contains 'q', silent := flags.contains 's',
                      withHeader := flags.contains 'H', noHeader := flags.contains 'h' }
    let files := parseFiles files
    let argv := parseArgs args
    let opened := files.filter (·.2)
    let k := k.toNat?.getD 0
    let exec (idx : List Nat) : Run :=
      -- the stack: the file (if any), then the argument values; printed top of stack first
      let vals : List String :=
        (if files.isEmpty then [] else ["<Dwarf \"" ++ (opened.map (·.1)).getD (idx.headD 0) "?" ++ "\">"]) ++
        (argv.zip (if files.isEmpty then idx else idx.drop 1)).map fun (vs, i) => (vs.getD i ("?", "?")).1
      let stackLines := vals.reverse
      match kind with
      | "E" => { results := [stackLines], err := none }
      | "P" => { results := (List.range k).map fun i => toString (i + 1) :: stackLines, err := none }
      | "N" => { results := [], err := none }
      | _ => { results := (List.range k).map fun i => toString (i + 1) :: stackLines, err := some "stack overflow" }
    let out := Cli.main o (if ce = "1" then some "compile error" else none) files
                (argv.map fun vs => { headers := vs.map (·.2) }) exec
    ["status " ++ toString out.status] ++ out.stdout.map ("O " ++ ·) ++ out.stderr.map ("E " ++ ·) ++ ["."]
  | _ => ["bad-op", "."]

end Driver
