import ZwVerif.Model.Bind
/-! Line protocol for queries (`Q`, `T`, `cfg`), mirroring harness/zwharness.cc. -/
namespace Driver
open ZwVerif

def unhexNibble (c : Char) : Nat :=
  if c.isDigit then c.toNat - 48 else if c ≥ 'a' ∧ c ≤ 'f' then c.toNat - 87 else c.toNat - 55

def unhex (s : String) : Bytes :=
  let rec go : List Char → Bytes
    | a :: b :: r => (unhexNibble a * 16 + unhexNibble b).toUInt8 :: go r
    | _ => []
  if s = "e" then [] else go s.toList

structure DState where
  types : List (String × Nat) := [("T_CLOSURE", 1), ("T_CONST", 2), ("T_SEQ", 3), ("T_STR", 4), ("T_ASET", 6)]
  domorder : List String := []
  words : List String := []
  consts : List (String × ZwVerif.Dom × Nat) := []
  fuel : Nat := 400

def DState.ctx (st : DState) : Ctx :=
  let code (n : String) : Nat := (st.types.lookup n).getD 0
  let typeCode : VT → Nat
    | .closure => code "T_CLOSURE" | .const => code "T_CONST" | .seq => code "T_SEQ"
    | .str => code "T_STR" | .aset => code "T_ASET" | .ext c => c
  let typeName (c : Nat) : Option String := (st.types.find? (·.2 = c)).map (·.1)
  let domRank (d : Dom) : Nat := (st.domorder.idxOf? d.label).getD 1000
  { cfg := { typeCode := typeCode, domRank := domRank }, typeName := typeName, otherWords := st.words, consts := st.consts }

def known (ctx : Ctx) (n : Bytes) : Bool :=
  match lookupWord ctx (b2s n) with
  | .unknown => false
  | _ => true

def compileQ (ctx : Ctx) (q : Bytes) (simp : Bool) : Except String Tree := do
  let t ← parseQuery 64 q
  let t := if simp then t.simplify else t
  match checkQuery (known ctx) t with
  | .ok _ => pure t
  | .error (.rebound _) => throw "rebound"
  | .error (.unbound _) => throw "unbound"
  | .error .malformed => throw "malformed"

def showEvs (es : Evs) : List String :=
  es.map fun
    | .frame f => "R " ++ Stack.canon f.stk
    | .soft c => "W " ++ c
    | .hard m => "E run " ++ m
    | .mark => "E run stray-mark"

def handleQ (st : DState) (ws : List String) : List String :=
  match ws with
  | flags :: hq :: _ =>
    let ctx := st.ctx
    let q := unhex hq
    match compileQ ctx q (!flags.contains 'n') with
    | .error e => ["E compile " ++ e, "."]
    | .ok t =>
      let tl := if flags.contains 't' then ["T " ++ hexBytes (Tree.showB t)] else []
      tl ++ showEvs (runQuery ctx st.fuel t) ++ ["."]
  | _ => ["bad-op", "."]

def handleT (ws : List String) : List String :=
  match ws with
  | flags :: hq :: _ =>
    match parseQuery 64 (unhex hq) with
    | .error e => ["E compile " ++ e, "."]
    | .ok t =>
      let t := if flags.contains 's' then t.simplify else t
      ["T " ++ hexBytes (Tree.showB t), "."]
  | _ => ["bad-op", "."]

def handleCfg (st : DState) (ws : List String) : DState :=
  match ws with
  | "types" :: rest =>
    { st with types := rest.filterMap fun kv =>
        match kv.splitOn "=" with
        | [k, v] => v.toNat?.map fun n => (k, n)
        | _ => none }
  | "domorder" :: rest => { st with domorder := rest }
  | "words" :: rest => { st with words := rest.map fun h => b2s (unhex h) }
  | "consts" :: rest =>
    { st with consts := rest.filterMap fun e =>
        match e.splitOn "=" with
        | [n, d, v] => v.toNat?.map fun k => (b2s (unhex n), ZwVerif.Dom.ofLabel (b2s (unhex d)), k)
        | _ => none }
  | "fuel" :: n :: _ => { st with fuel := n.toNat?.getD st.fuel }
  | _ => st

end Driver
