import Driver.IntDrv
import Driver.CovDrv
import Driver.ZwDrv
import Driver.CliDrv
import Driver.DwDrv
/-! `zwmodel`: the executable side of the hand-written models.  One request per
    line on stdin, one or more answer lines on stdout. -/
open Driver

structure MState where
  d : DState := {}
  forest : ZwVerif.Dwarf.Forest := []

def step (st : DState) (line : String) : DState × List String :=
  match line.trimAscii.toString.splitOn " " with
  | "N" :: rest => (st, [handleInt rest])
  | "C" :: rest => (st, [handleCov rest])
  | "Q" :: rest => (st, handleQ st rest)
  | "T" :: rest => (st, handleT rest)
  | "L" :: rest => (st, handleCli rest)
  | "cfg" :: rest => (handleCfg st rest, [])
  | _ => (st, ["bad-op"])

def stepM (st : MState) (line : String) : MState × List String :=
  match line.trimAscii.toString.splitOn " " with
  | "F" :: rest => ({ st with forest := parseForest rest [] }, [])
  | ["FRAW"] => (st, rawRecords st.forest ++ ["."])
  | ["FCOOKED"] => (st, cookedRecords st.forest ++ ["."])
  | "ABBR" :: rest => (st, [" ".intercalate ((ZwVerif.Loc.abbrevUnits (rest.filterMap String.toNat?) []).map toString), "."])
  | "SYM" :: rest => (st, symbolRecords rest ++ ["."])
  | ["FVAL"] => (st, valueRecords st.forest ++ ["."])
  | ["FUNITS"] => (st, cookedUnits st.forest ++ ["."])
  | ["FATCHK"] => (st, findAttrDisagreements st.forest ++ ["."])
  | "FAT" :: names => (st, findAttrRecords st.forest (names.filterMap String.toNat?) ++ ["."])
  | _ => let (d, outs) := step st.d line; ({ st with d := d }, outs)

partial def loop (h : IO.FS.Stream) (out : IO.FS.Stream) (st : MState) : IO Unit := do
  let line ← h.getLine
  if line.isEmpty then return ()
  let (st', outs) := stepM st line
  for o in outs do out.putStrLn o
  loop h out st'

def main : IO Unit := do
  let stdin ← IO.getStdin
  let stdout ← IO.getStdout
  loop stdin stdout {}
