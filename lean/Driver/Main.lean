import Driver.IntDrv
import Driver.CovDrv
/-! `zwmodel`: the executable side of the hand-written models.  One request per
    line on stdin, one answer per line on stdout. -/
open Driver

def step (line : String) : String :=
  match line.trimAscii.toString.splitOn " " with
  | "N" :: rest => handleInt rest
  | "C" :: rest => handleCov rest
  | _ => "bad-op"

partial def loop (h : IO.FS.Stream) (out : IO.FS.Stream) : IO Unit := do
  let line ← h.getLine
  if line.isEmpty then return ()
  out.putStrLn (step line)
  loop h out

def main : IO Unit := do
  let stdin ← IO.getStdin
  let stdout ← IO.getStdout
  loop stdin stdout
