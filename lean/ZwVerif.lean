/- Root of the library: every property module (and through them every model, lemma and generated
   table).  `lake build` from a clean tree builds and checks all of it; bin/gen_all must have
   produced ZwVerif/Generated/*.lean first. -/
import ZwVerif.Props.C01
import ZwVerif.Props.C01Merge
import ZwVerif.Props.C01Or
import ZwVerif.Props.C01Pipe
import ZwVerif.Props.C02
import ZwVerif.Props.C03
import ZwVerif.Props.C04
import ZwVerif.Props.C04SubOps
import ZwVerif.Props.C05
import ZwVerif.Props.C06
import ZwVerif.Props.C06DieIt
import ZwVerif.Props.C07
import ZwVerif.Props.C08
import ZwVerif.Props.C09
import ZwVerif.Props.C10
import ZwVerif.Props.C10Closure
import ZwVerif.Props.C09Order
import ZwVerif.Props.C11
import ZwVerif.Props.C12
import ZwVerif.Props.C13
import ZwVerif.Props.C14
import ZwVerif.Props.C15
import ZwVerif.Props.C16
import ZwVerif.Props.C17
import ZwVerif.Props.C18
import ZwVerif.Props.C19
import ZwVerif.Props.C19Order
import ZwVerif.Props.C20
import ZwVerif.Props.C20Int
