"""C12 — a compiled query is a pure function of its input stack."""
from . import common, zwcorr, gen, translate

THEOREMS = ["ZwVerif.C12." + t for t in
            ["step_preserves", "exec_independent", "pull_is_next_of_fresh", "static_state_audit"]]

STATEFUL = [
    "(1, 2, 3)", "(1,2) (3,4)", "[(1,2) (3,4)]", "(1, 2) ((3, 4) || 5)", "(let A := (3,4); A)", "(?(5 ?lt) 1 add)*",
    "(?(4 ?lt) (1 add, 2 add))+", '"%( (3,4) %)-%s"', "if (?(2 ?lt)) then ((1,2)) else ((3,4,5))", "[1, 2, 3] elem", "[1,2,3] relem",
    '"abc" elem', "dup (|A| A A add)", "{dup 1 add} apply", "let F := {(1,2) add}; F", "?((1,2) 2 ?eq)", "((1,2) == 2)",
    "(1,2,3) (?(2 ?lt) 10, ?(2 ?ge) 20)", "0 4 aset elem", "0 8 aset 2 4 aset sub range", "1 2 3 `[4]", "7 8 9 ``[5]",
    "(drop, 1)", "(1, drop drop drop drop)", "1 0 div", "(1, 2) ((3, 4) dup, 5)", "[[1,2] elem (3,4)]",
]
INPUTS = ["(1, 2, 3)", "(0, 5)", '("a", "bc")', "(1 2, 3)", "([1], [2, 3])", "1"]


def run(ctx):
    translate.generate_all()
    ctx.prove("ZwVerif.Props.C12", THEOREMS)
    h = zwcorr.Harness(ctx)
    rng = ctx.rng
    g = gen.Gen(rng, maxdepth=3)
    n = 400 if ctx.tier == "quick" else 12000
    qs = list(STATEFUL)
    for _ in range(n):
        qs.append(g.program() if rng.random() < 0.5 else rng.choice(STATEFUL) + " " + g.seq(["c"], [], 2, 1)[0])
    lines = []
    meta = []
    for q in qs:
        for rep in range(2 if ctx.tier == "quick" else 4):
            seed = rng.randrange(1 << 30)
            p = rng.choice(INPUTS)
            other = rng.choice(["", "", "7 8 9 ``[5]", "1 2 3 `[4]", rng.choice(STATEFUL)])
            lines.append("H %d %s %s %s" % (seed, zwcorr.hx(q), zwcorr.hx(p), zwcorr.hx(other) if other else ""))
            meta.append((seed, q, p, other))
    if ctx.replay:
        import json
        rp = json.load(open(ctx.replay))["input"]
        lines = ["H %d %s %s %s" % (rp["seed"], zwcorr.hx(rp["query"]), zwcorr.hx(rp["inputs"]), zwcorr.hx(rp["other"]) if rp["other"] else "")]
        meta = [(rp["seed"], rp["query"], rp["inputs"], rp["other"])]
    pulls = 0
    ok = 0
    skipped = 0
    i = 0
    while i < len(lines):
        rc, out, err = common.run_lines(h.exe, lines[i:], timeout=3600, args=[str(h.budget), "8"])
        recs = []
        cur = []
        for l in out:
            if l == ".":
                recs.append(cur); cur = []
            else:
                cur.append(l)
        for k, r in enumerate(recs):
            seed, q, p, other = meta[i + k]
            hl = next((x for x in r if x.startswith("H ")), None)
            if hl is None:
                skipped += 1          # does not compile / input program failed / timeout
                continue
            if hl.startswith("H ok"):
                ok += 1
                pulls += int(hl.split("pulls=")[1].split()[0])
            else:
                ctx.violation("history over the compiled query %r on inputs of %r (another query %r compiled in the same process): %s"
                              % (q, p, other, hl[2:300]),
                              {"stream": "C12-history", "input": {"seed": seed, "query": q, "inputs": p, "other": other},
                               "got": hl, "theorem": "ZwVerif.C12.exec_independent"})
        if rc == 0 and len(recs) == len(lines) - i:
            break
        if recs and any("timeout" in x for x in recs[-1]):
            i += len(recs)
            continue
        bad = i + len(recs)
        if bad < len(lines):
            seed, q, p, other = meta[bad]
            ctx.violation("the library crashed during a history over %r (inputs %r, other query %r): %s" % (q, p, other, err[-300:]),
                          {"stream": "C12-history", "input": {"seed": seed, "query": q, "inputs": p, "other": other}, "stderr": err[-2000:]})
        i = bad + 1
    # a query compiled after another one in the same process behaves as when compiled alone in a fresh process
    pool = STATEFUL + ["1 2 3 `[4]", "7 8 9 ``[5]", "1 2 3 4 ```[5]", "`[1, 2]", "1 ``[]", '"%( 1 %) %( "(" %)"', "let A := 1; A"]
    pairs = [(a, b) for a in pool[-7:] for b in pool[-7:]] + [(rng.choice(pool), rng.choice(pool)) for _ in range(60)]
    cross_ok = 0
    for a, b in pairs:
        if ctx.replay:
            break
        r1, _, _ = common.run_lines(h.exe, ["Q - " + zwcorr.hx(a), "Q - " + zwcorr.hx(b)], args=[str(h.budget), "8"])[0:3] \
            if False else (None, None, None)
        rc1, out1, _ = common.run_lines(h.exe, ["Q - " + zwcorr.hx(a), "Q - " + zwcorr.hx(b)], args=[str(h.budget), "8"])
        rc2, out2, _ = common.run_lines(h.exe, ["Q - " + zwcorr.hx(b)], args=[str(h.budget), "8"])
        ra = zwcorr.parse_records(out1, True)
        rb = zwcorr.parse_records(out2, True)
        if len(ra) == 2 and len(rb) == 1 and ra[1].key() == rb[0].key():
            cross_ok += 1
        else:
            ctx.violation("query %r yields %r when compiled after %r in the same process, but %r in a fresh process"
                          % (b, ra[1].res[:4] if len(ra) > 1 else "crash", a, rb[0].res[:4] if rb else "crash"),
                          {"stream": "C12-cross-compilation", "input": {"first": a, "second": b}, "got": ra[1].raw[:6] if len(ra) > 1 else None,
                           "expected": rb[0].raw[:6] if rb else None, "theorem": "ZwVerif.C12.static_state_audit"})
    ctx.cov["cross_compilation_pairs_ok"] = cross_ok
    ctx.cov["evaluations"] = len(lines)
    ctx.cov["distinct_nontrivial"] = ok
    ctx.cov["pulls_compared_with_fresh_run"] = pulls
    ctx.cov["histories_skipped_compile_or_timeout"] = skipped
    ctx.cov["static_symbols_audited"] = len(open(common.LEAN + "/ZwVerif/Generated/StaticSyms.lean").read().split("\n")) - 9
    ctx.cov["rule"] = ("for each query (a stateful-construct pool + generated programs): one compiled query, up to three simultaneously "
                       "live result sets on up to three different input stacks, 60 random execute / pull / abandon steps; every pull "
                       "is compared with a fresh parse-and-run on that input in the same process; inputs must be unchanged afterwards; "
                       "recompiling the same text must behave the same; another query text (incl. the ``[ forms) is compiled before "
                       "or after.  Plus the regenerated list of writable static symbols vs the allow-list theorem")
    ctx.sample({"line": lines[0][:120]})
    ctx.sample({"query": meta[-1][1], "inputs": meta[-1][2]})
    ctx.assumptions += ["`no hidden state` = an audit of the object files' writable symbols + mutable/const_cast free reading, not a "
                        "semantics of C++; DWARF producers' caches are covered by the DWARF checks"]
