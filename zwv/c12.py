"""C12 — a compiled query is a pure function of its input stack."""
from . import common, zwcorr, gen, translate

THEOREMS = ["ZwVerif.C12." + t for t in
            ["step_preserves", "exec_independent", "pull_is_next_of_fresh", "static_state_audit"]]

STATEFUL = [
    "(1, 2, 3)", "(1,2) (3,4)", "[(1,2) (3,4)]", "(1, 2) ((3, 4) || 5)", "(let A := (3,4); A)", "(?(5 ?lt) 1 add)*",
    "(?(4 ?lt) (1 add, 2 add))+", '"%( (3,4) %)-%s"', "if (?(2 ?lt)) then ((1,2)) else ((3,4,5))", "[1, 2, 3] elem", "[1,2,3] relem",
    '"abc" elem', "dup (|A| A A add)", "{dup 1 add} apply", "let F := {(1,2) add}; F", "?((1,2) 2 ?eq)", "((1,2) == 2)",
    "(1,2,3) (?(2 ?lt) 10, ?(2 ?ge) 20)", "0 4 aset elem", "0 8 aset 2 4 aset sub range", "1 2 3 `[4]", "7 8 9 ``[5]",
    "(drop, 1)", "(1, drop drop drop drop)", "1 0 div", "(1, 2) ((3, 4) dup, 5)", "[[1,2] elem (3,4)]",
    # literals and empty containers held by the compiled query must not be written through
    "(|X| [] [X] add)", "[] swap (|X| [X] add)", "[7] add", '"" swap "%s" add', "(|X| [] [X] add [] add)", "[] dup [1] add swap",
    "[] (|E| E [1] add E)", "(|X| [[]] elem [X] add)", "[] [] add [2] add", '(|X| "" "x" add)',
]
INPUTS = ["(1, 2, 3)", "(0, 5)", '("a", "bc")', "(1 2, 3)", "([1], [2, 3])", "1", "([], [1], [])", '("", "a")', "([] 1, [] 2)"]

# queries on a (Dwarf, offset) stack: all executions share one Dwarf value and whatever it caches
DWARF_QUERIES = [
    "(|D N| D entry (offset >= N) ?root offset)", "(|D N| D entry (offset == N) parent* offset)",
    "(|D N| D entry (offset == N) root offset)", "(|D N| D raw entry (offset == N) parent offset)",
    "(|D N| D raw entry (offset == N) ?root offset)", "(|D N| D entry (offset == N) child offset)",
    "(|D N| D entry (offset == N) (name, @AT_decl_line, @AT_type offset))", "(|D N| D entry (offset == N) abbrev code)",
    "(|D N| [D entry (offset >= N) ?root] length)", "(|D N| D raw unit (offset >= N) root offset)",
    "(|D N| D entry (offset == N) unit offset)", "(|D N| D entry (offset >= N) !root parent ?root offset)",
    "(|D N| D abbrev entry (offset >= N) code)", "(|D N| D entry (offset == N) attribute label)",
    # words that ask libdw for something a DIE may not have (libdw keeps the last error per thread)
    "(|D N| D entry (offset >= N) address)", "(|D N| [D entry (offset >= N) (address, @AT_high_pc, @AT_ranges)] length)",
    "(|D N| D entry (offset >= N) (?AT_low_pc, ?AT_location) [address, @AT_location, @AT_frame_base] length)",
    "(|D N| D unit (offset >= N) [root address, entry @AT_decl_file] length)",
    "(|D N| D entry (offset == N) [attribute (address, value)] length)",
    # one view enumerated (wholly, or abandoned after the first result), then the other view asked: what one execution puts
    # into the Dwarf's tables must serve the other
    "(|D N| [D unit (offset >= N)] (|X| D raw unit root ?root offset))", "(|D N| [D entry (offset == N)] (|X| D raw entry ?root offset))",
    "(|D N| [D raw unit (offset >= N) root] (|X| D entry ?root offset))", "(|D N| D entry ?(offset == N) (|X| D raw unit root !root offset))",
    "(|D N| ?(D entry) D raw unit root ?root offset)", "(|D N| ?(D raw entry (offset >= N)) D unit root ?root offset)",
    "(|D N| [D raw entry (offset >= N) parent] (|X| D entry (offset == N) parent* offset))",
]


def multi_input(ctx, h):
    """one compiled query on a stream of DIFFERENT Dwarf values (`dwopen` over several file names — forests with different
    contents, ELF objects for different machines): what it yields for each is what it yields for that file alone.  Words are
    built once per query; whatever they remember must not reach the next input."""
    import os
    from . import dwcorr, elfsym, c07, c17, c18
    fs = dwcorr.Forests(ctx)
    rng = ctx.rng
    queries = [dwcorr.RAW_QUERY, dwcorr.COOKED_QUERY, c07.VALUE_QUERY, c17.ABBREV_Q, c17.LOC_Q, c17.DIE_Q, c18.QUERY,
               "entry [offset, name, [@AT_type offset], [parent offset], [root offset]]", "unit [offset, [entry offset]]",
               "entry attribute [label, form, [?(form == (DW_FORM_data1, DW_FORM_string, DW_FORM_strp, DW_FORM_ref4, DW_FORM_udata)) value]]",
               "[symbol [name, label, binding, visibility]]", "[entry ?root] length", "[abbrev entry] length",
               "[entry address] length", "entry [offset, [address], [@AT_high_pc]]", "unit [offset, [root address]]",
               "entry [offset, [@AT_decl_file], [@AT_call_file]]", "[entry (@AT_decl_file, @AT_name)]"]
    n = 8 if ctx.tier == "quick" else 60
    ok = tot = 0
    try:
        files = []
        for k in range(n):
            desc, path = fs.make(rng, max_units=4, min_units=1, cu_imports=0.3 if k % 2 else 0.0, rich_ops=0.3, extras=0.4,
                                 versions=((2, 3, 4, 5) if k % 3 else (5,)))
            files.append(path)
        # compiler-made samples (line tables: decl_file / call_file), first units at the same offset in every file
        for sname in ("nullptr.o", "twocus", "enum.o", "typedef.o", "inline.o"):
            sp_ = os.path.join(common.REPO, "tests", sname)
            if os.path.exists(sp_):
                files.append(sp_)
        n = len(files)
        for k in range(n // 2):
            o = elfsym.gen_symobj(rng, elfsym.TARGETS[rng.randrange(len(elfsym.TARGETS))])
            path = os.path.join(fs.dir, "sym%d.o" % k)
            open(path, "wb").write(o.bytes())
            files.append(path)
        alone = {}
        samples_idx = [i for i, f in enumerate(files) if f.startswith(os.path.join(common.REPO, "tests"))]
        fixed = []
        if len(samples_idx) >= 3:
            a_, b_, c_ = samples_idx[:3]
            fixed = [([a_, b_, c_, a_], "entry [offset, [@AT_decl_file], [@AT_call_file]]"), ([c_, a_, c_], "[entry (@AT_decl_file, @AT_name)]"),
                     ([b_, a_], "entry [offset, name, [@AT_type offset], [parent offset], [root offset]]")]
        for rep in range(-len(fixed), 20 if ctx.tier == "quick" else 300):
            if rep < 0:
                ks, q = fixed[rep + len(fixed)]
            else:
                q = rng.choice(queries)
                pool = range(len(files)) if "symbol" in q else range(n)          # the symbol-only objects carry no DWARF
                ks = [rng.choice(pool) for _ in range(rng.randint(2, 3))]
                if rng.random() < 0.3:
                    ks.append(ks[0])                      # the first file again, after another one
            for k in set(ks):
                if (k, q) not in alone:
                    r, c = h.run_impl_robust(["Q - %s %s" % (zwcorr.hx(q), zwcorr.hx(files[k]))])
                    alone[(k, q)] = None if (c or r[0].err) else list(r[0].res)
            if any(alone[(k, q)] is None for k in ks):
                continue
            mq = "(%s) dwopen %s" % (", ".join('"%s"' % files[k] for k in ks), q)
            r, c = h.run_impl_robust(["Q - %s" % zwcorr.hx(mq)])
            tot += 1
            want = [x for k in ks for x in alone[(k, q)]]
            got = None if (c or r[0].err) else list(r[0].res)
            if got != want:
                i = next((i for i, (a, b) in enumerate(zip(got or [], want)) if a != b), min(len(got or []), len(want)))
                ctx.violation("one compiled query `%s` on a stream of %d files: result #%d is %s; the same query on that file alone "
                              "yields %s" % (q[:60], len(ks), i, (got[i][:200] if got and i < len(got) else (c or (r[0].err if r else None))),
                                             want[i][:200] if i < len(want) else None),
                              {"stream": "C12-multi-input", "input": {"query": mq, "files_b64": [fs.inp(None, files[k], q)["object_b64"] for k in ks]},
                               "got": got[i] if got and i < len(got) else None, "expected": want[i] if i < len(want) else None,
                               "theorem": "ZwVerif.C12.exec_independent"})
            else:
                ok += 1
    finally:
        fs.cleanup()
    return ok, tot


def handled_failures(ctx, h):
    """a libdw failure that a word has handled (an address asked of a DIE that has none, a name of a nameless DIE …) must not
    reach a later, unrelated sub-expression: `[PRE] (|X| POST)` yields what `[] (|X| POST)` yields.  (libdw keeps the last
    error of the thread until it is asked for.)"""
    from . import dwcorr
    fs = dwcorr.Forests(ctx)
    rng = ctx.rng
    PRE = ["D entry address", "D entry (low, high)", "D entry @AT_high_pc", "D entry name", "D entry @AT_ranges", "D unit root address",
           "D entry @AT_decl_file", "D entry attribute ?(form == DW_FORM_addr) address"]
    POST = ["D entry @AT_const_value", "D entry [attribute ?(label == DW_AT_const_value) value]", "D entry (name, @AT_type name)",
            "D entry ?(@AT_const_value) offset", "D entry @AT_type @AT_encoding"]
    n = 10 if ctx.tier == "quick" else 150
    ok = tot = 0
    try:
        # past failures first (F23)
        import base64, glob, json, os
        todo = []
        for cf in sorted(glob.glob(os.path.join(common.VERIF, "corpus", "C12", "*.json"))):
            c = json.load(open(cf))
            path = os.path.join(fs.dir, os.path.basename(cf)[:-5] + ".o")
            open(path, "wb").write(base64.b64decode(c["object_b64"]))
            todo.append((None, path, [(c["pre"], c["post"])]))
        for k in range(n):
            desc, path = fs.make(rng, max_units=2, const_blocks=0.6, extras=0.3)
            todo.append((desc, path, [(rng.choice(PRE), rng.choice(POST)) for _ in range(3)] + [(p, POST[0]) for p in PRE[:3]]))
        for desc, path, pairs in todo:
            for pre, post in pairs:
                qa = "(|D| [] (|X| %s))" % post
                qb = "(|D| [%s] (|X| %s))" % (pre, post)
                recs, crashes = fs.query(path, [qa, qb])
                tot += 1
                if crashes or (recs[0].res, recs[0].err) != (recs[1].res, recs[1].err):
                    ctx.violation("after `%s`, `%s` yields %s / %s; on its own it yields %s / %s"
                                  % (pre, post, recs[1].res[:2] if len(recs) > 1 else None, recs[1].err if len(recs) > 1 else crashes,
                                     recs[0].res[:2], recs[0].err),
                                  {"stream": "C12-handled-failures", "input": fs.inp(desc, path, qb), "got": [recs[1].res[:5], recs[1].err] if len(recs) > 1 else None,
                                   "expected": [recs[0].res[:5], recs[0].err], "theorem": "ZwVerif.C12.exec_independent"})
                else:
                    ok += 1
    finally:
        fs.cleanup()
    return ok, tot


def dwarf_histories(ctx, h):
    """histories over one compiled DWARF query with all executions on the same Dwarf value, asked about DIEs of later units
    first; every pull compared with a fresh run on a freshly opened Dwarf"""
    import glob
    import os
    from . import dwcorr
    from .c05 import walk
    fs = dwcorr.Forests(ctx)
    rng = ctx.rng
    n = 12 if ctx.tier == "quick" else 200
    lines, meta = [], []
    try:
        files = []
        files_with_partial = set()
        for k in range(n):
            desc, path = fs.make(rng, max_units=5, min_units=2, cu_imports=0.3 if k % 2 else 0.0)
            offs = [[x["offset"] for x in walk(u["root"])] for u in desc["units"]]
            files.append((path, offs))
            if any(u["unit_type"] == "partial" for u in desc["units"]) and len(files_with_partial) < (3 if ctx.tier == "quick" else 40):
                files_with_partial.add(path)
        for s in ("twocus", "dwz-partial", "a1.out"):
            p = os.path.join(common.REPO, "tests", s)
            if os.path.exists(p):
                files.append((p, None))
        mixes = [q for q in DWARF_QUERIES if "(|X|" in q or q.startswith("(|D N| ?(")]
        for path, offs in files:
            plan = [None] * (3 if ctx.tier == "quick" else 6)
            if offs is None or path in files_with_partial:
                plan += mixes                     # dwz samples and forests with partial units: every view-mixing query
            for forced in plan:
                if offs:
                    # later units first, then earlier ones
                    picks = [rng.choice(offs[-1]), rng.choice(offs[rng.randrange(len(offs))]), rng.choice(offs[0])]
                    if rng.random() < 0.4:
                        picks[0] = offs[-1][0]          # the root of the last unit
                        picks[2] = offs[0][0]
                else:
                    picks = [rng.choice([0x60, 0x5e, 0x80, 0xb3, 0x14]), rng.choice([0, 0xb, 0x2d]), rng.choice([0xb, 0, 0x34])]
                inputs = "(|D| (%s))" % ", ".join("D %d" % o for o in picks)
                q = forced or rng.choice(DWARF_QUERIES)
                seed = rng.randrange(1 << 30)
                lines.append("H %d %s %s - %s" % (seed, zwcorr.hx(q), zwcorr.hx(inputs), zwcorr.hx(path)))
                meta.append((seed, q, inputs, path))
        # rendering histories: one compiled format string shows, execution after execution, DWARF values of every type and
        # plain values in turn (a rendering must not leave anything behind for the next one: stream flags, fill, width)
        LOCV_ = "entry attribute ?(label == (DW_AT_location, DW_AT_frame_base)) value ?(type == T_LOCLIST_ELEM)"
        for path, offs in files[:(4 if ctx.tier == "quick" else len(files))] + files[-3:]:
            inputs = ("(|D| (10, D unit ?(pos == 0), 10, D entry ?(pos == 1), 255, D entry ?(pos == 1) attribute ?(pos == 0), -7, "
                      "D %s ?(pos == 0), 10, D %s elem ?(pos == 0), 0x10 10, D abbrev entry ?(pos == 0), 10, \"ab\", [1, 0x2], 0 16 aset, 10))" % (LOCV_, LOCV_))
            for q in ('"%s"', '"<%s>"', '[dup] "%s"', '"%( type %) %s"'):
                seed = rng.randrange(1 << 30)
                lines.append("H %d %s %s - %s" % (seed, zwcorr.hx(q), zwcorr.hx(inputs), zwcorr.hx(path)))
                meta.append((seed, q, inputs, path))
        rc, out, err = common.run_lines(h.exe, lines, timeout=3600, args=[str(h.budget), "20"])
        recs, cur = [], []
        for l in out:
            if l == ".":
                recs.append(cur); cur = []
            else:
                cur.append(l)
        okc = pulls = 0
        for (seed, q, inputs, path), r in zip(meta, recs):
            hl = next((x for x in r if x.startswith("H ")), None)
            if hl is None:
                continue
            if hl.startswith("H ok"):
                okc += 1
                pulls += int(hl.split("pulls=")[1].split()[0])
            else:
                ctx.violation("history over the compiled query %r on one shared Dwarf of %s, inputs %r: %s"
                              % (q, os.path.basename(path), inputs, hl[2:300]),
                              {"stream": "C12-dwarf-history", "input": dict(fs.inp(None, path, q), seed=seed, inputs=inputs), "got": hl,
                               "theorem": "ZwVerif.C12.exec_independent"})
        if rc != 0 or len(recs) != len(lines):
            bad = min(len(recs), len(meta) - 1)
            ctx.violation("the library crashed during a DWARF history over %r: %s" % (meta[bad][1], err[-300:]),
                          {"stream": "C12-dwarf-history", "input": dict(fs.inp(None, meta[bad][3], meta[bad][1]), seed=meta[bad][0], inputs=meta[bad][2]),
                           "stderr": err[-2000:]})
        return okc, pulls, len(lines)
    finally:
        fs.cleanup()


def run(ctx):
    translate.generate_all()
    ctx.prove("ZwVerif.Props.C12", THEOREMS)
    h = zwcorr.Harness(ctx)
    rng = ctx.rng
    g = gen.Gen(rng, maxdepth=3)
    n = 400 if ctx.tier == "quick" else 12000
    qs = list(STATEFUL)
    for _ in range(n):
        qs.append(g.program() if rng.random() < 0.5 else rng.choice(STATEFUL) + " " + g.seq(["c"], [], 2, 1)[0])
    lines = []
    meta = []
    for q in qs:
        for rep in range(2 if ctx.tier == "quick" else 4):
            seed = rng.randrange(1 << 30)
            p = rng.choice(INPUTS)
            other = rng.choice(["", "", "7 8 9 ``[5]", "1 2 3 `[4]", rng.choice(STATEFUL)])
            lines.append("H %d %s %s %s" % (seed, zwcorr.hx(q), zwcorr.hx(p), zwcorr.hx(other) if other else ""))
            meta.append((seed, q, p, other))
    if ctx.replay:
        import json
        rp = json.load(open(ctx.replay))["input"]
        lines = ["H %d %s %s %s" % (rp["seed"], zwcorr.hx(rp["query"]), zwcorr.hx(rp["inputs"]), zwcorr.hx(rp["other"]) if rp["other"] else "")]
        meta = [(rp["seed"], rp["query"], rp["inputs"], rp["other"])]
    pulls = 0
    ok = 0
    skipped = 0
    i = 0
    while i < len(lines):
        rc, out, err = common.run_lines(h.exe, lines[i:], timeout=3600, args=[str(h.budget), "8"])
        recs = []
        cur = []
        for l in out:
            if l == ".":
                recs.append(cur); cur = []
            else:
                cur.append(l)
        for k, r in enumerate(recs):
            seed, q, p, other = meta[i + k]
            hl = next((x for x in r if x.startswith("H ")), None)
            if hl is None:
                skipped += 1          # does not compile / input program failed / timeout
                continue
            if hl.startswith("H ok"):
                ok += 1
                pulls += int(hl.split("pulls=")[1].split()[0])
            else:
                ctx.violation("history over the compiled query %r on inputs of %r (another query %r compiled in the same process): %s"
                              % (q, p, other, hl[2:300]),
                              {"stream": "C12-history", "input": {"seed": seed, "query": q, "inputs": p, "other": other},
                               "got": hl, "theorem": "ZwVerif.C12.exec_independent"})
        if rc == 0 and len(recs) == len(lines) - i:
            break
        if recs and any("timeout" in x for x in recs[-1]):
            i += len(recs)
            continue
        bad = i + len(recs)
        if bad < len(lines):
            seed, q, p, other = meta[bad]
            ctx.violation("the library crashed during a history over %r (inputs %r, other query %r): %s" % (q, p, other, err[-300:]),
                          {"stream": "C12-history", "input": {"seed": seed, "query": q, "inputs": p, "other": other}, "stderr": err[-2000:]})
        i = bad + 1
    # a query compiled after another one in the same process behaves as when compiled alone in a fresh process
    pool = STATEFUL + ["1 2 3 `[4]", "7 8 9 ``[5]", "1 2 3 4 ```[5]", "`[1, 2]", "1 ``[]", '"%( 1 %) %( "(" %)"', "let A := 1; A",
                       # regular expressions, valid and invalid (anything kept from one use to the next shows here)
                       '"foo" "fo+" ?match', '"foo" ("fo(", "fo(") ?match', '"foo" ("fo+", "fo(", "fo(") ?match', '"foo" "x" !match']
    pairs = [(a, b) for a in pool[-11:] for b in pool[-11:]] + [(rng.choice(pool), rng.choice(pool)) for _ in range(60)]
    cross_ok = 0
    for a, b in pairs:
        if ctx.replay:
            break
        r1, _, _ = common.run_lines(h.exe, ["Q - " + zwcorr.hx(a), "Q - " + zwcorr.hx(b)], args=[str(h.budget), "8"])[0:3] \
            if False else (None, None, None)
        rc1, out1, _ = common.run_lines(h.exe, ["Q - " + zwcorr.hx(a), "Q - " + zwcorr.hx(b)], args=[str(h.budget), "8"])
        rc2, out2, _ = common.run_lines(h.exe, ["Q - " + zwcorr.hx(b)], args=[str(h.budget), "8"])
        ra = zwcorr.parse_records(out1, True)
        rb = zwcorr.parse_records(out2, True)
        if len(ra) == 2 and len(rb) == 1 and ra[1].key() == rb[0].key():
            cross_ok += 1
        else:
            ctx.violation("query %r yields %r when compiled after %r in the same process, but %r in a fresh process"
                          % (b, ra[1].res[:4] if len(ra) > 1 else "crash", a, rb[0].res[:4] if rb else "crash"),
                          {"stream": "C12-cross-compilation", "input": {"first": a, "second": b}, "got": ra[1].raw[:6] if len(ra) > 1 else None,
                           "expected": rb[0].raw[:6] if rb else None, "theorem": "ZwVerif.C12.static_state_audit"})
    dok, dpulls, dn = (0, 0, 0) if ctx.replay else dwarf_histories(ctx, h)
    hok, htot = (0, 0) if ctx.replay else handled_failures(ctx, h)
    ctx.cov["handled_failure_pairs_ok"] = hok
    ctx.cov["handled_failure_pairs"] = htot
    mok, mtot = (0, 0) if ctx.replay else multi_input(ctx, h)
    ctx.cov["multi_input_streams_ok"] = mok
    ctx.cov["multi_input_streams"] = mtot
    ctx.cov["dwarf_histories_ok"] = dok
    ctx.cov["dwarf_histories"] = dn
    ctx.cov["dwarf_pulls_compared_with_fresh_dwarf"] = dpulls
    ctx.cov["cross_compilation_pairs_ok"] = cross_ok
    ctx.cov["evaluations"] = len(lines)
    ctx.cov["distinct_nontrivial"] = ok
    ctx.cov["pulls_compared_with_fresh_run"] = pulls
    ctx.cov["histories_skipped_compile_or_timeout"] = skipped
    ctx.cov["static_symbols_audited"] = len(open(common.LEAN + "/ZwVerif/Generated/StaticSyms.lean").read().split("\n")) - 9
    ctx.cov["rule"] = ("for each query (a stateful-construct pool + generated programs): one compiled query, up to three simultaneously "
                       "live result sets on up to three different input stacks, 60 random execute / pull / abandon steps; every pull "
                       "is compared with a fresh parse-and-run on that input in the same process; inputs must be unchanged afterwards; "
                       "recompiling the same text must behave the same; another query text (incl. the ``[ forms) is compiled before "
                       "or after.  DWARF histories: the same on (Dwarf, offset) stacks sharing one Dwarf value, reference runs on a freshly "
                       "opened Dwarf.  Plus the regenerated list of writable static symbols vs the allow-list theorem")
    ctx.sample({"line": lines[0][:120]})
    ctx.sample({"query": meta[-1][1], "inputs": meta[-1][2]})
    ctx.assumptions += ["`no hidden state` = an audit of the object files' writable symbols + mutable/const_cast free reading, not a "
                        "semantics of C++; caches hanging off a Dwarf value (parent / root tables) are exercised by the DWARF histories: one "
                        "Dwarf shared by all executions, asked about later units first, against a freshly opened Dwarf"]
