"""C10 — `*` / `+` yield each reachable stack exactly once per input and always terminate."""
import collections
import re
from . import common, zwcorr, gen

THEOREMS = ["ZwVerif.C10." + t for t in
            ["closeStep_inv", "semClose_distinct", "star_distinct", "star_yields_input_first", "fresh_per_input",
             "suffix_star_star", "suffix_plus_star", "suffix_closure_plus", "qmark_is_alt_nop"]]

NOPOS = re.compile(r"@\d+")


def graph_body(rng, depth=0):
    """a body over a small finite graph of integers 0..N-1 (mod arithmetic keeps it finite)"""
    n = rng.choice([3, 4, 5, 6])
    k = rng.random()
    step = lambda: rng.choice(["1 add %d mod" % n, "2 add %d mod" % n, "2 mul %d mod" % n, "dup mul %d mod" % n,
                               "3 add %d mod" % n])
    if k < 0.2:
        return step()
    if k < 0.35:
        return "(%s, %s)" % (step(), step())                        # diamond / multi-yield
    if k < 0.45:
        return "?(%d ?lt) 1 add" % (n - 1)                          # chain that stops
    if k < 0.55:
        return "(?(%d ?lt) 1 add || ?(0 ?gt) 1 sub)" % (n - 1)      # OR in the body
    if k < 0.65:
        return "let Z := %s; Z" % step()                            # let in the body
    if k < 0.72:
        return "[%s] elem" % step()
    if k < 0.8:
        return "if (?(2 ?lt)) then (%s) else ((%s, %s))" % (step(), step(), step())
    if k < 0.9 and depth < 2:
        return "(%s)%s" % (graph_body(rng, depth + 1), rng.choice(["*", "+"]))   # nested closure
    if k < 0.95:
        return "%s ?(dup 0 ?ge)" % step()
    return "(, %s)" % step()                                        # self-loop branch


MIXED_NODES = ["0", "1", '""', '"x"', "[]", "[0]", '"ab"', "2", '[""]', "T_STR"]


def graph_body_mixed(rng):
    """a body over a small finite graph whose nodes are values of DIFFERENT types (constants, strings, sequences): the
    seen-set then has to order stacks holding different types in the same slot.  Returns (body, nodes)"""
    nodes = rng.sample(MIXED_NODES, rng.choice([3, 4, 5]))
    edges = []
    for i, v in enumerate(nodes):
        outs = set([nodes[(i + 1) % len(nodes)]]) if rng.random() < 0.8 else set()
        if rng.random() < 0.5:
            outs.add(rng.choice(nodes))
        for w in sorted(outs):
            edges.append("?(dup %s ?eq) drop %s" % (v, w))
    rng.shuffle(edges)
    return "(%s)" % ", ".join(edges), nodes


def run(ctx):
    ctx.prove("ZwVerif.Props.C10", THEOREMS + ["ZwVerif.Closure." + t for t in
              ["star_sound_complete", "plus_sound_complete", "drain_inv", "next_some", "next_none", "drain_inv_plus", "plus_first_pull"]],
              extra_targets=["ZwVerif.Props.C10Closure"])
    h = zwcorr.Harness(ctx, secs=3)
    rng = ctx.rng
    n = 300 if ctx.tier == "quick" else 5000
    progs = ["0 (1 add 3 mod)*", "0 (1 add 3 mod)+", "(0,1) (1 add 3 mod)*", "1 (?(3 ?lt) (1 add, 2 add))*",
             "0 ((1 add 4 mod)+)*", "0 (1 add 3 mod)+*", "0 (1 add 3 mod)*+", "0 (1 add 3 mod)**", "5 (drop)?",
             "(1,2) (3 add)?", "[0 (1 add 2 mod)*]"]
    meta = []
    if ctx.replay:
        import json
        rp = json.load(open(ctx.replay))
        progs = [rp["input"]] if isinstance(rp.get("input"), str) else list(rp["input"])
        n = 0
    multi = set()
    for _ in range(n // 4):
        b, nodes = graph_body_mixed(rng)
        start = rng.choice(nodes)
        many = rng.random() < 0.3
        if many:
            start = "(%s, %s)" % (start, rng.choice(nodes))
        if rng.random() < 0.3:
            start = "%s %s" % (rng.choice(['7', '"k"', "[]"]), start)          # a second slot below
        progs.append("%s %s%s" % (start, b, rng.choice(["*", "+", "*", "+*"])))
        if many:
            multi.add(progs[-1])
    for _ in range(n):
        starts = rng.choice(["0", "1", "(0, 1)", "(0, 2, 3)", "(1, 1)", "(0, 1) (0, 1) add"])
        b = graph_body(rng)
        op = rng.choice(["*", "+"])
        extra = rng.choice(["", "", " dup", " 1 add", " [dup]", " ?(2 ?lt)"])
        progs.append("%s (%s)%s%s" % (starts, b, op, extra))
        # metamorphic pairs evaluated on the implementation alone
        # the optional forms under a closure: `X?` keeps the input whatever the closure around it
        if rng.random() < 0.5:
            b2 = graph_body(rng)
            form = rng.choice(["(%s)?%s", "((%s)?)%s", "((%s), )%s", "(%s)?%s ", "((%s)? 0 add)%s"])
            progs.append("%s %s" % (starts, form % (b, op)))
            progs.append("%s (%s, (%s)?)%s" % (starts, b, b2, op))
            meta.append(("qmark-under-closure", "%s (%s)?%s" % (starts, b, op), "%s ((%s), )%s" % (starts, b, op)))
        meta.append(("plus", "%s (%s)+" % (starts, b), "%s (%s) (%s)*" % (starts, b, b)))
        meta.append(("qmark", "%s (%s)?" % (starts, b), "%s (%s, )" % (starts, b)))
        meta.append(("collapse", "%s (%s)%s" % (starts, b, rng.choice(["+*", "*+", "**"])), "%s (%s)*" % (starts, b)))
    stats, irecs, mrecs = zwcorr.run_programs(ctx, h, progs, theorem="ZwVerif.C10.star_distinct / engine = ZwVerif.sem",
                                             label="C10-programs")
    # exactly-once, per input, on the implementation: run each start stack separately
    dup = 0
    for p, i in zip(progs, irecs):
        if i.err or p in multi or "(0, 1)" in p or "(0, 2, 3)" in p or "(1, 1)" in p or p.startswith("(") or p.startswith("["):
            continue
        if p.rstrip().endswith(")*") or p.rstrip().endswith(")+"):
            seen = collections.Counter(NOPOS.sub("", r) for r in i.res)
            d = [k for k, v in seen.items() if v > 1]
            if d:
                dup += 1
                ctx.violation("closure yields a stack twice for one input: %r -> %r" % (p, d[:3]),
                              {"stream": "C10-exactly-once", "input": p, "got": i.res[:20],
                               "theorem": "ZwVerif.C10.star_distinct"})
    lines = []
    for kind, a, b in meta:
        lines += ["Q - " + zwcorr.hx(a), "Q - " + zwcorr.hx(b)]
    recs, crashes = h.run_impl_robust(lines)
    meta_ok = 0
    for k, (kind, a, b) in enumerate(meta):
        ra, rb = recs[2 * k], recs[2 * k + 1]
        if ra.err or rb.err:
            continue
        sa = set(NOPOS.sub("", r) for r in ra.res)
        sb = set(NOPOS.sub("", r) for r in rb.res)
        okk = (sa == sb) if kind != "qmark" else (sorted(ra.res) == sorted(rb.res))
        if kind == "collapse":
            okk = ra.res == rb.res
        if not okk:
            ctx.violation("documented equivalence (%s) fails on the implementation: %r vs %r: %r / %r"
                          % (kind, a, b, ra.res[:8], rb.res[:8]),
                          {"stream": "C10-metamorphic", "input": [a, b], "got": [ra.res[:20], rb.res[:20]],
                           "theorem": "ZwVerif.C10.suffix_* / qmark_is_alt_nop"})
        else:
            meta_ok += 1
    ctx.cov["evaluations"] = stats["programs"] + len(lines)
    ctx.cov["distinct_nontrivial"] = stats["distinct_nontrivial"]
    ctx.cov["metamorphic_pairs_ok"] = meta_ok
    ctx.cov["rule"] = ("closure bodies over finite graphs of integers modulo 3..6 (functional graphs with cycles, diamonds, "
                       "self-loops, multi-yield bodies, OR / let / capture / if / nested closures in the body), 1-3 start stacks "
                       "in a row, `*` and `+`; compared with the Lean `sem` in order; on the implementation alone: no stack "
                       "twice per input, E+ = E E* as sets, E? = (E,), E+* = E*+ = E** = E*")
    ctx.cov["input_distribution"] = {k: v for k, v in sorted(stats.items())}
    for p, i in list(zip(progs, irecs))[:3] + list(zip(progs, irecs))[-2:]:
        ctx.sample({"program": p, "impl": i.raw[:8]})
    ctx.assumptions += ["termination is observed under a per-request time budget on the harness, it is not a theorem; "
                        "completeness (every reachable stack is yielded) is checked by the correspondence, proved is "
                        "no-duplication and the seen-set / work-list invariant"]
