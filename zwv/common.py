"""Shared machinery of /verif/bin/check.

  * build of /repo's *current working tree* into /verif/build/impl-<variant>-<hash>
    (objects, libzwerg.a, dwgrep, harness binaries), keyed by a content hash of
    every input file and the flags;
  * build of the Lean project and the axiom / forbidden-token audit;
  * the model driver (zwmodel) line protocol;
  * evidence files, replay files, VIOLATION / KNOWN-FINDING lines.
"""
import concurrent.futures
import fcntl
import glob
import hashlib
import json
import os
import random
import re
import shutil
import subprocess
import sys
import time

VERIF = os.path.dirname(os.path.dirname(os.path.abspath(__file__)))
REPO = os.environ.get("ZWV_REPO", "/repo")
LEAN = os.path.join(VERIF, "lean")
BUILD = os.path.join(VERIF, "build")
EVID = os.path.join(VERIF, "evidence")
REPLAYS = os.path.join(VERIF, "replays")
NCPU = os.cpu_count() or 4
GUARD = "DWGREP_VERIF"

ALLOWED_AXIOMS = {"propext", "Classical.choice", "Quot.sound"}
FORBIDDEN = re.compile(
    r"\bsorry\b|\badmit\b|^\s*axiom\s|native_decide|bv_decide|implemented_by|"
    r"\bunsafe\s|maxHeartbeats\s+0|ofReduceBool")

TRUSTED_BASE = [
    "Lean 4.33.0 kernel (lake build); axioms allowed: propext, Classical.choice, Quot.sound; "
    "no native_decide / bv_decide / sorry / own axioms (audited every run)",
    "hand-written Lean models of the C++ units; tie to /repo's working tree = the correspondence "
    "run of this check (model driver zwmodel vs harness linked against objects compiled from "
    "/repo on this run)",
    "translators zwv/translate_*.py for Generated/*.lean tables (regenerated every run)",
    "g++ 12, flex, bison, gawk, elfutils (libdw/libelf) as installed",
]


def log(*a):
    print(*a, file=sys.stderr, flush=True)


def run(cmd, **kw):
    kw.setdefault("stdout", subprocess.PIPE)
    kw.setdefault("stderr", subprocess.STDOUT)
    kw.setdefault("text", True)
    return subprocess.run(cmd, **kw)


def sha(paths, extra=""):
    h = hashlib.sha256()
    h.update(extra.encode())
    for p in sorted(paths):
        h.update(p.encode())
        try:
            with open(p, "rb") as f:
                h.update(f.read())
        except OSError:
            h.update(b"<missing>")
    return h.hexdigest()


class Lock:
    def __init__(self, path):
        self.path = path

    def __enter__(self):
        os.makedirs(os.path.dirname(self.path), exist_ok=True)
        self.f = open(self.path, "w")
        fcntl.flock(self.f, fcntl.LOCK_EX)
        return self

    def __exit__(self, *a):
        fcntl.flock(self.f, fcntl.LOCK_UN)
        self.f.close()


# --------------------------------------------------------------------------
# implementation build

CORE_SRCS = """bindings build builtin-closure builtin-cmp builtin-cst builtin-shf builtin
constant docstring init int layout libzwerg op overload pred_result scon selector stack strip
tree tree_cr value-closure value-cst value-seq value-str value""".split()
DW_SRCS = """atval cache coverage dwcst dwfl_context dwit dwmods libzwerg-dw value-aset builtin-aset
value-dw builtin-dw builtin-dw-abbrev builtin-dw-voc value-symbol builtin-symbol""".split()

VARIANTS = {
    # asserts stay on (no -DNDEBUG): an assertion failure is an abort, which C13/C14 care about
    "plain": ["-O1", "-g", "-D" + GUARD],
    "asan": ["-O1", "-g", "-D" + GUARD, "-fsanitize=address,undefined",
             "-fno-sanitize-recover=all", "-fno-omit-frame-pointer"],
}
BASEFLAGS = ["-std=c++14", "-Wall", "-Wno-error", "-w", "-fPIC"]


def repo_inputs():
    pats = ["libzwerg/*.cc", "libzwerg/*.hh", "libzwerg/*.h", "libzwerg/*.yy", "libzwerg/*.ll",
            "dwgrep/*.cc", "dwgrep/*.hh", "known-dwarf.awk", "known-elf.awk", "version.h.in",
            "VERSION.cmake"]
    out = []
    for p in pats:
        out += glob.glob(os.path.join(REPO, p))
    return sorted(out)


class Impl:
    """A build of /repo's working tree."""

    def __init__(self, variant="plain"):
        self.variant = variant
        self.flags = BASEFLAGS + VARIANTS[variant]
        self.hash = sha(repo_inputs() + ["/usr/include/dwarf.h", "/usr/include/elf.h"],
                        " ".join(self.flags))[:16]
        self.dir = os.path.join(BUILD, "impl-%s-%s" % (variant, self.hash))
        self.lib = os.path.join(self.dir, "libzwerg.a")
        self.dwgrep = os.path.join(self.dir, "dwgrep")
        self.incs = ["-I" + os.path.join(REPO, "libzwerg"), "-I" + self.dir, "-I" + REPO]
        self.log = ""

    def ensure(self):
        """Build if not cached.  Returns (ok, log)."""
        with Lock(os.path.join(BUILD, ".lock-" + self.variant)):
            if os.path.exists(os.path.join(self.dir, ".done")):
                return True, "cached " + self.dir
            self._prune()
            ok, out = self._build()
            if ok:
                open(os.path.join(self.dir, ".done"), "w").write("ok\n")
            self.log = out
            return ok, out

    def _prune(self):
        old = sorted(glob.glob(os.path.join(BUILD, "impl-%s-*" % self.variant)),
                     key=os.path.getmtime)
        for d in old[:-1]:
            if d != self.dir:
                shutil.rmtree(d, ignore_errors=True)

    def _build(self):
        d = self.dir
        shutil.rmtree(d, ignore_errors=True)
        os.makedirs(d)
        lz = os.path.join(REPO, "libzwerg")
        logs = []

        def sh(cmd, cwd=None, outfile=None):
            if outfile:
                with open(outfile, "w") as f:
                    r = subprocess.run(cmd, cwd=cwd, stdout=f, stderr=subprocess.PIPE, text=True)
                logs.append(r.stderr or "")
            else:
                r = run(cmd, cwd=cwd)
                logs.append(r.stdout or "")
            return r.returncode == 0

        ok = sh(["bison", "-d", "-o", os.path.join(d, "parser.cc"), "parser.yy"], cwd=lz)
        ok = ok and sh(["flex", "--header-file=" + os.path.join(d, "lexer.hh"),
                        "-o" + os.path.join(d, "lexer.cc"), "lexer.ll"], cwd=lz)
        ok = ok and sh(["gawk", "-f", os.path.join(REPO, "known-dwarf.awk"),
                        "/usr/include/dwarf.h"], outfile=os.path.join(d, "known-dwarf.h"))
        ok = ok and sh(["gawk", "-f", os.path.join(REPO, "known-elf.awk"),
                        "/usr/include/elf.h"], outfile=os.path.join(d, "known-elf.h"))
        if not ok:
            return False, "\n".join(logs)
        ver = open(os.path.join(REPO, "VERSION.cmake")).read()
        maj = re.search(r'DWGREP_MAJOR "(\d+)"', ver).group(1)
        mnr = re.search(r'DWGREP_MINOR "(\d+)"', ver).group(1)
        vh = open(os.path.join(REPO, "version.h.in")).read()
        vh = vh.replace("@DWGREP_MAJOR@", maj).replace("@DWGREP_MINOR@", mnr)
        open(os.path.join(d, "version.h"), "w").write(vh)

        jobs = []
        for s in CORE_SRCS + DW_SRCS:
            jobs.append((os.path.join(lz, s + ".cc"), os.path.join(d, s + ".o")))
        jobs.append((os.path.join(d, "parser.cc"), os.path.join(d, "parser.o")))
        jobs.append((os.path.join(d, "lexer.cc"), os.path.join(d, "lexer.o")))
        jobs.append((os.path.join(REPO, "dwgrep", "dwgrep.cc"), os.path.join(d, "cli-dwgrep.o")))
        jobs.append((os.path.join(REPO, "dwgrep", "options.cc"), os.path.join(d, "cli-options.o")))

        def cc(job):
            src, obj = job
            r = run(["g++"] + self.flags + self.incs + ["-c", src, "-o", obj])
            return r.returncode, src, r.stdout

        with concurrent.futures.ThreadPoolExecutor(NCPU) as ex:
            res = list(ex.map(cc, jobs))
        bad = [(s, o) for rc, s, o in res if rc != 0]
        if bad:
            return False, "\n".join("compile failed: %s\n%s" % b for b in bad)
        objs = [o for _, o in jobs if not os.path.basename(o).startswith("cli-")]
        r = run(["ar", "rcs", self.lib] + objs)
        if r.returncode != 0:
            return False, r.stdout
        r = run(["g++"] + self.flags + ["-o", self.dwgrep, os.path.join(d, "cli-dwgrep.o"),
                                       os.path.join(d, "cli-options.o"),
                                       "-Wl,--whole-archive", self.lib, "-Wl,--no-whole-archive",
                                       "-ldw", "-lelf"])
        if r.returncode != 0:
            return False, r.stdout
        return True, "built " + d

    def objs(self, names):
        return [os.path.join(self.dir, n + ".o") for n in names]

    def harness(self, name, link_lib=True, extra=()):
        """Compile /verif/harness/<name>.cc against this build."""
        src = os.path.join(VERIF, "harness", name + ".cc")
        hdrs = glob.glob(os.path.join(VERIF, "harness", "*.hh"))
        hh = sha([src] + hdrs, " ".join(extra))[:12]
        out = os.path.join(self.dir, "h-%s-%s" % (name, hh))
        with Lock(os.path.join(self.dir, ".lock-h-" + name)):
            if os.path.exists(out):
                return out, ""
            cmd = ["g++"] + self.flags + self.incs + ["-I" + os.path.join(VERIF, "harness")] + \
                list(extra) + ["-o", out + ".tmp", src]
            if link_lib:
                cmd += ["-Wl,--whole-archive", self.lib, "-Wl,--no-whole-archive", "-ldw", "-lelf"]
            r = run(cmd)
            if r.returncode != 0:
                return None, r.stdout
            os.rename(out + ".tmp", out)
            return out, r.stdout


# --------------------------------------------------------------------------
# Lean side

def write_if_changed(path, content):
    try:
        if open(path).read() == content:
            return False
    except OSError:
        pass
    os.makedirs(os.path.dirname(path), exist_ok=True)
    with open(path, "w") as f:
        f.write(content)
    return True


def lake_build(targets):
    """Build lake targets.  Returns (ok, output)."""
    with Lock(os.path.join(BUILD, ".lock-lake")):
        r = run(["lake", "build"] + list(targets), cwd=LEAN)
    return r.returncode == 0, r.stdout


def zwmodel_path():
    return os.path.join(LEAN, ".lake", "build", "bin", "zwmodel")


def strip_comments(src):
    # nested block comments are rare in our sources; handle one level + line comments
    src = re.sub(r"/-.*?-/", "", src, flags=re.S)
    src = re.sub(r"--.*", "", src)
    return src


def lean_modules_of(module):
    """Transitive closure of ZwVerif.* imports of a module (by reading sources)."""
    seen, todo = [], [module]
    while todo:
        m = todo.pop()
        if m in seen:
            continue
        p = os.path.join(LEAN, m.replace(".", "/") + ".lean")
        if not os.path.exists(p):
            continue
        seen.append(m)
        for mm in re.findall(r"^import\s+((?:ZwVerif|Driver)\.[\w.]+)", open(p).read(), flags=re.M):
            todo.append(mm)
    return seen


def audit_tokens(modules):
    bad = []
    for m in modules:
        p = os.path.join(LEAN, m.replace(".", "/") + ".lean")
        src = strip_comments(open(p).read())
        for i, line in enumerate(src.split("\n")):
            if FORBIDDEN.search(line):
                bad.append("%s:%d: %s" % (p, i + 1, line.strip()))
    return bad


def audit_axioms(module, theorems):
    """Returns {theorem: [axioms]} using `#print axioms`; missing theorem -> None."""
    mods = [module] if isinstance(module, str) else list(module)
    module = mods[0]
    body = "".join("import %s\n" % m for m in mods) + "".join("#print axioms %s\n" % t for t in theorems)
    path = os.path.join(BUILD, "audit-%s-%d.lean" % (module.replace(".", "_"), os.getpid()))
    os.makedirs(BUILD, exist_ok=True)
    open(path, "w").write(body)
    r = run(["lake", "env", "lean", path], cwd=LEAN)
    os.unlink(path)
    out = {}
    txt = r.stdout
    for t in theorems:
        m = re.search(r"'%s' depends on axioms: \[([^\]]*)\]" % re.escape(t), txt, flags=re.S)
        if m:
            out[t] = [a.strip() for a in m.group(1).replace("\n", " ").split(",") if a.strip()]
        elif re.search(r"'%s' does not depend on any axioms" % re.escape(t), txt):
            out[t] = []
        else:
            out[t] = None
    return out, txt


def run_model(lines, timeout=3600):
    """Feed protocol lines to the compiled model driver; returns list of output lines."""
    exe = zwmodel_path()
    p = subprocess.run([exe], input="\n".join(lines) + "\n", stdout=subprocess.PIPE,
                       stderr=subprocess.PIPE, text=True, timeout=timeout)
    if p.returncode != 0:
        raise RuntimeError("zwmodel failed rc=%d: %s" % (p.returncode, p.stderr[-2000:]))
    return p.stdout.split("\n")[:-1] if p.stdout.endswith("\n") else p.stdout.split("\n")


def run_lines(exe, lines, timeout=3600, env=None, args=()):
    p = subprocess.run([exe] + list(args), input="\n".join(lines) + "\n", stdout=subprocess.PIPE,
                       stderr=subprocess.PIPE, text=True, errors="replace", timeout=timeout, env=env)
    out = p.stdout.split("\n")
    if out and out[-1] == "":
        out = out[:-1]
    return p.returncode, out, p.stderr


# --------------------------------------------------------------------------
# check context

class Abort(Exception):
    """raised by a check to stop early once what it found is reported (e.g. the implementation hangs on everything)"""


class Ctx:
    def __init__(self, prop, tier, seed, replay=None):
        self.prop = prop
        self.tier = tier
        self.seed = seed
        self.replay = replay
        self.rng = random.Random((seed << 8) ^ int(hashlib.sha256(prop.encode()).hexdigest()[:8], 16))
        self.t0 = time.time()
        self.violations = []       # (what, replay_path, found_input: bool)
        self.known_seen = []
        self.cov = {"samples": [], "trusted_base": list(TRUSTED_BASE)}
        self.assumptions = []
        self.obligations = []      # (name, discharged: bool)
        self.known = [k for k in load_known() if k.get("property") == prop and k.get("kind") == "known"]
        self._nrep = 0
        self.impl_cache = {}

    # -- builds
    def impl(self, variant="plain"):
        if variant not in self.impl_cache:
            im = Impl(variant)
            ok, out = im.ensure()
            if not ok:
                # The tree does not compile: nothing can be checked.
                self.fail_hard("implementation build failed (%s):\n%s" % (variant, out[-4000:]))
            self.impl_cache[variant] = im
            self.cov.setdefault("impl_build", {})[variant] = im.hash
        return self.impl_cache[variant]

    def harness(self, name, variant="plain", **kw):
        im = self.impl(variant)
        exe, out = im.harness(name, **kw)
        if exe is None:
            self.fail_hard("harness %s does not compile against the working tree:\n%s" % (name, out[-4000:]))
        return exe

    def fail_hard(self, msg):
        log(msg)
        path = self.write_replay({"kind": "build-failure", "detail": msg[-4000:],
                                  "broken": "build of /repo working tree or harness"})
        print("VIOLATION property=%s replay=%s no-failing-input-found" % (self.prop, path))
        self.violations.append(("build failure", path, False))
        self.write_evidence()
        sys.exit(1)

    # -- proof side
    def prove(self, module, theorems, extra_targets=()):
        """lake build the property module, audit tokens + axioms.  Records obligations.
        Returns True iff everything is discharged."""
        try:
            from . import translate
            translate.generate_all()           # Generated/*.lean always reflect /repo's working tree
        except Exception as e:                 # the source no longer has the shape the translator reads
            for t in theorems:
                self.obligations.append((t, False))
            self.proof_broken(module, "translator failed: %s" % e, repr(e))
            return False
        ok, out = lake_build([module, "zwmodel"] + list(extra_targets))
        self.cov["checker_cmd"] = ("cd /verif/lean && lake build %s zwmodel && lake env lean <#print axioms of "
                                   "each property theorem>; grep audit for sorry/admit/axiom/native_decide/"
                                   "bv_decide/implemented_by/unsafe" % module)
        if not ok:
            m = re.search(r"error: ([^\n]*)", out)
            first = m.group(1) if m else "lake build failed"
            for t in theorems:
                self.obligations.append((t, False))
            self.proof_broken(module, "lake build failed: " + first, out[-6000:])
            return False
        mods = lean_modules_of(module)
        for et in extra_targets:
            if et.startswith("ZwVerif."):
                mods += [m for m in lean_modules_of(et) if m not in mods]
        bad = audit_tokens(mods)
        ax, txt = audit_axioms([module] + [e for e in extra_targets if e.startswith("ZwVerif.")], theorems)
        allok = True
        axrep = {}
        for t in theorems:
            a = ax.get(t)
            good = a is not None and set(a) <= ALLOWED_AXIOMS and not bad
            self.obligations.append((t, good))
            axrep[t] = a
            allok = allok and good
        self.cov["axioms"] = axrep
        self.cov["lean_modules_audited"] = mods
        if self.tier == "thorough" and allok:
            # the toolchain's independent re-checker replays the compiled declarations of the property modules
            rechecked = []
            for m in [module] + [e for e in extra_targets if e.startswith("ZwVerif.")]:
                r = run(["lake", "env", "leanchecker", m], cwd=LEAN)
                if r.returncode != 0:
                    allok = False
                    self.proof_broken(m, "leanchecker rejects the compiled module", (r.stdout or "")[-3000:])
                    break
                rechecked.append(m)
            self.cov["leanchecker_replayed"] = rechecked
        if bad:
            self.proof_broken(module, "forbidden token in proof sources: " + "; ".join(bad[:5]), "")
        elif not allok:
            self.proof_broken(module, "axiom audit failed: %r" % {t: a for t, a in axrep.items()
                                                                 if a is None or not set(a) <= ALLOWED_AXIOMS}, txt[-3000:])
        return allok

    def proof_broken(self, module, what, detail):
        self.broken_proof = (module, what, detail)
        log("PROOF BROKEN in %s: %s" % (module, what))

    # -- results
    def write_replay(self, obj):
        os.makedirs(REPLAYS, exist_ok=True)
        self._nrep += 1
        path = os.path.join(REPLAYS, "%s-%s-%d-%d.json" % (self.prop, self.tier, self.seed, self._nrep))
        obj = dict(obj)
        obj.setdefault("property", self.prop)
        obj.setdefault("seed", self.seed)
        obj.setdefault("tier", self.tier)
        with open(path, "w") as f:
            json.dump(obj, f, indent=1, sort_keys=True, default=str)
        return path

    def matches_known(self, finding_key):
        for k in self.known:
            if k.get("match") == finding_key:
                return k
        return None

    def violation(self, what, replay, found_input=True, finding_key=None):
        """Report a violation (or a known finding if it matches the committed list)."""
        if finding_key is not None:
            k = self.matches_known(finding_key)
            if k is not None:
                if k["id"] not in [x["id"] for x in self.known_seen]:
                    self.known_seen.append(k)
                    print("KNOWN-FINDING: property=%s %s" % (self.prop, k["what"]))
                return
        if len(self.violations) >= 5:
            self.violations.append((what, None, found_input))
            return
        path = self.write_replay(dict(replay, what=what, found_failing_input=found_input))
        tail = "" if found_input else " no-failing-input-found"
        print("VIOLATION property=%s replay=%s%s" % (self.prop, path, tail), flush=True)
        log("  -> " + what)
        self.violations.append((what, path, found_input))

    def sample(self, s, limit=6):
        if len(self.cov["samples"]) < limit:
            self.cov["samples"].append(s)

    def write_evidence(self):
        os.makedirs(EVID, exist_ok=True)
        cov = dict(self.cov)
        cov["obligations"] = len(self.obligations)
        cov["discharged"] = sum(1 for _, d in self.obligations if d)
        cov["obligation_names"] = [n for n, _ in self.obligations]
        cov.setdefault("checker_cmd", "cd /verif/lean && lake build")
        cov["known_findings_seen"] = [k["id"] for k in self.known_seen]
        # obligations are cases of a proof-level run too
        cov["samples"] = list(cov["samples"]) + [{"obligation": n, "discharged": d} for n, d in self.obligations[:3]]
        if not cov["samples"]:
            cov["samples"] = ["(no correspondence samples recorded)"]
        ev = {
            "property_id": self.prop,
            "tier": self.tier,
            "seed": self.seed,
            "level": "proof",
            "coverage": cov,
            "assumptions": self.assumptions,
            "wall_s": round(time.time() - self.t0, 2),
            "violations": len(self.violations),
        }
        with open(os.path.join(EVID, self.prop + ".json"), "w") as f:
            json.dump(ev, f, indent=1, sort_keys=True, default=str)

    def finish(self):
        bp = getattr(self, "broken_proof", None)
        if bp is not None and not any(v[2] for v in self.violations):
            # proof obligation broken, the search did not find a failing input
            path = self.write_replay({"kind": "proof-broken", "module": bp[0], "what": bp[1],
                                      "detail": bp[2]})
            print("VIOLATION property=%s replay=%s no-failing-input-found" % (self.prop, path))
            self.violations.append((bp[1], path, False))
        self.write_evidence()
        if self.violations:
            sys.exit(1)
        log("%s %s: ok (%.1fs)" % (self.prop, self.tier, time.time() - self.t0))
        sys.exit(0)


def load_known():
    p = os.path.join(VERIF, "known_findings.json")
    try:
        return json.load(open(p))["findings"]
    except OSError:
        return []
