"""C08 — integer arithmetic is exact over [-2^63, 2^64-1] or reports an error.

Proof:   ZwVerif/Props/C08.lean over the model ZwVerif/Model/Int64.lean (a branch-for-branch
         transcription of libzwerg/int.cc).
Tie:     correspondence — harness/intharness.cc (includes the working tree's int.cc through
         the freshly built objects) and the compiled model driver are fed the same operand
         pairs; results are compared *including the internal representation*.
Search:  on a mismatch, the implementation's answer is compared with the exact-arithmetic
         spec computed by the driver (Lean `Int`) and re-computed here with Python ints.
"""
from . import common

M64 = 1 << 64
H63 = 1 << 63
OPS2 = ["add", "sub", "mul", "div", "mod"]
CMPS = ["lt", "le", "gt", "ge", "eq", "ne"]

THEOREMS = ["ZwVerif.C08." + t for t in
            ["add_exact", "sub_exact", "mul_exact", "neg_exact", "div_floor", "mod_floor",
             "mod_never_overflows", "lt_iff", "le_iff", "gt_iff", "ge_iff", "eq_iff", "ne_iff",
             "exact_iff"]]


def reps(v):
    """all representations (u, sign) of the integer v"""
    if v < 0:
        return [(v + M64, 1)]
    if v < H63:
        return [(v, 0), (v, 1)]
    return [(v, 0)]


def lattice(ks):
    vals = set([0, 1, -1, 2, -2, 3, -3, 10, -10, H63 - 1, -H63, -H63 + 1, M64 - 1, M64 - 2, H63, H63 + 1])
    for k in ks:
        for d in (-1, 0, 1):
            for s in (1, -1):
                v = s * (1 << k) + d
                if -H63 <= v < M64:
                    vals.add(v)
    out = []
    for v in sorted(vals):
        out += reps(v)
    return out


def den(u, s):
    return u - M64 if (s and u >= H63) else u


def spec(op, a, b):
    """exact-arithmetic oracle (Python ints; floor division and modulo are Python's)"""
    x, y = den(*a), den(*b)
    if op in ("div", "mod") and y == 0:
        return "err div0"
    if op == "add": r = x + y
    elif op == "sub": r = x - y
    elif op == "mul": r = x * y
    elif op == "div": r = x // y
    elif op == "mod": r = x % y
    elif op == "neg": r = -x
    else:
        r = {"lt": x < y, "le": x <= y, "gt": x > y, "ge": x >= y, "eq": x == y, "ne": x != y}[op]
        return "b %d" % (1 if r else 0)
    if -H63 <= r < M64:
        return "val %d" % r
    return "err overflow"


def impl_as_spec(line):
    """map an implementation answer to the spec vocabulary"""
    w = line.split()
    if w[0] == "ok":
        return "val %d" % den(int(w[1]), int(w[2]))
    return line


def literals(ctx, values):
    """integer literals through the real parser: every lattice value and its neighbours outside the range, in the four
    notations and with a sign; in range -> exactly that value in the notation's domain, else rejected"""
    from . import zwcorr, dwcorr
    vals = sorted(set(values) | {-H63 - 1, -H63 - 2, M64, M64 + 1, -M64, -M64 + 1, 2 * M64, -(M64 - 1), -(H63 + 1), 10 ** 30, -10 ** 30})
    progs = []
    for v in vals:
        sg = "-" if v < 0 else ""
        a = abs(v)
        for dom, txt in (("dec", "%s%d" % (sg, a)), ("hex", "%s0x%x" % (sg, a)), ("hex", "%s0X%X" % (sg, a)), ("oct", "%s0%o" % (sg, a)),
                         ("bin", "%s0b%s" % (sg, bin(a)[2:]))):
            if dom == "oct" and a == 0:
                continue
            progs.append((txt, dom, v))
    h = zwcorr.Harness(ctx)
    recs, crashes = h.run_impl_robust(["Q - %s" % zwcorr.hx(t) for t, _, _ in progs])
    if crashes:
        ctx.violation("the parser crashed on an integer literal: %r" % (crashes[:2],), {"stream": "literal", "input": [t for t, _, _ in progs][:5]})
        return 0
    bad = 0
    for (txt, dom, v), r in zip(progs, recs):
        inrange = -H63 <= v < M64
        if inrange:
            got = dwcorr.parse_vals(r.res[0]) if (r.err is None and len(r.res) == 1) else None
            if got != [("c", dom, v)]:
                bad += 1
                ctx.violation("integer literal `%s` (= %d, in range) yields %r%s" % (txt, v, got if got is not None else r.res, " error " + r.err if r.err else ""),
                              {"stream": "literal", "input": txt, "expected": [dom, v], "got": repr(got), "theorem": "ZwVerif.C08.exact_iff"})
        elif r.err is None:
            bad += 1
            ctx.violation("integer literal `%s` (= %d, outside [-2^63, 2^64-1]) is accepted and yields %r" % (txt, v, r.res[:1]),
                          {"stream": "literal", "input": txt, "expected": "error", "got": r.res[:1], "theorem": "ZwVerif.C08.exact_iff"})
        if bad > 10:
            break
    return len(progs)


def words(ctx, values):
    """the Zwerg words add / sub / mul / div / mod and the comparisons on literal operands through the real engine
    (value-cst.cc's operators sit between the parser and int.cc): exact result or an error, nothing else"""
    from . import zwcorr, dwcorr
    rng = ctx.rng
    vals = [v for v in values if -H63 <= v < M64]
    edge = [v for v in vals if abs(v) <= 3 or abs(abs(v) - H63) <= 2 or abs(abs(v) - M64) <= 2 or abs(v) in (1 << 32, (1 << 32) - 1)]
    pairs = [(a, b) for a in edge for b in edge]
    pairs += [(rng.choice(vals), rng.choice(vals)) for _ in range(300 if ctx.tier == "quick" else 20000)]
    if ctx.tier == "quick":
        pairs = rng.sample(pairs, min(len(pairs), 900))

    def lit(v):
        # unsigned values above 2^63 can only be written as such; others in either notation
        return str(v) if rng.random() < 0.7 or v < 0 else "0x%x" % v
    progs, want = [], []
    for a, b in pairs:
        for op in rng.sample(OPS2, 2) + [rng.choice(CMPS)]:
            la, lb = lit(a), lit(b)
            if op in OPS2:
                progs.append("%s %s %s value" % (la, lb, op))      # `value` drops the domain: the number is what is compared
                if op in ("div", "mod") and b == 0:
                    want.append("err")
                else:
                    r = {"add": a + b, "sub": a - b, "mul": a * b, "div": a // b if b else 0, "mod": a % b if b else 0}[op]
                    want.append(r if -H63 <= r < M64 else "err")
            else:
                progs.append("%s %s ?%s" % (la, lb, op))
                want.append({"lt": a < b, "le": a <= b, "gt": a > b, "ge": a >= b, "eq": a == b, "ne": a != b}[op])
    h = zwcorr.Harness(ctx)
    recs, crashes = h.run_impl_robust(["Q - " + zwcorr.hx(p) for p in progs])
    bad = 0
    for p, w, r in zip(progs, want, recs):
        if r.err in ("crash", "skipped"):
            ctx.violation("the library crashed on %r" % p, {"stream": "int-words", "input": p})
            bad += 1
        elif isinstance(w, bool):
            got = len(r.res) > 0 if not r.err else r.err
            if got != w:
                bad += 1
                ctx.violation("`%s` %s, mathematical order says %s" % (p, "holds" if got is True else "does not hold" if got is False else got, w),
                              {"stream": "int-words", "input": p, "expected": w, "got": got, "theorem": "ZwVerif.C08.lt_iff"})
        elif w == "err":
            if r.res or not (r.err or r.soft):       # reported as a diagnostic (the stack is dropped) or as a run-time error
                bad += 1
                ctx.violation("`%s` yields %r, but the exact result is not representable (or the divisor is zero): an error is due" % (p, r.res[:1]),
                              {"stream": "int-words", "input": p, "expected": "error", "got": r.res[:1], "theorem": "ZwVerif.C08.exact_iff"})
        else:
            vals_ = dwcorr.parse_vals(r.res[0]) if r.res and not r.err else []
            got = vals_[-1][2] if vals_ and vals_[-1][0] == "c" else (r.err or r.res)
            if got != w:
                bad += 1
                ctx.violation("`%s` yields %r, exact arithmetic says %d" % (p, got, w),
                              {"stream": "int-words", "input": p, "expected": w, "got": repr(got), "theorem": "ZwVerif.C08.sub_exact"})
        if bad > 10:
            break
    return len(progs)


def run(ctx):
    proved = ctx.prove("ZwVerif.Props.C08", THEOREMS)
    exe = ctx.harness("intharness", link_lib=True)

    rng = ctx.rng
    if ctx.tier == "quick":
        lat = lattice([0, 1, 2, 7, 8, 31, 32, 33, 62, 63, 64])
        nrand = 60000
    else:
        lat = lattice(range(0, 65))
        nrand = 1500000
    cases = []
    corpus = [("div", (H63, 1), (M64 - 1, 0)), ("mod", (M64 - 1, 1), (M64 - 1, 0)), ("neg", (5, 1), (0, 0)),
              ("mod", (H63, 1), (3, 0)), ("div", (M64 - 1, 0), (M64 - 2, 1)), ("div", (M64 - 1, 0), (M64 - 1, 1))]
    cases += corpus
    for a in lat:
        cases.append(("neg", a, (0, 0)))
        for b in lat:
            for op in OPS2 + CMPS:
                cases.append((op, a, b))

    def rnd():
        k = rng.choice([1, 8, 16, 31, 32, 33, 62, 63, 64, 64, 64])
        u = rng.getrandbits(k)
        if rng.random() < 0.2:
            u = (M64 - u) % M64
        return (u, rng.randint(0, 1))
    allops = OPS2 + CMPS + ["neg"]
    for _ in range(nrand):
        cases.append((rng.choice(allops), rnd(), rnd()))

    if ctx.replay:
        import json
        rp = json.load(open(ctx.replay))
        c = rp.get("input")
        cases = [(c[0], tuple(c[1]), tuple(c[2]))] if c else cases[:1000]

    lines = ["%s %d %d %d %d" % (op, a[0], a[1], b[0], b[1]) for op, a, b in cases]
    rc, impl_out, err = common.run_lines(exe, lines)
    model_out = common.run_model(["N " + l for l in lines])
    if rc != 0 or len(impl_out) != len(lines):
        # the harness died: find the line it died on
        idx = len(impl_out)
        ctx.violation("intharness aborted (rc=%d) at input %r: %s" % (rc, lines[min(idx, len(lines) - 1)], err[-500:]),
                      {"stream": "int", "input": cases[min(idx, len(cases) - 1)], "stderr": err[-2000:]},
                      found_input=True)
        ctx.cov["evaluations"] = idx
        return
    assert len(model_out) == len(lines), (len(model_out), len(lines))

    dist = {}
    distinct = set()
    mism = 0
    for case, io, mo in zip(cases, impl_out, model_out):
        op, a, b = case
        mres, mspec = [x.strip() for x in mo.split("|")]
        pspec = spec(op, a, b)
        kind = io.split()[0] + (" " + io.split()[1] if io.startswith("err") else "")
        dist[(op, kind)] = dist.get((op, kind), 0) + 1
        if den(*a) not in (0, 1) or den(*b) not in (0, 1):
            distinct.add(case)
        if mspec != pspec:
            # the two spec oracles (Lean Int / Python int) disagree: machinery defect, be loud
            ctx.violation("spec oracles disagree on %r: lean %r python %r" % (case, mspec, pspec),
                          {"stream": "int", "input": case}, found_input=False)
            continue
        got = impl_as_spec(io)
        if got != pspec:
            ctx.violation("int.cc: %s %r %r = %r, exact arithmetic says %r" % (op, a, b, io, pspec),
                          {"stream": "int", "input": case, "expected": pspec, "got": io, "model": mres,
                           "theorem": "ZwVerif.C08.%s" % {"add": "add_exact", "sub": "sub_exact", "mul": "mul_exact",
                                                        "div": "div_floor", "mod": "mod_floor", "neg": "neg_exact"}.get(op, op + "_iff")},
                          found_input=True)
            mism += 1
        elif io != mres:
            mism += 1
            ctx.violation("correspondence broken (representation only): %s %r %r impl %r model %r; value still exact"
                          % (op, a, b, io, mres),
                          {"stream": "int", "input": case, "got": io, "model": mres,
                           "correspondence": "intharness vs ZwVerif.Model.Int64"}, found_input=False)
        if mism > 20:
            break
    nlit = literals(ctx, sorted(set(den(*a) for a in lat)))
    ctx.cov["literals_checked"] = nlit
    nwords = words(ctx, sorted(set(den(*a) for a in lat)))
    ctx.cov["word_level_operations_checked"] = nwords
    ctx.cov["evaluations"] = len(cases) + nlit + nwords
    ctx.cov["distinct_nontrivial"] = len(distinct)
    ctx.cov["rule"] = ("boundary lattice (0, ±1, ±2, 2^k, 2^k±1, INT64_MIN/MAX, UINT64_MAX, every non-negative value "
                       "below 2^63 in both representations) × itself × {add,sub,mul,div,mod,6 comparisons} + unary minus, "
                       "plus seeded random operands; non-trivial = an operand other than 0/1; distinct = distinct (op,a,b)")
    ctx.cov["input_distribution"] = {"%s/%s" % k: v for k, v in sorted(dist.items())}
    ctx.cov["lattice_representations"] = len(lat)
    ctx.cov["exhaustive"] = False
    for c, io, mo in list(zip(cases, impl_out, model_out))[:3] + list(zip(cases, impl_out, model_out))[-2:]:
        ctx.sample({"input": c, "impl": io, "model|spec": mo})
    ctx.assumptions += ["g++ implements uint64_t/int64_t arithmetic as two's complement wrap-around (model makes the "
                        "wrap explicit); signed overflow UB is not modelled — the asan/ubsan tier observes it"]
