"""C01 — each construct acts on every input stack independently (stream semantics)."""
from . import common, zwcorr, gen

THEOREMS = ["ZwVerif.C01." + t for t in
            ["sem_perframe", "stream_is_concat", "later_inputs_unaffected", "rotate_perm", "rot_lt",
             "rot_first_input", "rotate_zero", "posMap_pos", "capture_order"]]
# the op_merge / op_tine machine refines the ALT rule (relational model of op.cc's next functions)
MERGE_THEOREMS = ["ZwVerif.Merge." + t for t in
                  ["merge_refines", "merge_reusable", "merge_only_behaviour", "merge_det", "drain_det", "firstBranch_eq",
                   "spec_by_index", "spec_single", "table_distinct", "table_surj"]] + \
    ["ZwVerif.OrOp." + t for t in ["or_refines", "firstResults_is_first_branch", "drain_pend", "drain_miss"]]

# stages compose: for every upstream machine, an operator that feeds a chain yields per item what the chain yields; chains compose
PIPE_THEOREMS = ["ZwVerif.Pipe." + t for t in
                 ["nest_refines", "nest_only_behaviour", "nest_det", "pipeline_refines", "pipeline_only_behaviour", "comp_f",
                  "comp_assoc_f", "three_stage_pipeline", "drain_det", "listSrc_drain", "nestNum_refines", "stringerChain_f", "format_refines"]]

CORPUS = [
    "(1, 2) ((3, 4) || 5)", "(1,2) (let A := (3,4); A)", "(1,2) ((3,4) dup, 5)", "[(1,2) (3,4)]",
    "[(1,2,3) (10,20,30) add]", "(1,2,3)", "[1, 2, 3] elem", "[1, 2, 3] relem", '"abc" elem', '"abc" relem',
    "(1,2) (?(3 ?lt) (1 add, 2 add))*", '(1,2) "%( (3,4) %)"', "(1,2) if (?(1 ?eq)) then ((3,4)) else (5)",
    "(1,2) [(3,4)]", "(1,2) ?((3,4))", "(1,2) ((3,4) == 3)", "(1,2,3) (|A| A (10, [5,1]))",
    '("a","b","c") [[]] "%( [4] %)b " (?(length), (2, ["a"], 0), 4)',
    # a multi-valued splice with a long tail that holds another splice (the tail is shared by all its results)
    '"%( 1,2 %) is smaller than %( 5 %)"', '(7,8) "%( 1,2,3 %) -- a tail of some length %( (5,6) %) and more text after it"',
    # sequences are values: a copy appended to leaves the other copies alone
    "(1,2) [] swap (|X| [X]) add", "let A := [0]; (1,2) (|X| A [X] add)", "[0] (|A| A [1] add, A)", "[0] (|A| (A [1] add, A [2] add, A))",
]

# nesting templates: an ALT inside each kind of sub-expression context, fed several inputs
TEMPLATES = [
    "{S} ({A} || {B})", "{S} 0 (?(4 ?lt) {N})*", "{S} 1 (?(5 ?lt) {N})+", "{S} let X := {A}; X", "{S} \"%( {A} %)\"",
    "{S} if ({A}) then ({B}) else ({C})", "{S} [{A}]", "{S} ?({A})", "{S} !({A})", "{S} ({A}, {B})",
    "{S} ({A} {B}, {C})", "{S} ({A}) ({B})", "{S} (|X| X {A})", "{S} ({A} == {B})", "{S} ({A})? {B}",
    "{S} {{ {A} }} apply", "{S} let F := {{ {A} }}; F", "{S} (({A}, {B}), {C}) ({A}, {B})",
    '{S} "%( {A} %){T}%( {B} %)"', '{S} "{T}%( {A} %){T}%( {B} %){T}"', '{S} "%( {A} %){T}"',
    "let L := [{A}]; {S} (|X| L [X] add)", "{S} [] swap (|X| [X]) add", "[{A}] (|L| (L [{B}] add, L, L [{C}] add))",
    "{S} [{A}] (|X L| (L [X] add, L))", "let L := [{A}]; {S} (L [{B}] add, L) length",
]


def templated(g, rng):
    def alt():
        n = rng.randint(2, 3)
        return "(" + ", ".join(g.lit(rng.choice("cs"))[0] for _ in range(n)) + ")"
    def piece():
        c = rng.random()
        if c < 0.5:
            return alt()
        if c < 0.7:
            return alt() + " " + alt()
        t, _, _ = g.seq(["c"], [], 2, rng.randint(1, 2))
        return t
    t = rng.choice(TEMPLATES)
    step = rng.choice(["(1 add, 2 add)", "1 add (, 1 add)", "(1 add || 2 add)", "let Z := (1, 2); Z add", "[1 add] elem",
                       '"%( 1 add %)" length 1 add', "if (?(2 ?lt)) then ((1 add, 3 add)) else (1 add)"])
    tail = "".join(rng.choice(" abcxyz-:") for _ in range(rng.choice([0, 1, 5, 14, 15, 16, 17, 20, 24, 30, 31, 40])))
    return t.format(T=tail, S=alt() if rng.random() < 0.8 else alt() + " " + alt(), A=piece(), B=piece(), C=piece(), N=step)


def run(ctx):
    ctx.prove("ZwVerif.Props.C01", THEOREMS + MERGE_THEOREMS + PIPE_THEOREMS,
              extra_targets=["ZwVerif.Props.C01Merge", "ZwVerif.Props.C01Or", "ZwVerif.Props.C01Pipe"])
    h = zwcorr.Harness(ctx)
    rng = ctx.rng
    n = 1500 if ctx.tier == "quick" else 40000
    g = gen.Gen(rng, maxdepth=4)
    progs = list(CORPUS)
    if ctx.replay:
        import json
        progs = [json.load(open(ctx.replay))["input"]]
        n = 0
    for _ in range(n // 3):
        progs.append(templated(g, rng))
    for _ in range(n - n // 3):
        progs.append(g.program())
    stats, irecs, mrecs = zwcorr.run_programs(
        ctx, h, progs, theorem="ZwVerif.C01.stream_is_concat / engine = ZwVerif.sem",
        ordered_matters=zwcorr.single_input_documented_order, label="C01-programs")
    ctx.cov["evaluations"] = stats["programs"]
    ctx.cov["distinct_nontrivial"] = stats["distinct_nontrivial"]
    ctx.cov["rule"] = ("generated Zwerg programs (type-directed random generator + nesting templates that put an ALT into every "
                       "kind of sub-expression context behind a multi-stack stream + corpus of past failures), run on the "
                       "working tree's engine and on the Lean `sem`; compared: result stacks with values, domains and positions, "
                       "in order; soft-error classes as a multiset; error class.  non-trivial = program whose run the model "
                       "predicts and that yields a result or an error")
    ctx.cov["input_distribution"] = {k: v for k, v in sorted(stats.items())}
    ctx.cov["generator_productions"] = dict(sorted(g.used.items()))
    for p, i in list(zip(progs, irecs))[:2] + list(zip(progs, irecs))[-3:]:
        ctx.sample({"program": p, "impl": i.raw[:6]})
    ctx.assumptions += ["`sem` is the documented meaning as read from doc/syntax.rst; the order in which op_merge serves its "
                        "branches is part of it (it is observable through captures); closures compare by identity and are not "
                        "predicted when compared"]
