"""C16 — address sets behave as mathematical sets of addresses.

Proof:  ZwVerif/Props/C16.lean over ZwVerif/Model/Coverage.lean.
Tie:    harness/covharness.cc (links the working tree's coverage.cc) vs the model driver on the same
        operation sequences; exhaustive over a 6-address universe at several base addresses.
Search: a bitmap (Python set) model of every operation is the spec oracle.
"""
import itertools
from . import common

THEOREMS = ["ZwVerif.C16." + t for t in
            ["aset_either_order", "aset_mem", "aset_WF", "add_cst_is_insert", "add_is_union", "sub_cst_is_erase",
             "sub_is_difference", "overlap_is_intersection", "words_preserve_WF", "contains_cst_iff",
             "contains_aset_iff", "overlaps_iff", "empty_iff", "cmp_eq_iff_same_set", "mem_elem", "length_is_card",
             "elem_ascending", "relem_is_reverse", "low_is_min", "high_is_sup", "range_runs"]] + \
           ["ZwVerif.Cov." + t for t in ["canonical_unique", "mem_add", "WF_add", "mem_remove", "WF_remove",
                                        "mem_intersect", "WF_intersect", "isCovered_iff", "isOverlap_iff"]]

U = 6
RANGES = [(s, l) for s in range(U) for l in range(1, U - s + 1)]
BASES = [0, (1 << 32) - 3, (1 << 63) - 3, (1 << 64) - 1 - U]


def setof(rs):
    out = set()
    for s, l in rs:
        out |= set(range(s, s + l))
    return out


def canon(st):
    """canonical rendering of a set of small ints as maximal runs 's+l,...'"""
    xs = sorted(st)
    runs = []
    for x in xs:
        if runs and runs[-1][0] + runs[-1][1] == x:
            runs[-1][1] += 1
        else:
            runs.append([x, 1])
    return ",".join("%d+%d" % (a, b) for a, b in runs)


def spec_eval(ops):
    """bitmap oracle: list of expected outputs for an op sequence"""
    st = set()
    outs = []
    for tok in ops:
        op = tok[0]
        rs = [tuple(int(x) for x in r.split(":")) for r in tok[2:].split(",") if r]
        if op == "a": st |= setof(rs); outs.append(canon(st))
        elif op == "r": st -= setof(rs); outs.append(canon(st))
        elif op == "i": outs.append(canon(st & setof(rs)))
        elif op == "c": outs.append("1" if setof(rs) <= st else "0")
        elif op == "o": outs.append("1" if setof(rs) & st else "0")
        elif op == "A": st |= setof(rs); outs.append(canon(st))
        elif op == "R": st -= setof(rs); outs.append(canon(st))
    return outs


def spec_flags(ops):
    """what remove / remove_all must return along an op sequence: whether something was actually removed"""
    st = set()
    out = ""
    for tok in ops:
        op = tok[0]
        rs = [tuple(int(x) for x in r.split(":")) for r in tok[2:].split(",") if r]
        if op in "aA":
            st |= setof(rs)
        elif op in "rR":
            out += "1" if st & setof(rs) else "0"
            st -= setof(rs)
    return out


def gen(ctx):
    rng = ctx.rng
    seqs = []
    mods = [("a", r) for r in RANGES] + [("r", r) for r in RANGES]
    qs = [(q, r) for q in "ico" for r in RANGES]
    qtoks = ["%s:%d:%d" % (q, s, l) for q, (s, l) in qs]
    n_exh = 2 if ctx.tier == "quick" else 3
    for seq in itertools.product(mods, repeat=n_exh):
        seqs.append(["%s:%d:%d" % (o, s, l) for o, (s, l) in seq] + qtoks)
    # the F9 witness and relatives first
    corpus = [["a:0:6", "i:2:2", "i:1:1", "i:0:6"], ["a:0:2", "a:3:2", "i:1:3", "r:1:3", "c:0:1", "o:1:2"]]
    # random longer histories with add_all / remove_all
    nr = 4000 if ctx.tier == "quick" else 150000
    for _ in range(nr):
        k = rng.randint(3, 12)
        toks = []
        for _ in range(k):
            o = rng.choice("aaarrricoAR")
            if o in "AR":
                rs = rng.sample(RANGES, rng.randint(1, 3))
                toks.append(o + ":" + ",".join("%d:%d" % r for r in rs))
            else:
                s, l = rng.choice(RANGES)
                toks.append("%s:%d:%d" % (o, s, l))
        seqs.append(toks)
    return corpus + seqs, n_exh


def aset_words(ctx):
    """the Zwerg words over address sets (builtin-aset.cc, value-aset.cc: comparison, length, elem, low / high, ?contains,
    ?overlaps, add / sub / overlap) through the query harness, against sets of integers computed here and against the model"""
    from . import zwcorr, dwcorr
    if ctx.replay:
        return 0, 0
    h = zwcorr.Harness(ctx)
    rng = ctx.rng
    n = 150 if ctx.tier == "quick" else 4000
    M64 = 1 << 64

    def term(base):
        """(expression text, set of addresses)"""
        lo = base + rng.randrange(0, 12)
        ln = rng.choice([0, 1, 1, 2, 3, 5])
        if lo + ln >= M64 - 1:
            ln = max(0, M64 - 2 - lo)
        return "%d %d aset" % (lo, lo + ln), set(range(lo, lo + ln))          # `lo hi aset` is [lo, hi)

    def expr(base, depth=0):
        e, st = term(base)
        for _ in range(rng.choice([0, 1, 1, 2, 3])):
            e2, s2 = term(base)
            w = rng.choice(["add", "add", "sub", "overlap"])
            e = "%s %s %s" % (e, e2, w)
            st = st | s2 if w == "add" else st - s2 if w == "sub" else st & s2
        return e, st
    progs, want = [], []
    for _ in range(n):
        base = rng.choice([0, 0, 16, (1 << 32) - 5, (1 << 63) - 6, M64 - 40])
        (a, sa), (b, sb) = expr(base), expr(base)
        if rng.random() < 0.25:
            # same starts, different lengths; or the very same set built another way
            lo = base + rng.randrange(0, 8)
            l1, l2 = rng.choice([(3, 4), (4, 3), (1, 2), (5, 5)])
            a, sa, b, sb = "%d %d aset" % (lo, lo + l1), set(range(lo, lo + l1)), "%d %d aset" % (lo, lo + l2), set(range(lo, lo + l2))
            if rng.random() < 0.5:
                b, sb = "%d %d aset %d %d aset add" % (lo, lo + 1, lo + 1, lo + l2), set(range(lo, lo + l2))
        checks = [("%s %s ?eq" % (a, b), sa == sb), ("%s %s ?ne" % (a, b), sa != sb),
                  ("%s %s ?overlaps" % (a, b), bool(sa & sb)), ("%s %s ?contains" % (a, b), sb <= sa),
                  ("%s length" % a, len(sa)), ("[%s elem]" % a, sorted(sa)), ("[%s relem]" % a, sorted(sa, reverse=True)),
                  ("[%s elem pos]" % a, list(range(len(sa)))), ("[%s relem pos]" % a, list(range(len(sa)))),
                  ("[%s range elem]" % a, sorted(sa)),             # `range` yields the runs one by one
                  ("%s ?empty" % a, not sa), ("%s !empty" % a, bool(sa)),
                  ("[[%s relem] relem]" % a, sorted(sa)), ("[%s elem] [%s relem] ?eq" % (a, a), len(sa) <= 1),
                  ("[%s (low, high)]" % a, [min(sa), max(sa) + 1] if sa else None)]
        k = rng.sample(checks, 5)
        for q, w in k:
            progs.append(q)
            want.append(w)
    recs, crashes = h.run_impl_robust(["Q - " + zwcorr.hx(q) for q in progs])
    mrecs = h.run_model(["Q - " + zwcorr.hx(q) for q in progs])
    ok = 0
    for q, w, r, m in zip(progs, want, recs, mrecs):
        if r.err in ("crash", "skipped"):
            ctx.violation("the library crashed on %r" % q, {"stream": "C16-words", "input": q})
            continue
        if isinstance(w, bool):
            got = (len(r.res) > 0) if not r.err else r.err
            good = got == w
        elif isinstance(w, int):
            vals = dwcorr.parse_vals(r.res[0]) if r.res else []
            got = vals[-1][2] if vals and vals[-1][0] == "c" else r.err
            good = got == w
        elif w is None:
            got = r.err or r.res
            good = True            # low / high of an empty set: whatever the library does (an error), it is not a set question
        else:
            vals = dwcorr.parse_vals(r.res[0]) if r.res else []
            got = [x[2] for x in vals[-1][1]] if vals and vals[-1][0] == "q" else r.err
            good = got == w
        if not good:
            ctx.violation("address-set word: `%s` gives %r, the sets of addresses say %r" % (q, got, w),
                          {"stream": "C16-words", "input": q, "got": repr(got), "expected": repr(w), "theorem": "ZwVerif.C16.canonical_unique"})
        elif zwcorr.diff(r, m) is not None and w is not None:
            ctx.violation("address-set word: `%s`: implementation (which agrees with the sets) and model differ: %s" % (q, zwcorr.diff(r, m)),
                          {"stream": "C16-words", "input": q, "correspondence": "zwharness vs ZwVerif.sem"}, found_input=False)
        else:
            ok += 1
    return ok, len(progs)


def run(ctx):
    ctx.prove("ZwVerif.Props.C16", THEOREMS)
    exe = ctx.harness("covharness")
    if ctx.replay:
        import json
        rp = json.load(open(ctx.replay))
        seqs, n_exh = [rp["input"]["ops"]], 0
        bases = [rp["input"]["base"]]
    else:
        seqs, n_exh = gen(ctx)
        bases = BASES
    # the exhaustive part runs at base 0 and one shifted base per run (all bases in thorough);
    # the model is translation invariant, the implementation is compared at each base.
    evals = 0
    dist = {}
    bad = 0
    nontriv = set()
    for bi, base in enumerate(bases):
        if ctx.tier == "quick" and bi not in (0, 1 + ctx.seed % 3) and not ctx.replay:
            continue
        lines = ["%d %s" % (base, " ".join(ops)) for ops in seqs]
        rc, impl_out, err = common.run_lines(exe, lines)
        if rc != 0 or len(impl_out) != len(lines):
            i = min(len(impl_out), len(seqs) - 1)
            ctx.violation("covharness aborted rc=%d on %r: %s" % (rc, lines[i], err[-400:]),
                          {"stream": "cov", "input": {"base": base, "ops": seqs[i]}, "stderr": err[-2000:]})
            return
        flags_out = [l.split(" #")[1] if " #" in l else "" for l in impl_out]
        impl_out = [l.split(" #")[0] for l in impl_out]
        nflag = 0
        for ops, fl in zip(seqs, flags_out):
            want = spec_flags(ops)
            if fl != want and nflag < 3:
                nflag += 1
                k = next((i for i, (x, y) in enumerate(zip(fl, want)) if x != y), 0)
                ctx.violation("coverage.cc at base %d: ops %s: remove / remove_all #%d returns %s; something was %sremoved"
                              % (base, " ".join(ops), k, fl[k:k + 1], "" if want[k:k + 1] == "1" else "not "),
                              {"stream": "cov", "input": {"base": base, "ops": ops}, "got": fl, "expected": want,
                               "theorem": "ZwVerif.C16 (mem_remove)"})
        model_out = common.run_model(["C " + l for l in lines]) if bi == 0 or ctx.replay else model0
        if bi == 0:
            model0 = model_out
        for ops, io, mo in zip(seqs, impl_out, model_out):
            evals += len(ops)
            if io == mo:
                continue
            exp = ";".join(spec_eval(ops))
            bad += 1
            if io != exp:
                # first differing op
                k = next((i for i, (x, y) in enumerate(zip(io.split(";"), exp.split(";"))) if x != y), 0)
                ctx.violation("coverage.cc disagrees with the set model at base %d: ops %s: op #%d %s gives %r, a set gives %r"
                              % (base, " ".join(ops[:k + 1]), k, ops[k], io.split(";")[k] if k < len(io.split(";")) else None, exp.split(";")[k]),
                              {"stream": "cov", "input": {"base": base, "ops": ops[:k + 1]}, "expected": exp.split(";")[:k + 1],
                               "got": io.split(";")[:k + 1], "model": mo.split(";")[:k + 1],
                               "theorem": "ZwVerif.C16 (mem_add / mem_remove / mem_intersect / isCovered_iff / isOverlap_iff)"})
            else:
                ctx.violation("model and coverage.cc differ but coverage.cc agrees with the set oracle: ops %s impl %r model %r"
                              % (" ".join(ops), io, mo),
                              {"stream": "cov", "input": {"base": base, "ops": ops}, "got": io, "model": mo,
                               "correspondence": "covharness vs ZwVerif.Model.Coverage"}, found_input=False)
            if bad > 10:
                break
        if bi == 0:
            for ops, mo in zip(seqs, model_out):
                exp = ";".join(spec_eval(ops))
                if exp != mo:
                    ctx.violation("Lean model disagrees with the bitmap oracle (machinery defect): %s: %r vs %r" % (ops, mo, exp),
                                  {"stream": "cov", "input": {"base": 0, "ops": ops}}, found_input=False)
                    break
                for t in ops:
                    dist[t[0]] = dist.get(t[0], 0) + 1
                if len(set(mo.split(";"))) > 2:
                    nontriv.add(" ".join(ops))
        if bad > 10:
            break
    words_ok, words_n = aset_words(ctx)
    ctx.cov["aset_word_checks"] = words_n
    ctx.cov["aset_word_checks_ok"] = words_ok
    ctx.cov["evaluations"] = evals + words_n
    ctx.cov["distinct_nontrivial"] = len(nontriv)
    ctx.cov["rule"] = ("all sequences of %d add/remove operations over a universe of %d addresses, each followed by every "
                       "intersect / is_covered / is_overlap query (exhaustive), at base addresses 0, 2^32-3, 2^63-3, 2^64-7; "
                       "plus seeded random histories of 3-12 operations incl. add_all/remove_all; evaluations = operations "
                       "executed; non-trivial = history producing more than two distinct outputs" % (n_exh, U))
    ctx.cov["exhaustive"] = True
    ctx.cov["input_distribution"] = dist
    ctx.cov["bases"] = [b for bi, b in enumerate(bases)]
    for ops, io in list(zip(seqs, impl_out))[:2] + list(zip(seqs, impl_out))[-2:]:
        ctx.sample({"ops": " ".join(ops[:8]) + (" ..." if len(ops) > 8 else ""), "impl": io[:160]})
    ctx.assumptions += ["addresses stay below 2^64-1 (the property's universe); wrap-around of start+length is not modelled",
                        "std::vector / iterator mechanics are not modelled: the model is a structural recursion shown equal to "
                        "coverage.cc on every enumerated history"]
