"""C11 — core words on integers, strings and sequences do what their documentation says."""
import itertools
from . import common, zwcorr, gen

THEOREMS = ["ZwVerif.C11." + t for t in
            ["profile_invariant", "dispatch_by_top_types", "inv_push", "inv_pop", "inv_drop", "enc_mod", "enc_inj",
             "isPrefixBy_iff", "isInfixBy_iff", "isSuffixBy_iff", "longer_needle_never", "cast_keeps_value",
             "add_unsupported_is_diagnosed"]] + ["ZwVerif.C01.posMap_pos"]

POOL = {
    "c": ["0", "1", "-1", "7", "0x10", "010", "0b101", "255", "9223372036854775807", "18446744073709551615",
          "-9223372036854775808", "1 hex", "T_CONST", "true", "3 4 sub", '"abc" length'],
    "s": ['""', '"a"', '"ab"', '"abc"', '"b"', '"bc"', '"abcabc"', '"a\\x00b"', '"\\x00"', '"a\\x00"', '"\\xff"', '"\\xffa"',
          '"ab\\x00c"', '"cd\\x00e"', '"abcdef"'],
    "q": ["[]", "[1]", "[1, 2]", "[1, 2, 3]", "[2]", "[2, 3]", '["a"]', '[1, "a"]', "[[]]", "[[1], [2]]", "[[1]]",
          "[1, 2, 1, 2]", '["a", 1]', "[0x1]", "[3]"],
    "a": ["0 0 aset", "0 4 aset", "2 6 aset", "0 2 aset 4 6 aset add", "3 3 aset", "1 2 aset"],
    "f": ["{1}", "{dup}"],
}
UNARY = ["length", "elem", "relem", "?empty", "!empty", "value", "hex", "dec", "oct", "bin", "type", "pos", "dup", "drop",
         "low", "high", "range", "elem type", "elem pos", "relem pos", "apply"]
BINARY = ["add", "sub", "mul", "div", "mod", "?find", "!find", "?starts", "!starts", "?ends", "!ends", "?eq", "?lt", "?gt",
          "!eq", "?ne", "?le", "?ge", "==", "swap", "over", "aset", "overlap", "?contains", "!contains", "?overlaps"]
TERNARY = ["rot"]


def history(rng, depth, tail):
    """program text that builds a stack with `depth` junk values below and `tail` (list of value expressions) on top,
    through a random history of pushes, pops and drops"""
    parts = []
    junk = lambda: rng.choice(POOL[rng.choice("csq")])

    def popoff(k):
        while k > 0:
            c = rng.random()
            if c < 0.5:
                parts.append("drop"); k -= 1
            elif c < 0.7 and k >= 2:
                parts.append("(|X Y| )"); k -= 2
            elif c < 0.85:
                parts.append("(|X| )"); k -= 1
            else:
                parts.append("swap drop" if k >= 2 else "drop"); k -= 1
    if rng.random() < 0.5:
        # overshoot below the operands, pop back, then push the operands
        over = rng.choice([0, 0, 1, 2, 3])
        for _ in range(depth + over):
            parts.append(junk())
        popoff(over)
        for t in tail:
            parts.append(t)
            if rng.random() < 0.25:
                parts.append(junk() + " drop")
    else:
        # operands first, junk piled on top of them (beyond the four cached slots), then popped off again:
        # the word runs right after a series of pops
        for _ in range(depth):
            parts.append(junk())
        parts += list(tail)
        over = rng.choice([1, 2, 3, 4, 5])
        for _ in range(over):
            parts.append(junk())
        popoff(over)
    return " ".join(parts)


def run(ctx):
    ctx.prove("ZwVerif.Props.C11", THEOREMS, extra_targets=["ZwVerif.Props.C01"])
    h = zwcorr.Harness(ctx)
    rng = ctx.rng
    types = "csqaf"
    cases = []
    for w in UNARY:
        for t in types:
            for v in POOL[t]:
                cases.append(([v], w))
    for w in BINARY:
        for t1 in types:
            for t2 in types:
                for a in POOL[t1]:
                    for b in POOL[t2]:
                        cases.append(([a, b], w))
    for w in TERNARY:
        for _ in range(60):
            cases.append(([rng.choice(POOL[rng.choice(types)]) for _ in range(3)], w))
    n = 2500 if ctx.tier == "quick" else 60000
    if len(cases) > n:
        # keep every same-type pair for the list predicates (embedded NUL, empty, longer needles), sample the rest
        keep = [c for c in cases if len(c[0]) == 2 and c[1] in ("?find", "?starts", "?ends", "add") and
                c[0][0][0] == c[0][1][0] and c[0][0][0] in '"[' and rng.random() < (1.0 if ctx.tier != "quick" else 0.45)]
        # … and every pair of integers for the arithmetic words (boundary values meet zero in both representations)
        keep += [c for c in cases if len(c[0]) == 2 and c[1] in ("add", "sub", "mul", "div", "mod") and c[0][0] in POOL["c"] and c[0][1] in POOL["c"]]
        rest = rng.sample(cases, max(0, n - len(keep)))
        cases = keep + rest
    progs = []
    if ctx.replay:
        import json
        progs = [json.load(open(ctx.replay))["input"]]
        cases = []
    for tail, w in cases:
        depth = rng.choice([0, 0, 1, 2, 3, 4, 5, 6])
        progs.append(history(rng, depth, tail) + " " + w)
    # the top operand is a capture that replaces k values below it (`[ … ]: op_drop_below rebuilds the type profile)
    if not ctx.replay:
        seqlits = [v for v in POOL["q"] if v.startswith("[")]
        for w in BINARY + UNARY:
            for t in types:
                for _ in range(2 if ctx.tier == "quick" else 10):
                    a = rng.choice(POOL[t])
                    b = rng.choice(seqlits) if seqlits else "[1]"
                    k = rng.randint(1, 3)
                    junkv = " ".join(rng.choice(POOL[rng.choice(types)]) for _ in range(k))
                    below = " ".join(rng.choice(POOL[rng.choice(types)]) for _ in range(rng.randint(0, 4)))
                    progs.append("%s %s %s %s%s %s" % (below, a, junkv, "`" * k, b, w))
                    progs.append("%s %s %s %s%s swap %s" % (below, a, junkv, "`" * k, b, w))
    # operands that carry a non-zero position (they come out of `elem`): every operation numbers its own results afresh
    if not ctx.replay:
        for w in UNARY + BINARY:
            for t in (types if ctx.tier == "quick" else types * 4):
                vs = [rng.choice(POOL[t]) for _ in range(3)]
                if w in UNARY:
                    progs.append("[%s] elem %s" % (", ".join(vs), w))
                else:
                    for other in (rng.choice(POOL[t]), rng.choice(POOL[rng.choice(types)])):      # the same type always, any type too
                        progs.append("[%s] elem %s %s" % (", ".join(vs), other, w))
                        progs.append("%s [%s] elem %s" % (other, ", ".join(vs), w))
    # underflow behaviour at depths 0..2 for every word
    for w in UNARY + BINARY + TERNARY:
        for d in range(3):
            progs.append(" ".join(["1"] * d) + " " + w)
    stats, irecs, mrecs = zwcorr.run_programs(ctx, h, progs, theorem="ZwVerif.C11.* / engine = ZwVerif.sem",
                                             label="C11-words")
    # history independence on the implementation alone: the same operands at depth 0 and at depth >= 5 after pops
    lines = []
    pairs = []
    # (closures compare by the identity of their environment — the property excepts them — so how two of them compare may
    # depend on where the allocator put them)
    consuming = [c for c in cases if c[1] not in ("dup", "drop", "swap", "over", "rot")
                 and not (c[1][0] in "?!" and c[1][1:] in ("eq", "ne", "lt", "gt", "le", "ge") and sum(1 for t in c[0] if t.startswith("{")) >= 2)]
    for tail, w in rng.sample(consuming, min(len(consuming), 300 if ctx.tier == "quick" else 4000)):
        a = " ".join(tail) + " " + w
        b = history(rng, rng.choice([4, 5, 6]), tail) + " " + w
        pairs.append((a, b, len(tail)))
        lines += ["Q - " + zwcorr.hx(a), "Q - " + zwcorr.hx(b)]
    recs, _ = h.run_impl_robust(lines)
    hist_ok = 0
    for k, (a, b, nt) in enumerate(pairs):
        ra, rb = recs[2 * k], recs[2 * k + 1]
        if ra.err or rb.err:
            if (ra.err is None) != (rb.err is None):
                ctx.violation("word behaviour depends on how the stack was built: %r -> %r, %r -> %r" % (a, ra.err, b, rb.err),
                              {"stream": "C11-history", "input": [a, b], "theorem": "ZwVerif.C11.profile_invariant"})
            continue
        # compare what the word left on top: the last value(s) of each result
        ta = [r.split(" ")[-1] for r in ra.res]
        tb = [r.split(" ")[-1] for r in rb.res]
        if ta != tb or sorted(ra.soft) != sorted(rb.soft):
            ctx.violation("word behaviour depends on how the stack was built: %r -> %r, %r -> %r" % (a, ta[:4], b, tb[:4]),
                          {"stream": "C11-history", "input": [a, b], "got": [ra.raw[:6], rb.raw[:6]],
                           "theorem": "ZwVerif.C11.profile_invariant / dispatch_by_top_types"})
        else:
            hist_ok += 1
    # ?match / =~ on anchored patterns (where "the whole string has to match" and a search agree): the answer of a regular-
    # expression engine that is not the one under test (Python's, on the subset where POSIX ERE and it coincide)
    match_ok = 0
    if not ctx.replay:
        import re as _re
        atoms = ["a", "b", "ab", ".", "a*", "b+", "(a|b)", "[abc]", "[^a]", "a?", "(ab)*", "x", "ba"]
        subjects = ["", "a", "b", "ab", "aab", "abab", "ba", "abc", "xa", "aaa", "bb", "c"]
        mlines, mmeta = [], []
        for _ in range(150 if ctx.tier == "quick" else 3000):
            pat = "^" + "".join(rng.choice(atoms) for _ in range(rng.randint(1, 3))) + "$"
            subj = rng.choice(subjects)
            want = _re.fullmatch(pat[1:-1], subj) is not None
            for prog, w in (('"%s" "%s" ?match' % (subj, pat), want), ('"%s" "%s" !match' % (subj, pat), not want),
                            ('"%s" (=~ "%s")' % (subj, pat), want), ('"%s" (!~ "%s")' % (subj, pat), not want)):
                mlines.append("Q - " + zwcorr.hx(prog))
                mmeta.append((prog, w))
        mrecs_, _ = h.run_impl_robust(mlines)
        for (prog, w), r in zip(mmeta, mrecs_):
            if r.err in ("crash", "skipped"):
                continue
            got = len(r.res) > 0
            if r.err or r.soft or got != w:
                ctx.violation("`%s` %s; the string %s the pattern" % (prog, "holds" if got else "does not hold (%s)" % (r.err or r.soft or "no result"),
                                                                  "does not match" if (w != ("!" not in prog.split('"')[-1] and "!~" not in prog)) else "matches"),
                              {"stream": "C11-match", "input": prog, "got": r.raw[:3], "expected": "holds" if w else "does not hold"})
            else:
                match_ok += 1
    ctx.cov["match_checks_ok"] = match_ok
    ctx.cov["evaluations"] = stats["programs"] + len(lines)
    ctx.cov["distinct_nontrivial"] = stats["distinct_nontrivial"]
    ctx.cov["history_pairs_ok"] = hist_ok
    ctx.cov["rule"] = ("every core word × operands from a value pool (boundary integers in several domains, strings incl. empty / "
                       "embedded NUL / high bytes, nested and heterogeneous sequences, address sets, closures) placed on stacks "
                       "of depth 0-6 that were built through random push / pop / drop / binder histories overshooting the "
                       "four cached profile slots; compared with the Lean `sem`; plus the same operands at depth 0 and at "
                       "depth 4-6 on the implementation alone")
    ctx.cov["input_distribution"] = {k: v for k, v in sorted(stats.items())}
    for p, i in list(zip(progs, irecs))[:3] + list(zip(progs, irecs))[-2:]:
        ctx.sample({"program": p, "impl": i.raw[:5]})
    ctx.assumptions += ["`?match` / `=~` (POSIX regexec) is a parameter of the model: the known finding K2 (search, not whole-string "
                        "match; NUL truncation) is documented, not checked here"]
