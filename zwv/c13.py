"""C13 — no memory error, undefined behaviour, leak or broken state lifecycle on any run (partial by nature)."""
import os
import re
import subprocess
from . import common, zwcorr, gen, c01, c03, c12, c14

THEOREMS = ["ZwVerif.C13." + t for t in
            ["alignUp_ge", "alignUp_aligned", "reserve_above", "reserve_disjoint", "addUnion_ge", "con_overlap_rejected",
             "use_dead_rejected", "guarded_ok"]]

SAN_ENV = {"ASAN_OPTIONS": "detect_leaks=1:abort_on_error=0:exitcode=99:allocator_may_return_null=1:detect_stack_use_after_return=0:malloc_context_size=80",
           "UBSAN_OPTIONS": "print_stacktrace=1:halt_on_error=1:exitcode=98",
           "LSAN_OPTIONS": "exitcode=97"}


def san_run(exe, lines, secs=20):
    env = dict(os.environ)
    env.update(SAN_ENV)
    p = subprocess.run([exe, "3000", str(secs)], input="\n".join(lines) + "\n", stdout=subprocess.PIPE, stderr=subprocess.PIPE,
                       text=True, errors="replace", env=env, timeout=3600)
    out = p.stdout.split("\n")
    nrec = sum(1 for l in out if l == ".")
    return p.returncode, nrec, p.stderr


def classify(stderr):
    if "DWGREP_VERIF scon:" in stderr:
        return "lifecycle", re.search(r"DWGREP_VERIF scon: [^\n]*", stderr).group(0)
    m = re.search(r"ERROR: AddressSanitizer: ([^\n]*)", stderr)
    if m:
        return "asan", m.group(1)
    m = re.search(r"runtime error: ([^\n]*)", stderr)
    if m:
        return "ubsan", m.group(1)
    if "ERROR: LeakSanitizer" in stderr:
        return "leak", ""
    if "Assertion" in stderr:
        return "assert", re.search(r"[^\n]*Assertion[^\n]*", stderr).group(0)
    return None, ""


def leak_sites(stderr):
    """split an LSan report into per-leak stacks"""
    parts = re.split(r"\n(?=(?:Direct|Indirect) leak of)", stderr)
    return [p for p in parts if p.startswith(("Direct leak", "Indirect leak"))]


def run(ctx):
    ctx.prove("ZwVerif.Props.C13", THEOREMS)
    exe = ctx.harness("zwharness", "asan")
    rng = ctx.rng
    g = gen.Gen(rng, maxdepth=4)
    n = 500 if ctx.tier == "quick" else 20000
    # programs that compile (run to completion, and abandoned after every number of pulls via histories)
    good = list(c01.CORPUS) + list(c03.CORPUS) + list(c12.STATEFUL)
    for _ in range(n):
        good.append(g.program())
    # type-dispatched words right after pops on deep stacks of mixed types (the cached stack profile, C11's histories):
    # a wrong dispatch is an invalid cast, which only this build can see as a memory error
    from . import c11
    types = "csqaf"
    for _ in range(n // 2):
        w = rng.choice(c11.UNARY + c11.BINARY)
        tail = [rng.choice(c11.POOL[rng.choice(types)]) for _ in range(1 if w in c11.UNARY else 2)]
        good.append(c11.history(rng, rng.choice([3, 4, 5, 6, 7]), tail) + " " + w)
    # address-set arithmetic over many range geometries (coverage.cc edits vectors in place) and regular expressions that
    # match, do not match and do not compile (regcomp / regfree pairs)
    for _ in range(120 if ctx.tier == "quick" else 3000):
        def term():
            lo = rng.randrange(0, 24)
            return "%d %d aset" % (lo, lo + rng.choice([0, 1, 2, 3, 5, 8, 20]))
        e = term()
        for _k in range(rng.randint(1, 4)):
            e = "%s %s %s" % (e, term(), rng.choice(["add", "add", "sub", "overlap"]))
        good.append(e + rng.choice(["", " length", " [elem]", " [relem]", " range", " 3 ?contains", " 7 add", " 7 sub"]))
    for subj in ('"foobar"', '""', '"aab"'):
        for pat in ('"b.*z"', '"^a*b$"', '"o+"', '"("', '"[a"', '"x"', '"^$"'):
            good += ["%s %s ?match" % (subj, pat), "%s !(%s ?match)" % (subj, pat), "%s (=~ %s)" % (subj, pat), "%s (!~ %s)" % (subj, pat)]
    bad = [m.decode("latin-1") for m in (c14.mutate(rng, g.program()) for _ in range(n // 2))] + c14.UNTERM + c14.INTLITS
    if ctx.replay:
        import json
        rp = json.load(open(ctx.replay))
        good, bad = [rp["input"]], []
    reports = 0

    def bisect(lines, what):
        """find one line whose execution alone makes the sanitizer / hook complain"""
        for l in lines:
            rc, nrec, err = san_run(exe, [l])
            kind, msg = classify(err)
            if kind and kind != "leak":
                return l, kind, msg, err
        return None, None, None, ""

    # (1) run everything; the hook and the sanitizers abort on the first problem
    def sweep(lines, label):
        nonlocal reports
        i = 0
        done = 0
        while i < len(lines) and reports < 5:
            rc, nrec, err = san_run(exe, lines[i:])
            kind, msg = classify(err)
            if rc == 0 or (kind is None and rc in (0,)):
                done += len(lines) - i
                break
            if kind in (None,) and rc == 3:           # per-request timeout: skip that request
                i += nrec
                done += nrec
                continue
            if kind == "leak" and nrec >= len(lines) - i:
                return done + nrec, err            # leaks are reported at exit
            bad_line = lines[min(i + nrec, len(lines) - 1)]
            q = zwcorr.unhx(bad_line.split()[-1] if bad_line.split()[-1] != "e" else "")
            reports += 1
            ctx.violation("%s on %s input %r: %s" % (kind or "crash rc=%d" % rc, label, q, msg[:300]),
                          {"stream": "C13-" + label, "input": q.decode("latin-1"), "line": bad_line, "stderr": err[-3000:]})
            i += nrec + 1
            done += nrec + 1
        return done, ""
    # programs of `good` that do not compile belong with the rejected ones
    plain = zwcorr.Harness(ctx)
    recs, pcrashes = plain.run_impl_robust(["Q - " + zwcorr.hx(p.encode("latin-1", "replace")) for p in good])
    for idx, perr in pcrashes[:5]:
        # a crash / abort / failed assertion of the plain build is a finding of its own, not a reason to drop the program
        reports += 1
        ctx.violation("the library crashed or aborted on the program %r: %s" % (good[idx], perr.strip()[-300:]),
                      {"stream": "C13-valid-program", "input": good[idx], "stderr": perr[-3000:]})
    rejected_here = [p for p, r in zip(good, recs) if (r.err or "").startswith("compile")]
    good = [p for p, r in zip(good, recs) if not (r.err or "").startswith("compile") and r.err not in ("timeout", "crash", "skipped")]
    bad = rejected_here + bad
    glines = ["Q - " + zwcorr.hx(p.encode("latin-1", "replace")) for p in good]
    ngood, leak_good = sweep(glines, "valid-program")
    hlines = ["H %d %s %s" % (rng.randrange(1 << 30), zwcorr.hx(p), zwcorr.hx(rng.choice(c12.INPUTS)))
              for p in rng.sample(good, min(len(good), 150 if ctx.tier == "quick" else 3000))]
    nhist, leak_hist = sweep(hlines, "history")
    blines = ["Q - " + zwcorr.hx(p.encode("latin-1", "replace")) for p in bad]
    nbad, leak_bad = sweep(blines, "rejected-query")
    alines = ["A " + zwcorr.hx(p.encode("latin-1", "replace")) for p in bad[:300]]
    napi, leak_api = sweep(alines, "api")
    # (2) leaks: none for programs that compile; for rejected queries the parse tree is leaked (known finding K1)
    for label, rep in (("valid-program", leak_good), ("history", leak_hist)):
        sites = leak_sites(rep)
        if sites:
            ctx.violation("memory leaked by %s runs: %d leak records, first:\n%s" % (label, len(sites), sites[0][:600]),
                          {"stream": "C13-leak", "input": label, "stderr": rep[-4000:]})
    for label, rep in (("rejected-query", leak_bad), ("api", leak_api)):
        sites = leak_sites(rep)
        # indirect leaks hang off the direct ones; only the roots are attributed
        other = [s for s in sites if s.startswith("Direct") and not re.search(r"yyparse|yylex|parse_query|parse_subquery", s)]
        if other:
            ctx.violation("memory leaked outside the parser while rejecting queries: %d records, first:\n%s" % (len(other), other[0][:600]),
                          {"stream": "C13-leak", "input": label, "stderr": rep[-4000:]})
        elif sites:
            ctx.violation("rejected queries leak their partial parse tree (%d leak records, all under yyparse / yylex)" % len(sites),
                          {"stream": "C13-leak", "input": label}, finding_key={"leak-site": "yyparse"})
    ctx.cov["evaluations"] = ngood + nhist + nbad + napi
    ctx.cov["distinct_nontrivial"] = len(set(good)) + len(set(bad))
    ctx.cov["valid_programs_run"] = ngood
    ctx.cov["histories_run"] = nhist
    ctx.cov["rejected_inputs_run"] = nbad
    ctx.cov["api_calls_run"] = napi
    ctx.cov["rule"] = ("the corpora and generators of C01/C03/C12/C14 (valid programs incl. run-time errors, histories that abandon result "
                       "sets after every number of pulls, rejected / mutated queries, explicit-length API calls) executed on a build with "
                       "AddressSanitizer, UBSan, LeakSanitizer and the DWGREP_VERIF shadow map of op states (aborts on construct-twice, "
                       "use-before-construct, type confusion, overlap, live-at-release)")
    ctx.sample({"valid": good[-1]})
    ctx.sample({"rejected": bad[0]})
    ctx.assumptions += ["partial: heap safety, UB and leaks are observed by sanitizers on the executed inputs; proved is only the layout "
                        "arithmetic and the protocol state machine the hook enforces"]
