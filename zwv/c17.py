"""C17 — location lists, their operations and abbreviations are consistent with the DIEs."""
import glob
import os
from . import common, zwcorr, dwcorr, forest
from .c05 import walk

THEOREMS = ["ZwVerif.C17." + t for t in
            ["length_eq_elem_count", "elem_is_stored_order", "relem_is_reverse", "hasOp_iff", "address_is_range", "operand_classes",
             "all_bregs_signed", "no_operand_ops", "signed_operand", "unsigned_operand", "no_operands", "signed_operand_roundtrip",
             "abbrevUnits_nodup", "abbrevUnits_complete", "abbrev_lists_every_table_once", "findAbbrev_code", "findAbbrev_unique"]]

M64 = 1 << 64

# operand classes the DWARF standard gives (independent of atval.cc; the same table as ZwVerif.C17.standardOperands, by name)
O = forest.DW_OP
SIGNED1 = set(["const1s", "const2s", "const4s", "const8s", "consts", "fbreg", "skip", "bra"] + ["breg%d" % i for i in range(32)])
UNSIGNED1 = set(["const1u", "const2u", "const4u", "const8u", "constu", "pick", "plus_uconst", "regx", "piece", "deref_size",
                 "xderef_size", "call2", "call4", "convert", "GNU_convert", "reinterpret", "GNU_reinterpret", "GNU_parameter_ref",
                 "addrx", "constx"])
HEX1 = set(["addr", "call_ref"])

ABBREV_Q = ("abbrev [offset value, [entry [code value, label value, [?haschildren 1], offset value, "
            "[attribute [label value, form value, offset value]]]]]")
UNIT_Q = "raw unit [offset value, abbrev offset value]"
DIE_Q = "raw entry [offset value, abbrev [code value, offset value]]"
# per location attribute: DIE offset, attribute position, then per element [address ranges, length, elem (offset,label,value*), relem offsets, pos]
LOC_Q = ("raw entry (|D| D attribute ?(label == (DW_AT_location, DW_AT_frame_base, DW_AT_data_member_location, DW_AT_data_location, DW_AT_return_addr, DW_AT_static_link, DW_AT_use_location, DW_AT_vtable_elem_location, DW_AT_segment)) (|A| A value ?(type == T_LOCLIST_ELEM) (|E| [D offset value, A pos, "
         "[E address (|S| [S low value, S high value] || [])], E length, "
         "[E elem [offset value, label value, [value (|V| (V ?(type == T_CONST) [1, V value, V] || "
         "V ?(type == T_DIE) [2, V offset value] || V ?(type == T_SEQ) [3, V] || V ?(type == T_LOCLIST_ELEM) [4, [V elem label value]]))], pos]], "
         "[E relem [offset value, pos]], E pos])))")
LOCV = "entry attribute ?(label == (DW_AT_location, DW_AT_frame_base, DW_AT_data_member_location, DW_AT_data_location, DW_AT_return_addr, DW_AT_static_link, DW_AT_use_location, DW_AT_vtable_elem_location, DW_AT_segment)) value"
# the attributes whose value is a location description (DWARF 5, 7.5.4: classes exprloc / loclist) and that dwgrep decodes as one
LOCATION_CLASS = ("location", "frame_base", "data_member_location", "data_location", "return_addr", "static_link", "use_location",
                  "vtable_elem_location", "segment")

LAWS = [
    ("length = number of elem", LOCV + " ?(type == T_LOCLIST_ELEM) ?(length != [elem] length)"),
    ("relem = elem reversed", LOCV + " ?(type == T_LOCLIST_ELEM) (|E| ?([E relem [offset, label]] != [[E elem [offset, label]] relem]))"),
    ("?OP_x iff some operation has it (plus_uconst)", LOCV + " ?(type == T_LOCLIST_ELEM) (?OP_plus_uconst !(elem ?OP_plus_uconst), !OP_plus_uconst ?(elem ?OP_plus_uconst))"),
    ("?OP_x iff some operation has it (addr)", LOCV + " ?(type == T_LOCLIST_ELEM) (?OP_addr !(elem ?OP_addr), !OP_addr ?(elem ?OP_addr))"),
    ("?OP_x iff some operation has it (fbreg)", LOCV + " ?(type == T_LOCLIST_ELEM) (?OP_fbreg !(elem ?OP_fbreg), !OP_fbreg ?(elem ?OP_fbreg))"),
    ("?OP_x iff some operation has it (piece)", LOCV + " ?(type == T_LOCLIST_ELEM) (?OP_piece !(elem ?OP_piece), !OP_piece ?(elem ?OP_piece))"),
    ("?OP_x on an operation iff label", LOCV + " ?(type == T_LOCLIST_ELEM) elem (?OP_bregx (label != DW_OP_bregx), !OP_bregx (label == DW_OP_bregx))"),
    ] + [("abbrev ?AT_%s iff one of its attributes has that name" % a,
       "abbrev entry (?AT_%s !(attribute ?(label == DW_AT_%s)), !AT_%s ?(attribute ?(label == DW_AT_%s)))" % (a, a, a, a))
      for a in ("name", "type", "sibling", "location", "decl_line", "specification")] + [
    ("abbrev ?TAG_x iff its label", "abbrev entry (?TAG_variable (label != DW_TAG_variable), !TAG_variable (label == DW_TAG_variable), "
     "?TAG_subprogram (label != DW_TAG_subprogram), !TAG_subprogram (label == DW_TAG_subprogram))"),
    ("abbrev attribute ?AT_x / ?FORM_x iff its label / form",
     "abbrev entry attribute (?AT_name (label != DW_AT_name), !AT_name (label == DW_AT_name), ?FORM_data1 (form != DW_FORM_data1), "
     "!FORM_data1 (form == DW_FORM_data1), ?FORM_ref4 (form != DW_FORM_ref4), !FORM_ref4 (form == DW_FORM_ref4))"),
    ("abbrev label = DIE label", "raw entry (|D| D abbrev (label != D label))"),
    ("abbrev attributes = raw attributes", "raw entry (|D| ?([D attribute [label, form]] != [D abbrev attribute [label, form]]))"),
    ("abbrev ?haschildren = DIE ?haschildren", "raw entry (|D| (D abbrev ?haschildren D !haschildren, D abbrev !haschildren D ?haschildren))"),
    ("abbrev code = DIE's code", "raw entry (|D| D abbrev (|A| D unit abbrev entry ?(code == A code) ?(offset != A offset)))"),
    ("abbrev entry codes unique per table", "abbrev (|U| [U entry code] (|L| L elem (|C| [L elem (== C)] length > 1)))"),
] + dwcorr.copy_laws("abbreviation table", "abbrev", ["offset", "[entry offset]"]) \
  + dwcorr.copy_laws("abbreviation", "abbrev entry", ["offset", "label", "code", "[?haschildren]", "[attribute label]"]) \
  + dwcorr.copy_laws("abbreviation attribute", "abbrev entry attribute", ["label", "form", "offset"]) \
  + dwcorr.copy_laws("location-list element", LOCV + " ?(type == T_LOCLIST_ELEM)", ["length", "[elem label]", "[address]"]) \
  + dwcorr.copy_laws("location operation", LOCV + " ?(type == T_LOCLIST_ELEM) elem", ["offset", "label", "[value]"])


def uleb_len(n):
    k = 1
    while n >= 128:
        n >>= 7
        k += 1
    return k


def sleb_len(n):
    k = 1
    while not (-64 <= n < 64):
        n >>= 7
        k += 1
    return k


def sleb_bytes(n):
    out = []
    while True:
        b = n & 0x7f
        n >>= 7
        if (n == 0 and not b & 0x40) or (n == -1 and b & 0x40):
            out.append(b)
            return out
        out.append(b | 0x80)


def uleb_of_sleb(n):
    """libdw reads the offset operand of DW_OP_(GNU_)implicit_pointer with get_uleb128 although DWARF stores it as SLEB128:
    what comes out for a stored n (the same number when n >= 0), then cast to a signed 64-bit word by dwgrep"""
    v = 0
    for i, b in enumerate(sleb_bytes(n)):
        v |= (b & 0x7f) << (7 * i)
    v &= M64 - 1
    return v - M64 if v >= (1 << 63) else v


def expected_abbrevs(desc):
    out = []
    for t in desc["abbrevs"]:
        ents = []
        for e in t["entries"]:
            imp = dict((i, v) for i, v in e.get("implicit_consts", []))
            # libdw's dwarf_getabbrevattr reports abbrev.offset + position within the attribute list
            pos = e["offset"]
            ats = []
            for i, (at, form) in enumerate(e["attrs"]):
                ats.append("[%d,%d,%d]" % (at, form, pos))
                pos += uleb_len(at) + uleb_len(form) + (sleb_len(imp[i]) if form == forest.DW_FORM["implicit_const"] and i in imp else 0)
            ents.append("[%d,%d,%s,%d,[%s]]" % (e["code"], e["tag"], "[1]" if e["children"] else "[]", e["offset"], ",".join(ats)))
        out.append("[%d,[%s]]" % (t["table_offset"], ",".join(ents)))
    return out


def op_expected(op2, unit_off):
    """expected [offset, opcode, [values]] of one operation from the description (standard operand classes)"""
    name = O.name(op2["op"]) or ""
    vals = []
    ops = op2["operands"]

    def u(x):
        return x.get("u", x.get("addr", x.get("curel")))
    if name in SIGNED1:
        vals = [["dec", ops[0]["s"]]]
    elif name in UNSIGNED1:
        vals = [["dec", u(ops[0])]]
    elif name in HEX1:
        vals = [["hex", u(ops[0])]]
    elif name == "bregx":
        vals = [["dec", u(ops[0])], ["dec", ops[1]["s"]]]
    elif name in ("bit_piece", "regval_type", "GNU_regval_type", "deref_type", "GNU_deref_type", "xderef_type"):
        vals = [["dec", u(ops[0])], ["dec", u(ops[1])]]
    elif name in ("implicit_pointer", "GNU_implicit_pointer"):
        vals = [["die", ops[0]["die"]], ["dec", uleb_of_sleb(ops[1]["s"])]]
    elif name == "implicit_value":
        vals = [["block", ops[0]["block"]]]
    elif name in ("entry_value", "GNU_entry_value"):
        vals = [["expr", [o["op"] for o in ops[0]["expr"]]]]
    elif name in ("const_type", "GNU_const_type"):
        vals = [["die", ops[0]["die"]], ["block", ops[1]["block"]]]
    return [op2["offset"], op2["op"], vals]


def ops2_of(v):
    """ops2 entries, or a conversion of the old `ops` form (opcode, operands…) when the generator gives no ops2"""
    if "ops2" in v:
        return v["ops2"]
    out = []
    off = 0
    blk = v.get("block", [])
    for op in v["ops"]:
        name = O.name(op[0]) or ""
        operands = []
        size = 1
        if name == "addr":
            operands = [{"addr": op[1]}]; size += 8
        elif name in ("plus_uconst", "piece"):
            operands = [{"u": op[1]}]; size += uleb_len(op[1])
        elif name == "fbreg" or name.startswith("breg") and name != "bregx":
            operands = [{"s": op[1]}]; size += sleb_len(op[1])
        elif name == "bregx":
            operands = [{"u": op[1]}, {"s": op[2]}]; size += uleb_len(op[1]) + sleb_len(op[2])
        out.append({"offset": off, "op": op[0], "operands": operands})
        off += size
    return out


def observed_op(q):
    """harness [offset, label, [values…], pos] -> [offset, opcode, [values]] , pos"""
    off, lab, vals, pos = q[1][0][2], q[1][1][2], q[1][2][1], q[1][3][2]
    out = []
    for v in vals:
        tag = v[1][0][2] if v[0] == "q" and v[1] and v[1][0][0] == "c" else None
        if tag == 1:
            out.append([v[1][2][1], v[1][1][2]])
        elif tag == 2:
            out.append(["die", v[1][1][2]])
        elif tag == 3:
            out.append(["block", [x[2] for x in v[1][1][1]]])
        elif tag == 4:
            out.append(["expr", [x[2] for x in v[1][1][1]]])
        else:
            out.append(["other", repr(v)])
    return [off, lab, out], pos


def check_locations(ctx, fs, desc, path, res_lines, stats, stream="C17-loc"):
    """every location attribute of a generated forest: per element the address range, length, each operation's offset, opcode
    and operands (domain, sign), relem, positions — library (the LOC_Q records) vs the description.  Returns True if all agree."""
    good = True
    opcodes = stats.setdefault("opcodes", {})
    want_loc = []
    for u in desc["units"]:
        for x in walk(u["root"]):
            for i, a in enumerate(x["attrs"]):
                v = a["value"]
                if isinstance(v, dict) and "ops" in v and a["form"] in (forest.DW_FORM["exprloc"], forest.DW_FORM["block1"]) \
                        and (forest.DW_AT.name(a["name"]) in LOCATION_CLASS):
                    want_loc.append((x["offset"], i, [(0, M64 - 1, ops2_of(v))], u["offset"]))
                elif isinstance(v, dict) and "loclist" in v:
                    stats["lists"] = stats.get("lists", 0) + 1
                    want_loc.append((x["offset"], i, [(e["start"], e["end"], ops2_of(e)) for e in v["entries"]], u["offset"]))
    got_loc = {}
    for r in res_lines:
        q = dwcorr.parse_vals(r[r.index("["):])[0][1]
        key = (q[0][2], q[1][2])
        rng_ = [tuple(x[2] for x in s[1]) for s in q[2][1]]
        ops = [observed_op(o) for o in q[4][1]]
        rel = [(o[1][0][2], o[1][1][2]) for o in q[5][1]]
        got_loc.setdefault(key, []).append({"range": rng_, "length": q[3][2], "ops": [o for o, _ in ops],
                                            "pos": [p for _, p in ops], "relem": rel, "epos": q[6][2]})
    for (off, i, elems, uoff) in want_loc:
        g = got_loc.get((off, i), [])
        w = []
        for ei, (lo, hi, ops2) in enumerate(elems):
            wops = [op_expected(o, uoff) for o in ops2]
            # an empty range: `address` is the empty set, of which the query's [low, high] capture is the empty list
            w.append({"range": [(lo, hi)] if hi > lo else [()], "length": len(ops2), "ops": wops, "pos": list(range(len(ops2))),
                      # relem: the producer hands out the original index as the position
                      "relem": [(o[0], len(wops) - 1 - j) for j, o in enumerate(reversed(wops))], "epos": ei})
            stats["elems"] = stats.get("elems", 0) + 1
            stats["ops"] = stats.get("ops", 0) + len(ops2)
            for o in ops2:
                opcodes[O.name(o["op"]) or str(o["op"])] = opcodes.get(O.name(o["op"]) or str(o["op"]), 0) + 1
        if g != w:
            good = False
            ei = next((j for j, (a, b) in enumerate(zip(g, w)) if a != b), min(len(g), len(w)))
            ga = g[ei] if ei < len(g) else None
            wa = w[ei] if ei < len(w) else None
            field = next((f for f in ("range", "length", "ops", "pos", "relem", "epos") if ga and wa and ga[f] != wa[f]), "count")
            gv, wv = (ga or {}).get(field, len(g)), (wa or {}).get(field, len(w))
            if field == "ops" and len(gv) == len(wv):
                j = next(j for j in range(len(gv)) if gv[j] != wv[j])
                field, gv, wv = "operation #%d (%s)" % (j, O.name(wv[j][1])), gv[j], wv[j]
            ctx.violation("location attribute #%d of DIE %#x, element %d (%d stored): %s differs — library [offset, opcode, operands] %r, file %r"
                          % (i, off, ei, len(w), field, gv, wv),
                          {"stream": stream, "input": fs.inp(desc, path, "raw entry (offset == %d) attribute (pos == %d) value" % (off, i)),
                           "got": repr(ga), "expected": repr(wa), "theorem": "ZwVerif.C17.operand_classes"})
    return good


def run(ctx):
    if ctx.replay:
        return dwcorr.run_replay(ctx)
    ctx.prove("ZwVerif.Props.C17", THEOREMS)
    fs = dwcorr.Forests(ctx)
    rng = ctx.rng
    n = 40 if ctx.tier == "quick" else 1200
    nabbr = 0
    ok = 0
    stats = {}
    try:
        for k in range(n):
            opts = {"max_units": 4}
            if "rich_ops" in forest._DEFAULTS:
                opts.update({"rich_ops": 0.7, "loclists": 0.5 if k % 2 else 0.0, "empty_ranges": 0.3, "implicit_consts": 0.6, "dup_attrs": 0.1 if k % 4 == 1 else 0.0,
                             "more_locations": 0.4 if k % 2 == 0 else 0.0})
            desc, path = fs.make(rng, **opts)
            qs = [ABBREV_Q, UNIT_Q, DIE_Q, LOC_Q] + [q for _, q in LAWS]
            recs, crashes = fs.query(path, qs)
            if crashes or any(r.err for r in recs[:4]):
                bad = next((q for q, r in zip(qs, recs) if r.err), qs[0])
                ctx.violation("the library failed on a generated forest: `%s`: %s" % (bad[:80], crashes or [r.err for r in recs if r.err][:1]),
                              {"stream": "C17-forest", "input": fs.inp(desc, path, bad)})
                continue
            good = True
            # abbreviation tables
            got = [dwcorr.normalize(r) for r in recs[0].res]
            byoff = dict((int(w[1:w.index(",")]), w) for w in expected_abbrevs(desc))
            order = common.run_model(["ABBR " + " ".join(str(desc["abbrevs"][u["abbrev_table"]]["table_offset"]) for u in desc["units"])])[0]
            want = [byoff[int(o)] for o in order.split()]
            nabbr += sum(len(t["entries"]) for t in desc["abbrevs"])
            if got != want:
                good = False
                i = next((i for i, (a, b) in enumerate(zip(got, want)) if a != b), min(len(got), len(want)))
                ctx.violation("abbreviation table #%d: library lists %s, .debug_abbrev holds %s (tables: library %d, file %d)"
                              % (i, (got[i] if i < len(got) else None), (want[i] if i < len(want) else None), len(got), len(want)),
                              {"stream": "C17-abbrev", "input": fs.inp(desc, path, ABBREV_Q), "got": got[i] if i < len(got) else None,
                               "expected": want[i] if i < len(want) else None, "theorem": "ZwVerif.C17.abbrev_lists_every_table_once"})
            # unit -> table
            gu = [dwcorr.normalize(r) for r in recs[1].res]
            wu = ["[%d,%d]" % (u["offset"], desc["abbrevs"][u["abbrev_table"]]["table_offset"]) for u in desc["units"]]
            if gu != wu:
                good = False
                ctx.violation("unit -> abbreviation table: library %r, file %r" % (gu, wu),
                              {"stream": "C17-abbrev", "input": fs.inp(desc, path, UNIT_Q), "got": gu, "expected": wu})
            # DIE -> abbreviation
            gd = [dwcorr.normalize(r) for r in recs[2].res]
            wd = []
            for u in desc["units"]:
                tab = dict((e["code"], e) for e in desc["abbrevs"][u["abbrev_table"]]["entries"])
                for x in walk(u["root"]):
                    wd.append("[%d,[%d,%d]]" % (x["offset"], x["abbrev_code"], tab[x["abbrev_code"]]["offset"]))
            if gd != wd:
                good = False
                i = next((i for i, (a, b) in enumerate(zip(gd, wd)) if a != b), min(len(gd), len(wd)))
                ctx.violation("abbreviation of DIE #%d: library %s, file %s" % (i, gd[i] if i < len(gd) else None, wd[i] if i < len(wd) else None),
                              {"stream": "C17-abbrev", "input": fs.inp(desc, path, DIE_Q), "got": gd[i] if i < len(gd) else None,
                               "expected": wd[i] if i < len(wd) else None, "theorem": "ZwVerif.C17.findAbbrev_unique"})
            # location attributes
            if not check_locations(ctx, fs, desc, path, recs[3].res, stats):
                good = False
            # law queries
            for (name, q), r in zip(LAWS, recs[4:]):
                if r.err and r.err.startswith("compile"):
                    raise RuntimeError("law query does not compile: %s: %s" % (q, r.err))
                if r.err:
                    continue
                if r.res:
                    good = False
                    ctx.violation("law fails: %s — `%s` yields %d result(s)" % (name, q, len(r.res)),
                                  {"stream": "C17-law", "input": fs.inp(desc, path, q), "got": r.res[:3], "expected": []})
            if good:
                ok += 1
        # the samples: law queries
        samples = [os.path.join(common.REPO, "tests", f) for f in
                   ("aranges.o", "testfile_const_type", "bitcount.o", "nullptr.o", "twocus", "dwz-partial", "a1.out", "enum.o", "inline.o",
                    "typedef.o", "y.o", "entry_value.o", "implicit_pointer.o", "location-list.o", "dwz-partial2-1")]
        samples = [s for s in samples if os.path.exists(s)]
        if ctx.tier != "quick":
            samples = sorted(set(samples + glob.glob(os.path.join(common.REPO, "tests", "*.o"))))
        samples = samples + [cp for cp, _ in dwcorr.compiler_objects(fs.dir, 4 if ctx.tier == "quick" else None)]   # compiled on the spot
        s_ok = 0
        for s in samples:
            recs, crashes = fs.query(s, [q for _, q in LAWS])
            if crashes:
                continue
            fired = [(nq, r) for nq, r in zip(LAWS, recs) if not r.err and r.res]
            for (name, q), r in fired:
                ctx.violation("law fails on %s: %s — `%s` yields %d result(s)" % (os.path.basename(s), name, q, len(r.res)),
                              {"stream": "C17-samples", "input": {"file": s, "query": q}, "got": r.res[:3], "expected": []})
            if not fired:
                s_ok += 1
    finally:
        fs.cleanup()
    nops, nelem, lists, opcodes = stats.get("ops", 0), stats.get("elems", 0), stats.get("lists", 0), stats.get("opcodes", {})
    ctx.cov["evaluations"] = nops + nabbr
    ctx.cov["distinct_nontrivial"] = len(opcodes)
    if not ctx.replay:
        ctx.sample({"location query": LOC_Q, "abbreviation tables of the last forest (library = file)": got[:1]})
    ctx.cov["forests"] = n
    ctx.cov["forests_fully_agreeing"] = ok
    ctx.cov["location_elements"] = nelem
    ctx.cov["location_lists"] = lists
    ctx.cov["operations"] = nops
    ctx.cov["operations_by_opcode"] = dict(sorted(opcodes.items(), key=lambda kv: -kv[1]))
    ctx.cov["abbreviations"] = nabbr
    ctx.cov["sample_files_lawful"] = s_ok
    ctx.cov["rule"] = ("generated forests: every abbreviation table (offset, entries with code, tag, children flag, offset, attribute "
                       "(name, form, offset) list), unit -> table, DIE -> abbreviation, and every location attribute (per element: address "
                       "range, length, each operation's offset, opcode and operands with domain and sign, relem, positions) vs the "
                       "description with the DWARF standard's operand classes; law queries (length, relem, ?OP_x, abbrev vs DIE) on "
                       "the forests and the samples; evaluations = operations + abbreviations compared; distinct = opcodes seen")
    ctx.assumptions += ["libdw (dwarf_getlocations, dwarf_getabbrev, dwarf_getabbrevattr — whose attribute offset is the abbreviation's "
                        "offset plus the position within its attribute list) is a parameter"]
