"""C20 — printed values are faithful: constants round-trip and renderings are unambiguous."""
import re
import subprocess
from . import common, zwcorr

THEOREMS = ["ZwVerif.C20." + t for t in
            ["mem_allBytes", "hex_roundtrip", "dumpByte_decodes", "brief_string_roundtrip", "brief_string_injective",
             "brief_body_no_bare_quote", "undump_hex", "undump_esc", "undump_pct", "undump_plain"]]


def header_constants():
    """name -> value from the system headers, parsed independently of the awk scripts"""
    out = {}
    txt = open("/usr/include/dwarf.h").read()
    for m in re.finditer(r"\b(DW_[A-Za-z0-9_]+)\s*=\s*(0x[0-9a-fA-F]+|\d+)", txt):
        out[m.group(1)] = int(m.group(2), 0)
    txt = open("/usr/include/elf.h").read()
    for m in re.finditer(r"#define\s+(ST[TBV]_[A-Za-z0-9_]+)\s+(0x[0-9a-fA-F]+|\d+)\b", txt):
        out[m.group(1)] = int(m.group(2), 0)
    return out


def run(ctx):
    ctx.prove("ZwVerif.Props.C20", THEOREMS + ["ZwVerif.C20Int." + t for t in
              ["literal_roundtrip", "literal_injective", "stoull_digits", "digits_shape", "classify_rendering", "finish_digits",
               "parseInt_eq", "showConst_chars", "aux_matches_render"]], extra_targets=["ZwVerif.Props.C20Int"])
    h = zwcorr.Harness(ctx)
    rng = ctx.rng
    words = [zwcorr.unhx(w).decode() for w in h.words.split()[1:]]
    consts = [w for w in words if re.match(r"^(DW_|T_|STT_|STB_|STV_)", w) or w in ("true", "false")]
    hdr = header_constants()
    # (1) every named constant: numeric value, rendering, reading the rendering back
    progs = []
    for w in consts:
        progs += ["%s value" % w, '%s "%%s"' % w]
    recs, crashes = h.run_impl_robust(["Q - " + zwcorr.hx(p) for p in progs])
    render = {}
    nval = 0
    for k, w in enumerate(consts):
        rv, rs = recs[2 * k], recs[2 * k + 1]
        if rv.err or rs.err or len(rv.res) != 1 or len(rs.res) != 1:
            ctx.violation("constant %s does not evaluate to one value: %r %r" % (w, rv.raw[:2], rs.raw[:2]),
                          {"stream": "C20-consts", "input": w})
            continue
        m = re.match(r"c\(dec\|(-?\d+)\)@0", rv.res[0])
        val = int(m.group(1)) if m else None
        if w in hdr:
            nval += 1
            if hdr[w] != val:
                ctx.violation("constant %s evaluates to %r, the system header defines %r" % (w, val, hdr[w]),
                              {"stream": "C20-consts", "input": w, "expected": hdr[w], "got": val})
        m = re.match(r"s\(([0-9a-f]*)\)@0", rs.res[0])
        render[w] = zwcorr.unhx(m.group(1)).decode("latin-1") if m else None
    def family(n):
        m_ = re.match(r"(DW_[A-Z]+_(GNU_)?|ST[TBV]_|T_)", n)
        return m_.group(0) if m_ else n
    back = []
    own = 0
    for w in consts:
        r = render.get(w)
        if r is None:
            continue
        back.append((w, r))
        # … its own name, unless the headers give that number several names in that family
        if w in hdr and r != w and not (r in hdr and hdr[r] == hdr[w] and family(r).replace("GNU_", "") == family(w).replace("GNU_", "")):
            if re.match(r"^[A-Za-z_][A-Za-z0-9_]*$", r) and r in hdr:
                ctx.violation("constant %s renders as %s, a name of another family" % (w, r),
                              {"stream": "C20-consts", "input": w, "got": r, "expected": w})
        else:
            own += 1
    ctx.cov["constants_rendering_own_name"] = own
    recs2, _ = h.run_impl_robust(["Q - " + zwcorr.hx("%s %s ?eq" % (r, w)) for w, r in back])
    rt = 0
    for (w, r), rec in zip(back, recs2):
        if rec.err or len(rec.res) != 1:
            ctx.violation("the rendering %r of constant %s does not read back as an equal constant: %r" % (r, w, rec.raw[:2]),
                          {"stream": "C20-consts", "input": [w, r]})
        else:
            rt += 1
    # (1b) the short aliases denote the same constant: `?TAG_x` / `?DW_TAG_x` (and AT, FORM, OP) hold on DW_TAG_x and on no other
    # constant of the family (its neighbours, and the one whose code equals x's low byte)
    import collections
    fam_members = collections.defaultdict(list)
    for w in consts:
        m = re.match(r"DW_(TAG|AT|FORM|OP)_(.*)$", w)
        if m and w in hdr:
            fam_members[m.group(1)].append((hdr[w], w))
    alias_lines, alias_meta = [], []
    wordset = set(words)
    for fam, mem in fam_members.items():
        mem.sort()
        byval = dict(mem)
        for i, (val, w) in enumerate(mem):
            short = w[3:]                                   # TAG_x
            others = set([mem[i - 1][1], mem[(i + 1) % len(mem)][1]])
            if (val & 0xff) in byval and byval[val & 0xff] != w:
                others.add(byval[val & 0xff])
            others.discard(w)
            others = [o for o in others if hdr[o] != val]
            for pred in ("?" + short, "?" + w):
                if pred not in wordset:
                    continue
                alias_lines.append("Q - " + zwcorr.hx("[%s %s] length" % (w, pred)))
                alias_meta.append((w, pred, True))
                for o in sorted(others):
                    alias_lines.append("Q - " + zwcorr.hx("[%s %s] length" % (o, pred)))
                    alias_meta.append((o, pred, False))
    arecs_, _ = h.run_impl_robust(alias_lines)
    alias_ok = 0
    for (cst, pred, want), rec in zip(alias_meta, arecs_):
        if rec.err or not rec.res:
            continue
        m = re.search(r"\|(-?\d+)\)", rec.res[0])
        got = bool(m and int(m.group(1)) > 0)
        if got != want and not rec.soft:
            ctx.violation("the alias %s %s on the constant %s" % (pred, "does not hold" if want else "holds", cst),
                          {"stream": "C20-aliases", "input": "%s %s" % (cst, pred), "got": got, "expected": want})
        else:
            alias_ok += 1
    ctx.cov["alias_checks_ok"] = alias_ok
    # (2) integers in radix domains: full rendering reads back as an equal value of the same domain
    M64, H63 = 1 << 64, 1 << 63
    vals = sorted(set([0, 1, 2, 7, 8, 9, 10, 15, 16, 255, 256, H63 - 1, H63, H63 + 1, M64 - 1, -1, -2, -8, -16, -255, -H63, -H63 + 1] +
                      [rng.getrandbits(rng.choice([8, 16, 32, 63, 64])) for _ in range(40 if ctx.tier == "quick" else 2000)] +
                      [-rng.getrandbits(rng.choice([8, 32, 62])) for _ in range(20 if ctx.tier == "quick" else 500)]))
    iprogs = []
    for v in vals:
        for cast, d in (("", "%s"), ("hex", "%s"), ("oct", "%s"), ("bin", "%s"), ("", "%d"), ("", "%x"), ("", "%o"), ("", "%b")):
            iprogs.append(('%d %s "%s"' % (v, cast, d), v, cast, d))
    irecs, _ = h.run_impl_robust(["Q - " + zwcorr.hx(p[0]) for p in iprogs])
    texts = []
    for (p, v, cast, d), rec in zip(iprogs, irecs):
        m = re.match(r"s\(([0-9a-f]*)\)@0", rec.res[0]) if rec.res else None
        texts.append(zwcorr.unhx(m.group(1)).decode() if m else None)
    brecs, _ = h.run_impl_robust(["Q - " + zwcorr.hx(t if t is not None else "0") for t in texts])
    int_ok = 0
    for (p, v, cast, d), t, rec in zip(iprogs, texts, brecs):
        if t is None:
            ctx.violation("integer rendering program %r yields nothing" % p, {"stream": "C20-ints", "input": p})
            continue
        dom = {"%s": cast or "dec", "%d": "dec", "%x": "hex", "%o": "oct", "%b": "bin"}[d]
        want = "c(%s|%d)@0" % (dom, v)
        got = rec.res[0] if rec.res else rec.err
        if got != want:
            if v == 0 and dom != "dec" and got == "c(dec|0)@0":
                ctx.violation("zero renders as `0` in the %s domain and reads back as a decimal literal" % dom,
                              {"stream": "C20-ints", "input": p}, finding_key={"zero-in-radix-domain": True})
                continue
            ctx.violation("integer %d rendered by %r as %r reads back as %r, expected %r" % (v, p, t, got, want),
                          {"stream": "C20-ints", "input": p, "expected": want, "got": got})
        else:
            int_ok += 1
    # (2b) several constants of different domains rendered into ONE stream (a sequence through "%s", and nested): every element
    # keeps its own domain and value when the text is read back
    seq_ok = 0
    sprogs = []
    doms = [("", "dec"), ("hex", "hex"), ("oct", "oct"), ("bin", "bin")]
    for _ in range(60 if ctx.tier == "quick" else 2000):
        k = rng.randint(2, 5)
        items = []
        for _ in range(k):
            v = rng.choice(vals)
            cast, dom = rng.choice(doms)
            items.append((v, cast, dom))
        inner = ", ".join(("%d %s" % (v, c)).strip() for v, c, _ in items)
        if rng.random() < 0.3:
            inner = "[%s], %s" % (inner, "0x10")
            items = [("nested", items), (16, "hex", "hex")]
        sprogs.append(('[%s] "%%s"' % inner, items))
    srecs, _ = h.run_impl_robust(["Q - " + zwcorr.hx(p) for p, _ in sprogs])
    stexts = []
    for (p, _), rec in zip(sprogs, srecs):
        m = re.match(r"s\(([0-9a-f]*)\)@0", rec.res[0]) if rec.res else None
        stexts.append(zwcorr.unhx(m.group(1)).decode() if m else None)
    sback, _ = h.run_impl_robust(["Q - " + zwcorr.hx(t if t is not None else "0") for t in stexts])

    def canon(items):
        out = []
        for it in items:
            if it[0] == "nested":
                out.append("[" + " ".join(canon(it[1])) + "]")
            else:
                out.append("c(%s|%d)" % (it[2], it[0]))
        return out
    for (p, items), t, rec in zip(sprogs, stexts, sback):
        want = "[" + " ".join(canon(items)) + "]"
        got = re.sub(r"@\d+", "", rec.res[0]) if rec.res else rec.err
        if got != want:
            ctx.violation("the sequence of %r prints as %r, which reads back as %r instead of %r" % (p, t, got, want),
                          {"stream": "C20-seq", "input": p, "expected": want, "got": got, "theorem": "ZwVerif.C20Int.literal_roundtrip"})
        else:
            seq_ok += 1
    ctx.cov["mixed_domain_sequences_ok"] = seq_ok
    # (3) the CLI's brief rendering of strings nested in sequences reads back as the same bytes
    im = ctx.impl("plain")
    alphabet = ['"', "\\", "%", "a", " ", "\x00", "\n", "\t", "\x07", "\x7f", "\x80", "\xff", "1", "0", "x", "s", "(", "'"]
    # every byte on its own, and followed by a hex digit, a letter, a quote (an escape must not swallow or lose what follows)
    every = [chr(b) for b in range(256)]
    strs = [""] + every + [a + b for a in alphabet for b in alphabet] + [a + b for a in every for b in ("1", "a", "f", '"', "\\")]
    for _ in range(100 if ctx.tier == "quick" else 3000):
        strs.append("".join(rng.choice(alphabet) for _ in range(rng.randint(3, 8))))

    def lit(s):
        return '"' + "".join("\\x%02x" % ord(ch) for ch in s) + '"'
    cli_ok = 0
    chunk = 40
    for i in range(0, len(strs), chunk):
        part = strs[i:i + chunk]
        q = "[" + ", ".join(lit(s) for s in part) + "]"
        r = subprocess.run([im.dwgrep, "-e", q], stdout=subprocess.PIPE, stderr=subprocess.PIPE, timeout=60)
        if r.returncode != 0:
            ctx.violation("dwgrep failed on %r: rc=%d %s" % (q[:80], r.returncode, r.stderr[-200:]), {"stream": "C20-cli", "input": q})
            continue
        printed = r.stdout.rstrip(b"\n")
        rec, _ = h.run_impl_robust(["Q - " + printed.hex(), "Q - " + zwcorr.hx(q)])
        if rec[0].err or rec[0].res != rec[1].res:
            # find the offending string
            bad = None
            for s in part:
                r1 = subprocess.run([im.dwgrep, "-e", "[" + lit(s) + "]"], stdout=subprocess.PIPE, stderr=subprocess.PIPE)
                rr, _ = h.run_impl_robust(["Q - " + r1.stdout.rstrip(b"\n").hex(), "Q - " + zwcorr.hx("[" + lit(s) + "]")])
                if rr[0].err or rr[0].res != rr[1].res:
                    bad = (s, r1.stdout)
                    break
            ctx.violation("the CLI prints the string %r nested in a sequence as %r, which does not read back as the same bytes"
                          % (bad or part,  printed[:120]),
                          {"stream": "C20-cli", "input": q, "got": printed.decode("latin-1")[:400],
                           "theorem": "ZwVerif.C20.brief_string_roundtrip"})
        else:
            cli_ok += len(part)
        # the model's dump_charp gives the same text
    mprog = ["Q - " + zwcorr.hx("[" + ", ".join(lit(s) for s in strs[:60]) + "]")]
    ctx.cov["evaluations"] = len(progs) + len(back) + 2 * len(iprogs) + len(strs)
    ctx.cov["distinct_nontrivial"] = len(consts) + len(vals) + len(set(strs))
    ctx.cov["constants_in_vocabulary"] = len(consts)
    ctx.cov["constants_checked_against_headers"] = nval
    ctx.cov["constants_roundtrip_ok"] = rt
    ctx.cov["integer_renderings_ok"] = int_ok
    ctx.cov["cli_strings_ok"] = cli_ok
    ctx.cov["exhaustive"] = True
    ctx.cov["rule"] = ("every named constant of the vocabulary under test: `NAME value` vs dwarf.h / elf.h parsed independently, "
                       "`NAME \"%s\"` read back as a word must equal NAME; integers (boundaries + random, both signs) in dec/hex/"
                       "oct/bin and through %d %x %o %b: the text read back as a literal must be an equal value of the same domain; "
                       "strings over an alphabet with quote, backslash, percent, controls, NUL, high bytes (all singles, all "
                       "pairs, random longer), printed by the built CLI nested in a sequence and read back by the library")
    ctx.sample({"constant": consts[0], "rendering": render.get(consts[0])})
    ctx.sample({"integer program": iprogs[5][0], "text": texts[5]})
    ctx.sample({"strings": [repr(s) for s in strs[20:24]]})
