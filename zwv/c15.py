"""C15 — notation does not change meaning: sugar, layout and simplifier are transparent."""
import collections
import re
from . import common, zwcorr, gen

THEOREMS = ["ZwVerif.C15." + t for t in
            ["default_rule_unreachable_initial", "default_rule_unreachable_string", "default_rule_unreachable_embedded",
             "c_comment_accepts", "c_comment_in_table", "c_comment_is_skipped", "lexer_rules_tie", "lexer_actions_tie", "tree_types_tie",
             "createCat_flat", "flattenOnce_noop", "escape_table"]]

FILL = [" ", "  ", "\n", "\t", " # c\n", " // c d\n", " /* c */ ", " /***/ ", " /* a **/ ", "\n\n", " /* * / */ "]


def segments(p):
    """split a program into ('s', string literal) and ('t', other text) pieces; None when it has splices"""
    out = []
    i = 0
    cur = ""
    while i < len(p):
        c = p[i]
        if c == '"':
            start = i
            if cur.endswith("r") and (len(cur) == 1 or not (cur[-2].isalnum() or cur[-2] == "_")):
                cur = cur[:-1]
                start = i - 1
            if cur:
                out.append(("t", cur))
                cur = ""
            i += 1
            while i < len(p) and p[i] != '"':
                if p[i] == "\\":
                    i += 1
                if p[i:i + 2] == "%(":
                    return None
                i += 1
            out.append(("s", p[start:i + 1]))
            i += 1
        else:
            cur += c
            i += 1
    if cur:
        out.append(("t", cur))
    return out


def layout_variant(p, rng):
    segs = segments(p)
    if segs is None:
        return p
    def relayout(t):
        # whitespace inside an existing comment is part of the comment: leave comments alone
        parts = re.split(r"(/\*.*?\*/|#[^\n]*|//[^\n]*)", t, flags=re.S)
        return "".join(x if i % 2 else re.sub(r"\s+", lambda m: rng.choice(FILL), x) for i, x in enumerate(parts))
    return "".join(t if k == "s" else relayout(t) for k, t in segs) + rng.choice(FILL)


def escape_variant(p, rng):
    """rewrite the characters of plain string literals as escapes / continuation"""
    segs = segments(p)
    if segs is None:
        return p
    res = []
    for k, t in segs:
        m = re.fullmatch(r'"([^"\\%]+)"', t)
        if k != "s" or not m:
            res.append(t)
            continue
        out = ""
        for ch in m.group(1):
            c = rng.random()
            if c < 0.3:
                out += "\\x%02x" % ord(ch)
            elif c < 0.5:
                out += "\\%03o" % ord(ch)
            elif c < 0.6:
                out += '%s"\\ "' % ch
            elif c < 0.7:
                out += '%s"\\\n\t"' % ch
            else:
                out += ch
        res.append('"' + out + '"')
    return "".join(res)


def paren_variant(p, rng):
    segs = segments(p)
    if segs is None:
        return p
    res = []
    for k, t in segs:
        if k == "s":
            res.append("(" + t + ")" if rng.random() < 0.3 and not t.startswith("r") else t)
        else:
            res.append(re.sub(r"(?<![\w:=`])(-?\d\w*)(?![\w])", lambda m: "(" + m.group(1) + ")" if rng.random() < 0.3 else m.group(1), t))
    return "".join(res)


SUGAR = [
    # (sugared, expansion) templates over sub-expressions A, B (which push one value) and E
    ("{S} ({A})?", "{S} ({A}, )", True),
    ("{S} if ({C}) then ({A}) else ({B})", "{S} (?({C}) ({A}), !({C}) ({B}))", False),
    ("{S} ?({A})", "{S} ([{A}] != [])", True),
    ("{S} ({A} == {B})", "{S} ?(let Ta := {A}; let Tb := {B}; Ta Tb ?eq)", True),
    ("{S} ({A} < {B})", "{S} ?(let Ta := {A}; let Tb := {B}; Ta Tb ?lt)", True),
    ('{S} {A} "x%sy"', '{S} {A} "x%( %)y"', True),
    ('{S} {N} "%d"', '{S} {N} "%( value %)"', True),
    # layout inside an embedded program: a newline alone separates tokens there as anywhere
    ('{S} "%( {N} 1 add %)"', '{S} "%(\n{N}\n1\nadd\n%)"', True),
    ('{S} "a%( {A} %)b%( {N} 2 mul %)"', '{S} "a%(\t{A}\n%)b%( {N}\n2\nmul %)"', True),
    ('{S} {N} "%x"', '{S} {N} "%( value hex %)"', True),
    ('{S} {N} {N} "%o|%b"', '{S} {N} {N} "%( value oct %)|%( value bin %)"', True),
    ('{S} "ab"', '{S} "a"\\ "b"', True),
    ('{S} r"\\x41\\101\\n\\q"', '{S} "\\\\x41\\\\101\\\\n\\\\q"', True),
    ('{S} r"a\\"b"', '{S} "a\\\\\\"b"', True),
    ('{S} "a\\x41b"', '{S} "aAb"', True),
    ('{S} {A} ({B})', '{S} {A} {B}', True),
    ('{S} () () {A}', '{S} {A}', True),
    ('{S} {A} () () {B}', '{S} {A} {B}', True),
    ("{S} (let Q := 1; Q) == Q0", None, True),
]


def run(ctx):
    ctx.prove("ZwVerif.Props.C15", THEOREMS)
    h = zwcorr.Harness(ctx)
    rng = ctx.rng
    g = gen.Gen(rng, maxdepth=3)
    n = 600 if ctx.tier == "quick" else 15000
    base = ["1 /***/ 2", "1 /* a **/ 2", '"%( 1\n2 add %)"', '"%( 1 # c\n2 add %)"', '"%( 1 %) %( "(" %)"', "() () 1", "1 () () 2",
            "let x := 5; ?((let x := 1; x) == x)", "(let x := 1; x) == (let x := 1; x)", 'r"\\x41"', 'r"a\\nb"', '"a"\\ r"\\n"',
            "1 2 3 `[4]", "7 8 9 ``[5] 1 2 3 `[4]"]
    for _ in range(n):
        base.append(g.program())
    if ctx.replay:
        import json
        rp = json.load(open(ctx.replay))
        base = [rp["input"]] if isinstance(rp.get("input"), str) else list(rp["input"])
    # (1) parser / simplifier model vs implementation: printed trees, before and after simplification
    tl = []
    for p in base:
        tl += ["T - " + zwcorr.hx(p), "T s " + zwcorr.hx(p)]
    irecs, crashes = h.run_impl_robust(tl)
    mrecs = h.run_model(tl)
    tree_mismatch = 0
    for k, (i, m) in enumerate(zip(irecs, mrecs)):
        p = base[k // 2]
        if i.err in ("crash", "skipped"):
            ctx.violation("parser crashed on %r" % p, {"stream": "C15-tree", "input": p})
            continue
        ie = (i.err or "").split(":")[0]
        me = (m.err or "").split(":")[0]
        if ie != me or (not i.err and i.tree != m.tree):
            tree_mismatch += 1
            if tree_mismatch <= 3:
                ctx.violation("parse tree (%s) of %r differs from the parser model: impl %r model %r"
                              % ("simplified" if k % 2 else "raw", p, zwcorr.unhx(i.tree or "")[:300] or i.err,
                                 zwcorr.unhx(m.tree or "")[:300] or m.err),
                              {"stream": "C15-tree", "input": p, "got": i.raw[:3], "expected": m.raw[:3],
                               "correspondence": "zwharness T vs ZwVerif.Model.Parser / Tree.simplify"}, found_input=False)
    # (2) the simplifier changes no result: run with and without it (implementation), and the model without it
    ql = []
    for p in base:
        ql += ["Q - " + zwcorr.hx(p), "Q n " + zwcorr.hx(p)]
    recs, _ = h.run_impl_robust(ql)
    simp_ok = 0
    for k, p in enumerate(base):
        a, b = recs[2 * k], recs[2 * k + 1]
        if "timeout" in (a.err or "") or "timeout" in (b.err or "") or "budget" in (a.err or "") + (b.err or ""):
            continue
        if a.key() != b.key():
            ctx.violation("tree::simplify changes the result of %r: with %r without %r" % (p, (a.err, a.res[:5]), (b.err, b.res[:5])),
                          {"stream": "C15-simplify", "input": p, "got": a.raw[:10], "expected": b.raw[:10],
                           "theorem": "simplify_sound (checked by correspondence)"})
        else:
            simp_ok += 1
    stats, _, _ = zwcorr.run_programs(ctx, h, base, flags="n", theorem="engine on the unsimplified tree = ZwVerif.sem",
                                      label="C15-nosimplify")
    # (3) documented equivalences, on the implementation
    pairs = []
    for p in base:
        if "%(" in p or '"\\' in p or "`" in p:
            variants = []
        else:
            variants = [layout_variant(p, rng), escape_variant(p, rng), paren_variant(p, rng)]
        for v in variants:
            if v != p:
                pairs.append((p, v, True))
    for _ in range(n // 2 + 20):
        s = "(" + ", ".join(g.lit("c")[0] for _ in range(rng.randint(1, 3))) + ")"
        sub = {"S": s, "A": g.push1(["c"], [], 2)[0], "B": g.push1(["c"], [], 2)[0], "C": g.sub(["c"], [], 2, 1)[0],
               "N": rng.choice(["5", "255", "-3", "0x10", "(1, 16)"])}
        a, b, ordered = rng.choice(SUGAR)
        if b is None:
            continue
        pairs.append((a.format(**sub), b.format(**sub), ordered))
    lines = []
    for a, b, _ in pairs:
        lines += ["Q - " + zwcorr.hx(a), "Q - " + zwcorr.hx(b)]
    recs, _ = h.run_impl_robust(lines)
    eq_ok = 0
    for k, (a, b, ordered) in enumerate(pairs):
        ra, rb = recs[2 * k], recs[2 * k + 1]
        if "timeout" in (ra.err or "") + (rb.err or "") or "budget" in (ra.err or "") + (rb.err or ""):
            continue
        # the equivalences are about results; an expansion may evaluate a sub-expression more often than its sugared form
        # (`if C …` once, `(?(C) …, !(C) …)` twice), so the NUMBER of diagnostics is not compared, their kinds are
        ka, kb = ra.key(ordered), rb.key(ordered)
        ka, kb = ka[:2] + (tuple(sorted(set(ka[2]))),) + ka[3:], kb[:2] + (tuple(sorted(set(kb[2]))),) + kb[3:]
        if ka != kb:
            ctx.violation("programs the documentation declares equivalent differ: %r -> %r ; %r -> %r"
                          % (a, (ra.err, ra.res[:4]), b, (rb.err, rb.res[:4])),
                          {"stream": "C15-equivalence", "input": [a, b], "got": [ra.raw[:8], rb.raw[:8]]})
        else:
            eq_ok += 1
    ctx.cov["evaluations"] = len(tl) + len(ql) + len(lines) + stats["programs"]
    ctx.cov["distinct_nontrivial"] = stats["distinct_nontrivial"]
    ctx.cov["trees_compared"] = len(tl) - tree_mismatch
    ctx.cov["simplify_on_off_equal"] = simp_ok
    ctx.cov["equivalence_pairs_equal"] = eq_ok
    ctx.cov["rule"] = ("generated programs: (1) raw and simplified parse trees vs the Lean lexer/parser/simplifier model, (2) results "
                       "with and without tree::simplify on the implementation and the unsimplified tree vs the Lean `sem`, "
                       "(3) each program rewritten by layout (whitespace, newlines, three comment styles incl. /***/), escapes / "
                       "octal / hex / string continuation, redundant parentheses; and sugar ↔ expansion pairs (E?, if, ?(E), "
                       "infix, %s %d %x %o %b, (), raw strings) — outcomes must be identical on the implementation")
    ctx.cov["input_distribution"] = {k: v for k, v in sorted(stats.items())}
    for a, b, _ in pairs[:3]:
        ctx.sample({"original": a, "rewritten": b})
