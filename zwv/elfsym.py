"""ELF symbol tables: a writer of relocatable objects with generated symbol tables (ground truth by construction, any machine /
class / byte order), an independent reader of the symbol tables of existing files, and the names elf.h gives the codes."""
import re
import struct

EM = {"NONE": 0, "SPARC": 2, "386": 3, "MIPS": 8, "PARISC": 15, "PPC": 20, "PPC64": 21, "ARM": 40, "IA_64": 50, "X86_64": 62,
      "AARCH64": 183, "ALPHA": 0x9026, "RISCV": 243, "S390": 22}
# (machine name, ELF class bits, little endian)
TARGETS = [("X86_64", 64, True), ("ARM", 32, True), ("MIPS", 32, False), ("MIPS", 32, True), ("PPC64", 64, False), ("PPC64", 64, True),
           ("AARCH64", 64, True), ("386", 32, True), ("SPARC", 64, False), ("PARISC", 32, False), ("PPC", 32, False), ("S390", 64, False),
           ("RISCV", 64, True)]
SHN_UNDEF, SHN_ABS, SHN_COMMON = 0, 0xfff1, 0xfff2


def elf_constants():
    """{prefix: {value: [names]}} for STT_, STB_, STV_ from elf.h, machine-specific ones under 'STT_ARM' etc."""
    txt = open("/usr/include/elf.h").read()
    out = {}
    env = {}
    for m in re.finditer(r"^#define\s+(ST[TBV]_\w+)\s+(.+?)\s*(?:/\*.*)?$", txt, re.M):
        name, expr = m.group(1), m.group(2).strip()
        expr = re.sub(r"/\*.*", "", expr).strip()
        try:
            val = eval(expr, {}, env)
        except Exception:
            continue
        env[name] = val
        out[name] = val
    return out


class SymObj:
    """one relocatable object: machine, class, byte order, symbols [{name(bytes), value, size, type, bind, vis, other_hi, shndx}]"""

    def __init__(self, machine, bits, le, symbols, text_size=64, data_size=48):
        self.machine, self.bits, self.le, self.symbols = machine, bits, le, symbols
        self.text_size, self.data_size = text_size, data_size

    def bytes(self):
        e = "<" if self.le else ">"
        is64 = self.bits == 64
        # string tables
        strtab = bytearray(b"\0")
        offs = {b"": 0}
        for s in self.symbols:
            n = s["name"]
            if n not in offs:
                offs[n] = len(strtab)
                strtab += n + b"\0"
        shnames = [b"", b".text", b".data", b".bss", b".symtab", b".strtab", b".shstrtab"]
        shstr = bytearray()
        shoff = []
        for n in shnames:
            shoff.append(len(shstr))
            shstr += n + b"\0"
        # symbol table
        symtab = bytearray()
        for s in self.symbols:
            info = (s["bind"] << 4) | s["type"]
            other = (s.get("other_hi", 0) << 2) | s["vis"]
            if is64:
                symtab += struct.pack(e + "IBBHQQ", offs[s["name"]], info, other, s["shndx"], s["value"], s["size"])
            else:
                symtab += struct.pack(e + "IIIBBH", offs[s["name"]], s["value"], s["size"], info, other, s["shndx"])
        first_global = next((i for i, s in enumerate(self.symbols) if s["bind"] != 0), len(self.symbols))
        ehsize = 64 if is64 else 52
        shentsize = 64 if is64 else 40
        body = bytearray()
        secs = []   # (name idx, type, flags, offset, size, link, info, align, entsize)

        def add(nameidx, typ, flags, data, link=0, info=0, align=1, entsize=0, nobits_size=None):
            while (ehsize + len(body)) % max(align, 1):
                body.append(0)
            off = ehsize + len(body)
            if data is not None:
                body.extend(data)
            secs.append((shoff[nameidx], typ, flags, off, nobits_size if nobits_size is not None else len(data or b""), link, info, align, entsize))
        secs.append((0, 0, 0, 0, 0, 0, 0, 0, 0))
        add(1, 1, 6, bytes(self.text_size), align=16)                       # .text  AX
        add(2, 1, 3, bytes(self.data_size), align=8)                        # .data  WA
        add(3, 8, 3, None, align=8, nobits_size=32)                         # .bss
        add(4, 2, 0, bytes(symtab), link=5, info=first_global, align=8, entsize=24 if is64 else 16)
        add(5, 3, 0, bytes(strtab))
        add(6, 3, 0, bytes(shstr))
        while (ehsize + len(body)) % 8:
            body.append(0)
        shoffset = ehsize + len(body)
        ident = b"\x7fELF" + bytes([2 if is64 else 1, 1 if self.le else 2, 1, 0]) + bytes(8)
        if is64:
            hdr = ident + struct.pack(e + "HHIQQQIHHHHHH", 1, EM[self.machine], 1, 0, 0, shoffset, 0, ehsize, 0, 0, shentsize, len(secs), 6)
        else:
            hdr = ident + struct.pack(e + "HHIIIIIHHHHHH", 1, EM[self.machine], 1, 0, 0, shoffset, 0, ehsize, 0, 0, shentsize, len(secs), 6)
        assert len(hdr) == ehsize
        sh = bytearray()
        for (n, t, fl, off, size, link, info, align, ent) in secs:
            if is64:
                sh += struct.pack(e + "IIQQQQIIQQ", n, t, fl, 0, off, size, link, info, align, ent)
            else:
                sh += struct.pack(e + "IIIIIIIIII", n, t, fl, 0, off, size, link, info, align, ent)
        return bytes(hdr) + bytes(body) + bytes(sh)


def gen_symobj(rng, target=None):
    machine, bits, le = target or rng.choice(TARGETS)
    n = rng.choice([0, 1, 2, 5, 12, 30])
    maxv = (1 << bits) - 1
    names = [b"", b"foo", b"bar", b"_ZN6dumper10dump_charpERSoPKcmNS_6formatE", b"a" * 300, b"main", b"x.y$z", b"\xc3\xa9t\xc3\xa9",
             b"sym with space", b"foo"]
    syms = []
    for _ in range(n):
        typ = rng.choice([0, 1, 2, 3, 4, 5, 6, 10, 13, 15, rng.randint(0, 15)])
        bind = rng.choice([0, 0, 1, 1, 2, 10, 13, rng.randint(0, 15)])
        shndx = rng.choice([SHN_UNDEF, SHN_ABS, SHN_COMMON, 1, 1, 2, 2, 3])
        val = rng.choice([0, 1, 8, 0x1234, maxv, 1 << (bits - 1), rng.randrange(0, maxv)])
        if shndx in (1, 2, 3) and rng.random() < 0.7:
            val = rng.randrange(0, 48)
        size = rng.choice([0, 0, 1, 8, 16, maxv, rng.randrange(0, 1 << 20)])
        nm = rng.choice(names) if rng.random() < 0.7 else ("s%d" % rng.randrange(0, 1000)).encode()
        if typ == 3:
            nm = b"" if rng.random() < 0.8 else nm
        syms.append({"name": nm, "value": val, "size": size, "type": typ, "bind": bind, "vis": rng.randint(0, 3),
                     "other_hi": rng.choice([0, 0, 0, 1, 0x3f]), "shndx": shndx})
    # the null symbol first, then locals, then the rest (sh_info = index of the first non-local)
    syms.sort(key=lambda s: 0 if s["bind"] == 0 else 1)
    null = {"name": b"", "value": 0, "size": 0, "type": 0, "bind": 0, "vis": 0, "other_hi": 0, "shndx": 0}
    return SymObj(machine, bits, le, [null] + syms)


def read_symtab(path):
    """independent reader: (machine number, [symbol dicts]) of .symtab, else .dynsym; None if not ELF"""
    data = open(path, "rb").read()
    if data[:4] != b"\x7fELF":
        return None
    is64 = data[4] == 2
    e = "<" if data[5] == 1 else ">"
    if is64:
        (etype, machine, _v, _entry, _phoff, shoff, _flags, _ehsize, _phes, _phnum, shentsize, shnum, shstrndx) = \
            struct.unpack_from(e + "HHIQQQIHHHHHH", data, 16)
    else:
        (etype, machine, _v, _entry, _phoff, shoff, _flags, _ehsize, _phes, _phnum, shentsize, shnum, shstrndx) = \
            struct.unpack_from(e + "HHIIIIIHHHHHH", data, 16)
    secs = []
    for i in range(shnum):
        o = shoff + i * shentsize
        if is64:
            (n, t, fl, addr, off, size, link, info, align, ent) = struct.unpack_from(e + "IIQQQQIIQQ", data, o)
        else:
            (n, t, fl, addr, off, size, link, info, align, ent) = struct.unpack_from(e + "IIIIIIIIII", data, o)
        secs.append({"type": t, "off": off, "size": size, "link": link, "ent": ent})
    tab = next((s for s in secs if s["type"] == 2), None) or next((s for s in secs if s["type"] == 11), None)
    if tab is None:
        return machine, []
    strs = secs[tab["link"]]
    out = []
    ent = tab["ent"] or (24 if is64 else 16)
    for i in range(tab["size"] // ent):
        o = tab["off"] + i * ent
        if is64:
            (nm, info, other, shndx, val, size) = struct.unpack_from(e + "IBBHQQ", data, o)
        else:
            (nm, val, size, info, other, shndx) = struct.unpack_from(e + "IIIBBH", data, o)
        s0 = strs["off"] + nm
        s1 = data.index(b"\0", s0)
        out.append({"name": data[s0:s1], "value": val, "size": size, "type": info & 15, "bind": info >> 4, "vis": other & 3, "shndx": shndx})
    return machine, out
