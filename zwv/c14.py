"""C14 — any byte string is either compiled or rejected with an error through the API."""
import itertools
from . import common, zwcorr, gen

THEOREMS = ["ZwVerif.C14." + t for t in
            ["capture_contract", "capture_contract_bool", "capture_message_nonempty", "parse_total", "nul_is_reported",
             "lexer_messages_nonempty"]]

ALPH = list(b' \t\n()[]{}?!*+,|:;=<>@._-/\\#%"`$&^~' + b"0123456789abcxzXrRlLeEiIfFtT" + bytes([0, 1, 127, 128, 255]))
INTLITS = ["0", "-0", "00", "0x", "0X", "0b", "0o", "0x0", "0xg", "0b2", "0o8", "08", "018", "0x0x5", "0b0b1", "1_000", "1a",
           "18446744073709551615", "18446744073709551616", "-18446744073709551615", "-9223372036854775808",
           "-9223372036854775809", "0xffffffffffffffff", "0x10000000000000000", "-0xffffffffffffffff",
           "-0x8000000000000000", "-0x8000000000000001", "0b" + "1" * 64, "0b" + "1" * 65, "01777777777777777777777",
           "02000000000000000000000", "0o1777777777777777777777", "?0", "!1", "?18446744073709551615",
           "?18446744073709551616", "?0x10", "?-1", "9" * 40, "-" + "9" * 40, "1 -", "- 1", "--1", "-a"]
UNTERM = ['"', '"a', '"\\', '"%(', '"%( 1', '"%( "', '"%( "a" ', '"%( "%( 1 %)" ', '"%( "%( ', '"%( ( %)"', '"%( ) %)"',
          '"%( [ %)"', '"%)"', '"a" %)', 'r"', '"a"\\', '"a"\\ ', '"a"\\ r', '"%', '"%q"', '"%(%)"', '"%( %( %) %)"', "/*", "/* *",
          "/*/", "(", "[", "{", "?(", "!{", "(|", "(|A", "(|A|", "let", "let A", "let A :=", "let A := 1", 'let "a b" := 1; ',
          'let "%s" := 1;', "if", "if 1", "if 1 then", "if 1 then 2", "if 1 then 2 else", "1 :", ": 1", "dup:", "1 ==", "== 1",
          "1 == 2 == 3", ",", ",,", "||", "|| ||", "*", "1 ** ++ ??", "`[", "```[1]", "` [", "\\dbg", "\\dbx", "@", "@AT_name", ".x"]


def mutate(rng, p):
    toks = p.split(" ")
    k = rng.random()
    if k < 0.3 and len(toks) > 1:
        del toks[rng.randrange(len(toks))]
    elif k < 0.55:
        toks.insert(rng.randrange(len(toks) + 1), rng.choice(["(", ")", "[", "]", "{", "}", ",", "||", ";", ":=", "let", "if", "then",
                                                              "else", "?(", "!(", '"', "%)", "|", "*", "?", ":", "==", "\x00"]))
    elif k < 0.7 and len(toks) > 1:
        i, j = rng.randrange(len(toks)), rng.randrange(len(toks))
        toks[i], toks[j] = toks[j], toks[i]
    elif k < 0.85:
        b = bytearray(p.encode("utf-8", "surrogateescape"))
        if b:
            b[rng.randrange(len(b))] = rng.randrange(256)
        return bytes(b)
    else:
        i = rng.randrange(len(p) + 1)
        return (p[:i]).encode("utf-8", "surrogateescape")      # truncation
    return " ".join(toks).encode("utf-8", "surrogateescape")


def run(ctx):
    ctx.prove("ZwVerif.Props.C14", THEOREMS)
    h = zwcorr.Harness(ctx)
    rng = ctx.rng
    g = gen.Gen(rng, maxdepth=3)
    inputs = []
    inputs += [bytes([b]) for b in range(256)]
    pairs = list(itertools.product(ALPH, repeat=2))
    if ctx.tier == "quick":
        pairs = rng.sample(pairs, 1500)
    inputs += [bytes(p) for p in pairs]
    inputs += [s.encode() for s in INTLITS + UNTERM]
    inputs += [(s + " 1").encode() for s in INTLITS] + [("1 " + s).encode() for s in UNTERM]
    n = 800 if ctx.tier == "quick" else 25000
    for _ in range(n):
        inputs.append(mutate(rng, g.program()))
    if ctx.replay:
        import json
        rp = json.load(open(ctx.replay))
        inputs = [bytes.fromhex(rp["input_hex"])]
    # (1) accept / reject and the compiled tree, implementation vs model
    lines = ["Q t " + zwcorr.hx(q) for q in inputs]
    irecs, crashes = h.run_impl_robust(lines)
    mrecs = h.run_model(lines)
    accepted = rejected = 0
    classes = {}
    for idx, err in crashes:
        ctx.violation("the library crashed / aborted while compiling or running %r: %s" % (inputs[idx], err.strip()[-300:]),
                      {"stream": "C14-bytes", "input_hex": inputs[idx].hex(), "stderr": err})
    bad = 0
    for q, i, m in zip(inputs, irecs, mrecs):
        if i.err in ("crash", "timeout", "skipped") or (i.err or "").startswith("budget"):
            continue
        ic = i.err if (i.err or "").startswith("compile") else None
        mc = m.err if (m.err or "").startswith("compile") else None
        classes[ic or "accepted"] = classes.get(ic or "accepted", 0) + 1
        if ic:
            rejected += 1
        else:
            accepted += 1
        if (ic is None) != (mc is None) or (ic is None and i.tree != m.tree) or (ic and mc and ic != mc and "other" not in (ic + mc)):
            bad += 1
            if bad <= 4:
                ctx.violation("byte string %r: implementation %s, front-end model %s" % (q, ic or "compiles it", mc or "compiles it"),
                              {"stream": "C14-bytes", "input_hex": q.hex(), "got": i.raw[:3], "expected": m.raw[:3],
                               "correspondence": "zwharness vs ZwVerif.Model.{Lexer,Parser,Bind}"}, found_input=False)
    # (2) the C API contract, explicit length, no terminator, guard page behind the buffer
    alines = ["A " + zwcorr.hx(q) for q in inputs]
    rc, out, err = common.run_lines(h.exe, alines, timeout=3600, args=[str(h.budget), str(h.secs)])
    arecs = []
    cur = []
    for l in out:
        if l == ".":
            arecs.append(cur); cur = []
        else:
            cur.append(l)
    if rc != 0 and rc != 3:
        k = len(arecs)
        ctx.violation("the C API call died (rc=%d) on byte string %r: %s" % (rc, inputs[min(k, len(inputs) - 1)], err[-300:]),
                      {"stream": "C14-api", "input_hex": inputs[min(k, len(inputs) - 1)].hex(), "stderr": err[-2000:]})
    api = {"ok": 0, "err": 0, "runerr": 0}
    for q, r in zip(inputs, arecs):
        line = next((x for x in r if x.startswith("A ")), "")
        if "CONTRACT" in line:
            ctx.violation("API contract broken for %r: %s" % (q, line), {"stream": "C14-api", "input_hex": q.hex(),
                          "theorem": "ZwVerif.C14.capture_contract"})
        for k in api:
            if line.startswith("A " + k):
                api[k] += 1
    # (2b) every other fallible API call, on its success path and a provoked failure path: NULL / false <=> error object set,
    # non-empty message, and the accessors read back what went in
    if not ctx.replay:
        import os
        rc, out, err = common.run_lines(h.exe, ["P %s %s" % (zwcorr.hx(os.path.join(common.REPO, "tests", "twocus")),
                                                            zwcorr.hx("/nonexistent/zwv-file"))], timeout=600, args=[str(h.budget), "30"])
        plines = [l for l in out if l.startswith("P ")]
        for l in plines:
            if "CONTRACT" in l:
                ctx.violation("API contract broken: %s" % l, {"stream": "C14-api-calls", "input": {"call": l.split()[2]},
                              "got": l, "theorem": "ZwVerif.C14.capture_contract"})
        if rc != 0 or len(plines) < 30:
            ctx.violation("the API call sweep died (rc=%d) after %d calls: %s" % (rc, len(plines), (err or "")[-300:]),
                          {"stream": "C14-api-calls", "input": {"call": plines[-1] if plines else None}, "stderr": (err or "")[-2000:]})
        ctx.cov["api_calls_checked"] = len(plines)
        ctx.cov["api_calls_failing_paths"] = len([l for l in plines if l.startswith("P err")])
    # (3) very long inputs (parser stack limits): the implementation alone must answer, not crash
    longs = [b"1 " * 12000, b"(" * 6000 + b")" * 6000, b'"%( ' + b"1 " * 12000 + b' %)"', b"[" * 3000 + b"]" * 3000,
             b"1 " * 9990 + b"add", b"(1, " * 4000 + b"1" + b")" * 4000, b"?(" * 5200 + b")" * 5200, b"dup " * 50000,
             b'"' + b"a" * 200000 + b'"', b"1" * 5000, b"/*" + b"*" * 100000 + b"/ 1", b"let A := " * 3000,
             b"1 " * 200000, b"1 drop " * 100000, b"(1)" * 60000]
    if not ctx.replay:
        nlong = 0
        for q in longs:
            rc, out, err = common.run_lines(h.exe, ["A " + zwcorr.hx(q)], timeout=3600, args=[str(h.budget), "30"])
            nlong += 1
            if rc == 0 and not any("CONTRACT" in l for l in out):
                continue
            if rc == 3 or any("timeout" in l for l in out):
                ctx.violation("the library does not answer within 30 s on a long query (%d bytes, starts %r): neither a query nor an error"
                              % (len(q), q[:20]), {"stream": "C14-long", "input_hex": q.hex()[:2000], "input_len": len(q)})
                continue
            depth = 0
            mx = 0
            for ch in q:
                if ch in b"([{":
                    depth += 1
                    mx = max(mx, depth)
                elif ch in b")]}":
                    depth -= 1
            ctx.violation("the library crashed (rc=%d) or broke the API contract on a long query (%d bytes, nesting depth %d, starts %r): %s"
                          % (rc, len(q), mx, q[:20], (err or "")[-200:]),
                          {"stream": "C14-long", "input_hex": q.hex()[:2000], "input_len": len(q), "stderr": (err or "")[-2000:]},
                          finding_key={"deep-nesting": True} if (rc == -11 and mx >= 1500) else None)
        ctx.cov["long_inputs"] = nlong
    # (4) in the CLI, compile failures and run-time failures at pull index k surface on stderr with exit status 2
    import subprocess
    im = ctx.impl("plain")
    cli = [("(", 2), ("let A := 1; let A := 2;", 2), ("0x", 2), ("drop", 2), ("(1, drop)", 2), ("(1, 2, drop)", 2),
           ("(1, 2, 3, drop drop)", 2), ("(drop, 1)", 2), ("1", 0), ("!()", 1), ("1 0 div", 1), ("(1, 2) (drop drop, )", 2)]
    cli_ok = 0
    for q, want in ([] if ctx.replay else cli):
        for extra in ([], ["-c"], ["-s"]):
            r = subprocess.run([im.dwgrep] + extra + ["-e", q], stdout=subprocess.PIPE, stderr=subprocess.PIPE, text=True, timeout=60)
            if r.returncode != want or (want == 2 and not extra.count("-s") and not r.stderr.strip()):
                ctx.violation("dwgrep %s -e %r: exit status %d (stderr %r), the contract says %d with a message on stderr"
                              % (" ".join(extra), q, r.returncode, r.stderr[:100], want),
                              {"stream": "C14-cli", "input": {"argv": extra + ["-e", q]}, "got": r.returncode, "expected": want})
            else:
                cli_ok += 1
    ctx.cov["cli_failure_paths_ok"] = cli_ok
    ctx.cov["evaluations"] = len(lines) + len(alines)
    ctx.cov["distinct_nontrivial"] = len(set(inputs)) - 256
    ctx.cov["accepted"] = accepted
    ctx.cov["rejected"] = rejected
    ctx.cov["api_outcomes"] = api
    ctx.cov["error_classes"] = classes
    ctx.cov["rule"] = ("all single bytes; %s byte pairs over a 70-byte alphabet; integer literals at and beyond the range boundaries with "
                       "every prefix; unterminated strings / splices / brackets at several nesting levels; generated programs with a "
                       "token deleted, inserted, swapped, a byte replaced, or truncated (embedded NULs included): accept/reject, error "
                       "class and compiled tree vs the Lean front-end model; every input also through zw_query_parse_len with explicit "
                       "length and an inaccessible page right behind the buffer, then executed through zw_result_next: NULL/false ⇔ "
                       "error object, non-empty message" % ("a sample of 1500" if ctx.tier == "quick" else "all"))
    for q, i in list(zip(inputs, irecs))[300:303] + list(zip(inputs, irecs))[-2:]:
        ctx.sample({"input": repr(q), "impl": i.raw[:2]})
    ctx.assumptions += ["hangs are bounded by a per-request timer in the harness, crash / abort / out-of-bounds reads are observed "
                        "(guard page; ASan in the thorough tier of C13), not proved"]
