"""Random DWARF forests with ground truth known by construction.

    gen = ForestGen(random.Random(seed), **opts)
    forest = gen.generate()
    forest.write_object("/some/where/f.o")      # ELF64 x86-64 ET_REL, loads with libdw
    desc = forest.describe()                    # JSON-able: exactly what is on disk

The generator lays out every byte itself (LEB128, forms, unit headers, the
abbreviation tables, .debug_str); all offsets in describe() are the ones the
layout pass computed, nothing is read back from a tool.  The object is written
either directly (ELF bytes, the default) or as an assembler file made of
`.byte` lines only that is run through `as` (write_object(path, method="as")).

describe() format
-----------------
 {"units":   [{"offset": unit header offset in .debug_info, "version": 2|3|4|5,
               "unit_type": "compile"|"partial", "header_size": 11|12,
               "abbrev_offset": int, "address_size": 8, "root": <die>,
               # extras
               "length": value of the unit_length field, "end": offset of the next unit,
               "abbrev_table": index into "abbrevs"}],
  "abbrevs": [{"table_offset": int,
               "entries": [{"code": int, "tag": int, "children": bool,
                            "attrs": [[at, form], ...], "offset": offset in .debug_abbrev,
                            # extra: only for entries with DW_FORM_implicit_const
                            "implicit_consts": [[attr index, value], ...]}],
               # extras
               "end": offset just past the terminating 0 byte, "units": [unit indices]}],
  # extras
  "sizes": {".debug_info": n, ".debug_abbrev": n, ".debug_str": n,
            ".debug_loc": n},       # .debug_loc only when there is one (option loclists)
  "strings": [[offset in .debug_str, text], ...],
  "opts": {...}}

 <die> = {"offset": section offset, "tag": DW_TAG number, "abbrev_code": int,
          "has_children": the abbreviation's children flag,
          "attrs": [{"name": DW_AT number, "form": DW_FORM number, "value": V}, ...]  (stored order),
          "children": [<die>, ...]}

 V by form:
   udata, flag, addr, sec_offset        plain int
   data1/2/4/8                          {"raw": unsigned stored value, "size": 1|2|4|8,
                                         "signed": the same bits read as two's complement}
   sdata                                {"raw": value mod 2**64 (what dwarf_formudata hands out),
                                         "size": number of LEB128 bytes stored, "signed": value}
   string                               {"str": text}
   strp                                 {"str": text, "strp": offset in .debug_str}
   ref4, ref_udata, ref_addr            {"ref": absolute .debug_info offset of the target DIE}
   block1, exprloc                      {"block": [bytes...], "ops": [[opcode, operand...], ...],
                                         "ops2": [<op>, ...]}
   flag_present                         true
   implicit_const                       {"implicit": value}
   data4 (DWARF 2/3), sec_offset (DWARF 4) on DW_AT_location, option loclists:
                                        {"loclist": offset of the list in .debug_loc,
                                         "base": the address of its base address selection entry,
                                         "entries": [{"start": absolute start address,
                                                      "end": absolute end address (exclusive),
                                                      "block": [...], "ops": [...], "ops2": [...]},
                                                     ...]}        (stored order)

 "ops" is the short form of an expression: per operation [opcode, operand...] with integer
 operands as numbers, blocks as lists of bytes, a referenced DIE as its absolute offset (for
 the operations described with "curel" below: the stored CU-relative number), a nested
 expression as a nested "ops" list.
 <op> = {"offset": byte offset of the opcode within the expression,
         "op": opcode number,
         "operands": [one of {"u": unsigned}, {"s": signed}, {"addr": address},
                      {"block": [bytes...]}, {"expr": [<op>, ...]} (offsets count from the start
                      of the nested expression), {"die": absolute .debug_info offset of the DIE
                      referred to}, {"curel": the CU-relative number stored}, ...]}
   implicit_value                       [{"block"}]               (the length is not an operand)
   entry_value, GNU_entry_value         [{"expr"}]
   implicit_pointer, GNU_*              [{"die"}, {"s"}]          (stored like DW_FORM_ref_addr)
   const_type, GNU_*                    [{"die"}, {"block"}]      (stored CU-relative, ULEB128)
   regval_type, GNU_*                   [{"u": register}, {"curel"}]
   deref_type, GNU_*                    [{"u": size}, {"curel"}]
   convert, reinterpret, GNU_*          [{"curel"}]               (0: the generic type)
   GNU_parameter_ref                    [{"curel"}]               (4 bytes)
   bregx [{"u"}, {"s"}]; bit_piece [{"u"}, {"u"}]; addr [{"addr"}]; constNu/constu/pick/
   plus_uconst/regx/piece/deref_size/xderef_size [{"u"}]; constNs/consts/fbreg/bregN [{"s"}]
 CU-relative ULEB128 operands are padded (redundant continuation bytes) where the layout
 needs that to converge, like DW_FORM_ref_udata.

 .debug_loc (64-bit addresses) holds the lists one after the other, without holes, in the
 order of the attributes using them; each list is a base address selection entry
 (0xffffffffffffffff, base), 1..4 entries (start, end: offsets from base, start < end; 2-byte
 length; expression) in no particular order, and the (0, 0) terminator.

Note on DW_FORM_ref_addr: it is address-sized (8 bytes) in DWARF 2 units and
offset-sized (4 bytes) in DWARF 3+ units; the layout honours that.

Options (ForestGen(rng, **opts)), all sizes small by default
-------------------------------------------------------------
  min_units=1, max_units=4      number of units
  max_depth=4                   depth of the deepest DIE (root = 0)
  max_dies=40                   DIEs per unit (including the root)
  versions=(2, 3, 4, 5)         DWARF versions to draw from
  partial_units=True            partial units + DW_TAG_imported_unit/DW_AT_import
  refs=True                     any reference-class attribute at all (type, sibling,
                                specification, abstract_origin, import); refs=False
                                implies no imports, hence no partial units
  share_abbrev=0.5              probability that a unit joins an existing abbreviation table
  sibling=0.35                  probability that a unit carries DW_AT_sibling attributes
  strp=0.5                      probability of DW_FORM_strp over DW_FORM_string
  lone_null=0.15                probability that a childless DIE uses a has_children abbreviation
  odd_codes=0.3                 probability that a table uses shuffled / sparse abbreviation codes
  cross_unit_chains=False       let specification/abstract_origin cross units (ref_addr)
  max_chain=4                   longest specification/abstract_origin chain
  const_forms=(data1, data2, data4, data8, sdata, udata)
                                forms DW_AT_const_value may take; with fixed-size forms dwgrep
                                has to find out the signedness from DW_AT_type and gives up on
                                the whole query when it cannot ("Signedness of attribute
                                DW_AT_const_value not handled"); ("sdata", "udata") avoids that
  v4_block_locations=False      DW_FORM_block1 locations in DWARF 4/5 units too (libdw's
                                dwarf_getlocation rejects them: "not a location list value";
                                by default v2/v3 units use block1 and v4/v5 units exprloc)
  llvm_safe=True                avoid shapes that crash llvm-dwarfdump-14's type-name printer
                                (null dereference / unbounded recursion): with refs on, every
                                DW_TAG_template_value_parameter gets a DW_AT_type, and that
                                type is a base type, enumeration or typedef that is not
                                nested in a structure; and no DW_OP_regval_type inside
                                location lists (--debug-loc dies on it; DW_OP_GNU_regval_type
                                is used there instead)
  rich_ops=0.0                  probability that a location expression (DW_AT_location,
                                DW_AT_frame_base, DW_AT_data_member_location, location list
                                entries) is replaced by one of 1..24 random operations of every
                                operand class (see _op_kinds), boundary operand values often;
                                operations referring to DIEs only in units with a base type
  loclists=0.0                  probability that the DW_AT_location of a variable or formal
                                parameter in a DWARF 2, 3 or 4 unit is a location list in
                                .debug_loc (DW_FORM_data4 / DW_FORM_sec_offset in DWARF 4)
                                instead of one expression; never in DWARF 5 units
  With both at 0.0 the output is what it was before these options existed, bit for bit.
"""
import os
import random
import re
import struct
import subprocess
import tempfile

# ---------------------------------------------------------------------------
# constants

_BUILTIN = {
    "TAG": dict(enumeration_type=0x04, formal_parameter=0x05, lexical_block=0x0b, member=0x0d,
                pointer_type=0x0f, compile_unit=0x11, structure_type=0x13, typedef=0x16,
                base_type=0x24, const_type=0x26, enumerator=0x28, subprogram=0x2e,
                template_value_parameter=0x30, variable=0x34, namespace=0x39,
                partial_unit=0x3c, imported_unit=0x3d, type_unit=0x41, skeleton_unit=0x4a),
    "AT": dict(sibling=0x01, location=0x02, name=0x03, byte_size=0x0b, low_pc=0x11, high_pc=0x12,
               language=0x13, import_=0x18, const_value=0x1c, producer=0x25, comp_dir=0x1b,
               abstract_origin=0x31, data_member_location=0x38, decl_line=0x3b,
               declaration=0x3c, encoding=0x3e, external=0x3f, frame_base=0x40,
               specification=0x47, type=0x49, decl_file=0x3a),
    "FORM": dict(addr=0x01, block2=0x03, block4=0x04, data2=0x05, data4=0x06, data8=0x07,
                 string=0x08, block=0x09, block1=0x0a, data1=0x0b, flag=0x0c, sdata=0x0d,
                 strp=0x0e, udata=0x0f, ref_addr=0x10, ref1=0x11, ref2=0x12, ref4=0x13,
                 ref8=0x14, ref_udata=0x15, indirect=0x16, sec_offset=0x17, exprloc=0x18,
                 flag_present=0x19, implicit_const=0x21),
    "ATE": dict(void=0x0, address=0x1, boolean=0x2, float=0x4, signed=0x5, signed_char=0x6,
                unsigned=0x7, unsigned_char=0x8, UTF=0x10),
    "OP": dict(addr=0x03, deref=0x06, const1u=0x08, const1s=0x09, const2u=0x0a, const2s=0x0b,
               const4u=0x0c, const4s=0x0d, const8u=0x0e, const8s=0x0f, constu=0x10, consts=0x11,
               dup=0x12, drop=0x13, over=0x14, pick=0x15, swap=0x16, rot=0x17, xderef=0x18,
               abs=0x19, div=0x1b, minus=0x1c, mod=0x1d, mul=0x1e, neg=0x1f, plus=0x22,
               plus_uconst=0x23, shl=0x24, shr=0x25, shra=0x26, xor=0x27, bra=0x28, eq=0x29,
               ge=0x2a, gt=0x2b, le=0x2c, lt=0x2d, ne=0x2e, skip=0x2f, lit0=0x30, reg0=0x50,
               breg0=0x70, regx=0x90, fbreg=0x91, bregx=0x92, piece=0x93, deref_size=0x94,
               xderef_size=0x95, nop=0x96, push_object_address=0x97, form_tls_address=0x9b,
               call_frame_cfa=0x9c, bit_piece=0x9d, implicit_value=0x9e, stack_value=0x9f,
               implicit_pointer=0xa0, entry_value=0xa3, const_type=0xa4, regval_type=0xa5,
               deref_type=0xa6, convert=0xa8, reinterpret=0xa9, GNU_push_tls_address=0xe0,
               GNU_implicit_pointer=0xf2, GNU_entry_value=0xf3, GNU_const_type=0xf4,
               GNU_regval_type=0xf5, GNU_deref_type=0xf6, GNU_convert=0xf7,
               GNU_reinterpret=0xf9, GNU_parameter_ref=0xfa),
    "UT": dict(compile=0x01, type=0x02, partial=0x03),
    "LANG": dict(C89=0x1, C=0x2, C_plus_plus=0x4, C99=0xc, C_plus_plus_11=0x1a, C11=0x1d,
                 C_plus_plus_14=0x21),
}
_BUILTIN["AT"]["import"] = _BUILTIN["AT"].pop("import_")
_BUILTIN["OP"].update({"and": 0x1a, "not": 0x20, "or": 0x21})
for _i in range(1, 32):
    _BUILTIN["OP"]["lit%d" % _i] = 0x30 + _i
    _BUILTIN["OP"]["reg%d" % _i] = 0x50 + _i
    _BUILTIN["OP"]["breg%d" % _i] = 0x70 + _i


class _Names(dict):
    """name -> number; accepts 'compile_unit' as well as 'DW_TAG_compile_unit'."""

    def __init__(self, prefix, *a):
        dict.__init__(self, *a)
        self.prefix = prefix

    def __missing__(self, key):
        if isinstance(key, str) and key.startswith(self.prefix):
            short = key[len(self.prefix):]
            if dict.__contains__(self, short):
                return dict.__getitem__(self, short)
        raise KeyError(key)

    def name(self, number, default=None):
        """Reverse lookup: the (first, non lo_user/hi_user) short name of a number."""
        rev = self.__dict__.get("_rev")
        if rev is None or self.__dict__.get("_revn") != len(self):
            rev = {}
            for k, v in self.items():
                if k in ("lo_user", "hi_user"):
                    continue
                rev.setdefault(v, k)
            self._rev, self._revn = rev, len(self)
        return rev.get(number, default)


def _load_constants(path="/usr/include/dwarf.h"):
    tabs = dict((k, _Names("DW_%s_" % k, v)) for k, v in _BUILTIN.items())
    try:
        with open(path, errors="replace") as f:
            text = f.read()
    except OSError:
        return tabs
    for m in re.finditer(r"^\s*DW_(TAG|AT|FORM|ATE|OP|UT|LANG)_(\w+)\s*=\s*(0x[0-9a-fA-F]+|\d+)",
                         text, re.M):
        kind, name, val = m.group(1), m.group(2), int(m.group(3), 0)
        tabs[kind][name] = val
    return tabs


_T = _load_constants()
DW_TAG, DW_AT, DW_FORM, DW_ATE, DW_OP = _T["TAG"], _T["AT"], _T["FORM"], _T["ATE"], _T["OP"]
DW_UT, DW_LANG = _T["UT"], _T["LANG"]

T, A, F, E, O = DW_TAG, DW_AT, DW_FORM, DW_ATE, DW_OP   # short aliases, internal

ADDRESS_SIZE = 8
M64 = (1 << 64) - 1

# ---------------------------------------------------------------------------
# helpers over describe() output


def preorder(die):
    """All DIEs of the subtree of `die` (a describe() <die> dict), parents first."""
    out, stack = [], [die]
    while stack:
        d = stack.pop()
        out.append(d)
        stack.extend(reversed(d["children"]))
    return out


def parent_map(desc):
    """{DIE offset: parent DIE offset, or None for unit roots} over all units."""
    pm = {}
    for u in desc["units"]:
        pm[u["root"]["offset"]] = None
        for d in preorder(u["root"]):
            for c in d["children"]:
                pm[c["offset"]] = d["offset"]
    return pm


def die_index(desc):
    """{DIE offset: <die>} over all units."""
    return dict((d["offset"], d) for u in desc["units"] for d in preorder(u["root"]))


def unit_of(desc):
    """{DIE offset: index of its unit in desc["units"]}."""
    return dict((d["offset"], i) for i, u in enumerate(desc["units"]) for d in preorder(u["root"]))


# ---------------------------------------------------------------------------
# LEB128


def uleb(n):
    assert n >= 0
    out = bytearray()
    while True:
        b = n & 0x7f
        n >>= 7
        if n:
            out.append(b | 0x80)
        else:
            out.append(b)
            return bytes(out)


def sleb(n):
    out = bytearray()
    while True:
        b = n & 0x7f
        n >>= 7            # arithmetic shift on Python ints
        if (n == 0 and not b & 0x40) or (n == -1 and b & 0x40):
            out.append(b)
            return bytes(out)
        out.append(b | 0x80)


def uleb_padded(n, length):
    """ULEB128 of n in exactly `length` bytes (redundant continuation bytes)."""
    raw = bytearray(uleb(n))
    assert len(raw) <= length
    while len(raw) < length:
        raw[-1] |= 0x80
        raw.append(0)
    return bytes(raw)


def _sext(raw, size):
    bits = size * 8
    return raw - (1 << bits) if raw >> (bits - 1) & 1 else raw


# ---------------------------------------------------------------------------
# in-memory model

_FIXED = {F["data1"]: 1, F["data2"]: 2, F["data4"]: 4, F["data8"]: 8}
_REF_FORMS = (F["ref4"], F["ref_udata"], F["ref_addr"])


# operand kinds of location operations:
#   u1 u2 u4 u8 uleb      unsigned constant, fixed size / ULEB128
#   s1 s2 s4 s8 sleb      signed constant, fixed size / SLEB128
#   addr                  target address (ADDRESS_SIZE bytes)
#   block                 ULEB128 length + bytes           (val: bytes)
#   block1                1-byte length + bytes            (val: bytes)
#   expr                  ULEB128 length + nested expression (val: Expr)
#   refaddr               section offset of a DIE, sized like DW_FORM_ref_addr (val: Die)
#   die_uleb              CU-relative offset of a DIE, padded ULEB128; described as {"die"}
#   curel_uleb            CU-relative offset of a DIE (or None: 0), padded ULEB128; {"curel"}
#   curel4                CU-relative offset of a DIE, 4 bytes; {"curel"}
_U_SIZE = {"u1": 1, "u2": 2, "u4": 4, "u8": 8}
_S_SIZE = {"s1": 1, "s2": 2, "s4": 4, "s8": 8}


def _op_kinds():
    """{opcode: tuple of operand kinds} for every operation the generator can emit."""
    k = {}
    for n in ("deref dup drop over swap rot abs and div minus mod mul neg not or plus shl shr "
              "shra xor eq ge gt le lt ne nop push_object_address form_tls_address "
              "call_frame_cfa stack_value GNU_push_tls_address").split():
        k[O[n]] = ()
    for i in range(32):
        k[O["lit0"] + i] = ()
        k[O["reg0"] + i] = ()
        k[O["breg0"] + i] = ("sleb",)
    for n, kinds in (("const1u", "u1"), ("const2u", "u2"), ("const4u", "u4"), ("const8u", "u8"),
                     ("constu", "uleb"), ("pick", "u1"), ("plus_uconst", "uleb"),
                     ("regx", "uleb"), ("piece", "uleb"), ("deref_size", "u1"),
                     ("xderef_size", "u1"), ("const1s", "s1"), ("const2s", "s2"),
                     ("const4s", "s4"), ("const8s", "s8"), ("consts", "sleb"), ("fbreg", "sleb"),
                     ("bregx", "uleb sleb"), ("bit_piece", "uleb uleb"), ("addr", "addr"),
                     ("implicit_value", "block"), ("entry_value", "expr"),
                     ("GNU_entry_value", "expr"), ("implicit_pointer", "refaddr sleb"),
                     ("GNU_implicit_pointer", "refaddr sleb"), ("const_type", "die_uleb block1"),
                     ("GNU_const_type", "die_uleb block1"), ("regval_type", "uleb curel_uleb"),
                     ("GNU_regval_type", "uleb curel_uleb"), ("deref_type", "u1 curel_uleb"),
                     ("GNU_deref_type", "u1 curel_uleb"), ("convert", "curel_uleb"),
                     ("GNU_convert", "curel_uleb"), ("reinterpret", "curel_uleb"),
                     ("GNU_reinterpret", "curel_uleb"), ("GNU_parameter_ref", "curel4")):
        k[O[n]] = tuple(kinds.split())
    return k


_OP_KINDS = _op_kinds()


class Opnd:
    """One operand of a location operation: kind (see above) and value."""
    __slots__ = ("kind", "val", "minlen")

    def __init__(self, kind, val):
        self.kind, self.val = kind, val
        self.minlen = 1          # padded ULEBs: bytes reserved so far (grows monotonically)


class XOp:
    """One location operation: opcode and a list of Opnd."""
    __slots__ = ("code", "operands")

    def __init__(self, code, operands):
        self.code, self.operands = code, operands


class Expr:
    """A location expression of a unit.  Its bytes depend on the final DIE offsets when an
    operation refers to a DIE, so they are computed on demand (encode()).  For code that
    treats a block value as the pair (bytes, ops) an Expr can be indexed / unpacked like
    that pair."""
    __slots__ = ("unit", "xops")

    def __init__(self, unit, xops):
        self.unit, self.xops = unit, xops

    @classmethod
    def make(cls, unit, ops):
        """From [(opcode or name, operand value...)]; values: int, bytes, Die / None, Expr."""
        xops = []
        for op in ops:
            code = O[op[0]] if isinstance(op[0], str) else op[0]
            kinds = _OP_KINDS[code]
            assert len(kinds) == len(op) - 1, op
            xops.append(XOp(code, [Opnd(k, v) for k, v in zip(kinds, op[1:])]))
        return cls(unit, xops)

    def _opnd_bytes(self, o):
        k, v = o.kind, o.val
        if k in _U_SIZE:
            return v.to_bytes(_U_SIZE[k], "little")
        if k in _S_SIZE:
            return v.to_bytes(_S_SIZE[k], "little", signed=True)
        if k == "uleb":
            return uleb(v)
        if k == "sleb":
            return sleb(v)
        if k == "addr":
            return v.to_bytes(ADDRESS_SIZE, "little")
        if k == "block":
            return uleb(len(v)) + v
        if k == "block1":
            return bytes([len(v)]) + v
        if k == "expr":
            b = v.encode()[0]
            return uleb(len(b)) + b
        if k == "refaddr":
            return v.offset.to_bytes(self.unit.ref_addr_size, "little")
        rel = self._curel(o)
        if k == "curel4":
            return rel.to_bytes(4, "little")
        o.minlen = max(o.minlen, len(uleb(rel)))      # die_uleb, curel_uleb
        return uleb_padded(rel, o.minlen)

    def _curel(self, o):
        if o.val is None:
            return 0
        assert o.val.unit is self.unit
        return o.val.offset - self.unit.offset

    def encode(self):
        """(bytes, [offset of each operation])."""
        out, offs = bytearray(), []
        for x in self.xops:
            offs.append(len(out))
            out.append(x.code)
            for o in x.operands:
                out += self._opnd_bytes(o)
        return bytes(out), offs

    def max_size(self):
        """Upper bound of the encoded size whatever the DIE offsets turn out to be."""
        n = 0
        for x in self.xops:
            n += 1
            for o in x.operands:
                if o.kind in ("die_uleb", "curel_uleb"):
                    n += 5
                elif o.kind == "refaddr":
                    n += 8
                else:
                    n += len(self._opnd_bytes(o))
        return n

    def ops(self):
        """The short form: [[opcode, operand...]]; blocks as lists, DIEs as absolute offsets
        (curel operands: the stored number), nested expressions as nested lists."""
        out = []
        for x in self.xops:
            row = [x.code]
            for o in x.operands:
                if o.kind in ("block", "block1"):
                    row.append(list(o.val))
                elif o.kind == "expr":
                    row.append(o.val.ops())
                elif o.kind in ("refaddr", "die_uleb"):
                    row.append(o.val.offset)
                elif o.kind in ("curel_uleb", "curel4"):
                    row.append(self._curel(o))
                else:
                    row.append(o.val)
            out.append(row)
        return out

    def ops2(self):
        out = []
        for x, off in zip(self.xops, self.encode()[1]):
            row = []
            for o in x.operands:
                k = o.kind
                if k in _U_SIZE or k == "uleb":
                    row.append({"u": o.val})
                elif k in _S_SIZE or k == "sleb":
                    row.append({"s": o.val})
                elif k == "addr":
                    row.append({"addr": o.val})
                elif k in ("block", "block1"):
                    row.append({"block": list(o.val)})
                elif k == "expr":
                    row.append({"expr": o.val.ops2()})
                elif k in ("refaddr", "die_uleb"):
                    row.append({"die": o.val.offset})
                else:
                    row.append({"curel": self._curel(o)})
            out.append({"offset": off, "op": x.code, "operands": row})
        return out

    def dies(self):
        """Every Die an operand refers to."""
        return [o.val for x in self.xops for o in x.operands
                if o.kind in ("refaddr", "die_uleb", "curel_uleb", "curel4") and o.val is not None]

    def describe(self):
        return {"block": list(self.encode()[0]), "ops": self.ops(), "ops2": self.ops2()}

    # the pair view: expr[0] = bytes, expr[1] = short ops; `b, ops = expr`
    def __getitem__(self, i):
        return (self.encode()[0], [tuple(o) for o in self.ops()])[i]

    def __iter__(self):
        return iter((self[0], self[1]))

    def __len__(self):
        return 2


class LocList:
    """A location list in .debug_loc: a base address selection entry, then `entries`
    [(start, end, Expr)] (offsets from `base`), then the terminator."""
    __slots__ = ("unit", "base", "entries", "offset")

    def __init__(self, unit, base, entries):
        self.unit, self.base, self.entries = unit, base, entries
        self.offset = 0

    def encode(self):
        out = bytearray(struct.pack("<QQ", M64, self.base))
        for start, end, ex in self.entries:
            b = ex.encode()[0]
            assert len(b) < 0x10000
            out += struct.pack("<QQH", start, end, len(b)) + b
        out += struct.pack("<QQ", 0, 0)
        return bytes(out)

    def describe(self):
        ents = []
        for start, end, ex in self.entries:
            e = {"start": self.base + start, "end": self.base + end}
            e.update(ex.describe())
            ents.append(e)
        return {"loclist": self.offset, "base": self.base, "entries": ents}


class Attr:
    """One attribute.  `val` by form:
    data1..8: unsigned raw int; sdata: signed int; udata/flag/addr/sec_offset: int;
    string/strp: str; ref4/ref_udata/ref_addr: target Die; block1/exprloc: Expr (which can
    be read as the pair (bytes, ops)); flag_present: True; implicit_const: signed int;
    data4/sec_offset holding a location list: LocList."""
    __slots__ = ("name", "form", "val", "minlen", "strp_off")

    def __init__(self, name, form, val):
        self.name, self.form, self.val = name, form, val
        self.minlen = 1          # ref_udata: bytes reserved so far (grows monotonically)
        self.strp_off = None


class Die:
    __slots__ = ("tag", "attrs", "children", "has_children", "offset", "abbrev_code",
                 "unit", "parent", "depth", "rank", "enum_form", "enum_mixed")

    def __init__(self, tag, unit, parent=None):
        self.tag = tag
        self.attrs = []
        self.children = []
        self.has_children = False
        self.offset = 0
        self.abbrev_code = 0
        self.unit = unit
        self.parent = parent
        self.depth = 0 if parent is None else parent.depth + 1
        self.rank = 0
        self.enum_form = None
        self.enum_mixed = False

    def add(self, name, form, val):
        a = Attr(A[name] if isinstance(name, str) else name,
                 F[form] if isinstance(form, str) else form, val)
        self.attrs.append(a)
        return a

    def has(self, name):
        n = A[name]
        return any(a.name == n for a in self.attrs)

    def walk(self):
        stack = [self]
        while stack:
            d = stack.pop()
            yield d
            stack.extend(reversed(d.children))


class Nowhere:
    """the target of a dangling reference: an offset beyond the end of .debug_info"""
    def __init__(self, offset):
        self.offset = offset
        self.unit = None


class Unit:
    def __init__(self, index, version, partial):
        self.index = index              # position in .debug_info
        self.version = version
        self.partial = partial
        self.offset = 0
        self.end = 0
        self.table = None               # AbbrevTable
        self.root = None
        self.budget = 0
        self.imports = []               # Units this one imports (with multiplicity)
        self.level = 0                  # partial units: import nesting level
        self.type_unit = False          # a DWARF 5 type unit in .debug_info (DW_UT_type, root DW_TAG_type_unit)
        self.skeleton = False           # a DWARF 5 skeleton unit (DW_UT_skeleton, root DW_TAG_skeleton_unit)

    @property
    def header_size(self):
        if self.type_unit:
            return 24
        if self.skeleton:
            return 20
        return 12 if self.version >= 5 else 11

    @property
    def ref_addr_size(self):
        return ADDRESS_SIZE if self.version == 2 else 4


class AbbrevTable:
    def __init__(self, index, code_mode):
        self.index = index
        self.code_mode = code_mode
        self.entries = []       # dicts: key, code, offset
        self.by_key = {}
        self.units = []
        self.offset = 0
        self.end = 0
        self._codes = None


# ---------------------------------------------------------------------------
# the forest


class Forest:
    def __init__(self, units, tables, opts):
        self.units = units
        self.tables = tables
        self.opts = opts
        self.debug_info = b""
        self.debug_abbrev = b""
        self.debug_str = b""
        self.debug_loc = b""
        self.strings = []       # [(offset, text)]
        self._desc = None

    # -- layout ------------------------------------------------------------

    def _layout_str(self, rng):
        """Place every strp string; identical strings share one copy; now and then a
        string that is a suffix of an earlier one points into it (as linkers do)."""
        pool = bytearray()
        where = {}
        for u in self.units:
            for d in u.root.walk():
                for a in d.attrs:
                    if a.form != F["strp"]:
                        continue
                    s = a.val
                    if s in where:
                        a.strp_off = where[s]
                        continue
                    enc = s.encode("utf-8") + b"\0"
                    off = None
                    if rng.random() < 0.5:
                        idx = bytes(pool).find(enc)
                        if idx >= 0:
                            off = idx
                    if off is None:
                        off = len(pool)
                        pool += enc
                    where[s] = off
                    a.strp_off = off
        self.debug_str = bytes(pool)
        self.strings = sorted((off, s) for s, off in where.items())

    def _layout_abbrev(self):
        out = bytearray()
        for t in self.tables:
            t.offset = len(out)
            for e in t.entries:
                e["offset"] = len(out)
                tag, children, attrs = e["key"]
                out += uleb(e["code"]) + uleb(tag) + bytes([1 if children else 0])
                for at, form, imp in attrs:
                    out += uleb(at) + uleb(form)
                    if form == F["implicit_const"]:
                        out += sleb(imp)
                out += b"\0\0"
            out += b"\0"
            t.end = len(out)
        self.debug_abbrev = bytes(out)

    def _attr_bytes(self, a, unit):
        f = a.form
        if isinstance(a.val, LocList):
            assert f in (F["data4"], F["sec_offset"])
            return a.val.offset.to_bytes(4, "little")
        if f in _FIXED:
            return a.val.to_bytes(_FIXED[f], "little")
        if f == F["sdata"]:
            return sleb(a.val)
        if f == F["udata"]:
            return uleb(a.val)
        if f == F["flag"]:
            return bytes([a.val])
        if f == F["flag_present"] or f == F["implicit_const"]:
            return b""
        if f == F["addr"]:
            return a.val.to_bytes(ADDRESS_SIZE, "little")
        if f == F["sec_offset"]:
            return a.val.to_bytes(4, "little")
        if f == F["string"]:
            return a.val.encode("utf-8") + b"\0"
        if f == F["strp"]:
            return a.strp_off.to_bytes(4, "little")
        if f == F["ref4"]:
            assert a.val.unit is unit
            return (a.val.offset - unit.offset).to_bytes(4, "little")
        if f == F["ref_udata"]:
            assert a.val.unit is unit
            rel = a.val.offset - unit.offset
            a.minlen = max(a.minlen, len(uleb(rel)))
            return uleb_padded(rel, a.minlen)
        if f == F["ref_addr"]:
            return a.val.offset.to_bytes(unit.ref_addr_size, "little")
        if f == F["block1"]:
            b = a.val[0]
            assert len(b) < 256
            return bytes([len(b)]) + b
        if f == F["exprloc"]:
            b = a.val[0]
            return uleb(len(b)) + b
        if f in (F["GNU_str_index"], F["GNU_addr_index"]):
            return uleb(a.val)          # vendor forms with a code above 0xff (split DWARF): an index
        raise ValueError("form %#x not supported" % f)

    def loclists(self):
        """The LocList values in the order their attributes are stored in .debug_info."""
        return [a.val for u in self.units for d in u.root.walk() for a in d.attrs
                if isinstance(a.val, LocList)]

    def _serialize_loc(self):
        """.debug_loc from the DIE offsets of the previous pass: the lists one after the
        other, no holes, in the order of the attributes that use them."""
        out = bytearray()
        for ll in self.loclists():
            ll.offset = len(out)
            out += ll.encode()
        return bytes(out)

    def _serialize_info(self):
        """One pass: bytes of .debug_info using the DIE offsets of the previous pass for
        references; returns (bytes, {id(die): new offset})."""
        out = bytearray()
        new = {}
        for u in self.units:
            start = len(out)
            body = bytearray()
            base = start + u.header_size

            def emit(d):
                new[id(d)] = base + len(body)
                body.extend(uleb(d.abbrev_code))
                for a in d.attrs:
                    body.extend(self._attr_bytes(a, u))
                for c in d.children:
                    emit(c)
                if d.has_children:
                    body.append(0)
            emit(u.root)
            length = u.header_size - 4 + len(body)
            hdr = struct.pack("<IH", length, u.version)
            if u.version >= 5:
                hdr += bytes([DW_UT["type"] if u.type_unit else 0x04 if u.skeleton else DW_UT["partial"] if u.partial else DW_UT["compile"],
                              ADDRESS_SIZE])
                hdr += struct.pack("<I", u.table.offset)
                if u.type_unit:
                    # type_signature, type_offset (the root: the generator does not single out one type)
                    hdr += struct.pack("<QI", 0x7e57000000000000 + u.index, u.header_size)
                elif u.skeleton:
                    hdr += struct.pack("<Q", 0x5ce1e70000000000 + u.index)          # dwo_id
            else:
                hdr += struct.pack("<I", u.table.offset) + bytes([ADDRESS_SIZE])
            assert len(hdr) == u.header_size
            out += hdr + body
            new[("unit", u.index)] = (start, len(out))
        return bytes(out), new

    def _layout_info(self):
        for _ in range(64):
            loc = self._serialize_loc()
            data, new = self._serialize_info()
            changed = loc != self.debug_loc
            self.debug_loc = loc
            for u in self.units:
                start, end = new[("unit", u.index)]
                if (u.offset, u.end) != (start, end):
                    changed = True
                u.offset, u.end = start, end
                for d in u.root.walk():
                    if d.offset != new[id(d)]:
                        d.offset = new[id(d)]
                        changed = True
            if not changed:
                self.debug_info = data
                return
        raise RuntimeError("DIE layout did not converge")

    def layout(self, rng):
        self._layout_str(rng)
        self._layout_abbrev()
        self._layout_info()
        self._desc = None

    # -- description -------------------------------------------------------

    def _value(self, a):
        f = a.form
        if isinstance(a.val, LocList):
            return a.val.describe()
        if f in _FIXED:
            return {"raw": a.val, "size": _FIXED[f], "signed": _sext(a.val, _FIXED[f])}
        if f == F["sdata"]:
            return {"raw": a.val & M64, "size": len(sleb(a.val)), "signed": a.val}
        if f in (F["udata"], F["flag"], F["addr"], F["sec_offset"], F["GNU_str_index"], F["GNU_addr_index"]):
            return a.val
        if f == F["flag_present"]:
            return True
        if f == F["implicit_const"]:
            return {"implicit": a.val}
        if f == F["string"]:
            return {"str": a.val}
        if f == F["strp"]:
            return {"str": a.val, "strp": a.strp_off}
        if f in _REF_FORMS:
            if isinstance(a.val, Nowhere):
                return {"ref": a.val.offset, "dangling": True}
            return {"ref": a.val.offset}
        if f in (F["block1"], F["exprloc"]):
            if isinstance(a.val, Expr):
                return a.val.describe()
            return {"block": list(a.val[0]), "ops": [list(op) for op in a.val[1]]}
        raise ValueError(f)

    def _die(self, d):
        return {"offset": d.offset, "tag": d.tag, "abbrev_code": d.abbrev_code,
                "has_children": d.has_children,
                "attrs": [{"name": a.name, "form": a.form, "value": self._value(a)}
                          for a in d.attrs],
                "children": [self._die(c) for c in d.children]}

    def describe(self):
        if self._desc is not None:
            return self._desc
        units = []
        for u in self.units:
            units.append({"offset": u.offset, "version": u.version,
                          "unit_type": "type" if u.type_unit else "skeleton" if u.skeleton else "partial" if u.partial else "compile",
                          "header_size": u.header_size, "abbrev_offset": u.table.offset,
                          "address_size": ADDRESS_SIZE, "root": self._die(u.root),
                          "length": u.end - u.offset - 4, "end": u.end,
                          "abbrev_table": u.table.index})
        abbrevs = []
        for t in self.tables:
            ents = []
            for e in t.entries:
                tag, children, attrs = e["key"]
                ent = {"code": e["code"], "tag": tag, "children": bool(children),
                       "attrs": [[at, form] for at, form, _ in attrs], "offset": e["offset"]}
                imps = [[i, imp] for i, (at, form, imp) in enumerate(attrs)
                        if form == F["implicit_const"]]
                if imps:
                    ent["implicit_consts"] = imps
                ents.append(ent)
            abbrevs.append({"table_offset": t.offset, "entries": ents, "end": t.end,
                            "units": [u.index for u in t.units]})
        sizes = {".debug_info": len(self.debug_info), ".debug_abbrev": len(self.debug_abbrev),
                 ".debug_str": len(self.debug_str)}
        if self.debug_loc:
            sizes[".debug_loc"] = len(self.debug_loc)
        self._desc = {"units": units, "abbrevs": abbrevs, "sizes": sizes,
                      "strings": [[off, s] for off, s in self.strings],
                      "opts": dict((k, list(v) if isinstance(v, tuple) else v)
                                   for k, v in self.opts.items())}
        return self._desc

    # -- output ------------------------------------------------------------

    def sections(self):
        secs = {".debug_info": self.debug_info, ".debug_abbrev": self.debug_abbrev,
                ".debug_str": self.debug_str}
        if self.debug_loc:
            secs[".debug_loc"] = self.debug_loc
        return secs

    def elf_bytes(self):
        """ELF64 little-endian x86-64 relocatable object holding an empty .text, the debug
        sections (.debug_loc only if there are location lists), an empty symbol table and the
        string tables."""
        secs = [  # name, type, flags, data, link, info, align, entsize
            ("", 0, 0, b"", 0, 0, 0, 0),
            (".text", 1, 0x6, b"", 0, 0, 1, 0),
            (".data", 1, 0x3, b"", 0, 0, 1, 0),
            (".bss", 8, 0x3, b"", 0, 0, 1, 0),
            (".debug_info", 1, 0, self.debug_info, 0, 0, 1, 0),
            (".debug_abbrev", 1, 0, self.debug_abbrev, 0, 0, 1, 0),
            (".debug_str", 1, 0x30, self.debug_str, 0, 0, 1, 1),
        ]
        if self.debug_loc:
            secs.append((".debug_loc", 1, 0, self.debug_loc, 0, 0, 1, 0))
        secs += [
            (".symtab", 2, 0, b"\0" * 24, len(secs) + 1, 1, 8, 24),
            (".strtab", 3, 0, b"\0", 0, 0, 1, 0),
            (".shstrtab", 3, 0, None, 0, 0, 1, 0),
        ]
        shstr = bytearray(b"\0")
        nameoff = []
        for s in secs:
            if s[0]:
                nameoff.append(len(shstr))
                shstr += s[0].encode() + b"\0"
            else:
                nameoff.append(0)
        body = bytearray(b"\0" * 64)
        hdrs = []
        for i, (name, typ, flags, data, link, info, align, entsize) in enumerate(secs):
            if data is None:
                data = bytes(shstr)
            if i == 0:
                hdrs.append(struct.pack("<IIQQQQIIQQ", 0, 0, 0, 0, 0, 0, 0, 0, 0, 0))
                continue
            while align > 1 and len(body) % align:
                body.append(0)
            off = len(body)
            if typ != 8:
                body += data
            hdrs.append(struct.pack("<IIQQQQIIQQ", nameoff[i], typ, flags, 0, off, len(data),
                                    link, info, align, entsize))
        while len(body) % 8:
            body.append(0)
        shoff = len(body)
        ehdr = (b"\x7fELF" + bytes([2, 1, 1, 0]) + b"\0" * 8 +
                struct.pack("<HHIQQQIHHHHHH", 1, 62, 1, 0, 0, shoff, 0, 64, 0, 0, 64,
                            len(secs), len(secs) - 1))
        assert len(ehdr) == 64
        body[0:64] = ehdr
        return bytes(body) + b"".join(hdrs)

    def asm_text(self):
        """The same object as assembler source: `.byte` lines only, no expressions."""
        L = ["\t.text"]
        for name, flags in ((".debug_abbrev", '"",@progbits'), (".debug_info", '"",@progbits'),
                            (".debug_str", '"MS",@progbits,1'), (".debug_loc", '"",@progbits')):
            if name not in self.sections():
                continue
            L.append("\t.section %s,%s" % (name, flags))
            data = self.sections()[name]
            for i in range(0, len(data), 16):
                L.append("\t.byte " + ",".join("0x%02x" % b for b in data[i:i + 16]))
        return "\n".join(L) + "\n"

    def write_asm(self, path):
        with open(path, "w") as f:
            f.write(self.asm_text())

    def write_object(self, path, method="elf"):
        """method "elf": write the ELF bytes directly; "as": emit a .s next to `path`
        (removed afterwards) and assemble it with `as`."""
        if method == "elf":
            with open(path, "wb") as f:
                f.write(self.elf_bytes())
            return
        if method != "as":
            raise ValueError(method)
        fd, spath = tempfile.mkstemp(suffix=".s", dir=os.path.dirname(os.path.abspath(path)))
        try:
            with os.fdopen(fd, "w") as f:
                f.write(self.asm_text())
            subprocess.run(["as", "--64", spath, "-o", path], check=True)
        finally:
            os.unlink(spath)


# ---------------------------------------------------------------------------
# the generator

_DEFAULTS = dict(min_units=1, max_units=4, max_depth=4, max_dies=40, versions=(2, 3, 4, 5),
                 partial_units=True, refs=True, share_abbrev=0.5, sibling=0.35, strp=0.5,
                 lone_null=0.15, odd_codes=0.3, cross_unit_chains=False, max_chain=4,
                 llvm_safe=True, v4_block_locations=False, extras=0.3, refused=0.0, cu_imports=0.0, dup_attrs=0.0, implicit_consts=0.0, const_blocks=0.0, empty_ranges=0.0,
                 rich_ops=0.0, loclists=0.0, type_units=0.0, mixed_enums=0.0, vendor_forms=0.0, both_refs=0.1, dangling_refs=0.0, more_locations=0.0, cv_variants=0.0, typed_enum_consts=0.0,
                 const_forms=("data1", "data2", "data4", "data8", "sdata", "udata"))

_WORDS = ["foo", "bar", "baz", "qux", "main", "x", "y", "i", "T", "value", "next", "node",
          "count", "buf", "len", "ptr", "alpha", "beta", "gamma", "a_rather_long_identifier_name"]

_BASE_TYPES = [  # name, DW_ATE, byte size
    ("int", "signed", 4), ("unsigned int", "unsigned", 4), ("char", "signed_char", 1),
    ("unsigned char", "unsigned_char", 1), ("bool", "boolean", 1), ("long int", "signed", 8),
    ("long unsigned int", "unsigned", 8), ("short int", "signed", 2),
    ("short unsigned int", "unsigned", 2), ("signed char", "signed_char", 1),
    ("_Bool", "boolean", 1), ("char16_t", "UTF", 2), ("float", "float", 4),
    ("long long int", "signed", 8), ("__int128 unsigned", "unsigned", 16),
]

_SCOPE_TAGS = [("subprogram", 4), ("variable", 4), ("base_type", 3), ("typedef", 3),
               ("const_type", 2), ("pointer_type", 2), ("enumeration_type", 2),
               ("structure_type", 2), ("namespace", 2)]
_CHILD_TAGS = {
    "compile_unit": _SCOPE_TAGS, "partial_unit": _SCOPE_TAGS, "type_unit": _SCOPE_TAGS, "skeleton_unit": _SCOPE_TAGS, "namespace": _SCOPE_TAGS,
    "subprogram": [("formal_parameter", 4), ("template_value_parameter", 1), ("variable", 3),
                   ("lexical_block", 2)],
    "lexical_block": [("variable", 4), ("lexical_block", 2)],
    "structure_type": [("member", 6), ("template_value_parameter", 1), ("subprogram", 1),
                       ("structure_type", 0.5), ("enumeration_type", 0.5), ("typedef", 0.5)],
    "enumeration_type": [("enumerator", 1)],
}
_TYPE_TAGS = ("base_type", "typedef", "const_type", "pointer_type", "enumeration_type",
              "structure_type")
_TYPED_TAGS = ("variable", "formal_parameter", "template_value_parameter", "member", "subprogram",
               "typedef", "const_type", "pointer_type", "enumeration_type")

_BOUNDARY = {
    "data1": [0, 1, 0x7f, 0x80, 0xff, 0xfe],
    "data2": [0, 1, 0x7fff, 0x8000, 0xffff, 0xff, 0x100],
    "data4": [0, 1, 0x7fffffff, 0x80000000, 0xffffffff, 0xffff, 0x10000],
    "data8": [0, 1, 0x7fffffffffffffff, 0x8000000000000000, 0xffffffffffffffff, 0xffffffff,
              0x100000000],
    "sdata": [0, 1, -1, 63, 64, -64, -65, 127, 128, -128, -129, 0x7fffffff, -0x80000000,
              0x7fffffffffffffff, -0x8000000000000000],
    "udata": [0, 1, 127, 128, 255, 16383, 16384, 0xffffffff, 0x7fffffffffffffff,
              0x8000000000000000, 0xffffffffffffffff],
}


class ForestGen:
    def __init__(self, rng, **opts):
        self.rng = rng
        bad = set(opts) - set(_DEFAULTS)
        if bad:
            raise TypeError("unknown options: %s" % ", ".join(sorted(bad)))
        self.opts = dict(_DEFAULTS)
        self.opts.update(opts)
        self.opts["versions"] = tuple(self.opts["versions"])
        self.opts["const_forms"] = tuple(self.opts["const_forms"])
        if not self.opts["refs"]:
            self.opts["partial_units"] = False

    # -- small random helpers -----------------------------------------------

    def _chance(self, p):
        return self.rng.random() < p

    def _weighted(self, pairs):
        total = sum(w for _, w in pairs)
        x = self.rng.random() * total
        for v, w in pairs:
            x -= w
            if x < 0:
                return v
        return pairs[-1][0]

    def _name(self):
        r = self.rng
        x = r.random()
        if x < 0.03:
            return ""
        if x < 0.55:
            return r.choice(_WORDS)
        if x < 0.9:
            return "%s%d" % (r.choice(_WORDS), r.randint(0, 9))
        return "%s_%s" % (r.choice(_WORDS), r.choice(_WORDS))

    def _add_name(self, d, text=None):
        d.add("name", "strp" if self._chance(self.opts["strp"]) else "string",
              self._name() if text is None else text)

    def _add_decl_line(self, d):
        form = self.rng.choice(["data1", "data1", "data2", "udata"])
        if d.unit.version >= 5 and self._chance(0.25):
            d.add("decl_line", "implicit_const", self.rng.choice([1, 7, 63, 64, 200, 70000]))
            return
        if form == "data1":
            v = self.rng.choice([1, self.rng.randint(1, 255), 255])
        elif form == "data2":
            v = self.rng.choice([self.rng.randint(1, 65535), 256, 65535, 7])
        else:
            v = self.rng.choice([self.rng.randint(1, 100000), 127, 128, 1])
        d.add("decl_line", form, v)

    def _add_flag(self, d, name):
        v4 = d.unit.version >= 4
        if v4 and self._chance(0.6):
            d.add(name, "flag_present", True)
        else:
            d.add(name, "flag", 0 if self._chance(0.12) else 1)

    def _add_pc(self, d):
        r = self.rng
        low = r.choice([0, 0x1000, 0x401000, r.randrange(0, 1 << 24) * 16,
                        0x7f0000000000 + r.randrange(0, 1 << 16) * 4])
        size = r.choice([0, 1, r.randint(1, 0x400), 0x1000])
        d.add("low_pc", "addr", low)
        if self._chance(0.1):
            return
        if d.unit.version >= 4 and self._chance(0.6):
            form = r.choice(["data4", "udata", "data1", "data2", "data8"])
            if form == "data1":
                size &= 0xff
            d.add("high_pc", form, size)
        else:
            d.add("high_pc", "addr", low + size)

    def _const(self, form=None):
        """(form name, internal value) for a DW_AT_const_value."""
        r = self.rng
        if form is None and self._chance(self.opts["const_blocks"]):
            # a constant stored as a block: 1, 2, 4 and 8 bytes can be read as numbers of the type, other sizes cannot
            n = r.choice([1, 2, 2, 4, 8, 3, 16, 0])
            b = bytes(r.choice([0, 0xff, 0x80, 0x7f, 0x34, 0x12, 0xfe, r.randrange(256)]) for _ in range(n))
            return "block1", (b, [])
        if form is None:
            form = r.choice(self.opts["const_forms"])
        if self._chance(0.7):
            return form, r.choice(_BOUNDARY[form])
        if form == "sdata":
            return form, r.randint(-(1 << r.randint(1, 63)), 1 << r.randint(1, 62))
        if form == "udata":
            return form, r.randrange(0, 1 << r.randint(1, 64))
        return form, r.randrange(0, 1 << (8 * _FIXED[F[form]]))

    def _expr(self, unit, kind="any"):
        """A short location expression: (bytes, [[opcode, operands...]])."""
        r = self.rng
        ops = []

        def op(name, *operands):
            ops.append((O[name],) + operands)

        def reg():
            return r.choice([0, 1, 5, 6, 7, 16, 31])

        def off():
            return r.choice([0, 8, -8, -16, 63, 64, -64, -65, r.randint(-4096, 4096)])

        def addr():
            return r.choice([0, 0x601040, r.randrange(0, 1 << 32) * 8, M64, 1 << 63])
        if kind == "member":
            choice = "plus_uconst"
        elif kind == "frame":
            choice = r.choice(["cfa", "reg", "breg"])
        else:
            choice = r.choice(["addr", "addr", "fbreg", "fbreg", "reg", "breg", "bregx", "cfa",
                               "addr_plus", "breg_stack", "pieces", "empty"])
        if choice == "addr":
            op("addr", addr())
        elif choice == "fbreg":
            op("fbreg", off())
        elif choice == "reg":
            op("reg%d" % reg())
        elif choice == "breg":
            op("breg%d" % reg(), off())
        elif choice == "bregx":
            op("bregx", r.choice([0, 16, 33, 127, 128, 1000]), off())
        elif choice == "cfa":
            op("call_frame_cfa")
        elif choice == "addr_plus":
            op("addr", addr())
            op("plus_uconst", r.choice([0, 1, 4, 127, 128, 4096]))
        elif choice == "breg_stack":
            op("breg%d" % reg(), off())
            if self._chance(0.5):
                op("plus_uconst", r.randint(0, 300))
            op("stack_value")
        elif choice == "pieces":
            for _ in range(r.randint(2, 3)):
                if self._chance(0.8):
                    op("reg%d" % reg())
                op("piece", r.choice([1, 2, 4, 8, 16, 200]))
        elif choice == "plus_uconst":
            op("plus_uconst", r.choice([0, 1, 4, 8, 127, 128, r.randint(0, 100000)]))
        # "empty": no ops
        return Expr.make(unit, ops)

    # operand values for the rich generator: boundary values often
    _RICH_U = {1: [0, 1, 0x7f, 0x80, 0xff, 0xfe],
               2: [0, 1, 0x7f, 0x80, 0xff, 0x100, 0x7fff, 0x8000, 0xffff],
               4: [0, 1, 0xffff, 0x10000, 0x7fffffff, 0x80000000, 0xffffffff],
               8: [0, 1, 0xffffffff, 0x100000000, 0x7fffffffffffffff, 0x8000000000000000,
                   0xffffffffffffffff]}
    _RICH_ULEB = [0, 1, 127, 128, 255, 16383, 16384, 0x1fffff, 0x200000, 0xffffffff,
                  0x7fffffffffffffff, 0x8000000000000000, 0xffffffffffffffff]
    _RICH_SLEB = [0, 1, -1, 63, 64, -64, -65, 127, 128, -128, -129, 8191, 8192, -8192, -8193,
                  0x7fffffff, -0x80000000, 0x7fffffffffffffff, -0x8000000000000000,
                  0x7fffffffffffffff, -0x8000000000000000]
    _RICH_NOARG = ("deref dup drop over swap rot abs and div minus mod mul neg not or plus shl shr "
                   "shra xor eq ge gt le lt ne nop push_object_address form_tls_address "
                   "call_frame_cfa stack_value GNU_push_tls_address").split()

    def _rich_u(self, size):
        r = self.rng
        if self._chance(0.7):
            return r.choice(self._RICH_U[size])
        if self._chance(0.5):
            return (1 << r.randint(1, 8 * size)) - 1
        return r.randrange(0, 1 << (8 * size))

    def _rich_s(self, size):
        return _sext(self._rich_u(size), size)

    def _rich_uleb(self):
        r = self.rng
        if self._chance(0.7):
            return r.choice(self._RICH_ULEB)
        if self._chance(0.5):
            return (1 << r.randint(1, 64)) - 1
        return r.randrange(0, 1 << r.randint(1, 64))

    def _rich_sleb(self):
        r = self.rng
        if self._chance(0.7):
            return r.choice(self._RICH_SLEB)
        k = r.randint(1, 62)
        return r.choice([(1 << k) - 1, -(1 << k), -(1 << k) - 1, r.randint(-(1 << k), 1 << k)])

    def _deal(self, key, items):
        """The next of `items` from a shuffled deck (reshuffled when used up): every item
        turns up once before any turns up twice."""
        decks = self.__dict__.setdefault("_decks", {})
        deck = decks.get(key)
        if not deck:
            deck = decks[key] = list(items)
            self.rng.shuffle(deck)
        return deck.pop()

    def _rich_op(self, unit, ctx):
        """One random operation (name, operand values...) of a random operand class."""
        r = self.rng
        classes = [("noarg", 10), ("lit", 1), ("reg", 1), ("unsigned", 4), ("signed", 3),
                   ("breg", 1), ("two", 2), ("addr", 1), ("block", 1), ("nested", 1)]
        if ctx and ctx["bases"]:
            classes.append(("die", 9))
        cls = self._weighted(classes)
        if cls == "noarg":
            return (self._deal("noarg", self._RICH_NOARG),)
        if cls == "lit":
            return ("lit%d" % r.choice([0, 1, 15, 16, 30, 31, r.randint(0, 31)]),)
        if cls == "reg":
            return ("reg%d" % r.choice([0, 1, 15, 16, 30, 31, r.randint(0, 31)]),)
        if cls == "unsigned":
            name, size = self._deal("unsigned", [
                ("const1u", 1), ("const2u", 2), ("const4u", 4), ("const8u", 8), ("constu", 0),
                ("pick", 1), ("plus_uconst", 0), ("regx", 0), ("piece", 0), ("deref_size", 1),
                ("xderef_size", 1)])
            return (name, self._rich_u(size) if size else self._rich_uleb())
        if cls == "signed":
            name, size = self._deal("signed", [("const1s", 1), ("const2s", 2), ("const4s", 4),
                                               ("const8s", 8), ("consts", 0), ("fbreg", 0)])
            return (name, self._rich_s(size) if size else self._rich_sleb())
        if cls == "breg":
            return ("breg%d" % r.choice([0, 1, 15, 16, 30, 31, r.randint(0, 31)]),
                    self._rich_sleb())
        if cls == "two":
            if self._chance(0.5):
                return ("bregx", self._rich_uleb(), self._rich_sleb())
            return ("bit_piece", self._rich_uleb(), self._rich_uleb())
        if cls == "addr":
            return ("addr", self._rich_u(8))
        if cls == "block":
            n = r.choice([0, 1, 2, 4, 8, 16, r.randint(0, 20), 127, 128, 130])
            return ("implicit_value", bytes(r.choice([0, 0xff, r.randrange(256)])
                                            for _ in range(n)))
        if cls == "nested":
            reg = r.choice([0, 1, 5, 31, r.randint(0, 31)])
            if self._chance(0.5):
                inner = Expr.make(unit, [("reg%d" % reg,)])
            else:
                inner = Expr.make(unit, [("breg%d" % reg, self._rich_sleb())])
            return (r.choice(["entry_value", "GNU_entry_value"]), inner)
        # DIE references
        gnu, which = self._deal("die", [(g, w) for g in ("", "GNU_") for w in (
            "implicit_pointer", "implicit_pointer", "const_type", "regval_type", "deref_type",
            "convert", "reinterpret", "parameter_ref")])
        base = r.choice(ctx["bases"])
        if which == "implicit_pointer":
            pool = ctx["foreign"] if ctx["foreign"] and self._chance(0.5) else ctx["local"]
            return (gnu + which, r.choice(pool), self._rich_sleb())
        if which == "const_type":
            n = r.choice([0, 1, 2, 4, 8, 16, r.randint(0, 20)])
            return (gnu + which, base, bytes(r.choice([0, 0xff, r.randrange(256)])
                                             for _ in range(n)))
        if which == "regval_type":
            return (gnu + which, self._rich_uleb(), base)
        if which == "deref_type":
            return (gnu + which, self._rich_u(1), base)
        if which in ("convert", "reinterpret"):
            return (gnu + which, None if self._chance(0.25) else base)
        return ("GNU_parameter_ref", r.choice(ctx["params"] or ctx["local"]))

    def _rich_expr(self, unit, ctx=None, limit=1000):
        """A location expression of 1..24 random operations of all operand classes; `ctx`
        (see _rich_ctx) supplies the DIEs operations may refer to, without it (or in a unit
        without base types) no DIE-referring operation is made.  At most `limit` bytes."""
        ops = [self._rich_op(unit, ctx)
               for _ in range(self.rng.choice([1, 2, 3, 4, 6, 8, 10, 12, 16, 20, 24]))]
        ex = Expr.make(unit, ops)
        while ex.max_size() > limit:
            ex.xops.pop()
        return ex

    def _rich_ctx(self, unit, units):
        local = list(unit.root.walk())
        return {"bases": [d for d in local if d.tag == T["base_type"]], "local": local,
                "params": [d for d in local if d.tag == T["formal_parameter"]],
                "foreign": [d for u in units if u is not unit for d in u.root.walk()]}

    def _loclist(self, unit, first, more):
        """A LocList with `first` as the expression of its first entry; more() makes others."""
        r = self.rng
        base = r.choice([0, 0x1000, 0x401000, r.randrange(0, 1 << 24) * 16,
                         0x7f0000000000 + r.randrange(0, 1 << 16) * 4,
                         r.randrange(0, 1 << 63)])
        n = r.randint(1, 4)
        span = r.choice([0x10, 0x100, 0x10000, 1 << 32, min(1 << 63, M64 - base)])
        span = max(min(span, M64 - base), 2 * n)
        pts = set()
        while len(pts) < 2 * n:
            pts.add(r.randint(0, span))
        pts = sorted(pts)
        if self._chance(0.3):
            pts[0] = 0
        if self._chance(0.2):
            pts[-1] = M64 - base
        ranges = [[pts[2 * i], pts[2 * i + 1]] for i in range(n)]
        for i in range(n - 1):
            if self._chance(0.4):           # adjacent ranges
                ranges[i][1] = ranges[i + 1][0]
        for rg in ranges:
            # an entry whose begin equals its end covers nothing but is stored (and (0, 0) would end the list)
            if rg[0] != 0 and self._chance(self.opts["empty_ranges"]):
                rg[1] = rg[0]
        exprs = [first] + [more() for _ in range(n - 1)]
        if self._chance(0.5):
            r.shuffle(ranges)
        return LocList(unit, base, [(s, e, x) for (s, e), x in zip(ranges, exprs)])

    def _enrich(self, units):
        """Options rich_ops / loclists: after the trees are final, swap location expressions
        for rich ones and turn DW_AT_location expressions of variables and parameters in
        DWARF 2..4 units into location lists."""
        p_rich, p_list = self.opts["rich_ops"], self.opts["loclists"]
        if p_rich <= 0 and p_list <= 0:
            return
        blocks = (F["block1"], F["exprloc"])
        for u in units:
            ctx = self._rich_ctx(u, units)
            for d in u.root.walk():
                for a in d.attrs:
                    if a.form not in blocks or not isinstance(a.val, Expr):
                        continue
                    if p_rich > 0 and self._chance(p_rich):
                        a.val = self._rich_expr(u, ctx, 200 if a.form == F["block1"] else 1000)
                    if p_list > 0 and u.version <= 4 and a.name == A["location"] \
                            and d.tag in (T["variable"], T["formal_parameter"]) \
                            and self._chance(p_list):
                        def more():
                            if p_rich > 0 and self._chance(p_rich):
                                return self._rich_expr(u, ctx, 1000)
                            return self._expr(u)
                        a.val = self._loclist(u, a.val, more)
                        if self.opts["llvm_safe"]:
                            # llvm-dwarfdump-14 --debug-loc dies on DW_OP_regval_type (it looks
                            # for the base type in a unit it does not have): use the GNU twin
                            for _, _, ex in a.val.entries:
                                for x in ex.xops:
                                    if x.code == O["regval_type"]:
                                        x.code = O["GNU_regval_type"]
                        a.form = F["sec_offset"] if u.version >= 4 else F["data4"]

    def _loc_form(self, unit):
        """DWARF 2/3: block1.  DWARF 4+: exprloc; libdw (dwarf_getlocation) refuses block
        forms as locations there, so block1 only appears when v4_block_locations is on."""
        if unit.version < 4:
            return "block1"
        if self.opts["v4_block_locations"] and self._chance(0.3):
            return "block1"
        return "exprloc"

    def _add_location(self, d, name="location", kind="any"):
        d.add(name, self._loc_form(d.unit), self._expr(d.unit, kind))

    # -- tree generation ----------------------------------------------------

    def _new(self, tagname, parent):
        d = Die(T[tagname], parent.unit, parent)
        parent.children.append(d)
        parent.unit.budget -= 1
        return d

    def _tagname(self, d):
        return DW_TAG.name(d.tag)

    def _fill(self, d, tn):
        """Non-reference attributes of a fresh DIE with tag name tn."""
        r = self.rng
        v = d.unit.version
        if tn == "subprogram":
            if self._chance(0.85):
                self._add_name(d)
            if self._chance(0.5):
                self._add_decl_line(d)
            if self._chance(0.5):
                self._add_flag(d, "external")
            if self._chance(0.2):
                self._add_flag(d, "declaration")
            elif self._chance(0.7):
                self._add_pc(d)
                if self._chance(0.5):
                    self._add_location(d, "frame_base", "frame")
        elif tn == "variable":
            if self._chance(0.85):
                self._add_name(d)
            if self._chance(0.4):
                self._add_decl_line(d)
            if self._chance(0.3):
                self._add_flag(d, "external")
            x = r.random()
            if x < 0.15:
                self._add_flag(d, "declaration")
            elif x < 0.55:
                self._add_location(d)
            elif x < 0.85:
                d.add("const_value", *self._const())
        elif tn == "formal_parameter":
            if self._chance(0.8):
                self._add_name(d)
            if self._chance(0.3):
                self._add_decl_line(d)
            if self._chance(0.6):
                self._add_location(d)
        elif tn == "template_value_parameter":
            if self._chance(0.8):
                self._add_name(d)
            if self._chance(0.85):
                d.add("const_value", *self._const())
        elif tn == "base_type":
            # the first five (int, unsigned, char, unsigned char, bool) half of the time
            name, enc, size = r.choice(_BASE_TYPES[:5] if self._chance(0.5) else _BASE_TYPES)
            if self._chance(0.95):
                self._add_name(d, name)
            form = "data1" if self._chance(0.85) else r.choice(["udata", "data2"])
            d.add("byte_size", form, size)
            if self._chance(0.95):
                d.add("encoding", "data1", E[enc])
        elif tn == "typedef":
            self._add_name(d)
            if self._chance(0.4):
                self._add_decl_line(d)
        elif tn == "const_type":
            pass
        elif tn == "pointer_type":
            if self._chance(0.7):
                if v >= 5 and self._chance(0.3):
                    d.add("byte_size", "implicit_const", 8)
                else:
                    d.add("byte_size", "data1", 8)
        elif tn == "enumeration_type":
            if self._chance(0.7):
                self._add_name(d)
            if self._chance(0.8):
                d.add("byte_size", "data1", r.choice([1, 2, 4, 4, 8]))
            d.enum_mixed = self._chance(self.opts["mixed_enums"])
            if self._chance(0.2) and not d.enum_mixed:
                d.add("encoding", "data1", E[r.choice(["signed", "unsigned"])])
            if self._chance(0.3):
                self._add_decl_line(d)
        elif tn == "enumerator":
            self._add_name(d)
            if self._chance(0.95):
                form = d.parent.enum_form
                if getattr(d.parent, "enum_mixed", False):
                    # no encoding: the sign has to come from the forms of ALL the enumerators, in whatever order
                    form = r.choice(["sdata", "udata", "udata", "data1", "data4"])
                d.add("const_value", *self._const(form if self._chance(0.8) else None))
        elif tn == "structure_type":
            if self._chance(0.8):
                self._add_name(d)
            if self._chance(0.2):
                self._add_flag(d, "declaration")
            else:
                d.add("byte_size", r.choice(["data1", "data1", "udata", "data2"]),
                      r.randint(0, 255))
            if self._chance(0.3):
                self._add_decl_line(d)
        elif tn == "member":
            if self._chance(0.9):
                self._add_name(d)
            x = r.random()
            if x < 0.4:
                d.add("data_member_location", r.choice(["data1", "udata", "data2"]),
                      r.randint(0, 255))
            elif x < 0.6:
                val = self._expr(d.unit, "member")
                d.add("data_member_location", self._loc_form(d.unit), val)
            if self._chance(0.3):
                self._add_decl_line(d)
        elif tn == "namespace":
            if self._chance(0.8):
                self._add_name(d)
            if self._chance(0.2):
                self._add_decl_line(d)
        elif tn == "lexical_block":
            if self._chance(0.7):
                self._add_pc(d)

    _EXTRAS = {
        "subprogram": [("inline", (0, 1, 2, 3, 9)), ("calling_convention", (1, 2, 3, 0x40, 0x41, 7)),
                       ("accessibility", (1, 2, 3)), ("virtuality", (0, 1, 2)), ("decl_column", None),
                       ("visibility", (1, 2, 3))],
        "variable": [("accessibility", (1, 2, 3)), ("visibility", (1, 2, 3, 0)), ("decl_column", None),
                     ("endianity", (0, 1, 2, 0x40)), ("start_scope", None)],
        "member": [("accessibility", (1, 2, 3)), ("bit_size", None), ("data_bit_offset", None),
                   ("decl_column", None), ("byte_size", None)],
        "base_type": [("endianity", (0, 1, 2)), ("bit_size", None), ("binary_scale", "signed"),
                      ("decimal_scale", "signed"), ("decimal_sign", (1, 2, 3, 4, 5)), ("digit_count", None),
                      ("alignment", None)],
        "structure_type": [("calling_convention", (4, 5)), ("accessibility", (1, 2, 3)), ("alignment", None),
                           ("bit_stride", "signed"), ("byte_stride", "signed")],
        "enumeration_type": [("bit_stride", "signed"), ("byte_stride", "signed"), ("accessibility", (1, 2, 3))],
        "pointer_type": [("address_class", (0, 1, 2, 3, 4, 5)), ("alignment", None)],
        "typedef": [("accessibility", (1, 2, 3)), ("decl_column", None)],
        "formal_parameter": [("decl_column", None), ("endianity", (0, 1, 2))],
        "namespace": [("decl_column", None)],
        "lexical_block": [("entry_pc", None)],
        "compile_unit": [("identifier_case", (0, 1, 2, 3))],
        "partial_unit": [("identifier_case", (0, 1, 2, 3))],
    }

    def _add_extras(self, d, tn):
        """A few more integer-valued attributes: enumerated ones (named constants), counts, signed scales,
        vendor attributes and (option `refused`) attributes whose signedness dwgrep declines to guess."""
        r = self.rng
        for name, vals in self._EXTRAS.get(tn, ()):
            if not self._chance(self.opts["extras"] * 0.5) or d.has(name):
                continue
            if vals == "signed":
                form = r.choice(["data1", "data2", "sdata", "data1"])
                if form == "sdata":
                    v = r.choice([-1, -128, 127, 0, r.randint(-70000, 70000)])
                else:
                    v = r.choice(_BOUNDARY[form])
            elif vals is None:
                form = r.choice(["data1", "data1", "udata", "data2"])
                v = r.choice([0, 1, 7, 127, 128, 255]) if form != "data2" else r.choice([0, 256, 65535, 9])
            else:
                form = "data1" if self._chance(0.8) else r.choice(["data2", "udata"])
                v = r.choice(vals) if self._chance(0.93) else 0x7e
            d.add(name, form, v)
        if self._chance(self.opts["extras"] * 0.1):
            # a vendor attribute in the user range: read as unsigned
            d.add(0x2005 if self._chance(0.5) else 0x200b, r.choice(["data1", "data2", "data4", "udata", "sdata"]),
                  r.choice([0, 1, 0x7f, 0x80, 0xff]) if True else 0)
        if self._chance(self.opts["more_locations"]):
            # the other attributes of the location class: an expression too, in the unit's location form
            name = {"subprogram": ["return_addr", "static_link", "vtable_elem_location", "segment"],
                    "structure_type": ["data_location"], "base_type": ["data_location"], "pointer_type": ["use_location", "data_location"],
                    "variable": ["segment"], "member": ["use_location"]}.get(tn)
            if name:
                nm = r.choice(name)
                if not d.has(nm):
                    self._add_location(d, nm)
        if self._chance(self.opts["vendor_forms"]):
            # forms whose code does not fit a byte (0x1f01, 0x1f02): stored as a two-byte ULEB128 in the abbreviation
            if self._chance(0.5):
                d.add(0x2130, "GNU_str_index", r.choice([0, 1, 127, 128, 300]))      # DW_AT_GNU_dwo_name
            else:
                d.add(0x2f01, "GNU_addr_index", r.choice([0, 1, 127, 128, 300]))
        if self._chance(self.opts["refused"]):
            d.add(r.choice(["string_length", "discr_value", "discr_list"]) if tn != "member" else "discr_value",
                  r.choice(["data1", "data2", "data4"]), r.choice([0, 1, 0x80, 0xff]))
        if d.unit.version >= 5 and self._chance(self.opts["implicit_consts"]):
            # DWARF 5: the value lives in the abbreviation (one, two or three SLEB128 bytes; also zero and negative)
            for name in ("decl_column", "decl_line", "byte_size", "bit_size", "alignment", "start_scope", "decl_file_"):
                if name.endswith("_") or d.has(name) or not self._chance(0.45):
                    continue
                d.add(name, "implicit_const", r.choice([0, 1, 5, 63, 64, 127, 128, 200, 8191, 8192, 70000]))
        if self._chance(self.opts["dup_attrs"]) and d.attrs:
            # the same attribute name twice in one DIE (libdw reads it; tools call it malformed): stored order must be kept
            a = r.choice(d.attrs)
            if a.form in (F["data1"], F["data2"], F["udata"], F["string"], F["flag"]) and a.name not in (A["sibling"],):
                if a.form == F["string"]:
                    dup = Attr(a.name, F["string"], self._name() + "_again")
                elif a.form == F["flag"]:
                    dup = Attr(a.name, F["flag"], 1 - (1 if a.val else 0))
                else:
                    dup = Attr(a.name, F[r.choice(["data1", "udata"])], r.choice([0, 3, 127, 200]))
                d.attrs.insert(r.randint(d.attrs.index(a) + 1, len(d.attrs)), dup)

    def _populate(self, d, shape):
        """Children of d (recursively), within the unit's budget and depth limit."""
        r = self.rng
        tn = self._tagname(d)
        choices = _CHILD_TAGS.get(tn)
        u = d.unit
        if not choices or d.depth >= self.opts["max_depth"] or u.budget <= 0:
            return
        if shape == "deep":
            n = r.choice([1, 1, 2, 3])
        elif shape == "wide" and d.depth <= 1:
            n = r.randint(6, 16)
        elif d.depth == 0:
            n = r.randint(1, 8)
        else:
            n = r.choice([0, 0, 1, 2, 2, 3, 4, 6])
        if tn == "enumeration_type":
            d.enum_form = r.choice(self.opts["const_forms"])
            n = r.choice([2, 3, 4, 5]) if d.enum_mixed else r.choice([0, 1, 2, 3, 5])
        for i in range(n):
            if u.budget <= 0:
                break
            if shape == "deep" and i == 0 and d.depth + 1 < self.opts["max_depth"]:
                cont = [(t, w) for t, w in choices if t in _CHILD_TAGS]
                ctn = self._weighted(cont) if cont else self._weighted(choices)
            else:
                ctn = self._weighted(choices)
            c = self._new(ctn, d)
            self._fill(c, ctn)
            self._add_extras(c, ctn)
            self._populate(c, shape)

    def _build_unit(self, u):
        r = self.rng
        root = Die(T["type_unit" if u.type_unit else "skeleton_unit" if u.skeleton else "partial_unit" if u.partial else "compile_unit"], u)
        u.root = root
        u.budget = self.opts["max_dies"] - 1 - len(u.imports)
        shape = self._weighted([("normal", 5), ("deep", 2), ("wide", 2), ("empty", 1), ("tiny", 1)])
        u.shape = shape
        if shape == "empty" and self._chance(0.4):
            pass                                  # a root with no attributes at all
        else:
            if self._chance(0.5):
                d_form = "strp" if self._chance(self.opts["strp"]) else "string"
                root.add("producer", d_form, r.choice(["GNU C17 12.2.0 -g", "clang version 14.0.6",
                                                        "forest.py"]))
            if self._chance(0.8):
                form = r.choice(["data1", "data1", "data2"])
                langs = ["C89", "C", "C_plus_plus", "C99"]
                if u.version >= 5:
                    langs += ["C11", "C_plus_plus_14"]
                root.add("language", form, DW_LANG[r.choice(langs)])
            if self._chance(0.85):
                self._add_name(root, "unit%d.%s" % (u.index, "h" if u.partial else "c"))
            if self._chance(0.4):
                root.add("comp_dir", "strp" if self._chance(self.opts["strp"]) else "string",
                         "/tmp/forest")
            if not u.partial and self._chance(0.6):
                self._add_pc(root)
        if shape == "empty":
            return
        if shape == "tiny":
            u.budget = min(u.budget, r.randint(1, 3))
        else:
            u.budget = min(u.budget, r.randint(3, max(3, u.budget)))
        # a few base types up front make typed things likely to find a target
        if self.opts["refs"] and self.opts["max_depth"] >= 1 and self._chance(0.7):
            for _ in range(r.randint(1, 3)):
                if u.budget > 0:
                    self._fill(self._new("base_type", root), "base_type")
        self._populate(root, shape)

    def _insert_imports(self, u):
        r = self.rng
        for target in u.imports:
            hosts = [d for d in u.root.walk()
                     if self._tagname(d) in ("compile_unit", "partial_unit", "type_unit", "skeleton_unit", "namespace",
                                             "structure_type", "subprogram", "lexical_block")
                     and d.depth < self.opts["max_depth"]]
            host = u.root if self._chance(0.7) or not hosts else r.choice(hosts)
            d = Die(T["imported_unit"], u, host)
            host.children.insert(r.randint(0, len(host.children)), d)
            d.add("import", "ref_addr", target.root)

    # -- reference attributes -----------------------------------------------

    def _inside_struct(self, d):
        p = d.parent
        while p is not None:
            if p.tag == T["structure_type"]:
                return True
            p = p.parent
        return False

    def _add_types(self, units):
        r = self.rng
        all_types = []
        for u in units:
            u.types = [d for d in u.root.walk() if self._tagname(d) in _TYPE_TAGS]
            all_types += u.types
        # a type only refers to types of lower rank (no cycles); typedef/const/pointer tend
        # to rank high so that they find something to sit on
        keyed = [(r.random() + (0.5 if self._tagname(d) in
                                ("typedef", "const_type", "pointer_type") else 0.0), i, d)
                 for i, d in enumerate(all_types)]
        keyed.sort(key=lambda k: k[:2])
        for i, (_, _, d) in enumerate(keyed):
            d.rank = i
        for u in units:
            for d in list(u.root.walk()):
                tn = self._tagname(d)
                if tn not in _TYPED_TAGS or d.enum_mixed:
                    continue
                p = {"subprogram": 0.5, "pointer_type": 0.8, "const_type": 0.8,
                     "enumeration_type": 0.5, "template_value_parameter": 0.85}.get(tn, 0.9)
                if tn == "template_value_parameter" and self.opts["llvm_safe"]:
                    pass
                elif not self._chance(p):
                    continue
                cross = len(units) > 1 and self._chance(0.15)
                pool = all_types if cross else u.types
                if tn in _TYPE_TAGS:
                    pool = [t for t in pool if t.rank < d.rank]
                    if tn == "enumeration_type":
                        pool = [t for t in pool if self._tagname(t) in
                                ("base_type", "typedef", "const_type")]
                    elif self._chance(0.5):
                        # typedef/const/pointer on top of another one: longer chains
                        pref = [t for t in pool if self._tagname(t) in
                                ("typedef", "const_type", "pointer_type")]
                        pool = pref or pool
                elif tn == "template_value_parameter" and self.opts["llvm_safe"]:
                    pool = [t for t in pool if self._tagname(t) in
                            ("base_type", "enumeration_type", "typedef")
                            and not self._inside_struct(t)]
                    if not pool:
                        d.parent.children.remove(d)
                        continue
                elif tn != "subprogram" and self._chance(0.3):
                    # through typedef/const/pointer layers
                    pref = [t for t in pool if self._tagname(t) in
                            ("typedef", "const_type", "pointer_type")]
                    pool = pref or pool
                elif tn != "subprogram" and self._chance(0.5):
                    # favour scalar-ish types: they decide how const_value is read
                    pref = [t for t in pool if self._tagname(t) != "structure_type"]
                    pool = pref or pool
                if not pool:
                    continue
                t = r.choice(pool)
                if t.unit is not u:
                    form = "ref_addr"
                else:
                    form = self._weighted([("ref4", 6), ("ref_udata", 2), ("ref_addr", 2)])
                a = Attr(A["type"], F[form], t)
                # the type usually sits right after the name
                pos = len(d.attrs)
                if self._chance(0.7):
                    names = [x.name for x in d.attrs]
                    pos = names.index(A["name"]) + 1 if A["name"] in names else 0
                d.attrs.insert(pos, a)
        # constants of an enumeration whose sign has to be inferred from its enumerators: fixed-size forms
        # with the top bit set are the ones whose reading depends on the inference
        for u in units:
            for d in list(u.root.walk()):
                if d.tag == T["enumeration_type"] and not d.enum_mixed and d.has("type") and d.parent is not None \
                        and self._chance(self.opts["typed_enum_consts"]):
                    # an enumeration with an underlying type: the sign of a constant of it is that type's
                    v = Die(T["variable"], u, d.parent)
                    d.parent.children.append(v)
                    self._add_name(v)
                    v.add("type", "ref4", d)
                    form = r.choice(["data1", "data2", "data4", "data8"])
                    v.add("const_value", form, r.choice(_BOUNDARY[form][3:5]))
                if d.enum_mixed and d.parent is not None:
                    for _ in range(r.randint(2, 3)):
                        v = Die(T["variable"], u, d.parent)
                        d.parent.children.append(v)
                        self._add_name(v)
                        v.add("type", "ref4", d)
                        form = r.choice(["data1", "data2", "data4", "data8", "data8"])
                        v.add("const_value", form, r.choice(_BOUNDARY[form][3:5] + [r.randrange(1 << (8 * _FIXED[F[form]]))]))

    def _add_chains(self, units):
        """DW_AT_specification / DW_AT_abstract_origin edges; edges only lead from an
        earlier to a later element of a random order, so the graph is acyclic; the longest
        path has at most max_chain edges."""
        r = self.rng
        maxlen = self.opts["max_chain"]
        groups = []
        if self.opts["cross_unit_chains"]:
            groups.append([d for u in units for d in u.root.walk()])
        else:
            groups = [list(u.root.walk()) for u in units]
        for dies in groups:
            for tags in (("subprogram",), ("variable", "formal_parameter")):
                cand = [d for d in dies if self._tagname(d) in tags]
                if len(cand) < 2:
                    continue
                r.shuffle(cand)
                density = r.choice([0.0, 0.2, 0.5, 0.8])
                # the last `forced`+1 candidates are linked into one straight chain, so that
                # every length 0..max_chain is about equally likely to occur
                forced = r.randint(0, maxlen) if self._chance(0.7) else 0
                depth = {}
                for i in range(len(cand) - 1, -1, -1):
                    d = cand[i]
                    depth[id(d)] = 0
                    later = [t for t in cand[i + 1:] if depth[id(t)] < maxlen]
                    force = len(cand) - 1 - forced <= i and later and later[0] is cand[i + 1]
                    if not later or not (force or self._chance(density)):
                        continue
                    kinds = [r.choice(["specification", "abstract_origin"])]
                    if self._chance(self.opts.get("both_refs", 0.1)):
                        kinds = ["specification", "abstract_origin"]
                        r.shuffle(kinds)            # stored in either order: the integration order must not depend on it
                    for kind in kinds:
                        # prefer the immediate successor: makes long chains likely
                        t = later[0] if force or self._chance(0.6) else r.choice(later)
                        form = "ref4" if t.unit is d.unit else "ref_addr"
                        if form == "ref4" and self._chance(0.1):
                            form = r.choice(["ref_udata", "ref_addr"])
                        d.add(kind, form, t)
                        depth[id(d)] = max(depth[id(d)], depth[id(t)] + 1)
                        if kind == "specification" and not t.has("declaration") \
                                and self._chance(0.8):
                            self._add_flag(t, "declaration")

    def _add_siblings(self, u):
        r = self.rng
        if not self._chance(self.opts["sibling"]):
            return
        policy = r.choice(["parents", "all", "random"])
        for d in u.root.walk():
            kids = d.children
            for i in range(len(kids) - 1):
                c = kids[i]
                if policy == "parents" and not c.children:
                    continue
                if policy == "random" and not self._chance(0.5):
                    continue
                a = Attr(A["sibling"], F["ref4"], kids[i + 1])
                c.attrs.insert(0 if self._chance(0.8) else r.randint(0, len(c.attrs)), a)

    # -- abbreviations ------------------------------------------------------

    def _assign_abbrevs(self, units):
        r = self.rng
        tables = []
        for u in sorted(units, key=lambda x: r.random()):
            if tables and self._chance(self.opts["share_abbrev"]):
                t = r.choice(tables)
            else:
                mode = "seq"
                if self._chance(self.opts["odd_codes"]):
                    mode = r.choice(["shuffled", "sparse"])
                t = AbbrevTable(len(tables), mode)
                tables.append(t)
            u.table = t
            t.units.append(u)
        for t in tables:
            t.units.sort(key=lambda x: x.index)
            dies = [d for u in t.units for d in u.root.walk()]
            keys = []
            for d in dies:
                key = (d.tag, bool(d.has_children),
                       tuple((a.name, a.form, a.val if a.form == F["implicit_const"] else None)
                             for a in d.attrs))
                if key not in t.by_key:
                    t.by_key[key] = None
                    keys.append(key)
            n = len(keys)
            if t.code_mode == "seq":
                codes = list(range(1, n + 1))
            elif t.code_mode == "shuffled":
                codes = list(range(1, n + 1))
                r.shuffle(codes)
            else:
                codes = r.sample(range(1, max(300, 3 * n)), n)
            for key, code in zip(keys, codes):
                e = {"key": key, "code": code, "offset": 0}
                t.by_key[key] = e
                t.entries.append(e)
            for d in dies:
                key = (d.tag, bool(d.has_children),
                       tuple((a.name, a.form, a.val if a.form == F["implicit_const"] else None)
                             for a in d.attrs))
                d.abbrev_code = t.by_key[key]["code"]
        return tables

    # -- top level ----------------------------------------------------------

    def _plan_units(self):
        r = self.rng
        o = self.opts
        n = r.randint(o["min_units"], o["max_units"])
        if self._chance(0.3):
            n = max(n, r.randint(o["min_units"], o["max_units"]))
        mode = self._weighted([("random", 4), ("chain", 3), ("star", 2)])
        if o["partial_units"] and mode == "chain" and self._chance(0.5):
            n = o["max_units"]
        npart = 0
        if o["partial_units"] and n >= 2 and o["max_depth"] >= 1 and o["max_dies"] >= 2 \
                and self._chance(0.75):
            npart = r.randint(1, n - 1)
            if mode == "chain" and self._chance(0.7):
                npart = n - 1
        kinds = [True] * npart + [False] * (n - npart)
        r.shuffle(kinds)
        units = [Unit(i, r.choice(o["versions"]), kinds[i]) for i in range(n)]
        parts = [u for u in units if u.partial]
        cus = [u for u in units if not u.partial]
        # import graph: partial units in a random topological order; an edge only leads
        # from a later to an earlier one, level = longest import path below, <= 3
        r.shuffle(parts)
        for j, p in enumerate(parts):
            p.level = 1
            for q in parts[:j]:
                if mode == "chain":
                    want = q is parts[j - 1] or self._chance(0.2)
                elif mode == "star":
                    want = False
                else:
                    want = self._chance(0.55)
                if want and q.level + 1 <= 3:
                    p.imports.append(q)
                    p.level = max(p.level, q.level + 1)
                    if self._chance(0.15):
                        p.imports.append(q)
        for c in cus:
            for p in parts:
                if self._chance(0.65):
                    c.imports.append(p)
                    if self._chance(0.25):
                        c.imports.append(p)      # the same partial unit imported twice
            r.shuffle(c.imports)
        # DW_AT_import may also refer to a normal compilation unit: only earlier ones, so the graph stays acyclic
        if o.get("cu_imports", 0.0) > 0:
            for j, c in enumerate(cus):
                for c2 in cus[:j]:
                    if self._chance(o["cu_imports"]):
                        c.imports.insert(r.randint(0, len(c.imports)), c2)
        # DWARF 5 type units live in .debug_info beside the compilation units: a unit whose root is neither
        # DW_TAG_compile_unit nor DW_TAG_partial_unit
        if o.get("type_units", 0.0) > 0:
            for c in cus:
                if (c.version >= 5 or 5 in o["versions"]) and self._chance(o["type_units"]):
                    c.version = 5
                    if self._chance(0.35):
                        c.skeleton = True
                    else:
                        c.type_unit = True
        for u in units:
            del u.imports[max(0, o["max_dies"] - 1):]
        return units

    def generate(self):
        units = self._plan_units()
        for u in units:
            self._build_unit(u)
        for u in units:
            self._insert_imports(u)
        if self.opts["refs"]:
            self._add_types(units)
            self._add_chains(units)
        self._enrich(units)
        if self.opts["cv_variants"] > 0:
            # the other qualifier-like tags that are looked through when the sign of a constant is taken from its type
            for u in units:
                for d in u.root.walk():
                    if d.tag == T["const_type"] and self._chance(self.opts["cv_variants"]):
                        d.tag = self.rng.choice([0x35, 0x35, 0x37, 0x2d])       # volatile_type, restrict_type, packed_type
                        if d.parent is not None and d.has("type"):
                            # a constant whose sign has to be found behind it
                            v = Die(T["variable"], u, d.parent)
                            d.parent.children.append(v)
                            self._add_name(v)
                            v.add("type", "ref4", d)
                            form = self.rng.choice(["data1", "data2", "data4", "data8"])
                            v.add("const_value", form, self.rng.choice(_BOUNDARY[form][2:5]))
        if self.opts["dangling_refs"] > 0:
            # a reference libdw cannot resolve (beyond the section): the raw view lists the attribute all the same
            for u in units:
                if self._chance(self.opts["dangling_refs"]):
                    cands = [d for d in u.root.walk() if d is not u.root and not d.has("specification") and not d.has("abstract_origin")]
                    if cands:
                        d = self.rng.choice(cands)
                        d.add(self.rng.choice(["specification", "abstract_origin"]), "ref_addr", Nowhere(0x7ffffff0))
        for u in units:
            # children flag: forced by children, otherwise now and then a lone null entry
            for d in u.root.walk():
                if d.children:
                    d.has_children = True
                elif d is u.root:
                    d.has_children = self._chance(0.5)
                else:
                    d.has_children = self._chance(self.opts["lone_null"])
            # now and then store the attributes of a DIE in a scrambled order
            for d in u.root.walk():
                if len(d.attrs) > 1 and self._chance(0.1):
                    self.rng.shuffle(d.attrs)
            if self.opts["refs"]:
                self._add_siblings(u)
        tables = self._assign_abbrevs(units)
        f = Forest(units, tables, self.opts)
        f.layout(self.rng)
        return f


def generate(seed=0, **opts):
    """Convenience: one forest from a seed."""
    return ForestGen(random.Random(seed), **opts).generate()


if __name__ == "__main__":
    import json
    import sys
    seed = int(sys.argv[1]) if len(sys.argv) > 1 else 0
    fo = generate(seed)
    if len(sys.argv) > 2:
        fo.write_object(sys.argv[2])
    json.dump(fo.describe(), sys.stdout, indent=1)
    print()
