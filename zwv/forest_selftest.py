#!/usr/bin/env python3
"""Selftest of zwv/forest.py:
    python3 -m zwv.forest_selftest [-v] [--seed N] [--count N]      (or: [-v] [seed] [count])
    python3 -m zwv.forest_selftest --help
The dwgrep binary is $DWGREP if set, else the newest /verif/build/impl-plain-*/dwgrep.

For `count` random forests (default 50) drawn from `seed` (default 0):
  * internal consistency of describe() (offsets, references, acyclicity, JSON);
  * the object is written (directly; every 5th one through `as`, whose section
    contents must equal the directly written ones) and listed with
      - dwgrep `raw unit` / `raw entry` / abbreviation queries (libdw's view): unit offsets,
        versions, per-DIE offset, tag, children flag, parent, root, abbreviation code,
        attribute names and forms, children; targets of all reference attributes;
        string values; DW_FORM_addr values; abbreviation table offsets, codes, tags;
      - llvm-dwarfdump-14 --debug-info -v: unit headers, every DIE offset + tag +
        abbreviation code + children flag, NULL entries, attribute names + forms, and
        the values of string / reference / integer / flag / address forms;
      - readelf --debug-dump=info must not complain;
    all compared with describe();
  * location expressions and location lists (a part of the forests is generated with
    rich_ops=0.6, loclists=0.5): the block bytes are decoded again here, independently of
    the generator, and compared with "ops2"; .debug_loc is parsed and compared with the
    location list values; dwgrep's view of every location attribute (address range of each
    element, number of operations, offset and opcode of each operation) is compared with
    "ops2"; so are the lists printed by readelf --debug-dump=loc and llvm-dwarfdump-14
    --debug-loc (offsets and absolute address ranges).
Prints a summary including feature coverage; exit status 1 on any disagreement.
"""
import concurrent.futures
import glob
import json
import os
import random
import re
import shutil
import subprocess
import sys

sys.path.insert(0, os.path.dirname(os.path.dirname(os.path.abspath(__file__))))
from zwv import forest as FO          # noqa: E402
from zwv.forest import DW_TAG, DW_AT, DW_FORM, preorder, parent_map, die_index  # noqa: E402

SCRATCH = os.environ.get("FOREST_SCRATCH", "/var/tmp/forest-scratch")
F = DW_FORM
REFS = (F["ref4"], F["ref_udata"], F["ref_addr"])


def find_dwgrep():
    env = os.environ.get("DWGREP")
    if env:
        return env
    cands = [p for p in glob.glob("/verif/build/impl-plain-*/dwgrep") if os.access(p, os.X_OK)]
    if not cands:
        return None
    return max(cands, key=os.path.getmtime)


def run(cmd):
    p = subprocess.run(cmd, stdout=subprocess.PIPE, stderr=subprocess.PIPE, text=True,
                       errors="replace")
    return p.returncode, p.stdout, p.stderr


# ---------------------------------------------------------------------------
# internal consistency


def check_internal(fo, desc, err):
    json.loads(json.dumps(desc))
    info = fo.debug_info
    idx = die_index(desc)
    pm = parent_map(desc)
    prev_end = 0
    for ui, u in enumerate(desc["units"]):
        if u["offset"] != prev_end:
            err("unit %d does not start where the previous one ends" % ui)
        prev_end = u["end"]
        if int.from_bytes(info[u["offset"]:u["offset"] + 4], "little") != u["length"]:
            err("unit %d: length field" % ui)
        if u["end"] != u["offset"] + 4 + u["length"]:
            err("unit %d: end" % ui)
        if u["header_size"] != (12 if u["version"] >= 5 else 11):
            err("unit %d: header size" % ui)
        if u["root"]["offset"] != u["offset"] + u["header_size"]:
            err("unit %d: root offset" % ui)
        want = DW_TAG["partial_unit"] if u["unit_type"] == "partial" else DW_TAG["compile_unit"]
        if u["root"]["tag"] != want:
            err("unit %d: root tag" % ui)
        tab = desc["abbrevs"][u["abbrev_table"]]
        if tab["table_offset"] != u["abbrev_offset"]:
            err("unit %d: abbrev offset" % ui)
        codes = dict((e["code"], e) for e in tab["entries"])
        last = -1
        for d in preorder(u["root"]):
            if not (u["offset"] + u["header_size"] <= d["offset"] < u["end"]):
                err("DIE %#x outside its unit" % d["offset"])
            if d["offset"] <= last:
                err("DIE %#x not after its predecessor" % d["offset"])
            last = d["offset"]
            e = codes.get(d["abbrev_code"])
            if e is None:
                err("DIE %#x: abbreviation %d missing" % (d["offset"], d["abbrev_code"]))
                continue
            if (e["tag"], e["children"]) != (d["tag"], d["has_children"]):
                err("DIE %#x: abbreviation tag/children" % d["offset"])
            if e["attrs"] != [[a["name"], a["form"]] for a in d["attrs"]]:
                err("DIE %#x: abbreviation attributes" % d["offset"])
            if d["children"] and not d["has_children"]:
                err("DIE %#x: children without the flag" % d["offset"])
            for i, a in enumerate(d["attrs"]):
                v = a["value"]
                if a["form"] in REFS:
                    if v["ref"] not in idx:
                        err("DIE %#x: dangling reference" % d["offset"])
                    elif a["form"] != F["ref_addr"] and not (
                            u["offset"] <= v["ref"] < u["end"]):
                        err("DIE %#x: unit-local reference leaves the unit" % d["offset"])
                if a["form"] == F["implicit_const"] and u["version"] < 5:
                    err("implicit_const before DWARF 5")
                if a["form"] in (F["exprloc"], F["flag_present"], F["sec_offset"]) \
                        and u["version"] < 4:
                    err("DWARF 4 form in an older unit")
                if a["name"] == DW_AT["const_value"] and \
                        DW_FORM.name(a["form"]) not in desc["opts"]["const_forms"]:
                    err("DIE %#x: const_value form outside const_forms" % d["offset"])
                if a["name"] == DW_AT["sibling"]:
                    sibs = idx[pm[d["offset"]]]["children"]
                    k = [s["offset"] for s in sibs].index(d["offset"])
                    if k + 1 >= len(sibs) or sibs[k + 1]["offset"] != v["ref"]:
                        err("DIE %#x: DW_AT_sibling is not the next sibling" % d["offset"])
                if isinstance(v, dict) and ("ops2" in v or "loclist" in v):
                    check_location_value(fo, desc, idx, u, d, a, err)
        if max(depth_of(u["root"]), 0) > desc["opts"]["max_depth"]:
            err("unit %d deeper than max_depth" % ui)
        if len(preorder(u["root"])) > desc["opts"]["max_dies"]:
            err("unit %d has more than max_dies DIEs" % ui)
    if prev_end != len(info):
        err(".debug_info has trailing bytes")
    check_debug_loc(fo, desc, idx, err)
    # abbreviation table bytes
    ab = fo.debug_abbrev
    for t in desc["abbrevs"]:
        pos = t["table_offset"]
        for e in t["entries"]:
            if e["offset"] != pos:
                err("abbreviation %d not at its offset" % e["code"])
            code, pos = read_uleb(ab, pos)
            tag, pos = read_uleb(ab, pos)
            ch = ab[pos]
            pos += 1
            attrs = []
            while True:
                at, pos = read_uleb(ab, pos)
                form, pos = read_uleb(ab, pos)
                if form == F["implicit_const"]:
                    _, pos = read_sleb(ab, pos)
                if at == 0 and form == 0:
                    break
                attrs.append([at, form])
            if (code, tag, bool(ch), attrs) != (e["code"], e["tag"], e["children"], e["attrs"]):
                err("abbreviation %d bytes disagree with the description" % e["code"])
        if ab[pos] != 0 or pos + 1 != t["end"]:
            err("abbreviation table end")
    # acyclicity: imports between units, type edges, specification/abstract_origin edges
    uof = FO.unit_of(desc)
    edges = {"import": {}, "type": {}, "chain": {}}
    for d in idx.values():
        for a in d["attrs"]:
            if a["form"] not in REFS:
                continue
            tgt = a["value"]["ref"]
            if a["name"] == DW_AT["import"]:
                if tgt != desc["units"][uof[tgt]]["root"]["offset"]:
                    err("DW_AT_import does not point to a unit root")
                if desc["units"][uof[tgt]]["unit_type"] != "partial":
                    err("DW_AT_import does not point to a partial unit")
                edges["import"].setdefault(uof[d["offset"]], set()).add(uof[tgt])
            elif a["name"] == DW_AT["type"]:
                edges["type"].setdefault(d["offset"], set()).add(tgt)
            elif a["name"] in (DW_AT["specification"], DW_AT["abstract_origin"]):
                edges["chain"].setdefault(d["offset"], set()).add(tgt)
    longest = {}
    for kind, g in edges.items():
        longest[kind] = longest_path(g)
        if longest[kind] is None:
            err("%s graph is cyclic" % kind)
    if longest["import"] is not None and longest["import"] > 3:
        err("imports nested deeper than 3")
    if longest["chain"] is not None and longest["chain"] > desc["opts"]["max_chain"]:
        err("specification/abstract_origin chain too long")
    return edges, longest


# location operations by operand layout, by number (kept apart from the generator's tables)
OPS_NOARG = set([0x06, 0x12, 0x13, 0x14, 0x16, 0x17, 0x19, 0x1a, 0x1b, 0x1c, 0x1d, 0x1e, 0x1f,
                 0x20, 0x21, 0x22, 0x24, 0x25, 0x26, 0x27, 0x29, 0x2a, 0x2b, 0x2c, 0x2d, 0x2e,
                 0x96, 0x97, 0x9b, 0x9c, 0x9f, 0xe0]) | set(range(0x30, 0x70))
OPS_FIXED_U = {0x08: 1, 0x0a: 2, 0x0c: 4, 0x0e: 8, 0x15: 1, 0x94: 1, 0x95: 1}
OPS_FIXED_S = {0x09: 1, 0x0b: 2, 0x0d: 4, 0x0f: 8}
OPS_ULEB = (0x10, 0x23, 0x90, 0x93)
OPS_SLEB = set([0x11, 0x91]) | set(range(0x70, 0x90))
OPS_TYPED = (0xa0, 0xf2, 0xa4, 0xf4, 0xa5, 0xf5, 0xa6, 0xf6, 0xa8, 0xf7, 0xa9, 0xf9, 0xfa)


def decode_expr(b, unit):
    """Decode expression bytes into the "ops2" shape; `unit` is the unit description."""
    b = bytes(b)
    out, pos = [], 0
    while pos < len(b):
        off, op = pos, b[pos]
        pos += 1
        opnds = []

        def fixed(n, key, signed=False):
            nonlocal pos
            opnds.append({key: int.from_bytes(b[pos:pos + n], "little", signed=signed)})
            if pos + n > len(b):
                raise ValueError("operand runs off the end")
            pos += n

        def leb(key, reader=read_uleb):
            nonlocal pos
            v, pos = reader(b, pos)
            opnds.append({key: v})
            return v

        def block(n):
            nonlocal pos
            if pos + n > len(b):
                raise ValueError("block runs off the end")
            pos += n
            return list(b[pos - n:pos])
        if op in OPS_NOARG:
            pass
        elif op in OPS_FIXED_U:
            fixed(OPS_FIXED_U[op], "u")
        elif op in OPS_FIXED_S:
            fixed(OPS_FIXED_S[op], "s", True)
        elif op in OPS_ULEB:
            leb("u")
        elif op in OPS_SLEB:
            leb("s", read_sleb)
        elif op == 0x92:                            # bregx
            leb("u")
            leb("s", read_sleb)
        elif op == 0x9d:                            # bit_piece
            leb("u")
            leb("u")
        elif op == 0x03:
            fixed(8, "addr")
        elif op == 0x9e:                            # implicit_value
            n, pos = read_uleb(b, pos)
            opnds.append({"block": block(n)})
        elif op in (0xa3, 0xf3):                    # entry_value
            n, pos = read_uleb(b, pos)
            opnds.append({"expr": decode_expr(block(n), unit)})
        elif op in (0xa0, 0xf2):                    # implicit_pointer
            fixed(8 if unit["version"] == 2 else 4, "die")
            leb("s", read_sleb)
        elif op in (0xa4, 0xf4):                    # const_type
            opnds.append({"die": unit["offset"] + read_uleb(b, pos)[0]})
            _, pos = read_uleb(b, pos)
            n = b[pos]
            pos += 1
            opnds.append({"block": block(n)})
        elif op in (0xa5, 0xf5):                    # regval_type
            leb("u")
            leb("curel")
        elif op in (0xa6, 0xf6):                    # deref_type
            fixed(1, "u")
            leb("curel")
        elif op in (0xa8, 0xf7, 0xa9, 0xf9):        # convert, reinterpret
            leb("curel")
        elif op == 0xfa:                            # GNU_parameter_ref
            fixed(4, "curel")
        else:
            raise ValueError("opcode %#x" % op)
        out.append({"offset": off, "op": op, "operands": opnds})
    return out


def all_ops2(ops2):
    """The operations of an "ops2" list and of the expressions nested in it."""
    for o in ops2:
        yield o
        for x in o["operands"]:
            if "expr" in x:
                for n in all_ops2(x["expr"]):
                    yield n


def location_exprs(v):
    """The expression descriptions in a location attribute value (one, or one per entry)."""
    return v["entries"] if "loclist" in v else [v]


def check_location_value(fo, desc, idx, u, d, a, err):
    v = a["value"]
    where = "DIE %#x %s" % (d["offset"], DW_AT.name(a["name"]))
    if "loclist" in v:
        if u["version"] > 4:
            err("%s: location list in a DWARF %d unit" % (where, u["version"]))
        if a["form"] != (F["sec_offset"] if u["version"] == 4 else F["data4"]):
            err("%s: location list form %s in a DWARF %d unit" % (
                where, DW_FORM.name(a["form"]), u["version"]))
        if not 1 <= len(v["entries"]) <= 4:
            err("%s: %d location list entries" % (where, len(v["entries"])))
        if d["tag"] not in (DW_TAG["variable"], DW_TAG["formal_parameter"]) \
                or a["name"] != DW_AT["location"]:
            err("%s: location list in an unexpected place" % where)
    elif a["form"] not in (F["block1"], F["exprloc"]):
        err("%s: expression in form %s" % (where, DW_FORM.name(a["form"])))
    for e in location_exprs(v):
        if "loclist" in v and not 0 <= e["start"] < e["end"] <= FO.M64:
            err("%s: entry range %#x..%#x" % (where, e["start"], e["end"]))
        try:
            dec = decode_expr(e["block"], u)
        except (ValueError, IndexError) as x:
            err("%s: block does not decode: %s" % (where, x))
            continue
        if dec != e["ops2"]:
            err("%s: block decodes to %r, described as %r" % (where, dec, e["ops2"]))
        if [o[0] for o in e["ops"]] != [o["op"] for o in e["ops2"]]:
            err("%s: ops and ops2 disagree" % where)
        if a["form"] == F["block1"] and len(e["block"]) > 255:
            err("%s: block1 longer than 255 bytes" % where)
        for o in all_ops2(e["ops2"]):
            if o["op"] in (0x28, 0x2f):
                err("%s: skip/bra generated" % where)
            for x in o["operands"]:
                tgt = None
                if ("u" in x and not 0 <= x["u"] <= FO.M64) or \
                        ("s" in x and not -(1 << 63) <= x["s"] < (1 << 63)) or \
                        ("addr" in x and not 0 <= x["addr"] <= FO.M64):
                    err("%s: op %#x operand %r out of range" % (where, o["op"], x))
                if "die" in x:
                    tgt = x["die"]
                elif "curel" in x:
                    if x["curel"] == 0 and o["op"] in (0xa8, 0xf7, 0xa9, 0xf9):
                        continue
                    tgt = u["offset"] + x["curel"]
                else:
                    continue
                if tgt not in idx:
                    err("%s: op %#x refers to %#x, not a DIE" % (where, o["op"], tgt))
                    continue
                local = u["offset"] <= tgt < u["end"]
                if o["op"] not in (0xa0, 0xf2) and not local:
                    err("%s: op %#x leaves the unit" % (where, o["op"]))
                if o["op"] not in (0xa0, 0xf2, 0xfa) and idx[tgt]["tag"] != DW_TAG["base_type"]:
                    err("%s: op %#x refers to a %s" % (where, o["op"],
                                                        DW_TAG.name(idx[tgt]["tag"])))


def check_debug_loc(fo, desc, idx, err):
    """.debug_loc is exactly the described lists, one after the other, in attribute order."""
    loc = fo.debug_loc
    if desc["sizes"].get(".debug_loc", 0) != len(loc) or (".debug_loc" in desc["sizes"]) != bool(loc):
        err("sizes['.debug_loc'] wrong")
    if (".debug_loc" in fo.sections()) != bool(loc):
        err("sections() and .debug_loc disagree")
    pos = 0
    for u in desc["units"]:
        for d in preorder(u["root"]):
            for a in d["attrs"]:
                v = a["value"]
                if not (isinstance(v, dict) and "loclist" in v):
                    continue
                if v["loclist"] != pos:
                    err("location list of DIE %#x at %#x, expected at %#x" % (
                        d["offset"], v["loclist"], pos))
                    pos = v["loclist"]
                try:
                    b0, b1 = int.from_bytes(loc[pos:pos + 8], "little"), \
                        int.from_bytes(loc[pos + 8:pos + 16], "little")
                    if b0 != FO.M64 or b1 != v.get("base", b1):
                        err("location list %#x does not start with a base address entry" % pos)
                    base = b1
                    pos += 16
                    got = []
                    while True:
                        s0 = int.from_bytes(loc[pos:pos + 8], "little")
                        e0 = int.from_bytes(loc[pos + 8:pos + 16], "little")
                        if pos + 16 > len(loc):
                            raise ValueError("list runs off the section")
                        pos += 16
                        if (s0, e0) == (0, 0):
                            break
                        n = int.from_bytes(loc[pos:pos + 2], "little")
                        got.append((base + s0, base + e0, list(loc[pos + 2:pos + 2 + n])))
                        pos += 2 + n
                    if got != [(e["start"], e["end"], e["block"]) for e in v["entries"]]:
                        err("location list %#x bytes disagree with the description"
                            % v["loclist"])
                except ValueError as x:
                    err("location list %#x: %s" % (v["loclist"], x))
    if pos != len(loc):
        err(".debug_loc has %d bytes, lists end at %d" % (len(loc), pos))


def depth_of(d):
    return 0 if not d["children"] else 1 + max(depth_of(c) for c in d["children"])


def longest_path(g, start=None):
    """Longest path (in edges) of digraph g = {node: set(nodes)}, from `start` or from
    anywhere; None if a cycle is met."""
    memo, onstack = {}, set()

    def go(n):
        if n in memo:
            return memo[n]
        if n in onstack:
            raise RecursionError
        onstack.add(n)
        best = 0
        for m in g.get(n, ()):
            best = max(best, 1 + go(m))
        onstack.discard(n)
        memo[n] = best
        return best
    try:
        if start is not None:
            return go(start)
        return max([go(n) for n in list(g)] or [0])
    except RecursionError:
        return None


def read_uleb(b, pos):
    v = sh = 0
    while True:
        x = b[pos]
        pos += 1
        v |= (x & 0x7f) << sh
        sh += 7
        if not x & 0x80:
            return v, pos


def read_sleb(b, pos):
    v = sh = 0
    while True:
        x = b[pos]
        pos += 1
        v |= (x & 0x7f) << sh
        sh += 7
        if not x & 0x80:
            if x & 0x40:
                v -= 1 << sh
            return v, pos


# ---------------------------------------------------------------------------
# dwgrep

Q_ENTRY = ('raw entry (|D| "E %( D offset dec %) %( D label value dec %) %( [D ?haschildren] length %)'
           ' %( [D parent offset dec] %) %( D root offset dec %) %( D abbrev code dec %)'
           ' %( [D attribute label value dec] %) %( [D attribute form value dec] %)'
           ' %( [D child offset dec] %)")')
Q_UNIT = 'raw unit (|U| "U %( U offset dec %) %( U version dec %) %( U root offset dec %)")'
# `value` is only asked of attributes with the forms of interest: on others (const_value in a
# fixed-size form without usable type information, say) dwgrep may give up on the whole query
Q_REF = ('raw entry (|D| D attribute ?((form == DW_FORM_ref4) || (form == DW_FORM_ref_udata)'
         ' || (form == DW_FORM_ref_addr)) (|A| A value (|V| '
         '"R %( D offset dec %) %( A label value dec %) %( V offset dec %)")))')
Q_STR = ('raw entry (|D| D attribute ?((form == DW_FORM_string) || (form == DW_FORM_strp))'
         ' (|A| A value (|V| "S %( D offset dec %) %( A label value dec %) %( V %)")))')
Q_ADDR = ('raw entry (|D| D attribute ?(form == DW_FORM_addr) (|A| '
          '"N %( D offset dec %) %( A label value dec %) %( A value value dec %)"))')
Q_ABBREV = ('raw unit (|U| U abbrev (|B| "A %( U offset dec %) %( B offset dec %)'
            ' %( [B entry offset dec] %) %( [B entry code dec] %) %( [B entry label value dec] %)'
            ' %( [B entry (|X| [X ?haschildren] length)] %)"))')


# every expression-valued attribute: for each element (the one expression, or each entry of
# a location list) its address range and per operation the offset and the opcode number
Q_LOC = ('raw entry (|D| D attribute ?((label == DW_AT_location) || (label == DW_AT_frame_base)'
         ' || (label == DW_AT_data_member_location)) ?((form == DW_FORM_block1)'
         ' || (form == DW_FORM_exprloc) || (form == DW_FORM_sec_offset) || (form == DW_FORM_data4))'
         ' (|A| A value (|L| "L %( D offset dec %) %( A label value dec %)'
         ' %( L address low value dec %) %( L address high value dec %) %( L length %)'
         ' %( [L elem offset dec] %) %( [L elem label value dec] %)")))')
# the query of the task statement: must run without error on every file
Q_LOC2 = 'entry attribute ?AT_location value elem (offset, label)'
# the default rendering: one line "START..END:[...]" per element
Q_LOC3 = 'raw entry attribute ?AT_location value'


def lst(xs):
    return "[" + ", ".join(str(x) for x in xs) + "]"


def is_location(a):
    v = a["value"]
    return isinstance(v, dict) and ("ops2" in v or "loclist" in v)


def check_dwgrep_locations(dwgrep, path, desc, err):
    exp, exp3 = [], []
    nloc = 0
    for u in desc["units"]:
        for d in preorder(u["root"]):
            for a in d["attrs"]:
                if not is_location(a):
                    continue
                if a["form"] == F["block1"] and u["version"] >= 4:
                    return      # v4_block_locations: libdw refuses those, nothing to compare
                if a["name"] == DW_AT["location"]:
                    nloc += 1
                for e in location_exprs(a["value"]):
                    lo, hi = (e["start"], e["end"]) if "loclist" in a["value"] else (0, FO.M64)
                    exp.append("L %d %d %d %d %d %s %s" % (
                        d["offset"], a["name"], lo, hi, len(e["ops2"]),
                        lst(o["offset"] for o in e["ops2"]), lst(o["op"] for o in e["ops2"])))
                    if a["name"] == DW_AT["location"]:
                        exp3.append("%s..%#x:" % (("%#x" % lo) if lo else "0", hi))
    rc, out, se = run([dwgrep, path, "-e", Q_LOC])
    got = out.split("\n")[:-1]
    if got != exp or rc != (0 if exp else 1) or se.strip():
        err("dwgrep locations differ (rc %d): got %d exp %d lines; first diff %s; %s" % (
            rc, len(got), len(exp), first_diff(got, exp), se.strip()[:300]))
    rc, out, se = run([dwgrep, path, "-e", Q_LOC2])
    if rc not in (0, 1) or se.strip():
        err("dwgrep %r fails (rc %d): %s" % (Q_LOC2, rc, se.strip()[:300]))
    rc, out, se = run([dwgrep, path, "-e", Q_LOC3])
    got = [re.match(r"^[^:]*:", l).group(0) if ":" in l else l for l in out.split("\n")[:-1]]
    if got != exp3 or rc != (0 if exp3 else 1) or se.strip():
        err("dwgrep location ranges differ (rc %d): got %d exp %d lines; first diff %s; %s" % (
            rc, len(got), len(exp3), first_diff(got, exp3), se.strip()[:300]))


def check_dwgrep(dwgrep, path, desc, err):
    pm = parent_map(desc)
    # units
    rc, out, se = run([dwgrep, path, "-e", Q_UNIT])
    exp = ["U %d %d %d" % (u["offset"], u["version"], u["root"]["offset"]) for u in desc["units"]]
    if out.split("\n")[:-1] != exp or rc != 0:
        err("dwgrep unit listing differs (rc %d): %r vs %r; %s" % (rc, out, exp, se.strip()))
    # entries
    exp = []
    for u in desc["units"]:
        for d in preorder(u["root"]):
            p = pm[d["offset"]]
            exp.append("E %d %d %d %s %d %d %s %s %s" % (
                d["offset"], d["tag"], 1 if d["has_children"] else 0,
                lst([] if p is None else [p]), u["root"]["offset"], d["abbrev_code"],
                lst(a["name"] for a in d["attrs"]), lst(a["form"] for a in d["attrs"]),
                lst(c["offset"] for c in d["children"])))
    rc, out, se = run([dwgrep, path, "-e", Q_ENTRY])
    got = out.split("\n")[:-1]
    if got != exp or rc != 0:
        msg = "dwgrep entry listing differs (rc %d, %d vs %d lines); %s" % (
            rc, len(got), len(exp), se.strip()[:300])
        for g, e in zip(got, exp):
            if g != e:
                msg += "\n      got %s\n      exp %s" % (g, e)
                break
        err(msg)
    # reference targets
    exp = []
    exps = []
    for u in desc["units"]:
        for d in preorder(u["root"]):
            for a in d["attrs"]:
                if a["form"] in REFS:
                    exp.append("R %d %d %d" % (d["offset"], a["name"], a["value"]["ref"]))
                if a["form"] in (F["string"], F["strp"]):
                    exps.append("S %d %d %s" % (d["offset"], a["name"], a["value"]["str"]))
    rc, out, se = run([dwgrep, path, "-e", Q_REF])
    got = out.split("\n")[:-1]
    if got != exp or rc != (0 if exp else 1):       # grep-like: status 1 = no output
        err("dwgrep reference targets differ (rc %d): got %d exp %d lines; first diff %s; %s" % (
            rc, len(got), len(exp), first_diff(got, exp), se.strip()[:300]))
    rc, out, se = run([dwgrep, path, "-e", Q_STR])
    got = out.split("\n")[:-1]
    if got != exps or rc != (0 if exps else 1):
        err("dwgrep strings differ (rc %d): got %d exp %d lines; first diff %s; %s" % (
            rc, len(got), len(exps), first_diff(got, exps), se.strip()[:300]))
    # addresses come out as stored (no relocation, no bias)
    expa = ["N %d %d %d" % (d["offset"], a["name"], a["value"])
            for u in desc["units"] for d in preorder(u["root"]) for a in d["attrs"]
            if a["form"] == F["addr"]]
    rc, out, se = run([dwgrep, path, "-e", Q_ADDR])
    got = out.split("\n")[:-1]
    if got != expa or rc != (0 if expa else 1):
        err("dwgrep addresses differ (rc %d): first diff %s; %s" % (
            rc, first_diff(got, expa), se.strip()[:300]))
    # abbreviation tables, as seen from each unit
    exp = []
    for u in desc["units"]:
        t = desc["abbrevs"][u["abbrev_table"]]
        exp.append("A %d %d %s %s %s %s" % (
            u["offset"], t["table_offset"], lst(e["offset"] for e in t["entries"]),
            lst(e["code"] for e in t["entries"]), lst(e["tag"] for e in t["entries"]),
            lst(1 if e["children"] else 0 for e in t["entries"])))
    rc, out, se = run([dwgrep, path, "-e", Q_ABBREV])
    got = out.split("\n")[:-1]
    if got != exp or rc != 0:
        err("dwgrep abbreviation listing differs (rc %d): first diff %s; %s" % (
            rc, first_diff(got, exp), se.strip()[:300]))
    check_dwgrep_locations(dwgrep, path, desc, err)


def first_diff(got, exp):
    for g, e in zip(got, exp):
        if g != e:
            return "got %r exp %r" % (g, e)
    if len(got) != len(exp):
        longer = got if len(got) > len(exp) else exp
        return "%s has extra %r" % ("got" if longer is got else "exp", longer[min(len(got), len(exp))])
    return "none"


# ---------------------------------------------------------------------------
# llvm-dwarfdump

RE_UNIT = re.compile(r"^0x([0-9a-f]+): Compile Unit: length = 0x([0-9a-f]+), format = DWARF32, "
                     r"version = 0x([0-9a-f]+), (?:unit_type = (\w+), )?abbr_offset = 0x([0-9a-f]+), "
                     r"addr_size = 0x([0-9a-f]+) \(next unit at 0x([0-9a-f]+)\)")
RE_DIE = re.compile(r"^0x([0-9a-f]+):\s+(DW_TAG_\w+|NULL)(?: \[(\d+)\])?( \*)?")
RE_ATTR = re.compile(r"^\s+(DW_AT_\w+) \[(DW_FORM_\w+)\]\t\((.*)\)$")
# a location list: "(0x00000000: " and then one line "[0x..., 0x...): expression" per entry
RE_ATTR_LIST = re.compile(r"^\s+(DW_AT_\w+) \[(DW_FORM_\w+)\]\t\((0x[0-9a-f]{8}): $")
RE_LIST_ENTRY = re.compile(r"^\s+\[0x([0-9a-f]+), +0x([0-9a-f]+)\): ")


def parse_llvm(text):
    units, dies, nulls = [], [], []
    cur = None
    inlist = None
    for line in text.split("\n"):
        if inlist is not None:
            m = RE_LIST_ENTRY.match(line)
            if m:
                inlist.append((int(m.group(1), 16), int(m.group(2), 16)))
                continue
            inlist = None
        m = RE_ATTR_LIST.match(line)
        if m and cur is not None:
            inlist = []
            cur["attrs"].append((m.group(1), m.group(2), (int(m.group(3), 16), inlist)))
            continue
        m = RE_UNIT.match(line)
        if m:
            units.append({"offset": int(m.group(1), 16), "length": int(m.group(2), 16),
                          "version": int(m.group(3), 16), "unit_type": m.group(4),
                          "abbrev_offset": int(m.group(5), 16),
                          "address_size": int(m.group(6), 16), "end": int(m.group(7), 16)})
            continue
        m = RE_DIE.match(line)
        if m:
            if m.group(2) == "NULL":
                nulls.append(int(m.group(1), 16))
                cur = None
            else:
                cur = {"offset": int(m.group(1), 16), "tag": m.group(2),
                       "code": int(m.group(3)), "children": bool(m.group(4)), "attrs": []}
                dies.append(cur)
            continue
        m = RE_ATTR.match(line)
        if m and cur is not None:
            cur["attrs"].append((m.group(1), m.group(2), m.group(3)))
    return units, dies, nulls


def llvm_value_ok(a, text, unit):
    """Compare the printed value `text` of attribute a with the description where the
    print-out is unambiguous; returns None when OK / not checked, else a message."""
    f, v = a["form"], a["value"]
    if isinstance(v, dict) and "loclist" in v:
        want = (v["loclist"], [(e["start"], e["end"]) for e in v["entries"]])
        return None if text == want else "location list %r vs %r" % (text, want)
    if isinstance(text, tuple):
        return "printed as a location list: %r" % (text,)
    if f == F["string"]:
        want = '"%s"' % v["str"]
        return None if text == want else "string %r" % text
    if f == F["strp"]:
        want = ' .debug_str[0x%08x] = "%s"' % (v["strp"], v["str"])
        return None if text == want else "strp %r vs %r" % (text, want)
    if f in (F["ref4"], F["ref_udata"]):
        m = re.match(r"cu \+ 0x([0-9a-f]+) => \{0x([0-9a-f]+)\}", text)
        if not m:
            return "ref %r" % text
        if int(m.group(1), 16) != v["ref"] - unit["offset"] or int(m.group(2), 16) != v["ref"]:
            return "ref %r vs %#x" % (text, v["ref"])
        return None
    if f == F["ref_addr"]:
        m = re.match(r"0x([0-9a-f]+)", text)
        if not m or int(m.group(1), 16) != v["ref"]:
            return "ref_addr %r vs %#x" % (text, v["ref"])
        return None
    if f == F["flag_present"]:
        return None if text == "true" else "flag_present %r" % text
    if f == F["addr"]:
        return None if text == "0x%016x" % v else "addr %r vs %#x" % (text, v)
    if f == F["flag"]:
        return None if text == "0x%02x" % v else "flag %r vs %d" % (text, v)
    num = None
    if f in (F["data1"], F["data2"], F["data4"], F["data8"]):
        num = (v["raw"], v["signed"])
    elif f == F["sdata"]:
        num = (v["signed"], v["signed"])
    elif f == F["udata"]:
        num = (v, v)
    elif f == F["implicit_const"]:
        num = (v["implicit"], v["implicit"])
    if num is not None:
        m = re.match(r"^(-?)(0x[0-9a-f]+|\d+)$", text)
        if not m:
            return None         # symbolic (DW_LANG_C99, DW_ATE_signed, ...): not checked
        got = int(m.group(2), 0) * (-1 if m.group(1) else 1)
        if got not in num and (got & FO.M64) not in [x & FO.M64 for x in num]:
            return "number %r vs %r" % (text, num)
        return None
    if f in (F["block1"], F["exprloc"]):
        m = re.match(r"^<0x([0-9a-f]+)> ((?:[0-9a-f]{2} )*)$", text)
        if m:                   # raw block dump
            if [int(x, 16) for x in m.group(2).split()] != v["block"]:
                return "block %r" % text
        return None             # decoded expressions: not checked
    return None


def check_llvm(path, desc, err):
    rc, out, se = run(["llvm-dwarfdump-14", "--debug-info", "-v", path])
    if rc != 0 or "error" in se.lower() or "warning" in se.lower():
        err("llvm-dwarfdump complains (rc %d): %s" % (rc, se.strip()[:300]))
    units, dies, nulls = parse_llvm(out)
    exp_units = [{"offset": u["offset"], "length": u["length"], "version": u["version"],
                  "unit_type": (None if u["version"] < 5 else "DW_UT_" + u["unit_type"]),
                  "abbrev_offset": u["abbrev_offset"], "address_size": 8, "end": u["end"]}
                 for u in desc["units"]]
    if units != exp_units:
        err("llvm-dwarfdump unit headers differ: %r vs %r" % (units, exp_units))
    by_off = dict((d["offset"], d) for d in dies)
    n = 0
    exp_nulls = []
    for u in desc["units"]:
        for d in preorder(u["root"]):
            n += 1
            g = by_off.get(d["offset"])
            if g is None:
                err("llvm-dwarfdump shows no DIE at %#x" % d["offset"])
                continue
            tagname = "DW_TAG_" + DW_TAG.name(d["tag"])
            if (g["tag"], g["code"], g["children"]) != (tagname, d["abbrev_code"],
                                                        d["has_children"]):
                err("llvm-dwarfdump DIE %#x: %r vs tag %s code %d children %s" % (
                    d["offset"], g, tagname, d["abbrev_code"], d["has_children"]))
            ga = [(x[0], x[1]) for x in g["attrs"]]
            ea = [("DW_AT_" + DW_AT.name(a["name"]), "DW_FORM_" + DW_FORM.name(a["form"]))
                  for a in d["attrs"]]
            if ga != ea:
                err("llvm-dwarfdump DIE %#x attributes: %r vs %r" % (d["offset"], ga, ea))
                continue
            for a, x in zip(d["attrs"], g["attrs"]):
                msg = llvm_value_ok(a, x[2], u)
                if msg:
                    err("llvm-dwarfdump DIE %#x %s: %s" % (d["offset"], x[0], msg))
    if n != len(dies):
        err("llvm-dwarfdump shows %d DIEs, description has %d" % (len(dies), n))
    exp_nulls = expected_nulls(desc)
    if sorted(nulls) != exp_nulls:
        err("llvm-dwarfdump NULL entries at %r, expected %r" % (sorted(nulls), exp_nulls))


def expected_nulls(desc):
    """Offsets of the null entries: after the subtree of every DIE whose abbreviation has the
    children flag.  Needs the end of each subtree = start of whatever follows it."""
    out = []
    for u in desc["units"]:
        def walk(d, follow):
            # follow: offset of the first byte after this DIE's whole subtree incl. its null
            kids = d["children"]
            if d["has_children"]:
                null_at = follow - 1
                out.append(null_at)
                for i, c in enumerate(kids):
                    walk(c, kids[i + 1]["offset"] if i + 1 < len(kids) else null_at)
            else:
                assert not kids
        walk(u["root"], u["end"])
    return sorted(out)


def check_readelf(path, err):
    rc, out, se = run(["readelf", "--debug-dump=info", path])
    # binutils 2.40 follows DW_AT_type across units decoding the *target* unit's ref_addr with
    # the referring unit's version (8 bytes if that one is DWARF 2); its problem, not ours
    if "Unable to resolve ref_addr form" in se:
        # ... and having gone astray like that it may run off the section
        se = "\n".join(l for l in se.split("\n")
                       if "end of data encountered whilst reading LEB" not in l)
    se = "\n".join(l for l in se.split("\n") if "Unable to resolve ref_addr form" not in l)
    if rc != 0 or se.strip():
        err("readelf complains (rc %d): %s" % (rc, se.strip()[:300]))


def described_loclists(desc):
    return sorted((a["value"]["loclist"], [(e["start"], e["end"]) for e in a["value"]["entries"]])
                  for u in desc["units"] for d in preorder(u["root"]) for a in d["attrs"]
                  if isinstance(a["value"], dict) and "loclist" in a["value"])


def check_readelf_loc(path, desc, err):
    """readelf --debug-dump=loc: list offsets, entry offsets in step, absolute ranges."""
    exp = described_loclists(desc)
    rc, out, se = run(["readelf", "--debug-dump=loc", path])
    if rc != 0 or se.strip():
        err("readelf --debug-dump=loc complains (rc %d): %s" % (rc, se.strip()[:300]))
    got, cur = [], None
    for line in out.split("\n"):
        m = re.match(r"^    ([0-9a-f]{8}) ([0-9a-f]{16}) ([0-9a-f]{16}) \((.*)$", line)
        if m:
            off, b, e = int(m.group(1), 16), int(m.group(2), 16), int(m.group(3), 16)
            if m.group(4).startswith("base address)"):
                if cur is None:
                    cur = [off, []]
                    got.append(cur)
                continue
            if cur is None:
                err("readelf: location list entry outside a list: %s" % line[:80])
                continue
            cur[1].append((b, e))
            continue
        if re.match(r"^    [0-9a-f]{8} <End of list>", line):
            cur = None
    got = sorted((o, es) for o, es in got)
    if got != exp:
        err("readelf location lists differ: first diff %s" % first_diff(got, exp))


def check_llvm_loc(path, desc, err):
    """llvm-dwarfdump --debug-loc: list offsets and absolute ranges."""
    exp = described_loclists(desc)
    rc, out, se = run(["llvm-dwarfdump-14", "--debug-loc", path])
    if rc != 0 or "error" in se.lower() or "warning" in se.lower():
        err("llvm-dwarfdump --debug-loc complains (rc %d): %s" % (rc, se.strip()[:300]))
    got = []
    for line in out.split("\n"):
        m = re.match(r"^0x([0-9a-f]{8}): $", line)
        if m:
            got.append((int(m.group(1), 16), []))
            continue
        m = RE_LIST_ENTRY.match(line)
        if m and got:
            got[-1][1].append((int(m.group(1), 16), int(m.group(2), 16)))
    if sorted(got) != exp:
        err("llvm-dwarfdump location lists differ: first diff %s" % first_diff(sorted(got), exp))


def check_as(fo, path, err):
    """Assemble the .s rendering and compare its debug sections with ours."""
    if not (shutil.which("as") and shutil.which("objcopy")):
        return False
    fo.write_object(path, method="as")
    for name, data in fo.sections().items():
        dump = path + ".sec"
        rc, out, se = run(["objcopy", "--dump-section", "%s=%s" % (name, dump), path,
                           path + ".copy"])
        if os.path.exists(path + ".copy"):
            os.unlink(path + ".copy")
        got = open(dump, "rb").read() if os.path.exists(dump) else None
        if os.path.exists(dump):
            os.unlink(dump)
        if got != data and not (got in (None, b"") and data == b""):
            err("`as` object: section %s differs from the laid-out bytes" % name)
    return True


# ---------------------------------------------------------------------------
# coverage bookkeeping


def features(desc, edges, longest):
    fs = set()
    idx = die_index(desc)
    uof = FO.unit_of(desc)
    units = desc["units"]
    for u in units:
        fs.add("v%d" % u["version"])
        fs.add("unit:" + u["unit_type"])
        if u["version"] >= 5 and u["unit_type"] == "partial":
            fs.add("v5 partial unit header")
        if not u["root"]["children"]:
            fs.add("empty root")
            if not u["root"]["attrs"]:
                fs.add("root without attributes")
        if depth_of(u["root"]) >= 4:
            fs.add("depth 4")
        if max(len(d["children"]) for d in preorder(u["root"])) >= 8:
            fs.add("8+ siblings")
    for t in desc["abbrevs"]:
        if len(t["units"]) > 1:
            fs.add("shared abbrev table")
        if any(e["code"] > 127 for e in t["entries"]):
            fs.add("2-byte abbrev code")
        if [e["code"] for e in t["entries"]] != list(range(1, len(t["entries"]) + 1)):
            fs.add("non-sequential abbrev codes")
    if len(desc["abbrevs"]) > 1:
        fs.add("several abbrev tables")
    for d in idx.values():
        fs.add("tag:" + DW_TAG.name(d["tag"]))
        if d["has_children"] and not d["children"]:
            fs.add("lone null")
        for a in d["attrs"]:
            an, fn = DW_AT.name(a["name"]), DW_FORM.name(a["form"])
            fs.add("form:" + fn)
            fs.add("at:" + an)
            if an in ("name", "decl_line", "const_value", "high_pc", "type", "language",
                      "external", "location", "specification", "abstract_origin", "import",
                      "sibling", "declaration", "byte_size"):
                fs.add("%s/%s" % (an, fn))
            if an == "const_value" and isinstance(a["value"], dict) and "signed" in a["value"]:
                v = a["value"]
                if v["signed"] < 0:
                    fs.add("const_value sign bit set (%s)" % fn)
                if v["raw"] == 0:
                    fs.add("const_value 0")
            if an == "type" and uof[a["value"]["ref"]] != uof[d["offset"]]:
                fs.add("cross-unit type")
            if a["form"] in REFS and a["value"]["ref"] > d["offset"]:
                fs.add("forward %s" % fn)
            if a["form"] in REFS and a["value"]["ref"] < d["offset"]:
                fs.add("backward %s" % fn)
            if a["form"] == F["ref_addr"] and units[uof[d["offset"]]]["version"] == 2:
                fs.add("8-byte ref_addr (v2)")
            if is_location(a):
                ver = units[uof[d["offset"]]]["version"]
                v = a["value"]
                if "loclist" in v:
                    fs.add("loclist v%d" % ver)
                    fs.add("loclist/" + fn)
                    fs.add("loclist of %d" % len(v["entries"]))
                    rs = [(e["start"], e["end"]) for e in v["entries"]]
                    if rs != sorted(rs):
                        fs.add("loclist unsorted")
                    if any(x[1] == y[0] for x in rs for y in rs):
                        fs.add("loclist adjacent ranges")
                    if any(e["end"] == FO.M64 for e in v["entries"]):
                        fs.add("loclist end 2^64-1")
                    if any(not e["ops2"] for e in v["entries"]):
                        fs.add("loclist empty expression")
                for e in location_exprs(v):
                    if not e["ops2"]:
                        fs.add("empty expression")
                    for o in all_ops2(e["ops2"]):
                        nm = FO.DW_OP.name(o["op"])
                        fs.add("op:" + re.sub(r"(?<=lit|reg)\d+$", "N", nm))
                        for x in o["operands"]:
                            k = list(x)[0]
                            fs.add("operand:" + k)
                            if k in ("u", "s", "addr") and x[k] in (
                                    0, 1, -1, 127, 128, -128, -129, 1 << 63, FO.M64,
                                    -(1 << 63), (1 << 63) - 1):
                                fs.add("operand %s %d" % (k, x[k]))
                        if o["op"] in (0xa0, 0xf2):
                            fs.add("implicit_pointer v%d" % ver)
                            fs.add("implicit_pointer %d-byte reference" % (8 if ver == 2 else 4))
                            if uof[o["operands"][0]["die"]] != uof[d["offset"]]:
                                fs.add("implicit_pointer to another unit")
                        if o["op"] in (0xa8, 0xf7, 0xa9, 0xf9) and o["operands"][0]["curel"] == 0:
                            fs.add("convert/reinterpret 0")
                        if any("curel" in x and x["curel"] > 127 for x in o["operands"]):
                            fs.add("2-byte CU-relative ULEB")
        tn = DW_TAG.name(d["tag"])
        if tn == "enumeration_type":
            fs.add("enum with type" if any(a["name"] == DW_AT["type"] for a in d["attrs"])
                   else "enum without type")
        names = [a["name"] for a in d["attrs"]]
        if DW_AT["specification"] in names and DW_AT["abstract_origin"] in names:
            fs.add("specification+abstract_origin on one DIE")
    # what do variables' types resolve to?
    for d in idx.values():
        if DW_TAG.name(d["tag"]) != "variable":
            continue
        t, hops = d, 0
        while True:
            nxt = [a["value"]["ref"] for a in t["attrs"] if a["name"] == DW_AT["type"]]
            if not nxt:
                break
            t = idx[nxt[0]]
            hops += 1
        if hops:
            tn = DW_TAG.name(t["tag"])
            enc = [a["value"]["raw"] for a in t["attrs"] if a["name"] == DW_AT["encoding"]]
            fs.add("variable type -> %s%s" % (
                tn, (" " + FO.DW_ATE.name(enc[0], "?")) if enc and tn == "base_type" else ""))
            if enc and tn == "base_type" and "char" in FO.DW_ATE.name(enc[0], "?"):
                fs.add("variable type -> char base type")
            if hops >= 3:
                fs.add("variable type chain 3+")
    # specification/abstract_origin chains: longest path from every chain head
    g = edges["chain"]
    targets = set(t for ts in g.values() for t in ts)
    for head in g:
        if head not in targets:
            fs.add("chain length %d" % longest_path(dict((k, v) for k, v in g.items()), head))
    if any(DW_TAG.name(d["tag"]) in ("subprogram", "variable") and d["offset"] not in g
           and d["offset"] not in targets for d in idx.values()):
        fs.add("chain length 0")
    for k in range((longest["import"] or 0) + 1):    # a nest of 3 contains nests of 2 and 1
        fs.add("import nesting %d" % k)
    imp_count = {}
    for d in idx.values():
        for a in d["attrs"]:
            if a["name"] == DW_AT["import"]:
                key = (uof[d["offset"]], uof[a["value"]["ref"]])
                imp_count[key] = imp_count.get(key, 0) + 1
                if idx_depth(desc, d["offset"]) > 1:
                    fs.add("imported_unit below root level")
    if any(c > 1 for c in imp_count.values()):
        fs.add("partial unit imported twice by one unit")
    for tgt in set(k[1] for k in imp_count):
        importers = [k[0] for k in imp_count if k[1] == tgt]
        if len([i for i in importers if units[i]["unit_type"] == "compile"]) >= 2:
            fs.add("partial unit shared by two CUs")
        if any(units[i]["unit_type"] == "partial" for i in importers):
            fs.add("partial unit imported by a partial unit")
    parts = [i for i, u in enumerate(units) if u["unit_type"] == "partial"]
    if any(p not in set(k[1] for k in imp_count) for p in parts):
        fs.add("partial unit nobody imports")
    return fs


def idx_depth(desc, off):
    pm = parent_map(desc)
    n = 0
    while pm[off] is not None:
        off = pm[off]
        n += 1
    return n


MUST_COVER = """v2 v3 v4 v5 unit:compile unit:partial shared%abbrev%table several%abbrev%tables
 empty%root lone%null depth%4 8+%siblings sibling/ref4
 tag:subprogram tag:variable tag:base_type tag:typedef tag:const_type tag:pointer_type
 tag:enumeration_type tag:enumerator tag:structure_type tag:member tag:namespace
 tag:lexical_block tag:imported_unit tag:formal_parameter tag:template_value_parameter
 name/string name/strp decl_line/data1 decl_line/data2 decl_line/udata at:byte_size at:encoding
 type/ref4 type/ref_addr type/ref_udata cross-unit%type
 const_value/data1 const_value/data2 const_value/data4 const_value/data8 const_value/sdata
 const_value/udata const_value%0 const_value%sign%bit%set%(data1)
 const_value%sign%bit%set%(data8) const_value%sign%bit%set%(sdata)
 at:low_pc high_pc/addr high_pc/data4 high_pc/udata external/flag external/flag_present
 language/data1 language/data2 at:declaration specification/ref4 abstract_origin/ref4
 chain%length%0 chain%length%1 chain%length%2 chain%length%3 chain%length%4
 location/exprloc location/block1 op:addr op:fbreg op:regN op:plus_uconst op:bregN
 op:call_frame_cfa op:stack_value op:bregx op:piece form:implicit_const
 import/ref_addr import%nesting%1 import%nesting%2 import%nesting%3
 partial%unit%imported%twice%by%one%unit partial%unit%shared%by%two%CUs
 partial%unit%imported%by%a%partial%unit enum%with%type enum%without%type
 variable%type%->%base_type%signed variable%type%->%base_type%unsigned
 variable%type%->%base_type%boolean variable%type%->%char%base%type
 variable%type%->%pointer_type
 variable%type%->%enumeration_type variable%type%chain%3+ 8-byte%ref_addr%(v2)
 v5%partial%unit%header""".split()
MUST_COVER = [m.replace("%", " ") for m in MUST_COVER]


# what the forests made with RICH options must show between them (checked from 30 of them on)
_RICH_OPS = """deref dup drop over swap rot abs and div minus mod mul neg not or plus shl shr shra
 xor eq ge gt le lt ne litN regN nop push_object_address form_tls_address call_frame_cfa
 stack_value GNU_push_tls_address const1u const2u const4u const8u constu pick plus_uconst regx
 piece deref_size xderef_size const1s const2s const4s const8s consts fbreg bregN bregx bit_piece
 addr implicit_value entry_value GNU_entry_value implicit_pointer GNU_implicit_pointer const_type
 GNU_const_type regval_type GNU_regval_type deref_type GNU_deref_type convert GNU_convert
 reinterpret GNU_reinterpret GNU_parameter_ref""".split()
MUST_COVER_RICH = ["op:" + o for o in _RICH_OPS] + [
    "operand:" + k for k in ("u", "s", "addr", "block", "expr", "die", "curel")] + [
    "operand u 0", "operand u 1", "operand u 127", "operand u 128",
    "operand u %d" % (1 << 63), "operand u %d" % FO.M64, "operand s 0", "operand s -1",
    "operand s 127", "operand s 128", "operand s -128", "operand s -129",
    "operand s %d" % -(1 << 63), "operand s %d" % ((1 << 63) - 1),
    "loclist v2", "loclist v3", "loclist v4", "loclist/data4", "loclist/sec_offset",
    "loclist of 1", "loclist of 2", "loclist of 3", "loclist of 4", "loclist unsorted",
    "loclist adjacent ranges", "implicit_pointer 8-byte reference",
    "implicit_pointer 4-byte reference", "implicit_pointer to another unit",
    "convert/reinterpret 0",
    "2-byte CU-relative ULEB", "location/exprloc", "location/block1"]


# ---------------------------------------------------------------------------

VARIANTS = [  # cycled through; most forests use the defaults
    {}, {}, {}, {}, {}, {},
    {"partial_units": False},
    {"refs": False},
    {"versions": (5,)}, {"versions": (2,)},
    {"min_units": 4, "max_units": 4},
    {"max_units": 1},
    {"cross_unit_chains": True},
    {"sibling": 1.0, "lone_null": 0.4},
    {"share_abbrev": 1.0, "odd_codes": 1.0},
    {"const_forms": ("sdata", "udata"), "v4_block_locations": True, "max_dies": 12, "max_depth": 2},
]
# every other round through VARIANTS (the first, third, ...) the non-default ones are generated
# with these on top
RICH = {"rich_ops": 0.6, "loclists": 0.5}


def options_of(i):
    opts = dict(VARIANTS[i % len(VARIANTS)])
    if opts and (i // len(VARIANTS)) % 2 == 0:
        opts.update(RICH)
    return opts


def check_one(seed, i, dwgrep, work, have_llvm, have_readelf):
    """Generate forest number i of `seed`, write it, run all checks.
    Returns (opts, errs, desc, n units, n DIEs, went through `as`, feature set or None)."""
    opts = options_of(i)
    rich = "rich_ops" in opts
    rng = random.Random("forest-selftest:%d:%d" % (seed, i))
    fo = FO.ForestGen(rng, **opts).generate()
    desc = fo.describe()
    errs = []
    err = errs.append
    path = os.path.join(work, "f%d.o" % i)
    via_as = False
    try:
        edges, longest = check_internal(fo, desc, err)
        if opts.get("partial_units") is False or opts.get("refs") is False:
            if any(u["unit_type"] == "partial" for u in desc["units"]) or \
                    any(d["tag"] == DW_TAG["imported_unit"] for d in die_index(desc).values()):
                err("partial units generated although switched off")
        if opts.get("refs") is False:
            if any(a["form"] in REFS for d in die_index(desc).values() for a in d["attrs"]):
                err("references generated although switched off")
        if i % 5 == 4 and check_as(fo, path, err):
            via_as = True
        else:
            fo.write_object(path)
        check_dwgrep(dwgrep, path, desc, err)
        if have_llvm:
            check_llvm(path, desc, err)
            check_llvm_loc(path, desc, err)
        if have_readelf:
            check_readelf(path, err)
            check_readelf_loc(path, desc, err)
        if i % 10 == 0:     # determinism: the same rng state gives the same forest
            rng2 = random.Random("forest-selftest:%d:%d" % (seed, i))
            if FO.ForestGen(rng2, **opts).generate().describe() != desc:
                err("generation is not a function of the rng")
        feats = features(desc, edges, longest) if not opts or rich else None
        if errs:
            keep = os.path.join(SCRATCH, "bad-%d-%d.o" % (seed, i))
            if os.path.exists(path):
                shutil.copy(path, keep)
            with open(keep[:-2] + ".json", "w") as f:
                json.dump(desc, f)
    finally:
        if os.path.exists(path):
            os.unlink(path)
    return opts, errs, len(desc["units"]), len(die_index(desc)), via_as, feats


def parse_args(argv):
    """[-v] [--seed N] [--count N] [seed] [count]  ->  (verbose, seed, count) or None (--help)."""
    verbose, seed, count, pos = False, None, None, []
    args = list(argv[1:])
    while args:
        a = args.pop(0)
        if a in ("-h", "--help"):
            return None
        if a == "-v":
            verbose = True
        elif a in ("--seed", "--count"):
            if not args:
                raise SystemExit("%s needs a number" % a)
            if a == "--seed":
                seed = int(args.pop(0))
            else:
                count = int(args.pop(0))
        elif a.startswith("--seed=") or a.startswith("--count="):
            k, v = a.split("=", 1)
            if k == "--seed":
                seed = int(v)
            else:
                count = int(v)
        else:
            pos.append(int(a))
    if seed is None:
        seed = pos.pop(0) if pos else 0
    if count is None:
        count = pos.pop(0) if pos else 50
    return verbose, seed, count


def main(argv):
    parsed = parse_args(argv)
    if parsed is None:
        print(__doc__)
        print("options: -v (list the features seen), --seed N (default 0), --count N (default 50);\n"
              "environment: DWGREP (the dwgrep binary), FOREST_SCRATCH, FOREST_JOBS")
        return 0
    verbose, seed, count = parsed
    dwgrep = find_dwgrep()
    if dwgrep is None:
        print("no dwgrep binary found (set DWGREP)")
        return 2
    have_llvm = shutil.which("llvm-dwarfdump-14") is not None
    have_readelf = shutil.which("readelf") is not None
    os.makedirs(SCRATCH, exist_ok=True)
    work = os.path.join(SCRATCH, "selftest-%d-%d" % (os.getpid(), seed))
    os.makedirs(work, exist_ok=True)
    bad = nerr = ndies = nunits = nas = nrich = 0
    cover = {}
    cover_rich = {}
    jobs = int(os.environ.get("FOREST_JOBS", min(8, os.cpu_count() or 1)))
    try:
        with concurrent.futures.ThreadPoolExecutor(jobs) as ex:
            futs = [ex.submit(check_one, seed, i, dwgrep, work, have_llvm, have_readelf)
                    for i in range(count)]
            for i, fu in enumerate(futs):
                opts, errs, nu, nd, via_as, feats = fu.result()
                nunits += nu
                ndies += nd
                nas += via_as
                if "rich_ops" in opts:
                    nrich += 1
                    for f in feats or ():
                        cover_rich[f] = cover_rich.get(f, 0) + 1
                else:
                    for f in feats or ():
                        cover[f] = cover.get(f, 0) + 1
                if errs:
                    bad += 1
                    nerr += len(errs)
                    print("forest %d:%d (opts %r) DISAGREES, kept as %s/bad-%d-%d.{o,json}"
                          % (seed, i, opts, SCRATCH, seed, i))
                    for e in errs[:8]:
                        print("   " + e[:1500])
    finally:
        shutil.rmtree(work, ignore_errors=True)
    ndefault = sum(1 for i in range(count) if not options_of(i))
    # rare features need a fair number of default-option forests to show up
    missing = [m for m in MUST_COVER if m not in cover] if ndefault >= 40 else []
    missing_rich = [m for m in MUST_COVER_RICH if m not in cover_rich] if nrich >= 30 else []
    print("forest selftest: seed %d, %d forests (%d units, %d DIEs; %d via `as`), dwgrep %s%s%s"
          % (seed, count, nunits, ndies, nas, dwgrep,
             "" if have_llvm else ", NO llvm-dwarfdump-14", "" if have_readelf else ", NO readelf"))
    if verbose:
        for k in sorted(cover):
            print("   %4d  %s" % (cover[k], k))
    print("   features seen in %d default-option forests: %d distinct; required ones missing: %s"
          % (ndefault, len(cover), ", ".join(missing) if missing else
             "none" if ndefault >= 40 else "(not checked, needs count >= 100)"))
    if verbose:
        for k in sorted(cover_rich):
            print("   %4d  rich: %s" % (cover_rich[k], k))
    print("   features seen in %d forests with %r: %d distinct; required ones missing: %s"
          % (nrich, RICH, len(cover_rich), ", ".join(missing_rich) if missing_rich else
             "none" if nrich >= 30 else "(not checked, needs count >= 100)"))
    print("   disagreeing forests: %d (%d messages)" % (bad, nerr))
    if bad or missing or missing_rich:
        print("FAIL")
        return 1
    print("OK")
    return 0


if __name__ == "__main__":
    sys.exit(main(sys.argv))
