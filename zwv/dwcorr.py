"""DWARF-level correspondence: generated forests (zwv/forest.py, ground truth by construction) read by the working tree's
library through harness/zwharness.cc, compared with the Lean forest model (ZwVerif.Model.Dwarf) and with the description."""
import os
import re
import tempfile
from . import common, zwcorr, forest

REF_FORMS = None


def encode_forest(desc):
    """tokens for the model driver's `F` command"""
    global REF_FORMS
    if REF_FORMS is None:
        F = forest.DW_FORM
        REF_FORMS = set(F[k] for k in ("ref1", "ref2", "ref4", "ref8", "ref_udata", "ref_addr") if k in F)
    toks = []

    def die(d):
        toks.extend(["D", str(d["offset"]), str(d["tag"]), "1" if d["has_children"] else "0", str(len(d["attrs"]))])
        for a in d["attrs"]:
            v = a["value"]
            ref = num = blk = st = "-"
            if isinstance(v, bool):
                num = "1" if v else "0"
            elif isinstance(v, int):
                num = str(v)
            elif isinstance(v, dict):
                if "ref" in v:
                    ref = str(v["ref"])
                elif "implicit" in v:
                    num = str(v["implicit"])
                elif "raw" in v:
                    num = str(v["signed"] if a["form"] == forest.DW_FORM["sdata"] else v["raw"])
                elif "block" in v:
                    blk = ".".join(str(b) for b in v["block"]) or "e"
                elif "str" in v:
                    st = zwcorr.hx(v["str"].encode("utf-8")) if v["str"] else "e"
            toks.extend([str(a["name"]), str(a["form"]), ref, num, blk, st])
        toks.append(str(len(d["children"])))
        for c in d["children"]:
            die(c)
    for u in desc["units"]:
        toks.extend(["U", str(u["offset"]), str(u["version"])])
        die(u["root"])
    return "F " + " ".join(toks)


NUM = re.compile(r"c\([^|()]*\|(-?\d+)\)@\d+")


def normalize(r):
    """harness R line -> nested list text of plain numbers: the last value on the stack"""
    i = r.find(" [")
    s = r[i + 1:] if i >= 0 else r
    s = NUM.sub(r"\1", s)
    s = re.sub(r"\]@\d+", "]", s)
    s = s.replace(" ", ",")
    return s


class Forests:
    def __init__(self, ctx, opts=None):
        self.ctx = ctx
        self.h = zwcorr.Harness(ctx, secs=20)
        self.h.finite = True
        self.dir = tempfile.mkdtemp(prefix="zwv-forest-", dir=os.path.join(common.VERIF, "build"))
        self.opts = opts or {}
        self.n = 0

    def corpus(self, prop):
        """past failures kept as a corpus (replay files under /verif/corpus/<ID>/): yields (description, path of the object written out)"""
        import base64
        import glob
        import json
        for f in sorted(glob.glob(os.path.join(common.VERIF, "corpus", prop, "*.json"))):
            rp = json.load(open(f))
            inp = rp.get("input", {})
            if not inp.get("object_b64") or not inp.get("forest"):
                continue
            path = os.path.join(self.dir, "corpus-%d.o" % self.n)
            self.n += 1
            open(path, "wb").write(base64.b64decode(inp["object_b64"]))
            yield inp["forest"], path

    def make(self, rng, **opts):
        o = dict(self.opts)
        o.update(opts)
        f = forest.ForestGen(rng, **o).generate()
        path = os.path.join(self.dir, "f%d.o" % self.n)
        self.n += 1
        f.write_object(path)
        return f.describe(), path

    def query(self, path, queries):
        lines = ["Q - %s %s" % (zwcorr.hx(q), zwcorr.hx(path)) for q in queries]
        recs, crashes = self.h.run_impl_robust(lines)
        return recs, crashes

    def model(self, desc, cmds):
        out = common.run_model([encode_forest(desc)] + cmds)
        recs = []
        cur = []
        for l in out:
            if l == ".":
                recs.append(cur); cur = []
            else:
                cur.append(l)
        return recs

    def inp(self, desc, path, query):
        """the replayable input of a violation: the description, the query and the object file itself"""
        import base64
        try:
            blob = base64.b64encode(open(path, "rb").read()).decode()
        except OSError:
            blob = None
        return {"forest": desc, "query": query, "object_b64": blob, "file": None if blob else path}

    def cleanup(self):
        import shutil
        shutil.rmtree(self.dir, ignore_errors=True)


def oracle_raw(desc):
    """ground truth straight from the description: one record per DIE in section order"""
    out = []
    for u in desc["units"]:
        def walk(d, par):
            out.append("[%d,%d,%s,%s,%s,%s]" % (
                d["offset"], d["tag"], "[%d]" % par if par is not None else "[]", "[1]" if d["has_children"] else "[]",
                "[" + ",".join(str(c["offset"]) for c in d["children"]) + "]",
                "[" + ",".join("[%d,%d]" % (a["name"], a["form"]) for a in d["attrs"]) + "]"))
            for c in d["children"]:
                walk(c, d["offset"])
        walk(u["root"], None)
    return out


RAW_QUERY = ("raw entry [offset value, label value, [parent offset value], [?haschildren 1], [child offset value], "
             "[attribute [label value, form value]]]")
COOKED_QUERY = ("entry [offset value, [parent offset value], [root offset value], [child offset value], "
                "[attribute [label value, form value]]]")


def run_replay(ctx):
    """--replay: write the stored object out, run the stored query on the working tree's library, show what comes"""
    import base64
    import json
    rp = json.load(open(ctx.replay))
    inp = rp.get("input", {})
    fs = Forests(ctx)
    try:
        path = inp.get("file")
        if inp.get("object_b64"):
            path = os.path.join(fs.dir, "replay.o")
            open(path, "wb").write(base64.b64decode(inp["object_b64"]))
        q = inp.get("query")
        print("replay: %s" % rp.get("what"))
        print("query: %s" % q)
        if path and q:
            recs, crashes = fs.query(path, [q])
            print("library now: err=%r crashes=%r results=%d" % (recs[0].err if recs else None, crashes, len(recs[0].res) if recs else 0))
            for r in (recs[0].res[:20] if recs else []):
                print("  " + normalize(r))
            print("expected: %r" % (rp.get("expected"),))
    finally:
        fs.cleanup()


def parse_vals(s):
    """canonical harness rendering (space-separated values) -> list of ('c', dom, int) | ('s', bytes) | ('q', [..]) |
    ('x', type, text) | ('a', [(start, len)..]) | ('f',)"""
    pos = [0]

    def skip_pos():
        if pos[0] < len(s) and s[pos[0]] == "@":
            pos[0] += 1
            while pos[0] < len(s) and s[pos[0]].isdigit():
                pos[0] += 1

    def one():
        c = s[pos[0]]
        if c == "[":
            pos[0] += 1
            items = []
            while s[pos[0]] != "]":
                if s[pos[0]] == " ":
                    pos[0] += 1
                    continue
                items.append(one())
            pos[0] += 1
            skip_pos()
            return ("q", items)
        j = s.index(")", pos[0])
        body = s[pos[0] + 2: j]
        kind = c
        pos[0] = j + 1
        skip_pos()
        if kind == "c":
            d, v = body.rsplit("|", 1)
            return ("c", d, int(v))
        if kind == "s":
            return ("s", zwcorr.unhx(body) if body and body != "e" else b"")
        if kind == "x":
            t, h = body.split("|", 1)
            return ("x", t, zwcorr.unhx(h).decode("utf-8", "replace") if h else "")
        if kind == "a":
            return ("a", [tuple(int(x) for x in r.split("+")) for r in body.split(",") if r])
        return ("f",)
    out = []
    while pos[0] < len(s):
        if s[pos[0]] == " ":
            pos[0] += 1
            continue
        out.append(one())
    return out


COMPILE_MATRIX = [("c1.c", "gcc", ["-gdwarf-2", "-O0"]), ("c1.c", "gcc", ["-gdwarf-3", "-O1"]), ("c1.c", "gcc", ["-gdwarf-4", "-O2"]),
                  ("c1.c", "gcc", ["-gdwarf-5", "-O0"]), ("c1.c", "gcc", ["-gdwarf-5", "-O2"]), ("c2.cc", "g++", ["-gdwarf-4", "-O0"]),
                  ("c2.cc", "g++", ["-gdwarf-5", "-O0"]), ("c2.cc", "g++", ["-gdwarf-5", "-O2"]), ("c3.c", "gcc", ["-gdwarf-3", "-O2"]),
                  ("c3.c", "gcc", ["-gdwarf-4", "-O2"]), ("c3.c", "gcc", ["-gdwarf-5", "-O2"]), ("c3.c", "gcc", ["-gdwarf-2", "-O2"])]


def compiler_objects(workdir, limit=None):
    """objects compiled now by the installed gcc / g++ from /verif/corpus/src at several DWARF versions and optimisation
    levels: [(path, label)]; empty when no compiler is there"""
    import shutil
    import subprocess
    out = []
    for k, (src, cc, flags) in enumerate(COMPILE_MATRIX[:limit]):
        if shutil.which(cc) is None:
            continue
        path = os.path.join(workdir, "cc%d.o" % k)
        r = subprocess.run([cc] + flags + ["-c", os.path.join(common.VERIF, "corpus", "src", src), "-o", path],
                           stdout=subprocess.PIPE, stderr=subprocess.PIPE, cwd=common.VERIF)
        if r.returncode == 0:
            out.append((path, "%s %s %s" % (cc, " ".join(flags), src)))
    return out


RE_LLVM_DIE = re.compile(r"^(0x[0-9a-f]+):\s+(DW_TAG_\w+|NULL)(?: \[(\d+)\] ([* ]))?(?:\s*\((0x[0-9a-f]+)\))?")
RE_LLVM_ATTR = re.compile(r"^\s+(DW_AT_\w+) \[(DW_FORM_\w+)\]")


def llvm_dies(path):
    """the DIE list of .debug_info as llvm-dwarfdump decodes it, in the shape of oracle_raw's records; None when the tool is
    missing or meets a name this DWARF header does not know"""
    import shutil
    import subprocess
    tool = shutil.which("llvm-dwarfdump-14") or shutil.which("llvm-dwarfdump")
    if tool is None:
        return None
    r = subprocess.run([tool, "--debug-info", "-v", path], stdout=subprocess.PIPE, stderr=subprocess.DEVNULL, text=True, errors="replace")
    dies = []
    cur = None
    try:
        for line in r.stdout.split("\n"):
            m = RE_LLVM_DIE.match(line)
            if m:
                if m.group(2) == "NULL":
                    cur = None
                    continue
                cur = {"offset": int(m.group(1), 16), "tag": forest.DW_TAG[m.group(2)], "has_children": m.group(4) == "*",
                       "parent": int(m.group(5), 16) if m.group(5) else None, "attrs": [], "children": []}
                dies.append(cur)
                continue
            m = RE_LLVM_ATTR.match(line)
            if m and cur is not None:
                cur["attrs"].append((forest.DW_AT[m.group(1)], forest.DW_FORM[m.group(2)]))
    except KeyError:
        return None
    byoff = dict((d["offset"], d) for d in dies)
    for d in dies:
        if d["parent"] is not None and d["parent"] in byoff:
            byoff[d["parent"]]["children"].append(d["offset"])
    return ["[%d,%d,%s,%s,[%s],[%s]]" % (d["offset"], d["tag"], "[%d]" % d["parent"] if d["parent"] is not None else "[]",
                                       "[1]" if d["has_children"] else "[]", ",".join(str(c) for c in d["children"]),
                                       ",".join("[%d,%d]" % a for a in d["attrs"])) for d in dies]


def copy_laws(what, producer, obs):
    """law queries saying that a copy of a value (read through a binding, made by `dup`, taken into a branch or a
    sub-expression) shows the same thing as the value itself; each query yields a result where the law FAILS"""
    o = "[" + ", ".join(obs) + "]"
    P = producer
    return [
        ("a %s read from a binding = the %s itself" % (what, what), "?([%s %s] != [%s (|V| V %s)])" % (P, o, P, o)),
        ("a copy of a copy of a %s = the copy" % what, "?([%s (|V| V %s)] != [%s (|V| V (|W| W W drop %s))])" % (P, o, P, o)),
        ("`dup` of a %s = the %s itself" % (what, what), "?([%s %s] != [%s dup swap drop %s])" % (P, o, P, o)),
        ("a %s seen from a branch and a sub-expression = the %s itself" % (what, what),
         "?([%s %s] != [%s (drop 0 ?(1 == 2), ?(%s) %s)])" % (P, o, P, " ".join("?(%s)" % x for x in obs[:1]), o)),
    ]
