"""DWARF-level correspondence: generated forests (zwv/forest.py, ground truth by construction) read by the working tree's
library through harness/zwharness.cc, compared with the Lean forest model (ZwVerif.Model.Dwarf) and with the description."""
import os
import re
import tempfile
from . import common, zwcorr, forest

REF_FORMS = None


def encode_forest(desc):
    """tokens for the model driver's `F` command"""
    global REF_FORMS
    if REF_FORMS is None:
        F = forest.DW_FORM
        REF_FORMS = set(F[k] for k in ("ref1", "ref2", "ref4", "ref8", "ref_udata", "ref_addr") if k in F)
    toks = []

    def die(d):
        toks.extend(["D", str(d["offset"]), str(d["tag"]), "1" if d["has_children"] else "0", str(len(d["attrs"]))])
        for a in d["attrs"]:
            v = a["value"]
            ref = str(v["ref"]) if isinstance(v, dict) and "ref" in v else "-"
            toks.extend([str(a["name"]), str(a["form"]), ref])
        toks.append(str(len(d["children"])))
        for c in d["children"]:
            die(c)
    for u in desc["units"]:
        toks.extend(["U", str(u["offset"]), str(u["version"])])
        die(u["root"])
    return "F " + " ".join(toks)


NUM = re.compile(r"c\([^|()]*\|(-?\d+)\)@\d+")


def normalize(r):
    """harness R line -> nested list text of plain numbers: the last value on the stack"""
    i = r.find(" [")
    s = r[i + 1:] if i >= 0 else r
    s = NUM.sub(r"\1", s)
    s = re.sub(r"\]@\d+", "]", s)
    s = s.replace(" ", ",")
    return s


class Forests:
    def __init__(self, ctx, opts=None):
        self.ctx = ctx
        self.h = zwcorr.Harness(ctx, secs=20)
        self.dir = tempfile.mkdtemp(prefix="zwv-forest-", dir=os.path.join(common.VERIF, "build"))
        self.opts = opts or {}
        self.n = 0

    def make(self, rng, **opts):
        o = dict(self.opts)
        o.update(opts)
        f = forest.ForestGen(rng, **o).generate()
        path = os.path.join(self.dir, "f%d.o" % self.n)
        self.n += 1
        f.write_object(path)
        return f.describe(), path

    def query(self, path, queries):
        lines = ["Q - %s %s" % (zwcorr.hx(q), zwcorr.hx(path)) for q in queries]
        recs, crashes = self.h.run_impl_robust(lines)
        return recs, crashes

    def model(self, desc, cmds):
        out = common.run_model([encode_forest(desc)] + cmds)
        recs = []
        cur = []
        for l in out:
            if l == ".":
                recs.append(cur); cur = []
            else:
                cur.append(l)
        return recs

    def cleanup(self):
        import shutil
        shutil.rmtree(self.dir, ignore_errors=True)


def oracle_raw(desc):
    """ground truth straight from the description: one record per DIE in section order"""
    out = []
    for u in desc["units"]:
        def walk(d, par):
            out.append("[%d,%d,%s,%s,%s,%s]" % (
                d["offset"], d["tag"], "[%d]" % par if par is not None else "[]", "[1]" if d["has_children"] else "[]",
                "[" + ",".join(str(c["offset"]) for c in d["children"]) + "]",
                "[" + ",".join("[%d,%d]" % (a["name"], a["form"]) for a in d["attrs"]) + "]"))
            for c in d["children"]:
                walk(c, d["offset"])
        walk(u["root"], None)
    return out


RAW_QUERY = ("raw entry [offset value, label value, [parent offset value], [?haschildren 1], [child offset value], "
             "[attribute [label value, form value]]]")
COOKED_QUERY = ("entry [offset value, [parent offset value], [root offset value], [child offset value], "
                "[attribute label value]]")
