"""C07 — attribute values decode to the right type, value, sign and constant domain."""
import os
from . import common, zwcorr, dwcorr, forest
from .c05 import walk
from . import c17

THEOREMS = ["ZwVerif.C07." + t for t in
            ["signExtend_roundtrip_1", "signExtend_roundtrip_2", "signExtend_roundtrip_4", "signExtend_roundtrip_8",
             "signExtend_spec_1", "signExtend_spec_2", "signExtend_spec_4", "signExtend_spec_8", "unsigned_roundtrip",
             "form_sdata", "form_udata", "form_data", "sdata_decodes_signed", "udata_decodes_unsigned", "flags_are_booleans",
             "addresses_are_address_constants", "strings_are_strings", "references_are_dies", "enumerated_table",
             "enumerated_attribute_domain", "signed_table", "signed_attribute_value", "const_value_rule", "const_value_signed_type", "const_value_unsigned_type",
             "const_value_boolean_type", "const_value_pointer_type", "type_walk_peels", "typedef_cv_are_peeled",
             "unknown_form_reported", "unknown_signedness_reported", "sig8_reported"]]

VALUE_QUERY = "raw entry (|D| D attribute (|A| [D offset value, A pos, [A value (|V| (V ?(type == T_LOCLIST_ELEM) [elem label value] || V))]]))"
ERRS = {"Signedness of attribute not handled": "Signedness of attribute", "Unhandled DWARF form": "Unhandled DWARF form",
        "Unhandled enumerator encoding": "Unhandled enumerator encoding"}


# the pairing the DWARF standard gives (the same table as ZwVerif.C07.enumeratedAttributes)
ENUMERATED = {0x13: "DW_LANG_", 0x20: "DW_INL_", 0x3e: "DW_ATE_", 0x32: "DW_ACCESS_", 0x17: "DW_VIS_", 0x4c: "DW_VIRTUALITY_",
              0x42: "DW_ID_", 0x36: "DW_CC_", 0x09: "DW_ORD_", 0x5e: "DW_DS_", 0x33: "DW_ADDR_", 0x65: "DW_END_", 0x8b: "DW_DEFAULTED_",
              0x3b: "line_number", 0x59: "line_number", 0x39: "column_number", 0x57: "column_number"}


# attributes dwgrep reads as signed whatever the width (strides and scales can be negative): the same number whether stored
# in a fixed-size form or as sdata (the same table as ZwVerif.C07.signedAttributes)
SIGNED_ATTRS = {0x51: "byte_stride", 0x2e: "bit_stride", 0x5b: "binary_scale", 0x5c: "decimal_scale"}


ENUM_RENDER_Q = ("entry attribute ?(label == (DW_AT_language, DW_AT_inline, DW_AT_encoding, DW_AT_accessibility, DW_AT_visibility, "
                 "DW_AT_virtuality, DW_AT_identifier_case, DW_AT_calling_convention, DW_AT_ordering, DW_AT_decimal_sign, "
                 "DW_AT_address_class, DW_AT_endianity, DW_AT_defaulted)) !(form == (DW_FORM_sdata, DW_FORM_udata)) [label value, value value, value \"%s\"]")


def _hdr_by_family():
    from . import c20
    out = {}
    for name, val in c20.header_constants().items():
        for fam in set(ENUMERATED.values()):
            if fam.startswith("DW_") and name.startswith(fam) and not name.endswith(("_lo_user", "_hi_user")):
                out.setdefault(fam, {}).setdefault(val, set()).add(name)
    return out


HDR_BY_FAMILY = _hdr_by_family()


def spec_expected(a):
    """what the property fixes outright, whatever the model says: form-determined values and enumerated attributes"""
    F = forest.DW_FORM
    f, v = a["form"], a["value"]
    if f == F["sdata"]:
        return [("c", "dec", v["signed"])]
    if f == F["udata"] and a["name"] not in ENUMERATED:
        return [("c", "dec", v)]
    if f in (F["flag"], F["flag_present"]):
        return [("c", "bool", 1 if v else 0)]
    if f == F["addr"]:
        return [("c", "Dwarf_Address", v)]
    if f in (F["string"], F["strp"]):
        return [("s", v["str"].encode("utf-8"))]
    if isinstance(v, dict) and "ref" in v:
        return [("die", v["ref"])]
    if a["name"] in ENUMERATED and isinstance(v, dict) and "raw" in v and f != F["sdata"]:
        return [("c", ENUMERATED[a["name"]], v["raw"])]
    if a["name"] in SIGNED_ATTRS and isinstance(v, dict) and "raw" in v:
        return [("c", "dec", v["signed"])]
    return None


def expected(kind, attr, byoff):
    """model kind + stored details -> (comparable value list | ('err', text)), diag"""
    diag = kind.endswith("!")
    k = kind.rstrip("!")
    v = attr["value"]
    if k == "s":
        return [("s", v["str"].encode("utf-8"))], diag
    if k.startswith("c|"):
        _, dom, val = k.split("|")
        return [("c", dom, int(val))], diag
    if k.startswith("d|"):
        return [("die", int(k[2:]))], diag
    if k == "loc":
        if isinstance(v, dict) and "ops" in v:
            return [("q", [("c", "dec", op[0]) for op in v["ops"]])], diag
        return [("loc", None)], diag
    if k.startswith("b|"):
        bs = [int(x) for x in k[2:].split(".") if x]
        return [("q", [("c", "hex", b) for b in bs])], diag
    if k.startswith("err|"):
        return ("err", ERRS.get(k[4:], k[4:])), diag
    if k == "libdw":
        return ("err", ""), diag
    if k == "sig8":
        return [("s", b"(form unhandled)")], diag
    return [("other", k)], diag


def observed(vals):
    out = []
    for v in vals:
        if v[0] == "x" and v[1] == "T_DIE":
            t = v[2]
            try:
                out.append(("die", int(t[1:t.index("]")], 16)))
            except ValueError:
                out.append(v)
        elif v[0] == "x" and v[1] == "T_LOCLIST_ELEM":
            out.append(("locelem", v[2]))
        else:
            out.append(v)
    return out


def classify(d, a, kind):
    f = forest.DW_FORM.name(a["form"]) or str(a["form"])
    n = forest.DW_AT.name(a["name"]) or str(a["name"])
    k = kind.rstrip("!").split("|")
    what = k[0] if k[0] != "c" else "c:" + k[1]
    if n in ("const_value",):
        return "%s/%s/%s/%s" % (n, f, forest.DW_TAG.name(d["tag"]), what)
    return "%s/%s" % (f, what)


def run(ctx):
    if ctx.replay:
        return dwcorr.run_replay(ctx)
    changed = ctx.prove("ZwVerif.Props.C07", THEOREMS)
    fs = dwcorr.Forests(ctx)
    rng = ctx.rng
    n = 40 if ctx.tier == "quick" else 1500
    attrs = 0
    ok = 0
    classes = {}
    boundary = 0
    enum_rendered = 0
    errors_expected = 0
    locstats = {}
    try:
        for k in range(n):
            opts = {"max_units": 3, "extras": 0.6, "refused": 0.02, "rich_ops": 0.4, "loclists": 0.3 if k % 2 else 0.0,
                    "dup_attrs": 0.1 if k % 4 == 2 else 0.0, "implicit_consts": 0.5, "const_blocks": 0.25}
            if k % 3 == 1:
                opts["const_forms"] = ("data1", "data2", "data4", "data8")
            opts["typed_enum_consts"] = 0.8      # constants of enumerations that have an underlying type
            if k % 2 == 1:
                opts["cv_variants"] = 0.6        # volatile / restrict / packed in the type chains of constants
            if k % 3 == 0:
                opts["more_locations"] = 0.4     # data_location, return_addr, static_link, use_location, vtable_elem_location, segment
            if k % 2 == 0:
                opts["mixed_enums"] = 0.7       # enumerations whose sign must be inferred from enumerator forms in any order
            desc, path = fs.make(rng, **opts)
            byoff = {}
            order = []
            for u in desc["units"]:
                for x in walk(u["root"]):
                    byoff[x["offset"]] = x
                    order.append(x)
            model = fs.model(desc, ["FVAL"])[0]
            want = {}
            for line in model:
                o, i, kind = line.split(" ", 2)
                want[(int(o), int(i))] = kind
            # enumerated attributes print as the name the DWARF header gives their number in their family (zero included)
            er, _ = fs.query(path, [ENUM_RENDER_Q])
            if er and not er[0].err:
                for r in er[0].res:
                    q = dwcorr.parse_vals(r[r.index("["):])[0][1]
                    lab, num, text = q[0][2], q[1][2], q[2][1].decode("latin-1")
                    fam = ENUMERATED.get(lab)
                    names = HDR_BY_FAMILY.get(fam, {}).get(num)
                    enum_rendered += 1
                    if names and text not in names:
                        ctx.violation("attribute %#x with stored value %d prints as %r; the header names it %s"
                                      % (lab, num, text, " / ".join(sorted(names))),
                                      {"stream": "C07-forest", "input": fs.inp(desc, path, ENUM_RENDER_Q), "got": text,
                                       "expected": sorted(names), "theorem": "ZwVerif.C07.enumerated_attribute_domain"})
            recs, crashes = fs.query(path, [VALUE_QUERY, c17.LOC_Q])
            if crashes:
                ctx.violation("the library crashed decoding attribute values: %r" % (crashes,),
                              {"stream": "C07-forest", "input": fs.inp(desc, path, VALUE_QUERY)})
                continue
            got = {}
            errs = {}
            ndiag = None
            if recs[0].err is None:
                for r in recs[0].res:
                    q = dwcorr.parse_vals(r[r.index("["):])[0][1]
                    got[(q[0][2], q[1][2])] = observed(q[2][1])
                ndiag = len([s for s in recs[0].soft if s.strip()])
            else:
                # some attribute is refused (an exception ends the query): ask DIE by DIE, then attribute by attribute
                qs = [VALUE_QUERY.replace("raw entry", "raw entry (offset == %d)" % d["offset"]) for d in order]
                rr, cr = fs.query(path, qs)
                for d, r in zip(order, rr):
                    if r.err is None:
                        for x in r.res:
                            q = dwcorr.parse_vals(x[x.index("["):])[0][1]
                            got[(q[0][2], q[1][2])] = observed(q[2][1])
                    else:
                        qa = ["raw entry (offset == %d) attribute (pos == %d) [value (|V| (V ?(type == T_LOCLIST_ELEM) [elem label value] || V))]" % (d["offset"], i) for i in range(len(d["attrs"]))]
                        ra, _ = fs.query(path, qa)
                        for i, x in enumerate(ra):
                            if x.err is None:
                                got[(d["offset"], i)] = observed([v for line in x.res for v in dwcorr.parse_vals(line)[-1][1]])
                            else:
                                errs[(d["offset"], i)] = x.err
            bad = False
            exp_diag = 0
            for d in order:
                for i, a in enumerate(d["attrs"]):
                    key = (d["offset"], i)
                    kind = want.get(key)
                    if kind is None:
                        continue
                    attrs += 1
                    c = classify(d, a, kind)
                    classes[c] = classes.get(c, 0) + 1
                    v = a["value"]
                    if isinstance(v, dict) and "raw" in v and v["raw"] in (0, 1, 2 ** (8 * v["size"] - 1), 2 ** (8 * v["size"] - 1) - 1,
                                                                             2 ** (8 * v["size"]) - 1):
                        boundary += 1
                    sp = spec_expected(a)
                    if sp is not None and got.get(key) != sp:
                        bad = True
                        ctx.violation("DIE %#x attribute #%d (%s, %s, stored %r): library yields %r, the stored value is %r"
                                      % (d["offset"], i, forest.DW_AT.name(a["name"]), forest.DW_FORM.name(a["form"]), v,
                                         got.get(key, errs.get(key)), sp),
                                      {"stream": "C07-spec", "input": fs.inp(desc, path, "raw entry (offset == %d) attribute (pos == %d) value" % key),
                                       "got": repr(got.get(key, errs.get(key))), "expected": repr(sp)})
                        continue
                    exp, diag = expected(kind, a, byoff)
                    exp_diag += 1 if diag else 0
                    if isinstance(exp, tuple) and exp[0] == "err":
                        errors_expected += 1
                        e = errs.get(key)
                        if e is None or exp[1] not in e:
                            bad = True
                            ctx.violation("DIE %#x attribute #%d (%s, %s): the decoder is expected to refuse (%s); library: %s"
                                          % (d["offset"], i, forest.DW_AT.name(a["name"]), forest.DW_FORM.name(a["form"]), kind,
                                             got.get(key, e)),
                                          {"stream": "C07-value", "input": fs.inp(desc, path, "raw entry (offset == %d) attribute (pos == %d) value" % key),
                                           "got": repr(got.get(key, e)), "expected": kind})
                        continue
                    g = got.get(key)
                    if g is None and key in errs:
                        g = ("err", errs[key])
                    if exp and exp[0][0] == "other":
                        continue
                    if exp and exp[0][0] == "loc" and exp[0][1] is None:
                        continue
                    if g != exp:
                        bad = True
                        ctx.violation("DIE %#x attribute #%d (%s, %s, stored %r): library yields %r, stored value decodes to %r (model: %s)"
                                      % (d["offset"], i, forest.DW_AT.name(a["name"]), forest.DW_FORM.name(a["form"]),
                                         v if not isinstance(v, dict) or "block" not in v else "block", g, exp, kind),
                                      {"stream": "C07-value", "input": fs.inp(desc, path, "raw entry (offset == %d) attribute (pos == %d) value" % key),
                                       "got": repr(g), "expected": repr(exp), "theorem": "ZwVerif.C07.const_value_signed_type"})
            if ndiag is not None and ndiag != exp_diag:
                bad = True
                ctx.violation("the library wrote %d diagnostic line(s), the model expects %d (%r)" % (ndiag, exp_diag, recs[0].soft[:3]),
                              {"stream": "C07-diag", "input": fs.inp(desc, path, VALUE_QUERY), "got": ndiag, "expected": exp_diag})
            # location attributes: one element per address range with the stored operations and operands (shared with C17)
            if len(recs) > 1 and recs[1].err is None and not c17.check_locations(ctx, fs, desc, path, recs[1].res, locstats, "C07-loc"):
                bad = True
            if not bad:
                ok += 1
    finally:
        fs.cleanup()
    if not ctx.replay:
        ctx.sample({"query": VALUE_QUERY, "model lines `<DIE offset> <attribute #> <decoded>`": model[:4]})
    ctx.cov["evaluations"] = attrs
    ctx.cov["distinct_nontrivial"] = len(classes)
    ctx.cov["forests"] = n
    ctx.cov["forests_fully_agreeing"] = ok
    ctx.cov["boundary_valued_integers"] = boundary
    ctx.cov["refusals_expected_and_seen"] = errors_expected
    ctx.cov["location_operations_compared"] = locstats.get("ops", 0)
    ctx.cov["location_lists"] = locstats.get("lists", 0)
    ctx.cov["classes"] = dict(sorted(classes.items(), key=lambda kv: -kv[1])[:80])
    ctx.cov["rule"] = ("every attribute of every DIE of generated forests: `value` through the library vs the value stored in the file "
                       "decoded by the Lean model (dispatch tables regenerated from atval.cc; signedness of const_value from the type "
                       "chain; strings byte for byte; references by target offset; blocks byte by byte; number of location operations); "
                       "refusals (errors) and the number of diagnostics compared too; evaluations = attributes compared; classes = "
                       "form/decoded-kind (for const_value also attribute/form/tag)")
    ctx.assumptions += ["libdw's readers (dwarf_formudata, dwarf_formsdata, dwarf_attr_integrate, dwarf_formref_die) are parameters of the "
                        "model; their assumed behaviour is validated by this very comparison on files with known content",
                        "forms the generator does not emit (data16, strx*, addrx*, ref_sig8, loclistx, rnglistx, ref_sup*) are covered by "
                        "the table theorems only"]
