"""Type-directed random generator of Zwerg programs over the core vocabulary (+ address sets).

Every choice comes from the random.Random passed in, so a seed replays exactly.  The abstract
stack is a list of type tags: c(onst) s(tr) q(seq) a(set) f(closure) ?(unknown).
"""

INTS = ["0", "1", "2", "3", "5", "7", "10", "-1", "-3", "0x10", "0xff", "010", "0b101", "255", "1000",
        "9223372036854775807", "18446744073709551615", "-9223372036854775808", "0x8000000000000000"]
SMALL = ["0", "1", "2", "3", "4", "5"]
STRS = ['""', '"a"', '"ab"', '"abc"', '"b"', '"foo"', '"a\\x00b"', '"\\xff"', '"a b"', 'r"a\\nb"', '"x\\ty"']
CMPW = ["?eq", "!eq", "?lt", "!lt", "?gt", "!gt", "?ne", "!ne", "?ge", "!ge", "?le", "!le"]
CMPI = ["==", "!=", "<", ">=", ">", "<="]
NAMES = ["A", "B", "C", "D", "E"]


class Gen:
    def __init__(self, rng, maxdepth=4, features=None):
        self.r = rng
        self.maxdepth = maxdepth
        self.feat = features or set()
        self.used = {}
        self.ntype = {}         # what kind of value a name was last bound to (a hint: shadowing may make it wrong)

    def note(self, k):
        self.used[k] = self.used.get(k, 0) + 1

    # ---- literals
    def lit(self, t=None):
        r = self.r
        t = t or r.choice("ccccssqa")
        if t == "c":
            return r.choice(INTS if r.random() < 0.4 else SMALL), "c"
        if t == "s":
            return r.choice(STRS), "s"
        if t == "q":
            n = r.randint(0, 3)
            if n == 0:
                return "[]", "q"
            et = r.choice("ccs")
            return "[" + ", ".join(self.lit(et)[0] for _ in range(n)) + "]", "q"
        if t == "a":
            a, b = r.choice(SMALL + ["8", "16"]), r.choice(SMALL + ["8", "16"])
            return "%s %s aset" % (a, b), "a"
        return "1", "c"

    def name_in(self, env):
        return self.r.choice(env) if env else None

    # ---- one step transforming the abstract stack
    def step(self, stk, env, depth):
        r = self.r
        top = stk[-1] if stk else None
        sec = stk[-2] if len(stk) > 1 else None
        opts = []
        opts += [("lit", 5)]
        if stk:
            opts += [("shuffle", 3), ("typepos", 1)]
        if top == "c":
            opts += [("cast", 2)]
        if top in ("c", "?") and sec in ("c", "?"):
            opts += [("arith", 5), ("cmpw", 3)]
        if top == sec and top in ("s", "q"):
            opts += [("concat", 4), ("listpred", 3), ("cmpw", 1)]
        elif top in ("s", "q", "?") and sec in ("s", "q", "?") and (top, sec) != ("?", "?") and "c" not in (top, sec) \
                and not (top != sec and "?" not in (top, sec)):
            opts += [("concat", 3), ("listpred", 1)]
        if top in ("s", "q", "a"):
            opts += [("length", 2), ("elem", 3), ("empty", 1)]
        if top == "a":
            opts += [("asetun", 2)]
        if top in ("a", "c") and sec == "a":
            opts += [("asetbin", 5)]
        if top == "c" and sec == "c":
            opts += [("mkaset", 2)]
        if top == "f":
            opts += [("apply", 4)]
        if env:
            opts += [("read", 4)]
        if depth < self.maxdepth:
            opts += [("alt", 4), ("or", 2), ("capture", 3), ("assert", 3), ("let", 3), ("if", 2),
                     ("closure", 2), ("qmark", 1), ("format", 2), ("block", 2), ("subx", 2), ("infix", 2),
                     ("binder", 1)]
        if r.random() < 0.03:
            opts += [("bad", 3)]
        kinds, ws = zip(*opts)
        k = r.choices(kinds, ws)[0]
        self.note(k)
        return getattr(self, "g_" + k)(list(stk), list(env), depth)

    def seq(self, stk, env, depth, n=None):
        """a CAT of n steps; returns (text, stk, env)"""
        n = n if n is not None else self.r.randint(1, 3)
        parts = []
        for _ in range(n):
            t, stk, env = self.step(stk, env, depth)
            parts.append(t)
        return " ".join(parts), stk, env

    def sub(self, stk, env, depth, n=None):
        """a sub-expression: bindings made inside do not escape"""
        t, s2, _ = self.seq(stk, env, depth + 1, n)
        return t, s2

    def push1(self, stk, env, depth):
        """an expression that (very likely) pushes exactly one value"""
        r = self.r
        c = r.random()
        if c < 0.45 or depth >= self.maxdepth:
            t, ty = self.lit()
            return t, ty
        if c < 0.6:
            n = r.randint(2, 3)
            ty = r.choice("cs")
            return "(" + ", ".join(self.lit(ty)[0] for _ in range(n)) + ")", ty
        if c < 0.7 and env:
            n = self.name_in(env)
            return n, self.ntype.get(n, "?")
        if c < 0.8:
            a, _ = self.lit("c")
            b, _ = self.lit("c")
            return "%s %s %s" % (a, b, r.choice(["add", "sub", "mul"])), "c"
        if c < 0.9:
            t, ty = self.push1(stk, env, depth + 1)
            return "[%s]" % t, "q"
        t, ty = self.lit("q")
        return t + " elem", "?"

    # ---- productions
    def g_lit(self, stk, env, depth):
        t, ty = self.lit()
        return t, stk + [ty], env

    def g_shuffle(self, stk, env, depth):
        w = self.r.choice(["dup", "drop", "swap", "over", "rot"])
        s = list(stk)
        if w == "dup" and s: s.append(s[-1])
        elif w == "drop" and s: s.pop()
        elif w == "swap" and len(s) > 1: s[-1], s[-2] = s[-2], s[-1]
        elif w == "over" and len(s) > 1: s.append(s[-2])
        elif w == "rot" and len(s) > 2: s[-3:] = [s[-2], s[-1], s[-3]]
        return w, s, env

    def g_typepos(self, stk, env, depth):
        return self.r.choice(["type", "pos"]), stk[:-1] + ["c"], env

    def g_cast(self, stk, env, depth):
        return self.r.choice(["hex", "oct", "bin", "dec", "value"]), stk, env

    def g_arith(self, stk, env, depth):
        return self.r.choice(["add", "add", "sub", "mul", "div", "mod"]), stk[:-2] + ["c"], env

    def g_cmpw(self, stk, env, depth):
        return self.r.choice(CMPW), stk, env

    def g_concat(self, stk, env, depth):
        return "add", stk[:-1], env

    def g_listpred(self, stk, env, depth):
        return self.r.choice(["?find", "!find", "?starts", "!starts", "?ends", "!ends"]), stk, env

    def g_length(self, stk, env, depth):
        return "length", stk[:-1] + ["c"], env

    def g_elem(self, stk, env, depth):
        t = stk[-1]
        return self.r.choice(["elem", "relem"]), stk[:-1] + [{"s": "s", "a": "c"}.get(t, "?")], env

    def g_empty(self, stk, env, depth):
        return self.r.choice(["?empty", "!empty"]), stk, env

    def g_asetun(self, stk, env, depth):
        w = self.r.choice(["low", "high", "range", "length"])
        return w, stk[:-1] + ["a" if w == "range" else "c"], env

    def g_asetbin(self, stk, env, depth):
        if stk[-1] == "a":
            w = self.r.choice(["add", "sub", "overlap", "?contains", "!contains", "?overlaps", "!overlaps"])
        else:
            w = self.r.choice(["add", "sub", "?contains", "!contains"])
        if w[0] in "?!":
            return w, stk, env
        return w, stk[:-2] + ["a"], env

    def g_mkaset(self, stk, env, depth):
        return "aset", stk[:-2] + ["a"], env

    def g_apply(self, stk, env, depth):
        return "apply", stk[:-1] + ["?"], env

    def g_read(self, stk, env, depth):
        n = self.name_in(env)
        return n, stk + [self.ntype.get(n, "?")], env

    def g_alt(self, stk, env, depth):
        n = self.r.randint(2, 3)
        if self.r.random() < 0.6:
            ty = self.r.choice("ccs")
            bs = [self.push1(stk, env, depth + 1)[0] if self.r.random() < 0.3 else self.lit(ty)[0] for _ in range(n)]
            return "(" + ", ".join(bs) + ")", stk + [ty], env
        bs = []
        out = stk
        for _ in range(n):
            if self.r.random() < 0.15:
                bs.append("")
            else:
                t, out = self.sub(stk, env, depth, self.r.randint(1, 2))
                bs.append(t)
        return "(" + ", ".join(bs) + ")", out, env

    def g_or(self, stk, env, depth):
        n = self.r.randint(2, 3)
        bs = []
        out = stk
        for i in range(n):
            t, out = self.sub(stk, env, depth, self.r.randint(1, 2))
            if self.r.random() < 0.4:
                t += " " + self.r.choice(["?(0 1 ?eq)", "1 2 ?eq", "?(drop)"])
            bs.append(t)
        return "(" + " || ".join(bs) + ")", out, env

    def g_capture(self, stk, env, depth):
        if self.r.random() < 0.5:
            t, ty = self.push1(stk, env, depth)
        else:
            t, _ = self.sub(stk, env, depth)
        if stk and self.r.random() < 0.15:
            # `[ … ]: the capture replaces the k values below it
            k = self.r.randint(1, min(2, len(stk)))
            self.note("backtick")
            return "`" * k + ("[" + t + "]" if self.r.random() < 0.7 else "[]"), stk[:-k] + ["q"], env
        return "[" + t + "]", stk + ["q"], env

    def g_assert(self, stk, env, depth):
        t, _ = self.sub(stk, env, depth, self.r.randint(1, 2))
        return self.r.choice(["?(", "!("]) + t + ")", stk, env

    def g_infix(self, stk, env, depth):
        a, _ = self.push1(stk, env, depth + 1)
        b, _ = self.push1(stk, env, depth + 1)
        return "(%s %s %s)" % (a, self.r.choice(CMPI), b), stk, env

    def g_let(self, stk, env, depth):
        fresh = [n for n in NAMES if n not in env]
        if not fresh:
            return self.g_lit(stk, env, depth)
        if self.r.random() < 0.8 or len(fresh) < 2:
            n = self.r.choice(fresh)
            t, ty = self.push1(stk, env, depth)
            self.ntype[n] = ty
            return "let %s := %s;" % (n, t), stk, env + [n]
        a, b = self.r.sample(fresh, 2)
        t1, ty1 = self.push1(stk, env, depth)
        t2, ty2 = self.push1(stk, env, depth)
        self.ntype[a], self.ntype[b] = ty1, ty2
        return "let %s %s := %s %s;" % (a, b, t1, t2), stk, env + [a, b]

    def g_subx(self, stk, env, depth):
        # let with a sub-expression that consults the stack
        fresh = [n for n in NAMES if n not in env]
        if not fresh or not stk:
            return self.g_lit(stk, env, depth)
        n = self.r.choice(fresh)
        t, s2 = self.sub(stk, env, depth, self.r.randint(1, 2))
        self.ntype[n] = s2[-1] if s2 else "?"
        return "let %s := %s;" % (n, t), stk, env + [n]

    def g_binder(self, stk, env, depth):
        if not stk:
            return self.g_lit(stk, env, depth)
        n = self.r.choice(NAMES)
        self.ntype[n] = stk[-1]
        body, s2 = self.sub(stk[:-1], [e for e in env if e != n] + [n], depth, self.r.randint(1, 2))
        form = self.r.choice(["(|%s| %s)", "[|%s| %s]", "?(|%s| %s)"])
        if form[0] == "(":
            return form % (n, body), s2, env
        if form[0] == "[":
            return form % (n, body), stk[:-1] + ["q"], env
        return form % (n, body), stk, env

    def g_if(self, stk, env, depth):
        c, _ = self.sub(stk, env, depth, 1)
        a, s1 = self.sub(stk, env, depth, self.r.randint(1, 2))
        b, s2 = self.sub(stk, env, depth, self.r.randint(1, 2))
        return "if (%s) then (%s) else (%s)" % (c, a, b), s1, env

    def g_closure(self, stk, env, depth):
        r = self.r
        op = r.choice(["*", "+"])
        k = r.random()
        if not stk or stk[-1] not in ("c", "?"):
            pre = r.choice(SMALL)
            stk = stk + ["c"]
        else:
            pre = ""
        n = r.choice(["3", "4", "5", "6"])
        if k < 0.3:
            body = "?(%s ?lt) 1 add" % n
        elif k < 0.5:
            body = "?(%s ?lt) (1 add, 2 add)" % n
        elif k < 0.65:
            body = "1 add %s mod" % n
        elif k < 0.75:
            body = "(?(%s ?lt) 1 add || ?(0 ?gt) 1 sub)" % n
        elif k < 0.85:
            body = "?(%s ?lt) let %s := 1; %s add" % (n, "Z", "Z")
        elif k < 0.93:
            body = "(?(%s ?lt) 1 add)%s" % (n, r.choice(["*", "+"]))
        else:
            body = "?(%s ?lt) 1 add (, 1 add)" % n
        form = "(%s)%s" % (body, op)
        if r.random() < 0.15:
            form += r.choice(["*", "+"])
        return (pre + " " + form).strip(), stk, env

    def g_qmark(self, stk, env, depth):
        t, s2 = self.sub(stk, env, depth, 1)
        return "(%s)?" % t, stk, env

    def g_format(self, stk, env, depth):
        r = self.r
        parts = []
        s = list(stk)
        for _ in range(r.randint(1, 4)):
            c = r.random()
            if c < 0.3:
                parts.append(r.choice(["a", "b ", "-", "x=", "%%", " is smaller than ", ": a tail of some length ",
                                       "".join(r.choice("abc xyz-") for _ in range(r.choice([3, 12, 15, 16, 17, 24, 31, 33])))]))
            elif c < 0.5 and s:
                parts.append(r.choice(["%s", "%s", "%d", "%x", "%o", "%b"]))
                s.pop()
            else:
                t, ty = self.push1(s, env, depth + 1)
                parts.append("%( " + t + " %)")
        return '"' + "".join(parts) + '"', s + ["s"], env

    def g_block(self, stk, env, depth):
        body, _ = self.sub(stk, env, depth, self.r.randint(1, 2))
        fresh = [n for n in NAMES if n not in env]
        if fresh and self.r.random() < 0.6:
            n = self.r.choice(fresh)
            self.ntype[n] = "?"
            return "let %s := {%s};" % (n, body), stk, env + [n]
        return "{%s}" % body, stk + ["f"], env

    def g_bad(self, stk, env, depth):
        return self.r.choice(["drop drop drop drop", "Q", "let A := 1; let A := 2;", "apply", "1 \"a\" add",
                              "\"a\" hex", "1 0 div", "(", ")", "0x", "1 T_CONST add"]), stk, env

    # ---- whole programs
    def program(self):
        r = self.r
        stk, env = [], []
        parts = []
        # a stream prefix: several inputs for what follows
        if r.random() < 0.6:
            n = r.randint(2, 3)
            ty = r.choice("ccs")
            parts.append("(" + ", ".join(self.lit(ty)[0] for _ in range(n)) + ")")
            stk = [ty]
            if r.random() < 0.3:
                parts.append("(" + ", ".join(self.lit("c")[0] for _ in range(r.randint(2, 3))) + ")")
                stk.append("c")
        t, stk, env = self.seq(stk, env, 0, r.randint(1, 4))
        parts.append(t)
        return " ".join(parts)
