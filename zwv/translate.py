"""Translators: /repo sources -> lean/ZwVerif/Generated/*.lean (re-run by every check)."""
import os
from . import common

GEN = os.path.join(common.LEAN, "ZwVerif", "Generated")


def generate_all():
    changed = []
    for fn in GENERATORS:
        changed += fn()
    return changed


GENERATORS = []
