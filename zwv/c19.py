"""C19 — the command line honours its grep-like contract."""
import itertools
import os
import subprocess
from . import common, zwcorr

THEOREMS = ["ZwVerif.C19." + t for t in
            ["compile_error_status", "iteration_quiet_out", "foldl_quiet_out", "quiet_stdout_empty", "iteration_flags",
             "status_of_flags", "count_line", "results_printed", "silent_no_driver_messages"]]

QUERIES = {      # kind, k, query text (results depend only on the incoming stack)
    "E": (0, ""),
    "P1": (1, "1"),
    "P3": (3, "(1, 2, 3)"),
    "N": (0, "!()"),
    "X0": (0, "drop drop drop drop drop drop drop drop"),
    "X2": (2, "(1, 2, drop drop drop drop drop drop drop drop)"),
    "C": (0, "(1, "),
    "C2": (0, "let A := 1; let A := 2;"),
}


def quote_brief(s):
    out = '"'
    for ch in s:
        o = ord(ch)
        if ch == '"': out += '\\"'
        elif ch == "\\": out += "\\\\"
        elif ch == "%": out += "%%"
        elif ch == "\n": out += "\\n"
        elif ch == "\t": out += "\\t"
        elif 32 <= o < 127: out += ch
        else: out += "\\x%02x" % o
    return out + '"'


def run(ctx):
    ctx.prove("ZwVerif.Props.C19", THEOREMS + ["ZwVerif.C19Order." + t for t in
              ["combos_row_major", "main_iterates_row_major", "go_spec", "numLE_inj", "allIdx_length", "bump_eq"]],
              extra_targets=["ZwVerif.Props.C19Order"])
    im = ctx.impl("plain")
    rng = ctx.rng
    tests = os.path.join(common.REPO, "tests")
    good = [os.path.join(tests, f) for f in ("a1.out", "twocus", "empty")]
    bad = ["/nonexistent/zwv-file", "/etc/passwd"]
    flagsets = ["", "c", "q", "s", "H", "h", "cq", "cH", "ch", "qs", "cs", "Hh", "cqs", "sH"]
    file_sets = [[], [good[0]], [good[0], good[1]], [bad[0]], [bad[0], good[0]], [good[0], bad[1], good[2]], [bad[0], bad[1]]]
    # argument positions: -a literal (one string value) and --a expression (0-3 values)
    arg_sets = [[], [("a", "x")], [("A", '("p", "q")')], [("A", "(1, 2, 3)")], [("a", "x y"), ("A", "(7, 8)")],
                [("A", "!()")], [("A", "(1, 2)"), ("A", '("s", "t")')], [("a", 'q"%')]]
    cases = list(itertools.product(flagsets, QUERIES, range(len(file_sets)), range(len(arg_sets))))
    n = 500 if ctx.tier == "quick" else 6000
    if len(cases) > n:
        cases = rng.sample(cases, n)
    model_lines = []
    runs = []
    for fl, qk, fi, ai in cases:
        k, q = QUERIES[qk]
        files = file_sets[fi]
        args = arg_sets[ai]
        argv = [im.dwgrep] + ["-" + c for c in fl]
        variant = rng.choice(["e", "positional", "f"]) if not fl.count("?") else "e"
        vals = []
        for kind, text in args:
            if kind == "a":
                argv += ["-a", text]
                vals.append([(text, quote_brief(text))])
            else:
                argv += ["--a", text]
                if text == "!()":
                    vals.append([])
                elif text.startswith('("'):
                    items = [t.strip().strip('"') for t in text.strip("()").split(",")]
                    vals.append([(t, quote_brief(t)) for t in items])
                else:
                    items = [t.strip() for t in text.strip("()").split(",")]
                    vals.append([(t, t) for t in items])
        stdin = None
        if variant == "e":
            argv += ["-e", q]
        elif variant == "f":
            argv += ["-f", "-"]
            stdin = q
        argv2 = argv + ([q] if variant == "positional" else []) + files
        if variant == "positional" and q == "":
            argv2 = argv + [q] + files
        r = subprocess.run(argv2, input=stdin, stdout=subprocess.PIPE, stderr=subprocess.PIPE, text=True, errors="replace",
                           timeout=60)
        fdesc = ",".join("%s:%d" % (zwcorr.hx(f), 1 if f in good else 0) for f in files) or "-"
        adesc = ";".join("/".join("%s=%s" % (zwcorr.hx(p), zwcorr.hx(h)) for p, h in vs) for vs in vals) if vals else "-"
        if any(len(vs) == 0 for vs in vals):
            adesc = ";".join("/".join("%s=%s" % (zwcorr.hx(p), zwcorr.hx(h)) for p, h in vs) or "" for vs in vals)
        kind = qk[0] if qk[0] in "EPNX" else "N"
        ce = 1 if qk.startswith("C") else 0
        model_lines.append("L %s %d %s %s %s %d" % (fl or "-", ce, fdesc, adesc, kind, k))
        runs.append((argv2, stdin, r))
    mout = common.run_model(model_lines)
    recs = []
    cur = []
    for l in mout:
        if l == ".":
            recs.append(cur); cur = []
        else:
            cur.append(l)
    ok = 0
    dist = {}
    for (argv2, stdin, r), m, ml in zip(runs, recs, model_lines):
        mstatus = int(m[0].split()[1]) if m and m[0].startswith("status") else -1
        mstdout = [x[2:] for x in m if x.startswith("O ")]
        mstderr = [x[2:] for x in m if x.startswith("E ")]
        istdout = r.stdout.split("\n")[:-1] if r.stdout.endswith("\n") else r.stdout.split("\n") if r.stdout else []
        idrv = [l for l in r.stderr.split("\n") if l.startswith("dwgrep: ")]
        dist["status %d" % r.returncode] = dist.get("status %d" % r.returncode, 0) + 1
        probs = []
        if r.returncode != mstatus:
            probs.append("exit status %d, contract says %d" % (r.returncode, mstatus))
        if istdout != mstdout:
            probs.append("stdout %r, contract says %r" % (istdout[:6], mstdout[:6]))
        if len(idrv) != len(mstderr):
            probs.append("%d driver diagnostics on stderr, contract says %d (%r)" % (len(idrv), len(mstderr), idrv[:3]))
        if r.returncode < 0 or r.returncode > 2:
            probs.append("crashed (status %d)" % r.returncode)
        if probs:
            ctx.violation("dwgrep %r%s: %s" % (argv2[1:], " <stdin %r" % stdin if stdin is not None else "", "; ".join(probs)),
                          {"stream": "C19-cli", "input": {"argv": argv2[1:], "stdin": stdin}, "got": {"status": r.returncode,
                           "stdout": istdout[:20], "stderr": r.stderr[-500:]}, "expected": m[:20], "model_line": ml,
                           "theorem": "ZwVerif.C19.status_of_flags / quiet_stdout_empty / count_line"})
        else:
            ok += 1
    # files that cannot be opened are skipped — and leave no trace in what the query sees: the same run without them prints the
    # same (queries that look at the input value: its position, its name)
    skip_ok = 0
    for q in ("pos", "?(pos == 0)", "[pos]", "dup pos", '"%s"', "(pos, name)", "?(pos == 1) name"):
        for files in ([bad[0], good[0]], [good[0], bad[1], good[1]], [bad[1], bad[0], good[1], good[0]], [good[1], bad[0]],
                      [bad[0], good[0], bad[1], good[1], good[2]]):
            for fl in (["-h"], ["-h", "-c"], ["-H"], ["-h", "-s"]):
                kept = [f for f in files if f in good]
                a = subprocess.run([im.dwgrep] + fl + ["-e", q] + files, stdout=subprocess.PIPE, stderr=subprocess.PIPE, text=True, errors="replace", timeout=60)
                b = subprocess.run([im.dwgrep] + fl + ["-e", q] + kept, stdout=subprocess.PIPE, stderr=subprocess.PIPE, text=True, errors="replace", timeout=60)
                if "-H" in fl and len(kept) == 1:
                    pass
                if a.stdout != b.stdout:
                    ctx.violation("dwgrep %r: files that cannot be opened are not simply skipped: stdout %r, without them %r"
                                  % (fl + ["-e", q] + files, a.stdout[:200], b.stdout[:200]),
                                  {"stream": "C19-skipped-files", "input": {"argv": fl + ["-e", q] + files, "stdin": None},
                                   "got": a.stdout[:500], "expected": b.stdout[:500], "theorem": "ZwVerif.C19.results_printed"})
                else:
                    skip_ok += 1
    ctx.cov["skipped_file_runs_ok"] = skip_ok
    ctx.cov["evaluations"] = len(runs)
    ctx.cov["distinct_nontrivial"] = len(set(model_lines))
    ctx.cov["agreeing"] = ok
    ctx.cov["input_distribution"] = dist
    ctx.cov["rule"] = ("invocations of the dwgrep binary built from the working tree: flag sets over {-c,-q,-s,-H,-h} × queries yielding "
                       "0/1/3 results, raising at once or after 2 results, failing to compile × 0-3 files (valid, nonexistent, "
                       "non-ELF) × 0-2 -a/--a arguments yielding 0-3 values, query given by -e, -f - or positionally; stdout (exact), "
                       "number of driver diagnostics on stderr and exit status compared with the Lean driver model fed the library's "
                       "behaviour for that query")
    for (argv2, stdin, r) in runs[:3]:
        ctx.sample({"argv": argv2[1:], "status": r.returncode, "stdout": r.stdout[:100]})
