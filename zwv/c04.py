"""C04 — assertions and sub-expression contexts never disturb the surrounding stack."""
import collections
from . import common, zwcorr, gen

THEOREMS = ["ZwVerif.C04." + t for t in
            ["semPred_noFrame", "assert_yields_input_or_nothing", "assert_yields_at_most_once",
             "pred_not_three_valued", "assertWord_yields_input_or_nothing", "assertWord_pos_xor_neg",
             "cmpWord_yields_input_or_nothing", "let_preserves_below", "capture_adds_one"]]

# the op_capture / op_subx / op_ifelse / op_assert machines compute the per-input rule, whatever the sub-expressions yield
SUBOP_THEOREMS = ["ZwVerif.SubOps." + t for t in
                  ["capture_refines", "capture_only_behaviour", "subx_refines", "subx_only_behaviour", "ifelse_refines",
                   "ifelse_only_behaviour", "assert_refines", "assert_only_behaviour", "assert_subx_any", "body_drain", "drain_det"]]

PREDW = ["?eq", "?lt", "?gt", "?ne", "?ge", "?le", "?empty", "?find", "?starts", "?ends", "?contains", "?overlaps"]


def run(ctx):
    ctx.prove("ZwVerif.Props.C04", THEOREMS + SUBOP_THEOREMS, extra_targets=["ZwVerif.Props.C04SubOps"])
    h = zwcorr.Harness(ctx)
    rng = ctx.rng
    n = 600 if ctx.tier == "quick" else 12000
    g = gen.Gen(rng, maxdepth=3)
    # --- (1) programs ending in every assertion form, through model and implementation
    progs = []
    triples = []       # (P, P ?(E), P !(E)) for the implementation-only metamorphic check
    wordform = set()   # indices of triples whose assertion is a single word: an error on an input loses exactly that input
    if ctx.replay:
        import json
        rp = json.load(open(ctx.replay))
        progs = [rp["input"]] if isinstance(rp.get("input"), str) else list(rp["input"])
        n = 0
    for _ in range(n):
        base = g.program()
        stk = ["?"] * 2
        e, _ = g.sub(stk, [], 1, rng.randint(1, 2))
        form = rng.random()
        if form < 0.4:
            pos, neg = "?(%s)" % e, "!(%s)" % e
        elif form < 0.7:
            w = rng.choice(PREDW)
            pos, neg = w, "!" + w[1:]
        else:
            # single-valued operands: with multi-valued ones `A op B` is existential and the
            # complement relation does not apply
            a, _ = g.lit(rng.choice("csq"))
            b, _ = g.lit(rng.choice("csq"))
            op = rng.choice(["==", "<", ">"])
            nop = {"==": "!=", "<": ">=", ">": "<="}[op]
            pos, neg = "(%s %s %s)" % (a, op, b), "(%s %s %s)" % (a, nop, b)
        triples.append((base, base + " " + pos, base + " " + neg))
        if 0.4 <= form < 0.7:
            wordform.add(len(triples) - 1)
        progs += [base + " " + pos, base + " " + neg]
        # let / capture leave everything below intact: compare the stack below before/after
        progs.append(base + " let Q := %s; " % e)
        progs.append(base + " [%s]" % e)
    # --- targeted: a value V on the surrounding stack and a sub-expression that works on it (concatenates to it,
    #     consumes it, replaces it): V must come out untouched
    VALS = ["[1]", "[[1]]", "[1, 2] [3]", '"ab"', "5", "0 4 aset", '["a", [2]]', "[] [1]"]
    WORK = ["[2] add", "dup [2] add", "elem [2] add", '"x" add', "1 add", "drop", "swap", "dup add", "[9] swap add",
            "elem", "length", "2 3 aset add", "(|A| A [7] add)", "[3] add [4] add", "dup elem [5] add"]
    if not ctx.replay:
        for v in VALS:
            for e in WORK:
                for form in ("%s ?(%s)", "%s !(%s)", "%s let Q := %s;", "%s [%s]", "%s (%s == 1)",
                             "%s if (%s) then (1) else (2)", '%s "%%( %s %%)"', "%s (%s || 0)"):
                    progs.append(form % (v, e))
    # every predicate word, bare on the main stack, on operands of the types it takes (equal, overlapping, nested, empty …),
    # above values of every type that carry a position: the whole stack must come out as it went in
    if not ctx.replay:
        INTS = ["1", "2", "0x1", "-1"]
        STRS = ['"ab"', '"a"', '"b"', '""', '"abab"']
        SEQS = ["[1, 2]", "[1]", "[]", "[2]", "[1, 2, 1, 2]", "[[1]]"]
        ASETS = ["0 4 aset", "2 8 aset", "4 8 aset", "0 0 aset", "0 4 aset 8 12 aset add", "0 16 aset"]
        JUNK = ["", "[{1}, {2}, {3}] elem", '"xyz" elem', "[[7], [8]] elem", "[0 4 aset, 2 8 aset] elem", "(5, 6) [{9}] relem"]
        typed = []
        for w in ("eq", "ne", "lt", "gt", "le", "ge"):
            for pool in (INTS, STRS[:3], SEQS[:4], ASETS[:3]):
                typed += [(a, b, w) for a in pool for b in pool]
        for w in ("find", "starts", "ends"):
            for pool in (STRS, SEQS):
                typed += [(a, b, w) for a in pool for b in pool]
        typed += [(a, b, w) for w in ("overlaps", "contains") for a in ASETS for b in ASETS]
        typed += [(a, b, "contains") for a in ASETS for b in ("0", "3", "4", "15", "16")]
        typed += [(a, "", "empty") for a in STRS + SEQS + ASETS]
        typed += [(a, b, "match") for a in STRS for b in ('"a"', '"^ab"', '"b$"', '"(ab)*"')]
        rng.shuffle(typed)
        for a, b, w in typed[:(400 if ctx.tier == "quick" else len(typed))]:
            j = rng.choice(JUNK)
            sign = rng.choice("?!")
            tail = rng.choice(["", "", " %s%s" % (rng.choice("?!"), w), " pos", " swap", " drop"])
            progs.append(("%s %s %s %s%s%s" % (j, a, b, sign, w, tail)).strip())
        # binders that take several values off a deep stack (the cached type profile is rebuilt while popping), then a word
        # that dispatches on the value that was below them
        for base_, word_ in (('"abc"', "length"), ("[1, 2]", "length"), ("[1] [2]", "add"), ('"a" "b"', "add"), ("0 4 aset", "length"),
                             ('"abc"', "?empty"), ("[]", "!empty"), ("3 [1]", "swap 1 add"), ('[1] "x"', "swap length"),
                             ("0 4 aset 2", "?contains"), ("[1, 2] [1]", "?starts")):
            for k in range(1, 7):
                names = " ".join("N%d" % i for i in range(k))
                vals = " ".join(rng.choice(INTS + STRS[:2] + SEQS[:2]) for _ in range(k))
                junk_ = " ".join(rng.choice(INTS) for _ in range(rng.randint(0, 3)))
                progs.append("%s %s let %s := %s; %s" % (junk_, base_, names, vals, word_))
                progs.append("%s %s %s (|%s| %s)" % (junk_, base_, vals, names, word_))
                progs.append("%s %s %s ?(|%s| ) %s" % (junk_, base_, vals, names, " ".join(["drop"] * k) + " " + word_))
        # … and the sub-expression contexts above positioned values of every type
        for j in JUNK[1:]:
            for form in ("%s let Q := %s;", "%s ?(%s)", "%s [%s]", "%s (%s == 1)", "%s if (%s) then (1) else (2)", '%s "%%( %s %%)"',
                         "%s (%s || 0)", "%s (%s, 2)", "%s (|A| %s A)"):
                for e in ("7", "dup", "drop 1", "pos", "type"):
                    progs.append((form % (j, e)) + rng.choice([" pos", "", " swap pos", " ?0", " !1"]))
    # regular-expression matching (regexec is a parameter of the model): on the implementation, valid and invalid patterns
    if not ctx.replay:
        for subj in ('"abc"', '("abc", "x")', '""', '"a(b"'):
            for pat in ('"("', '"a{2"', '"[a"', '"a)("', '"b"', '"^abc$"', '"x*"', '"(a|x)"', '"\\("'):
                for w in ("match",):
                    b = "%s %s" % (subj, pat)
                    triples.append((b, b + " ?" + w, b + " !" + w))
                    wordform.add(len(triples) - 1)
                    triples.append((subj, "%s (=~ %s)" % (subj, pat), "%s (!~ %s)" % (subj, pat)))
                    wordform.add(len(triples) - 1)
    stats, irecs, mrecs = zwcorr.run_programs(ctx, h, progs, theorem="ZwVerif.C04.assert_yields_input_or_nothing",
                                             label="C04-programs")
    # --- (2) metamorphic, implementation only: results(P ?X) ⊎ results(P !X) = results(P) unless X reported an error
    lines = []
    for b, p, q in triples:
        lines += ["Q - " + zwcorr.hx(x) for x in (b, p, q)]
    recs, crashes = h.run_impl_robust(lines)
    meta_ok = meta_skipped = 0
    for k, (b, p, q) in enumerate(triples):
        rb, rp_, rq = recs[3 * k:3 * k + 3]
        if any(r.err for r in (rb, rp_, rq)):
            meta_skipped += 1
            continue
        extra_soft = len(rp_.soft) - len(rb.soft)
        both = collections.Counter(rp_.res) + collections.Counter(rq.res)
        base = collections.Counter(rb.res)
        if extra_soft == 0 and len(rq.soft) == len(rb.soft):
            if both != base:
                ctx.violation("?X and !X do not partition the input stream: %r yields %d stacks, %r yields %d, %r yields %d"
                              % (b, len(rb.res), p, len(rp_.res), q, len(rq.res)),
                              {"stream": "C04-metamorphic", "input": [b, p, q], "got": [rb.res[:8], rp_.res[:8], rq.res[:8]],
                               "theorem": "ZwVerif.C04.assertWord_pos_xor_neg / pred_not_three_valued"})
            else:
                meta_ok += 1
        else:
            # X failed on some inputs: neither ?X nor !X may yield those; the rest still are inputs unchanged
            if not (both <= base or all(both[x] <= base[x] for x in both)):
                ctx.violation("an assertion yielded a stack that is not one of its inputs: %r / %r" % (p, q),
                              {"stream": "C04-metamorphic", "input": [b, p, q], "got": [rb.res[:8], rp_.res[:8], rq.res[:8]]})
            elif k in wordform and extra_soft == len(rq.soft) - len(rb.soft) and extra_soft > 0 \
                    and sum(both.values()) != sum(base.values()) - extra_soft:
                # a word assertion that reports an error on an input: neither ?X nor !X holds for that input
                ctx.violation("X reported %d error(s), yet ?X and !X together yield %d of the %d input stacks: %r / %r"
                              % (extra_soft, sum(both.values()), sum(base.values()), p, q),
                              {"stream": "C04-metamorphic", "input": [b, p, q], "got": [rb.res[:8], rp_.res[:8], rq.res[:8]],
                               "theorem": "ZwVerif.C04.pred_not_three_valued"})
            else:
                meta_ok += 1
    # --- (3) every ?W / !W pair of the whole vocabulary (?TAG_x ?AT_x ?FORM_x ?OP_x and their ?DW_… spellings, ?root,
    # ?haschildren): on constants and on DWARF values of two sample files, ?W and !W split the inputs between them
    voc_ok = 0
    if not ctx.replay:
        import os, re
        vw = [zwcorr.unhx(w).decode() for w in h.words.split()[1:]]
        vset = set(vw)
        locv = "entry attribute ?(label == (DW_AT_location, DW_AT_frame_base, DW_AT_data_member_location, DW_AT_data_location, DW_AT_return_addr, DW_AT_static_link, DW_AT_use_location, DW_AT_vtable_elem_location, DW_AT_segment)) value ?(type == T_LOCLIST_ELEM)"
        fams = {"TAG": ["entry", "abbrev entry"], "AT": ["entry", "entry attribute", "abbrev entry", "abbrev entry attribute"],
                "FORM": ["entry attribute", "abbrev entry attribute"], "OP": [locv, locv + " elem"]}
        files = [os.path.join(common.REPO, "tests", f) for f in ("nullptr.o", "testfile_const_type")]
        pairs_ = [w for w in vw if w.startswith("?") and "!" + w[1:] in vset]
        if ctx.tier == "quick":
            # every OP / FORM / TAG word in one of its spellings, a third of the AT words (all in the thorough tier)
            pairs_ = [w for w in pairs_ if not re.match(r"\?(DW_)?AT_", w) or rng.random() < 0.35]
        vlines, vmeta = [], []
        for w in pairs_:
            m = re.match(r"\?(DW_)?(TAG|AT|FORM|OP)_(.*)$", w)
            if m:
                const = "DW_%s_%s" % (m.group(2), m.group(3))
                bases = [(None, const), (None, "DW_%s_%s" % (m.group(2), "lo_user") if False else None)]
                progs_ = [(None, const)] + [(f, b) for f in files[:1 if ctx.tier == "quick" and m.group(2) == "AT" else 2] for b in fams[m.group(2)]]
            elif w in ("?root", "?haschildren"):
                progs_ = [(f, b) for f in files for b in ("entry", "raw entry")]
            else:
                continue
            for f, b in progs_:
                if b is None:
                    continue
                for q in (b, "%s %s" % (b, w), "%s !%s" % (b, w[1:])):
                    vlines.append("Q - %s%s" % (zwcorr.hx("[%s] length" % q), " " + zwcorr.hx(f) if f else ""))
                vmeta.append((w, f, b))
        vrecs, _ = h.run_impl_robust(vlines)
        for k, (w, f, b) in enumerate(vmeta):
            r0, r1, r2 = vrecs[3 * k:3 * k + 3]
            if any(r.err for r in (r0, r1, r2)) or not (r0.res and r1.res and r2.res):
                continue
            n0, n1, n2 = [int(re.search(r"\|(-?\d+)\)", r.res[0].split(" ")[-1]).group(1)) for r in (r0, r1, r2)]
            if n1 + n2 != n0 and not (r1.soft or r2.soft):
                ctx.violation("%s and !%s do not split the %d values of `%s`%s between them: %d + %d"
                              % (w, w[1:], n0, b, " of " + os.path.basename(f) if f else "", n1, n2),
                              {"stream": "C04-vocabulary", "input": {"query": "%s %s" % (b, w), "file": f, "negated": "%s !%s" % (b, w[1:])},
                               "got": [n0, n1, n2], "theorem": "ZwVerif.C04.assertWord_pos_xor_neg"})
            elif f is None and n1 != 1 and not (r1.soft or r2.soft):
                ctx.violation("the constant %s does not satisfy %s" % (b, w), {"stream": "C04-vocabulary", "input": {"query": "%s %s" % (b, w)},
                                                                            "got": [n0, n1, n2]})
            else:
                voc_ok += 1
    ctx.cov["vocabulary_predicate_pairs_ok"] = voc_ok
    ctx.cov["evaluations"] = stats["programs"] + len(lines)
    ctx.cov["distinct_nontrivial"] = stats["distinct_nontrivial"]
    ctx.cov["metamorphic_triples_checked"] = meta_ok
    ctx.cov["metamorphic_triples_skipped_error"] = meta_skipped
    ctx.cov["rule"] = ("random programs P followed by an assertion in each form (?(E) !(E), ?word !word, infix and its complement), "
                       "by `let Q := E;` and by `[E]`; compared with the Lean `sem`; plus, on the implementation alone, "
                       "results(P ?X) ⊎ results(P !X) = results(P) (or ⊆ when X reports errors).  non-trivial as in C01")
    ctx.cov["input_distribution"] = {k: v for k, v in sorted(stats.items())}
    for p, i in list(zip(progs, irecs))[:3]:
        ctx.sample({"program": p, "impl": i.raw[:5]})
    ctx.assumptions += ["DWARF sub-expressions are exercised by the DWARF checks; here E ranges over the core vocabulary"]
